"""C01/C02/C20 implementation side: interpret a program inside a real SynthDef graph
function, take the bytes, parse them with the independent reader, and evaluate the
property oracle (semantic equivalence over Q, exactly-once, rate law, well-formedness)
against the real objects."""
import importlib
import inspect
import math
import random
import struct
import hashlib
from fractions import Fraction as F

from harness.c01_pool import POOL, unit_inputs
from tools import scgf, opcodes_ref
import json as _json, os as _os
# reference class table (droppable, width-first) — the specification, NOT read from the code
CLASSREF = _json.load(open(_os.path.join(_os.path.dirname(_os.path.dirname(__file__)), 'c01_classes_ref.json')))


def ref_droppable(name):
    r = CLASSREF.get(name)
    return bool(r) and r[0] == 1


def ref_wf(name, fl=None):
    r = CLASSREF.get(name)
    if r is None:                      # class unknown to the reference: believe the code
        return bool(fl and fl.get('wf'))
    return r[1] == 1

_RATE = {'audio': 'ar', 'control': 'kr', 'scalar': 'ir', 'demand': 'dr', None: 'ir'}
_RNUM = {'audio': 2, 'control': 1, 'scalar': 0, 'demand': 3, None: 0}


def _init(mode):
    import sc3
    sc3.init(mode, 'ERROR')


def fmt_frac(x):
    if isinstance(x, float) and (math.isnan(x) or math.isinf(x)):
        return 'nan' if math.isnan(x) else ('inf' if x > 0 else '-inf')
    x = F(x)
    return str(x.numerator) if x.denominator == 1 else f'{x.numerator}/{x.denominator}'


def f32_exact(x):
    try:
        return struct.unpack('>f', struct.pack('>f', x))[0] == x
    except (OverflowError, struct.error):
        return False


class Skip(Exception):
    pass


def check_kind(obj):
    from sc3.synth import ugen as ugn
    from sc3.synth.ugens import inout as iou
    fn = type(obj)._check_inputs
    if fn is ugn.SynthObject._check_inputs:
        return 'valid'
    if isinstance(obj, iou.AbstractOut) and fn is iou.AbstractOut._check_inputs:
        return f'out:{type(obj)._num_fixed_args()}'
    try:
        src = inspect.getsource(fn)
    except (OSError, TypeError):
        return 'unknown'
    import re
    m = re.search(r'return self\._check_n_inputs\((\d+)\)', src)
    if m:
        return f'naudio:{m.group(1)}'
    if 'return self._check_sr_as_first_input()' in src:
        return 'srfirst'
    body = ' '.join(src.replace('\\\n', ' ').split())
    if ("if gpp.ugen_param(self.inputs[0])._as_ugen_rate() == 'demand':" in body
            and "reset_rate = gpp.ugen_param(self.inputs[1])._as_ugen_rate()" in body
            and "if reset_rate != 'demand' and reset_rate != 'scalar' and reset_rate != self.rate:" in body
            and body.rstrip().endswith("rate\") return self._check_valid_inputs()")):
        return 'duty'
    return 'unknown'


def build_program(prog, residue_check=True, desc=True):
    """Returns dict(canon, flags, sem, info)."""
    from sc3.synth.synthdef import SynthDef
    from sc3.synth import ugen as ugn
    from sc3.base import main as _libsc3

    params = prog.get('params', [])
    events = prog['events']
    rec = {'objs': {}, 'flags': {}, 'vals': [], 'inexact': False, 'negzero': False, 'opobjs': {}, 'dcobjs': {}}

    def num_ok(x):
        if isinstance(x, bool) or not isinstance(x, (int, float)):
            return
        if isinstance(x, float) and (math.isnan(x) or math.isinf(x)):
            rec['inexact'] = True
        elif not f32_exact(float(x)):
            rec['inexact'] = True
        elif x == 0 and math.copysign(1.0, float(x)) < 0:
            rec['negzero'] = True

    def arg(a, env):
        if a[0] == 'n':
            v = a[1] / a[2] if a[2] != 1 else a[1]
            return float(v) if a[2] != 1 else v
        if a[0] == 'r':
            return env[a[1]][a[2]]
        if a[0] == 'bad':
            return {'none': None, 'nan': float('nan'), 'str': 'x'}[a[1]]
        raise ValueError(a)

    def is_num(x):
        return isinstance(x, (int, float)) and not isinstance(x, bool)

    def last_child():
        return _libsc3.main._current_synthdef._children[-1]

    def run_event(i, e, env):
        t = e['t']
        if t == 'atom':
            mod, ctors, nargs, nres = POOL[e['cls']]
            cls = getattr(importlib.import_module(f'sc3.synth.ugens.{mod}'), e['cls'])
            ins = [arg(a, env) for a in e['ins']]
            res = getattr(cls, e['ctor'])(*ins)
            obj = last_child()
            rec['objs'][i] = obj
            rec['flags'][i] = {
                'cls': type(obj).__name__, 'rate': _RATE[obj.rate],
                'dce': int(isinstance(obj, ugn.PureUGenMixin)),
                'multi': int(isinstance(obj, ugn.MultiOutUGen)),
                'nout': obj._num_outputs(), 'isugen': int(isinstance(obj, ugn.UGen)),
                'wf': int(isinstance(obj, ugn.WidthFirstUGen)), 'check': check_kind(obj),
                'ret': int(res is not None)}
            if res is None:
                return []
            if isinstance(res, list):
                return list(res)
            return [res]
        if t == 'unop':
            x = arg(e['a'], env)
            if is_num(x):
                r = -x if e['sel'] == 'neg' else x
            elif e['sel'] == 'neg':
                r = -x
            else:
                r = getattr(x, e['sel'])()
            num_ok(r)
            if isinstance(r, ugn.BasicOpUGen) and not any(r is x for x in rec['opobjs'].values()): rec['opobjs'][i] = r
            return [r]
        if t == 'binop':
            a, b = arg(e['a'], env), arg(e['b'], env)
            s = e['sel']
            if s == 'add': r = a + b
            elif s == 'sub': r = a - b
            elif s == 'mul': r = a * b
            elif s == 'truediv': r = a / b
            elif is_num(a) and is_num(b): r = a
            elif s == 'pow': r = a ** b
            elif s == 'mod': r = a % b
            elif s == 'floordiv': r = a // b
            else: raise ValueError(s)
            num_ok(r)
            if isinstance(r, ugn.BasicOpUGen) and not any(r is x for x in rec['opobjs'].values()): rec['opobjs'][i] = r
            return [r]
        if t == 'madd':
            a, m, c = arg(e['a'], env), arg(e['m'], env), arg(e['c'], env)
            if hasattr(a, 'madd'):
                r = a.madd(m, c)
            else:
                p = a * m
                num_ok(p)
                r = p + c
            num_ok(r)
            return [r]
        if t in ('sum3', 'sum4'):
            args = [arg(a, env) for a in e['args']]
            r = (ugn.Sum3 if t == 'sum3' else ugn.Sum4).new(*args)
            num_ok(r)
            return [r]
        if t == 'out':
            from sc3.synth.ugens import inout as iou
            cls = getattr(iou, e['cls'])
            bus = arg(e['bus'], env)
            chans = [arg(a, env) for a in e['chans']]
            if e.get('shared'):
                # a caller-owned channel list (all literals) that outlives the build: the same
                # list object is handed to every build of this program
                chans = prog.setdefault('_shared', {}).setdefault(i, chans)
                rec.setdefault('shared', {})[i] = [arg(a, env) for a in e['chans']]
            mode = e['mode']
            if mode == 'auto':
                mode = 'ar' if chans and getattr(chans[0], 'rate', 'scalar') == 'audio' else 'kr'
            if mode == 'ar':
                # channels an audio-rate output unit cannot take (the server would read a control
                # block or a constant as an audio buffer): non-zero numbers, non-audio signals
                badch = [k for k, c in enumerate(chans)
                         if (is_num(c) and c != 0) or (not is_num(c) and getattr(c, 'rate', None) != 'audio')]
                if badch:
                    rec.setdefault('out_nonaudio', []).append([i, badch])
            getattr(cls, mode)(bus, chans)
            rec['objs'][i] = last_child()
            if mode == 'ar':
                rec['dcobjs'][i] = _libsc3.main._current_synthdef._children[-2]
            rec['out_mode'] = rec.get('out_mode', {})
            rec['out_mode'][i] = mode
            return []
        if t == 'localbuf':
            from sc3.synth.ugens.bufio import LocalBuf
            res = LocalBuf.new(arg(e['frames'], env), arg(e['channels'], env))
            rec['objs'][i] = res
            sdef = _libsc3.main._current_synthdef
            if not rec.get('mlb_event'):
                rec['mlb_event'] = i
                rec['mlbobj'] = sdef._max_local_bufs
            return [res]
        if t == 'raise':
            raise RuntimeError('injected failure in graph function')
        raise ValueError(t)

    def body(*ctl):
        env = []
        if params:
            env.append(list(ctl))
        for e in events:
            i = len(env)
            env.append(run_event(i, e, env))
        rec['env'] = env

    if params:
        src = 'def f(' + ', '.join(f'{n}={F(d[0], d[1]).numerator / F(d[0], d[1]).denominator!r}' for n, d in params) \
              + '):\n    return _body(' + ', '.join(n for n, _ in params) + ')\n'
        ns = {'_body': body}
        exec(src, ns)
        func = ns['f']
    else:
        def func():
            return body()

    out = {'flags': rec['flags'], 'sem': None, 'canon': None, 'skip': None}

    def residue_():
        r = residue()
        # the build left the argument objects it was given as they were
        for i, want in rec.get('shared', {}).items():
            got = prog.get('_shared', {}).get(i)
            if not (isinstance(got, list) and len(got) == len(want)
                    and all(type(g) is type(w) and g == w for g, w in zip(got, want))):
                r['args_intact'] = False
                r['args_now'] = repr(got)[:120]
        return r
    try:
        sd = SynthDef(prog.get('name', 'x'), func)
    except Exception as ex:      # the class name is the canonical outcome
        out['canon'] = 'ERR ' + type(ex).__name__
        out['flags'] = rec['flags']
        out['detail'] = str(ex)[:200]
        out['residue'] = residue_() if residue_check else None
        if rec['inexact']:
            out['skip'] = 'inexact-constant'
        return out
    out['residue'] = residue_() if residue_check else None
    if rec['inexact']:
        out['skip'] = 'inexact-constant'
    elif rec['negzero']:
        out['skip'] = 'negative-zero'
    try:
        raw = bytes(sd.as_bytes())
    except Exception as ex:
        out['canon'] = 'ERR WRITE'
        out['detail'] = f'writer: {type(ex).__name__}: ' + str(ex)[:200]
        # asking again for the bytes of a definition that could not be written fails again
        try:
            again = bytes(sd.as_bytes())
            out['sem'] = {'what': f'the bytes of a definition that could not be written ({type(ex).__name__}) were handed out by a '
                                  f'second as_bytes() call ({len(again)} bytes)', 'signature': 'c02:bytes-after-failed-write'}
        except Exception:
            pass
        return out
    try:
        defs = scgf.parse(raw)
    except scgf.ScgfError as ex:
        out['canon'] = 'UNPARSABLE'
        out['sem'] = {'what': f'emitted bytes do not parse as SCgf v2: {ex}', 'signature': 'scgf:parse'}
        return out
    if len(defs) != 1:
        out['sem'] = {'what': f'{len(defs)} definitions in file', 'signature': 'scgf:ndefs'}
        return out
    d = defs[0]
    if any(math.copysign(1.0, c) < 0 and c == 0 for c in d['consts']):
        out['skip'] = out['skip'] or 'negative-zero'
    out['nan_const'] = any(math.isnan(c) or math.isinf(c) for c in d['consts'] + d['params'])
    out['has_nan'] = any(math.isnan(c) for c in d['consts'] + d['params'])
    out['canon'] = ('OK C=' + ','.join(fmt_frac(c) for c in d['consts'])
                    + ' P=' + ','.join(fmt_frac(c) for c in d['params'])
                    + ' U=' + '|'.join(
                        f"{u['cls']}/{u['rate']}/{u['sp']}/" + ' '.join(f'{a}.{k}' for a, k in u['ins'])
                        + '/' + ' '.join(str(r) for r in u['outs']) for u in d['ugens'])
                    + ' B=' + raw.hex())
    out['pnames'] = d['pnames']
    out['out_nonaudio'] = rec.get('out_nonaudio')
    # where each constructor event's unit ended up (object identity), for ordering oracles
    kids = list(sd._children)
    out['positions'] = {str(ei): [i for i, c in enumerate(kids) if c is obj] for ei, obj in rec['objs'].items()}
    # origin token of every emitted unit for the translation validator (object identity)
    toks = []
    for c in kids:
        tok = '0' if (params and type(c).__name__ == 'Control') else '-'
        for ei, obj in rec['objs'].items():
            if obj is c: tok = str(ei)
        for ei, obj in rec['opobjs'].items():
            if obj is c: tok = str(ei)
        for ei, obj in rec['dcobjs'].items():
            if obj is c: tok = f'{ei}.d'
        if rec.get('mlbobj') is c: tok = f'{rec["mlb_event"]}.d'
        toks.append(tok)
    out['origins'] = ','.join(toks)
    out['hex'] = raw.hex()
    out['parsed'] = {'name': d['name'], 'nparams': len(d['params']),
                     'outs': [[u['rate'], len(u['ins']) - 1, u['cls']] for u in d['ugens'] if u['cls'] in ('Out', 'ReplaceOut')]}
    out['name'] = d['name']
    out['nunits'] = len(d['ugens'])
    out['classes'] = sorted({u['cls'] for u in d['ugens']})
    out['desc'] = desc_check(prog, raw, d) if desc else None
    if out['skip'] != 'inexact-constant' and not out['nan_const']:       # rounded constants: evaluation over Q is meaningless
        try:
            out['sem'] = semantic_oracle(prog, rec, sd, d)
        except Skip as s:
            out['skip'] = out['skip'] or str(s)
    return out


def residue():
    """C20 residue predicates after a build (successful or not)."""
    from sc3.base import main as _libsc3
    from sc3.synth.ugens.oscillators import SinOsc
    r = {}
    r['current_none'] = _libsc3.main._current_synthdef is None
    lock = _libsc3.main._def_build_lock
    try:
        got = lock.acquire(blocking=False)
        if got:
            lock.release()
        r['lock_free'] = bool(got)
    except AttributeError:
        # not a lock object at all: nothing can be held; whether builds are still mutually
        # exclusive is decided by the concurrent phase of C20
        r['lock_free'] = True
        r['lock_kind'] = type(lock).__name__
    u = SinOsc.ar(1)
    r['outside_unattached'] = u._synthdef is None
    return r


def desc_check(prog, raw, d):
    """C02: the library's own description reader accepts the bytes and recovers name,
    control names in slot order with defaults, and the in/out units."""
    import io
    from sc3.synth.synthdesc import SynthDesc
    try:
        descs = SynthDesc._read_stream(io.BytesIO(raw))
    except Exception as ex:
        return {'error': f'{type(ex).__name__}: {str(ex)[:120]}'}
    if len(descs) != 1:
        return {'error': f'{len(descs)} descs'}
    desc = descs[0]
    # the description does not depend on whether the reader keeps its scratch definition
    try:
        for keep in (True, False):
            alt = SynthDesc._read_stream(io.BytesIO(raw), keep_defs=keep)[0]
            same = (alt.name == desc.name and list(alt.control_names) == list(desc.control_names)
                    and [(c.name, c.index, c.rate, repr(c.default_value)) for c in alt.controls]
                    == [(c.name, c.index, c.rate, repr(c.default_value)) for c in desc.controls]
                    and [(o.rate, o.channels, o.type.__name__) for o in alt.outputs]
                    == [(o.rate, o.channels, o.type.__name__) for o in desc.outputs]
                    and bool(alt.has_gate) == bool(desc.has_gate))
            if not same:
                return {'error': f'description read with keep_defs={keep} differs from the default read'}
    except Exception as ex:
        return {'error': f'reader with keep_defs raised {type(ex).__name__}: {str(ex)[:100]}'}

    def dv(x):
        if isinstance(x, list):
            return [fmt_frac(v) for v in x]
        return fmt_frac(x)
    return {'name': desc.name,
            'control_names': list(desc.control_names),
            'controls': [[c.name, c.index, c.rate, dv(c.default_value)] for c in desc.controls],
            'outputs': [[o.rate, o.channels, o.type.__name__] for o in desc.outputs],
            'has_gate': bool(desc.has_gate)}


# ---------------------------------------------------------------------------------------
def _h(*key):
    s = hashlib.sha256(repr(key).encode()).digest()
    n = int.from_bytes(s[:6], 'big')
    return F(n % 9973 + 1, (n >> 20) % 97 + 1)


def semantic_oracle(prog, rec, sd, d):
    """Property C01 on the real result. Returns None or a violation dict."""
    events = prog['events']
    params = prog.get('params', [])
    base = 1 if params else 0
    env_objs = rec['objs']            # event index -> real object (atoms, outs)
    children = list(sd._children)

    def pos_of(obj):
        return [i for i, c in enumerate(children) if c is obj]

    ugens = d['ugens']
    if len(ugens) != len(children):
        return {'what': 'parsed unit count differs from the definition object', 'signature': 'scgf:count'}
    bad = scgf.wellformed(d)
    if bad:
        return {'what': 'emitted definition is not well-formed: ' + bad[0], 'signature': 'scgf:wellformed'}

    # --- exactly once / at most once, class and rate kept --------------------------------
    idx2ev = {}
    for ei, obj in env_objs.items():
        ps = pos_of(obj)
        fl = rec['flags'].get(ei)
        impure = not ref_droppable(type(obj).__name__)        # by the REFERENCE table, not by the class
        if impure and len(ps) != 1:
            e = events[ei - base]
            return {'what': f'side-effecting unit of event {ei} ({e.get("cls")}) appears {len(ps)} times in the emitted definition',
                    'signature': 'c01:impure-count'}
        if len(ps) > 1:
            return {'what': f'unit of event {ei} appears {len(ps)} times', 'signature': 'c01:dup'}
        if ps:
            idx2ev[ps[0]] = ei
            u = ugens[ps[0]]
            if u['cls'] != type(obj).__name__:
                return {'what': f'event {ei}: emitted class {u["cls"]}', 'signature': 'c01:class'}
            if u['rate'] != _RNUM[obj.rate]:
                return {'what': f'event {ei}: emitted rate {u["rate"]} != created {obj.rate}', 'signature': 'c01:atom-rate'}
    if params and not (ugens and any(u['cls'] == 'Control' for u in ugens)):
        return {'what': 'controls lost', 'signature': 'c01:control-lost'}

    # --- rate law on operator units --------------------------------------------------------
    OPS = ('BinaryOpUGen', 'UnaryOpUGen', 'MulAdd', 'Sum3', 'Sum4')
    for i, u in enumerate(ugens):
        if u['cls'] in OPS:
            rs = [0 if a < 0 else ugens[a]['outs'][k] for a, k in u['ins']]
            if u['rate'] != max(rs):
                return {'what': f'unit {i} {u["cls"]} runs at rate {u["rate"]}, highest input rate is {max(rs)}',
                        'signature': 'c01:op-rate'}

    # --- semantic equivalence over Q with random valuations ----------------------------------
    all_senv, all_vals, all_inter = [], [], []
    for trial in range(4):
        salt = (prog.get('name'), trial)

        def sym(ev, k):
            return _h('atom', salt, ev, k)

        def opaque(name, *vals):
            return _h('op', salt, name, tuple(vals))

        # source side
        inter = {}
        all_inter.append(inter)
        try:
            senv = []
            if params:
                senv.append([sym(0, k) for k in range(len(params))])
            for j, e in enumerate(events):
                i = base + j
                t = e['t']

                def sarg(a):
                    if a[0] == 'n': return F(a[1], a[2])
                    if a[0] == 'r': return senv[a[1]][a[2]]
                    raise Skip('bad-arg')
                if t == 'atom':
                    nres = POOL[e['cls']][3]
                    senv.append([sym(i, k) for k in range(nres)])
                elif t == 'unop':
                    x = sarg(e['a'])
                    # opaque operators applied to plain numbers are the identity (harness convention)
                    isnum = _isnum_val(rec, e['a'])
                    if e['sel'] == 'neg': senv.append([-x])
                    elif isnum: senv.append([x])
                    else: senv.append([opaque(opcodes_ref_name(e['sel'], 1), x)])
                elif t == 'binop':
                    a, b = sarg(e['a']), sarg(e['b'])
                    s = e['sel']
                    if s == 'add': v = a + b
                    elif s == 'sub': v = a - b
                    elif s == 'mul': v = a * b
                    elif s == 'truediv':
                        if b == 0: raise Skip('division by zero valuation')
                        v = a / b
                    else:
                        an = _isnum_val(rec, e['a']); bn = _isnum_val(rec, e['b'])
                        v = a if (an and bn) else opaque(opcodes_ref_name(s, 2), a, b)
                    senv.append([v])
                elif t in ('sum3', 'sum4'):
                    senv.append([sum((sarg(a) for a in e['args']), F(0))])
                elif t == 'madd':
                    senv.append([sarg(e['a']) * sarg(e['m']) + sarg(e['c'])])
                    inter[i] = sarg(e['a']) * sarg(e['m'])      # the product unit a madd may leave behind
                elif t == 'out':
                    senv.append([])
                elif t == 'localbuf':
                    senv.append([sym(i, 0)])
        except ZeroDivisionError:
            raise Skip('division by zero valuation')

        # emitted side
        vals = []
        for i, u in enumerate(ugens):
            def inval(spec):
                a, k = spec
                return F(d['consts'][k]) if a < 0 else vals[a][k]
            ins = [inval(s) for s in u['ins']]
            c = u['cls']
            if i in idx2ev and c not in OPS:
                ev = idx2ev[i]
                e = events[ev - base]
                # inputs of a surviving constructor unit = source expressions (up to ring identities)
                if e['t'] == 'atom':
                    want = [F(a[1], a[2]) if a[0] == 'n' else senv[a[1]][a[2]] for a in unit_inputs(e['cls'], e['ins']) if a[0] != 'bad']
                    if any(a[0] == 'bad' for a in e['ins']):
                        raise Skip('bad-arg')
                elif e['t'] == 'out':
                    want = [F(a[1], a[2]) if a[0] == 'n' else senv[a[1]][a[2]] for a in [e['bus']] + e['chans']]
                elif e['t'] == 'localbuf':
                    # inputs: channels, frames, the MaxLocalBufs unit
                    want = [F(a[1], a[2]) if a[0] == 'n' else senv[a[1]][a[2]] for a in (e['channels'], e['frames'])]
                    want.append(ins[2] if len(ins) == 3 else None)
                    mi = u['ins'][2][0] if len(u['ins']) == 3 else -1
                    if mi < 0 or ugens[mi]['cls'] != 'MaxLocalBufs':
                        return {'what': f'LocalBuf unit {i} is not wired to the MaxLocalBufs unit', 'signature': 'c01:localbuf'}
                else:
                    want = ins
                if len(want) != len(ins) or any(x != y for x, y in zip(want, ins)):
                    return {'what': f'unit {i} {c} (event {ev}) is wired to inputs that do not equal the source expressions '
                                    f'(valuation {trial}): emitted {[str(x) for x in ins]}, source {[str(x) for x in want]}',
                            'signature': 'c01:wiring'}
                vals.append([sym(ev, k) for k in range(max(len(u['outs']), POOL.get(e.get('cls'), (0, 0, 0, 1))[3]))])
            elif c == 'Control':
                vals.append([sym(0, k) for k in range(len(u['outs']))])
            elif c == 'DC':
                vals.append(list(ins))
            elif c == 'MaxLocalBufs':
                nlb = sum(1 for e in events if e['t'] == 'localbuf')
                if ins != [F(nlb)]:
                    return {'what': f'MaxLocalBufs declares {ins} local buffers, the function creates {nlb}',
                            'signature': 'c01:maxlocalbufs'}
                vals.append([_h('mlb', salt)])
            elif c == 'BinaryOpUGen':
                name = opcodes_ref.BINARY[u['sp']] if 0 <= u['sp'] < len(opcodes_ref.BINARY) else f'?{u["sp"]}'
                a, b = ins
                if name == '+': v = a + b
                elif name == '-': v = a - b
                elif name == '*': v = a * b
                elif name == '/':
                    if b == 0: raise Skip('division by zero valuation')
                    v = a / b
                else: v = opaque(name, a, b)
                vals.append([v])
            elif c == 'UnaryOpUGen':
                name = opcodes_ref.UNARY[u['sp']] if 0 <= u['sp'] < len(opcodes_ref.UNARY) else f'?{u["sp"]}'
                vals.append([-ins[0] if name == 'neg' else opaque(name, ins[0])])
            elif c == 'MulAdd':
                vals.append([ins[0] * ins[1] + ins[2]])
            elif c in ('Sum3', 'Sum4'):
                if len(ins) != int(c[-1]):
                    return {'what': f'{c} with {len(ins)} inputs', 'signature': 'c01:sum-arity'}
                vals.append([sum(ins)])
            else:
                return {'what': f'unit {i} {c} does not come from any constructor call of the graph function',
                        'signature': 'c01:foreign-unit'}
        all_senv.append(senv); all_vals.append(vals)

    # --- C02: operator units too must not be placed before a width-first unit created before them.
    # An emitted operator unit is matched to the EARLIEST source operator event with the same value
    # under all valuations; if even that one was created after the width-first unit, the unit was
    # created after it and must follow it.
    first_ev = {}
    for j, e in enumerate(events):
        if e['t'] in ('unop', 'binop', 'madd', 'sum3', 'sum4'):
            sig = tuple(all_senv[t][base + j][0] for t in range(len(all_senv)))
            first_ev.setdefault(sig, base + j)
            if e['t'] == 'madd' and all(base + j in all_inter[t] for t in range(len(all_senv))):
                first_ev.setdefault(tuple(all_inter[t][base + j] for t in range(len(all_senv))), base + j)
    for ei, fl in rec['flags'].items():
        if ref_wf(fl.get('cls'), fl):
            ps = pos_of(env_objs[ei])
            if not ps:
                continue
            for q in range(ps[0]):
                if ugens[q]['cls'] in OPS:
                    sig = tuple(all_vals[t][q][0] for t in range(len(all_vals)))
                    ev = first_ev.get(sig)
                    if ev is not None and ev > ei:
                        return {'what': f'operator unit {q} ({ugens[q]["cls"]}) computes the value of event {ev}, created after '
                                        f'the width-first unit of event {ei}, but is placed before it (position {ps[0]})',
                                'signature': 'c02:width-first-op-order'}
    return None


def opcodes_ref_name(sel, arity):
    """server operator name a Python selector stands for (independent small table)."""
    return {'neg': 'neg', 'abs': 'abs', 'squared': 'squared', 'midicps': 'midicps',
            'reciprocal': 'reciprocal', 'pow': 'pow', 'mod': 'mod', 'floordiv': 'div',
            'add': '+', 'sub': '-', 'mul': '*', 'truediv': '/'}[sel]


def _isnum_val(rec, a):
    if a[0] == 'n':
        return True
    if a[0] == 'r':
        v = rec['env'][a[1]][a[2]]
        return isinstance(v, (int, float))
    return False


def run(payload):
    _init(payload.get('mode', 'nrt'))
    res = []
    for prog in payload['cases']:
        res.append(build_program(prog))
    return res


def opcode_probe(payload):
    """Every operator of the server reference tables, requested by its canonical name through the
    real constructors inside a build: returns the special index the emitted unit carries."""
    _init(payload.get('mode', 'nrt'))
    from sc3.synth.synthdef import SynthDef
    from sc3.synth.ugen import UnaryOpUGen, BinaryOpUGen
    from sc3.synth.ugens.noise import WhiteNoise
    from sc3.synth.ugens.inout import Out
    res = []
    for arity, names in (('unary', opcodes_ref.UNARY), ('binary', opcodes_ref.BINARY)):
        for name in names:
            got = {}

            def f():
                a, b = WhiteNoise.ar(), WhiteNoise.kr()
                u = UnaryOpUGen.new(name, a) if arity == 'unary' else BinaryOpUGen.new(name, a, b)
                Out.ar(0, u)
            try:
                sd = SynthDef('p', f)
                d = scgf.parse(bytes(sd.as_bytes()))[0]
                cls = 'UnaryOpUGen' if arity == 'unary' else 'BinaryOpUGen'
                sp = [u['sp'] for u in d['ugens'] if u['cls'] == cls]
                res.append([arity, name, sp[0] if len(sp) == 1 else f'{len(sp)} units'])
            except Exception as ex:
                res.append([arity, name, f'{type(ex).__name__}'])
    return res


def desc_probe(payload):
    """C02: definitions with parameters of every rate and array defaults; returns what the bytes
    and the library's own reader say about the controls."""
    if not payload.get('noinit'):
        _init(payload.get('mode', 'nrt'))
    import io
    from sc3.synth import ugen as ugn
    from sc3.base import main as _libsc3
    from sc3.synth.synthdef import SynthDef
    from sc3.synth.synthdesc import SynthDesc
    res = []
    for sig in payload['sigs']:
        parts = []
        for name, rate, dflt in sig:
            d = repr(tuple(dflt)) if isinstance(dflt, list) else repr(dflt)
            ann = f":'{rate}'" if rate else ''
            parts.append(f'{name}{ann}={d}')
        bus = payload.get('bus', {}).get(str(len(res)))
        inb = payload.get('inbus', {}).get(str(len(res)))       # [bus expression, channels, 'kr'|'ar'] or None
        ocls = payload.get('outcls', {}).get(str(len(res)), 'Out')
        if inb:
            b_ = (bus if bus else '0')
            call = {'Out': f'Out.{inb[2]}({b_}, x)', 'ReplaceOut': f'ReplaceOut.{inb[2]}({b_}, x)',
                    'OffsetOut': f'OffsetOut.{inb[2]}({b_}, x)' if inb[2] == 'ar' else f'Out.{inb[2]}({b_}, x)',
                    'XOut': f'XOut.{inb[2]}({b_}, 0.5, x)', 'LocalOut': f'LocalOut.{inb[2]}(x)'}[ocls]
            src = ('def f(' + ', '.join(parts) + f'):\n    x = In.{inb[2]}({inb[0]}, {inb[1]})\n    {call}\n')
        else:
            src = 'def f(' + ', '.join(parts) + '):\n    Out.kr(' + (bus if bus else '0') + ', 0.5)\n'
        ns = {}
        from sc3.synth.ugens import inout as _io
        for _n in ('Out', 'In', 'ReplaceOut', 'OffsetOut', 'XOut', 'LocalOut'):
            ns[_n] = getattr(_io, _n)
        try:
            exec(src, ns)
            lags = payload.get('lags', {}).get(str(len(res)))
            sd = SynthDef('probe', ns['f'], lags) if lags else SynthDef('probe', ns['f'])
            raw = bytes(sd.as_bytes())
            d = scgf.parse(raw)[0]
            desc = SynthDesc._read_stream(io.BytesIO(raw))[0]
            res.append({'pnames': d['pnames'], 'params': [fmt_frac(x) for x in d['params']],
                        'controls': [(u['cls'], u['rate'], u['sp'], len(u['outs'])) for u in d['ugens'] if 'Control' in u['cls']],
                        'desc_names': list(desc.control_names),
                        'out_start': [str(o.starting_channel) if isinstance(o.starting_channel, str)
                                      else fmt_frac(o.starting_channel) if isinstance(o.starting_channel, (int, float)) else 'unit'
                                      for o in desc.outputs],
                        'outs': [[o.rate, o.channels, o.type.__name__] for o in desc.outputs],
                        'has_gate': bool(desc.has_gate),
                        'ins': [[i.rate, i.channels, str(i.starting_channel) if isinstance(i.starting_channel, str)
                                 else fmt_frac(i.starting_channel) if isinstance(i.starting_channel, (int, float)) else 'unit',
                                 i.type.__name__] for i in desc.inputs],
                        'desc': {n: [c.index, c.rate, ([fmt_frac(v) for v in c.default_value] if isinstance(c.default_value, list) else fmt_frac(c.default_value))]
                                 for n, c in desc.control_dict.items()}})
        except Exception as ex:
            res.append({'error': f'{type(ex).__name__}: {str(ex)[:160]}'})
    return res


# ---------------------------------------------------------------------------------------------
# class table probe: which unit classes the optimiser may drop, which are width-first

def _class_table():
    import pkgutil, inspect
    import sc3.synth.ugens as pkg
    import sc3.synth.ugen as ugn
    mods = [ugn]
    for m in pkgutil.iter_modules(pkg.__path__):
        try:
            mods.append(importlib.import_module('sc3.synth.ugens.' + m.name))
        except Exception:
            pass
    table = {}
    for mod in mods:
        for name, cls in vars(mod).items():
            if not (inspect.isclass(cls) and issubclass(cls, ugn.SynthObject) and cls.__module__ == mod.__name__):
                continue
            fn = cls._optimize_graph
            try:
                src = inspect.getsource(fn)
            except Exception:
                src = None
            if fn is ugn.SynthObject._optimize_graph:
                drop = 0
            elif src is None:
                drop = 2
            else:
                body = [l.strip() for l in src.splitlines()[1:] if l.strip() and not l.strip().startswith('#')]
                if '_perform_dead_code_elimination' in src:
                    drop = 1
                elif body in (['pass'], ['return'], ['return None']):
                    drop = 0
                else:
                    drop = 2          # unknown optimiser override
            table[name] = [drop, int(issubclass(cls, ugn.WidthFirstUGen)), mod.__name__.rsplit('.', 1)[1]]
    return table


def class_probe(payload):
    _init(payload.get('mode', 'nrt'))
    return _class_table()


def class_witness(payload):
    """For classes whose flags differ from the reference: build a small definition that shows the
    consequence (a side-effecting unit nothing references is dropped; a unit created after a
    width-first unit is placed before it)."""
    _init(payload.get('mode', 'nrt'))
    from sc3.synth import ugen as ugn
    from sc3.base import main as _libsc3
    from sc3.synth.synthdef import SynthDef
    from sc3.synth.ugens.oscillators import SinOsc, LFSaw
    from sc3.synth.ugens.noise import WhiteNoise
    from sc3.synth.ugens.inout import Out
    from sc3.synth.ugens.bufio import LocalBuf
    from sc3.synth.ugens.fft import FFT
    table = _class_table()
    out = {}
    for name, (drop, wf) in payload['classes'].items():
        rdrop, rwf = payload['ref'][name]
        if name not in table:
            out[name] = {}
            continue
        mod = importlib.import_module('sc3.synth.ugens.' + table[name][2]) if table[name][2] != 'ugen' else ugn
        cls = getattr(mod, name)
        found = None
        for ctor in ('ar', 'kr', 'ir', 'new'):
            if not hasattr(cls, ctor) or found:
                continue
            for argkind in ('none', 'buf', 'chain', 'chain2'):
                pos = {}

                def f():
                    s = SinOsc.kr(1)
                    if argkind == 'none':
                        args = ()
                    else:
                        buf = LocalBuf.new(64, 1)
                        if argkind == 'buf':
                            args = (buf,)
                        else:
                            chain = FFT.kr(buf, WhiteNoise.ar())
                            args = (chain,) if argkind == 'chain' else (chain, chain)
                    getattr(cls, ctor)(*args)
                    pos['x'] = _libsc3.main._current_synthdef._children[-1]
                    y = LFSaw.kr(s)
                    pos['y'] = _libsc3.main._current_synthdef._children[-1]
                    Out.kr(0, y)
                try:
                    sd = SynthDef('w', f)
                    d = scgf.parse(bytes(sd.as_bytes()))[0]
                except Exception:
                    continue
                kids = list(sd._children)
                px = [i for i, c in enumerate(kids) if c is pos['x']]
                py = [i for i, c in enumerate(kids) if c is pos['y']]
                found = {'ctor': ctor, 'args': argkind, 'px': px, 'py': py,
                         'units': [u['cls'] for u in d['ugens']]}
                break
        w = {'case': {'class': name, 'witness': found}}
        if found:
            if drop == 1 and rdrop == 0 and not found['px']:
                w['violation'] = (f'{name}.{found["ctor"]}(...) that nothing references is dropped from the emitted definition '
                                  f'(units: {found["units"]}); the reference table lists {name} as side-effecting or stateful')
            elif wf == 0 and rwf == 1 and found['px'] and found['py'] and found['py'][0] < found['px'][0]:
                w['violation'] = (f'a unit created after {name}.{found["ctor"]}(...) is placed before it (units: {found["units"]}); '
                                  f'the reference table lists {name} as a unit with an ordering side effect')
        out[name] = w
    return out


def class_sweep(payload):
    # (with payload['digest'] every row also carries a digest of the bytes: C20 compares them across
    # hash seeds and modes)
    """C02 for every unit class of the library that can be constructed without arguments (or with
    a local buffer / an FFT chain as only argument): the definition containing one such unit is
    either rejected with an exception or its bytes parse strictly, are well-formed, contain the
    unit, and are accepted by the library's own description reader."""
    _init(payload.get('mode', 'nrt'))
    import io
    from sc3.synth import ugen as ugn
    from sc3.base import main as _libsc3
    from sc3.synth.synthdef import SynthDef
    from sc3.synth.synthdesc import SynthDesc
    from sc3.synth.ugens.oscillators import SinOsc
    from sc3.synth.ugens.noise import WhiteNoise
    from sc3.synth.ugens.inout import Out
    from sc3.synth.ugens.bufio import LocalBuf
    from sc3.synth.ugens.fft import FFT
    table = _class_table()
    res = []
    for name in sorted(table):
        modname = table[name][2]
        mod = ugn if modname == 'ugen' else importlib.import_module('sc3.synth.ugens.' + modname)
        cls = getattr(mod, name)
        for ctor in ('ar', 'kr', 'ir', 'new', 'dr'):
            if ctor not in vars(cls) and not (ctor != 'new' and hasattr(cls, ctor)):
                continue
            done = False
            for argkind in ('none', 'sig', 'buf', 'chain'):
                if done:
                    break
                made = {}

                def f():
                    if argkind == 'none':
                        args = ()
                    elif argkind == 'sig':
                        args = (WhiteNoise.ar() if ctor == 'ar' else WhiteNoise.kr(),)
                    else:
                        buf = LocalBuf.new(64, 1)
                        args = (buf,) if argkind == 'buf' else (FFT.kr(buf, WhiteNoise.ar()),)
                    n0 = len(_libsc3.main._current_synthdef._children)
                    x = getattr(cls, ctor)(*args)
                    made['units'] = [type(c).__name__ for c in _libsc3.main._current_synthdef._children[n0:]]
                    # keep the unit alive (side-effect-free units nothing references are dropped)
                    y = x[0] if isinstance(x, list) and x else x
                    if isinstance(y, ugn.UGen) and y.rate in ('audio', 'control', 'scalar') and y._num_outputs() > 0:
                        (Out.ar if y.rate == 'audio' else Out.kr)(1, y)
                    made['objs'] = [c for c in _libsc3.main._current_synthdef._children[n0:] if type(c).__name__ == name]
                    Out.ar(0, SinOsc.ar(440))
                try:
                    sd = SynthDef('sw', f)
                    raw = bytes(sd.as_bytes())
                except Exception:
                    continue          # not constructible this way / rejected: nothing emitted
                done = True
                status = 'ok'
                try:
                    d = scgf.parse(raw)[0]
                    bad = scgf.wellformed(d)
                    if bad:
                        status = 'not well-formed: ' + bad[0]
                    elif not all(c.isascii() for u in d['ugens'] for c in u['cls']):
                        status = 'unit class name garbled'
                    elif made.get('units') and made['units'][-1] not in ('OutputProxy',) \
                            and not table[name][0] == 1 and made['units'][-1] not in [u['cls'] for u in d['ugens']] \
                            and made['units'][-1] == name and isinstance(getattr(cls, '_is_pseudo', None), type(None)) \
                            and issubclass(cls, ugn.UGen):
                        status = f'unit {name} missing from the emitted definition'
                except scgf.ScgfError as ex:
                    status = f'bytes do not parse: {ex}'
                if status == 'ok':
                    try:
                        descs = SynthDesc._read_stream(io.BytesIO(raw))
                        if len(descs) != 1 or descs[0].name != 'sw':
                            status = 'reader recovers a different definition'
                    except Exception as ex:
                        status = f'reader rejects the bytes: {type(ex).__name__}: {str(ex)[:100]}'
                # C01: the unit runs at the rate it was created with
                want = {'ar': 2, 'kr': 1, 'ir': 0, 'dr': 3}.get(ctor)
                rates = []
                if status == 'ok' and want is not None:
                    kids = list(sd._children)
                    for o in made.get('objs', []):
                        pos = [i for i, c in enumerate(kids) if c is o]
                        if pos and pos[0] < len(d['ugens']) and d['ugens'][pos[0]]['cls'] == name:
                            rates.append(d['ugens'][pos[0]]['rate'])
                res.append([name, ctor, argkind, status, want, rates] + ([hashlib.sha1(raw).hexdigest()[:12]] if payload.get('digest') else []))
    return res


def srfirst_probe(payload):
    """C02, invalid graphs: units whose first input must run at the unit's own rate (reference list
    payload['classes'], SuperCollider's checkSameRateAsFirstInput family) given a first input of the
    other rate must be rejected, not compiled."""
    _init(payload.get('mode', 'nrt'))
    from sc3.synth import ugen as ugn
    from sc3.synth.synthdef import SynthDef
    from sc3.synth.ugens.noise import WhiteNoise
    from sc3.synth.ugens.inout import Out
    table = _class_table()
    res = []
    for name in payload['classes']:
        if name not in table:
            continue
        modname = table[name][2]
        mod = ugn if modname == 'ugen' else importlib.import_module('sc3.synth.ugens.' + modname)
        cls = getattr(mod, name)
        for ctor, other in (('kr', 'ar'), ('ar', 'kr')):
            if not hasattr(cls, ctor):
                continue
            st = {}

            def f():
                sig = getattr(WhiteNoise, other)()
                try:
                    x = getattr(cls, ctor)(sig)
                except TypeError:
                    st['na'] = True          # needs more arguments: not constructible this way
                    raise
                st['made'] = True
                if isinstance(x, (ugn.UGen, list)):
                    getattr(Out, ctor)(0, x)
            try:
                sd = SynthDef('sr', f)
                raw = bytes(sd.as_bytes())
                d = scgf.parse(raw)[0]
                present = name in [u['cls'] for u in d['ugens']]
                res.append([name, ctor, 'compiled' if present else 'dropped'])
            except Exception as ex:
                res.append([name, ctor, 'n/a' if st.get('na') and not st.get('made') else 'rejected'])
    return res


PYOP_FORMS = {
    # form: lambda x, y -> expression (Python operator protocol / builtins on unit generators)
    'neg': lambda x, y: -x, 'pos': lambda x, y: +x, 'abs': lambda x, y: abs(x), 'invert': lambda x, y: ~x,
    'round1': lambda x, y: round(x), 'round_q': lambda x, y: round(x, 0.5),
    'floor': lambda x, y: math.floor(x), 'ceil': lambda x, y: math.ceil(x), 'trunc': lambda x, y: math.trunc(x),
    'add': lambda x, y: x + y, 'sub': lambda x, y: x - y, 'mul': lambda x, y: x * y, 'truediv': lambda x, y: x / y,
    'floordiv': lambda x, y: x // y, 'mod': lambda x, y: x % y, 'pow': lambda x, y: x ** y,
    'lshift': lambda x, y: x << y, 'rshift': lambda x, y: x >> y, 'and': lambda x, y: x & y,
    'or': lambda x, y: x | y, 'xor': lambda x, y: x ^ y,
    'lt': lambda x, y: x < y, 'le': lambda x, y: x <= y, 'gt': lambda x, y: x > y, 'ge': lambda x, y: x >= y,
    'eq': lambda x, y: x == y, 'ne': lambda x, y: x != y,
    'radd': lambda x, y: 3 + x, 'rsub': lambda x, y: 3 - x, 'rmul': lambda x, y: 3 * x, 'rtruediv': lambda x, y: 3 / x,
    'rfloordiv': lambda x, y: 3 // x, 'rmod': lambda x, y: 3 % x, 'rpow': lambda x, y: 3 ** x,
    'rlshift': lambda x, y: 3 << x, 'rrshift': lambda x, y: 3 >> x, 'rand': lambda x, y: 3 & x,
    'ror': lambda x, y: 3 | x, 'rxor': lambda x, y: 3 ^ x,
    'rlt': lambda x, y: 3 < x, 'rle': lambda x, y: 3 <= x, 'rgt': lambda x, y: 3 > x, 'rge': lambda x, y: 3 >= x,
}


def pyop_probe(payload):
    """Python's operator protocol on unit generators: for every form, the operator unit the emitted
    definition contains (class, special index) and its inputs as tokens x / y / constant."""
    _init(payload.get('mode', 'nrt'))
    from sc3.synth.synthdef import SynthDef
    from sc3.synth.ugens.noise import WhiteNoise, Dust
    from sc3.synth.ugens.inout import Out
    res = []
    for form, fn in PYOP_FORMS.items():
        def f():
            x, y = WhiteNoise.ar(), Dust.ar(5)
            Out.ar(0, fn(x, y))
        try:
            sd = SynthDef('po', f)
            d = scgf.parse(bytes(sd.as_bytes()))[0]
        except Exception as ex:
            res.append([form, 'EXC', type(ex).__name__, []])
            continue
        names = {}
        for i, u in enumerate(d['ugens']):
            if u['cls'] == 'WhiteNoise': names[i] = 'x'
            elif u['cls'] == 'Dust': names[i] = 'y'

        def tok(a, k):
            if a < 0:
                return fmt_frac(d['consts'][k])
            return names.get(a, f'u{a}')
        ops = [u for u in d['ugens'] if u['cls'] in ('UnaryOpUGen', 'BinaryOpUGen')]
        outu = [u for u in d['ugens'] if u['cls'] == 'Out'][0]
        if not ops:
            res.append([form, 'NONE', -1, [tok(a, k) for a, k in outu['ins'][1:]]])
        elif len(ops) > 1:
            res.append([form, 'MANY', len(ops), []])
        else:
            u = ops[0]
            res.append([form, u['cls'], u['sp'], [tok(a, k) for a, k in u['ins']]])
    return res


def invalid_sweep(payload):
    """C02, invalid graphs, every unit class: each constructor argument in turn is replaced by NaN /
    None / a string (the other arguments keep their defaults or get a noise signal); the definition
    must be rejected — or the unit legitimately dropped — never compiled to bytes that contain the
    unit fed by the invalid value."""
    _init(payload.get('mode', 'nrt'))
    from sc3.synth import ugen as ugn
    from sc3.base import main as _libsc3
    from sc3.synth.synthdef import SynthDef
    from sc3.synth.ugens.noise import WhiteNoise
    from sc3.synth.ugens.inout import Out
    table = _class_table()
    res = []
    kinds = payload.get('kinds', ['nan'])
    for name in sorted(table):
        modname = table[name][2]
        mod = ugn if modname == 'ugen' else importlib.import_module('sc3.synth.ugens.' + modname)
        cls = getattr(mod, name)
        if not issubclass(cls, ugn.UGen) or name in ('OutputProxy',):
            continue
        for ctor in ('ar', 'kr', 'ir', 'dr', 'new'):
            fn = getattr(cls, ctor, None)
            if fn is None or (ctor == 'new' and 'new' not in vars(cls)):
                continue
            try:
                params = [p for p in inspect.signature(fn).parameters.values()
                          if p.kind in (p.POSITIONAL_ONLY, p.POSITIONAL_OR_KEYWORD)]
            except (TypeError, ValueError):
                continue
            if not params or len(params) > 12:
                continue
            for k in range(len(params)):
                for kind in kinds:
                    bad = {'nan': float('nan'), 'none': None, 'str': 'x', 'inf': float('inf')}[kind]
                    st = {}

                    def f():
                        args = []
                        for j, p in enumerate(params):
                            if j == k:
                                args.append(bad)
                            elif p.default is not p.empty:
                                args.append(p.default)
                            else:
                                args.append(WhiteNoise.ar() if ctor == 'ar' else WhiteNoise.kr())
                        n0 = len(_libsc3.main._current_synthdef._children)
                        x = fn(*args)
                        st['made'] = [c for c in _libsc3.main._current_synthdef._children[n0:] if type(c).__name__ == name]
                        if isinstance(x, ugn.UGen) and x.rate in ('audio', 'control'):
                            (Out.ar if x.rate == 'audio' else Out.kr)(0, x)
                        elif isinstance(x, list) and x and isinstance(x[0], ugn.UGen) and x[0].rate in ('audio', 'control'):
                            (Out.ar if x[0].rate == 'audio' else Out.kr)(0, x[0])
                    try:
                        sd = SynthDef('iv', f)
                        raw = bytes(sd.as_bytes())
                    except Exception:
                        continue                     # rejected (or not constructible this way)
                    if not st.get('made'):
                        continue
                    kids = list(sd._children)
                    survivors = [c for c in st['made'] if any(c is q for q in kids)]
                    if not survivors:
                        continue
                    # does the surviving unit really carry the invalid value?
                    u = survivors[0]
                    carries = any((isinstance(i, float) and (i != i or i in (float('inf'), float('-inf')))) or i is None or isinstance(i, str)
                                  for i in u.inputs)
                    if carries:
                        res.append([name, ctor, k, params[k].name, kind])
    # operator and fused units given an invalid operand
    from sc3.synth.ugens.noise import Dust
    opforms = {'madd_add': lambda x, y, b: x.madd(2, b), 'madd_mul': lambda x, y, b: x.madd(b, 1), 'mul': lambda x, y, b: x * b,
               'rsub': lambda x, y, b: b - x, 'sum3': lambda x, y, b: ugn.Sum3.new(x, y, b), 'sum4': lambda x, y, b: ugn.Sum4.new(x, y, x * 2, b),
               'pow': lambda x, y, b: x ** b}
    for form, fn in opforms.items():
        for kind in kinds:
            if kind == 'inf':
                continue
            bad = {'nan': float('nan'), 'none': None, 'str': 'x'}[kind]

            def g():
                x, y = WhiteNoise.ar(), Dust.ar(3)
                Out.ar(0, fn(x, y, bad))
            try:
                raw = bytes(SynthDef('ivo', g).as_bytes())
            except Exception:
                continue
            res.append(['operator', form, 0, 'operand', kind])
    return res


def rate_constraint_probe(payload):
    """C02, invalid graphs: for every unit class and every positional constructor argument, the
    argument is given a signal of the OTHER rate (a control-rate signal to `.ar`, an audio-rate signal
    to `.kr`), everything else keeps its default (or gets a signal of the unit's own rate).  Returns
    which forms are rejected; the check compares with the committed reference of forms that must be."""
    _init(payload.get('mode', 'nrt'))
    from sc3.synth import ugen as ugn
    from sc3.base import main as _libsc3
    from sc3.synth.synthdef import SynthDef
    from sc3.synth.ugens.noise import WhiteNoise
    from sc3.synth.ugens.inout import Out
    table = _class_table()
    res = []
    for name in sorted(table):
        modname = table[name][2]
        mod = ugn if modname == 'ugen' else importlib.import_module('sc3.synth.ugens.' + modname)
        cls = getattr(mod, name)
        if not issubclass(cls, ugn.UGen) or name in ('OutputProxy',):
            continue
        for ctor, other in (('ar', 'kr'), ('kr', 'ar')):
            fn = getattr(cls, ctor, None)
            if fn is None:
                continue
            try:
                params = [p for p in inspect.signature(fn).parameters.values()
                          if p.kind in (p.POSITIONAL_ONLY, p.POSITIONAL_OR_KEYWORD)]
            except (TypeError, ValueError):
                continue
            if not params or len(params) > 12:
                continue
            numdef = [j for j, q in enumerate(params) if isinstance(q.default, (int, float)) and not isinstance(q.default, bool)]
            forms = [(k, kd, w, None) for k in range(len(params)) for kd in ('sig', 'const') for w in (False, True)]
            # pair forms: argument k gets the other rate while ONE other numeric default j gets a signal of the
            # unit's own rate (a second constraint may hide the first: BufWr needs an audio phase)
            forms += [(k, 'sig', w, j) for k in range(len(params)) for j in numdef if j != k for w in (False, True)]
            for k, kind, wrap, pj in forms:
                if kind == 'const' and (params[k].default is not params[k].empty or ctor != 'ar'):
                    continue          # a number where an audio-rate unit requires a signal (no default)
                if wrap and params[k].default is not params[k].empty:
                    continue          # list-valued form only for arguments without default (array arguments)
                st = {}

                def f():
                    args = []
                    for j, p in enumerate(params):
                        own = lambda: getattr(WhiteNoise, ctor)()
                        if j == k:
                            bad = getattr(WhiteNoise, other)() if kind == 'sig' else 0.25
                            args.append([own(), bad] if wrap else bad)
                        elif pj is not None and j == pj:
                            args.append(own())
                        elif p.default is not p.empty:
                            args.append(p.default)
                        else:
                            args.append(own())
                    n0 = len(_libsc3.main._current_synthdef._children)
                    x = fn(*args)
                    st['made'] = [c for c in _libsc3.main._current_synthdef._children[n0:] if type(c).__name__ == name]
                    y = x[0] if isinstance(x, list) and x else x
                    if isinstance(y, ugn.UGen) and y.rate in ('audio', 'control'):
                        (Out.ar if y.rate == 'audio' else Out.kr)(0, y)
                tag = (k if kind == 'sig' else f'{k}c') if not wrap else (f'{k}l' if kind == 'sig' else f'{k}lc')
                if pj is not None:
                    tag = f'{tag}p{pj}'
                try:
                    sd = SynthDef('rc', f)
                    bytes(sd.as_bytes())
                    kids = list(sd._children)
                    if st.get('made') and any(c is q for c in st['made'] for q in kids):
                        res.append([name, ctor, tag, 'compiled'])
                except Exception as ex:
                    if st.get('made') is not None:
                        res.append([name, ctor, tag, 'rejected', f'{type(ex).__name__}: {ex}'[:120]])
    return res


def mix_probe(payload):
    """C01 for the mixing pseudo unit: `Mix.new` of n distinct noise sources (flat list, n = 1..40) is
    one signal whose value is the sum of all n sources (the emitted + / Sum3 / Sum4 / MulAdd units are
    evaluated over Q with a distinct value per source), every source appears exactly once; and infinite
    constants are accepted as operands."""
    _init(payload.get('mode', 'nrt'))
    from sc3.synth.synthdef import SynthDef
    from sc3.synth.ugens.noise import WhiteNoise
    from sc3.synth.ugens.inout import Out
    from sc3.synth.ugens.mix import Mix
    res = []
    for n in payload.get('sizes', list(range(1, 41))):
        def f():
            Out.ar(0, Mix.new([WhiteNoise.ar() for _ in range(n)]))
        try:
            sd = SynthDef('mx', f)
            d = scgf.parse(bytes(sd.as_bytes()))[0]
        except Exception as ex:
            res.append([n, f'EXC {type(ex).__name__}: {ex}'[:120]])
            continue
        vals, k = [], 0
        ok = None
        for u in d['ugens']:
            def iv(spec):
                a, j = spec
                return F(d['consts'][j]) if a < 0 else vals[a][j]
            ins = [iv(s) for s in u['ins']]
            c = u['cls']
            if c == 'WhiteNoise':
                k += 1
                vals.append([F(1, 1) * (1000003 ** (k % 5)) + k * k])     # distinct values
            elif c == 'BinaryOpUGen' and u['sp'] == 0:
                vals.append([ins[0] + ins[1]])
            elif c == 'Sum3':
                vals.append([ins[0] + ins[1] + ins[2]])
            elif c == 'Sum4':
                vals.append([ins[0] + ins[1] + ins[2] + ins[3]])
            elif c == 'MulAdd':
                vals.append([ins[0] * ins[1] + ins[2]])
            elif c == 'Out':
                want = sum((F(1, 1) * (1000003 ** (i % 5)) + i * i for i in range(1, n + 1)), F(0))
                ok = (len(ins) == 2 and ins[1] == want and k == n)
                vals.append([])
            else:
                vals.append([F(0)] * max(1, len(u['outs'])))
        res.append([n, 'ok' if ok else f'sum of {n} sources not delivered: {k} sources, {[u["cls"] for u in d["ugens"]]}'[:200]])
    # infinite constants as operands
    inf = float('inf')
    from sc3.synth.ugens.line import Line
    forms = {'min_inf': lambda x: x.min(inf), 'mul_neg_inf': lambda x: x * -inf, 'line_dur_inf': lambda x: x * Line.kr(0, 1, inf)}
    for name, fn in forms.items():
        def g():
            Out.ar(0, fn(WhiteNoise.ar()))
        try:
            d = scgf.parse(bytes(SynthDef('inf', g).as_bytes()))[0]
            res.append([name, 'ok' if any(math.isinf(c) for c in d['consts']) else 'no infinite constant in the definition'])
        except Exception as ex:
            res.append([name, f'EXC {type(ex).__name__}: {ex}'[:120]])
    # bool constants are numbers (True = 1.0)
    def gb():
        Out.ar(0, WhiteNoise.ar() * Line.kr(0, 0.5, 2, True))
    try:
        d = scgf.parse(bytes(SynthDef('bool', gb).as_bytes()))[0]
        ln = [u for u in d['ugens'] if u['cls'] == 'Line'][0]
        got = [fmt_frac(d['consts'][k]) if a < 0 else 'u' for a, k in ln['ins']]
        res.append(['bool_const', 'ok' if got == ['0', '1/2', '2', '1'] else f'Line inputs {got}, expected 0, 1/2, 2, 1 (True)'])
    except Exception as ex:
        res.append(['bool_const', f'EXC {type(ex).__name__}: {ex}'[:120]])
    # range / exprange / unipolar / bipolar on units with unipolar (0..1) and bipolar (-1..1) output
    from sc3.synth.ugens.oscillators import SinOsc, LFPulse, Impulse, LFSaw
    from sc3.synth.ugens.noise import Dust as _Dust
    for cname, mk, lohi in (('LFPulse', lambda: LFPulse.ar(3), (0, 1)), ('Impulse', lambda: Impulse.ar(3), (0, 1)),
                            ('Dust', lambda: _Dust.ar(3), (0, 1)), ('SinOsc', lambda: SinOsc.ar(3), (-1, 1)),
                            ('LFSaw', lambda: LFSaw.ar(3), (-1, 1))):
        for meth in ('exprange', 'range'):
            def gr():
                Out.ar(0, getattr(mk(), meth)(2, 8))
            try:
                d = scgf.parse(bytes(SynthDef('rg', gr).as_bytes()))[0]
                src = [i for i, u in enumerate(d['ugens']) if u['cls'] == cname][0]
                problem = None
                if meth == 'exprange':
                    le = [u for u in d['ugens'] if u['cls'] == 'LinExp']
                    got = [('src' if a == src else fmt_frac(d['consts'][k]) if a < 0 else 'u') for a, k in le[0]['ins']] if len(le) == 1 else None
                    want = ['src', str(lohi[0]), str(lohi[1]), '2', '8']
                    if got != want:
                        problem = f'LinExp inputs {got}, expected {want}'
                else:
                    # value check: out = src mapped linearly from its output range onto [2, 8]
                    vals = []
                    for u in d['ugens']:
                        ins = [F(d['consts'][k]) if a < 0 else vals[a][k] for a, k in u['ins']]
                        if u['cls'] == cname: vals.append([F(1, 4)])
                        elif u['cls'] == 'MulAdd': vals.append([ins[0] * ins[1] + ins[2]])
                        elif u['cls'] == 'BinaryOpUGen' and u['sp'] in (0, 1, 2):
                            vals.append([ins[0] + ins[1] if u['sp'] == 0 else ins[0] - ins[1] if u['sp'] == 1 else ins[0] * ins[1]])
                        elif u['cls'] == 'Out': vals.append([]); outv = ins[1]
                        else: vals.append([F(0)] * max(1, len(u['outs'])))
                    want = 2 + (F(1, 4) - lohi[0]) * F(6, lohi[1] - lohi[0])
                    if outv != want:
                        problem = f'value {outv} for source value 1/4, expected {want}'
                res.append([f'{cname}.{meth}', problem or 'ok'])
            except Exception as ex:
                res.append([f'{cname}.{meth}', f'EXC {type(ex).__name__}: {ex}'[:120]])
    # LocalIn: a default list shorter than the channel count wraps cyclically
    try:
        from sc3.synth.ugens.inout import LocalIn, LocalOut

        def gl():
            x = LocalIn.ar(4, [0.125, 0.25])
            LocalOut.ar(x)
            Out.ar(0, x)
        d = scgf.parse(bytes(SynthDef('li', gl).as_bytes()))[0]
        li = [u for u in d['ugens'] if u['cls'] == 'LocalIn'][0]
        got = [fmt_frac(d['consts'][k]) if a < 0 else 'u' for a, k in li['ins']]
        res.append(['localin_defaults', 'ok' if got == ['1/8', '1/4', '1/8', '1/4'] else f'LocalIn.ar(4, [1/8, 1/4]) is wired to {got}, expected the defaults repeated cyclically'])
    except Exception as ex:
        res.append(['localin_defaults', f'EXC {type(ex).__name__}: {ex}'[:120]])
    # SoundIn: buses given as controls are separate one-channel inputs, consecutive numbers one multichannel input
    from sc3.synth.ugens.inout import SoundIn
    ns = {'Out': Out, 'SoundIn': SoundIn}
    exec("def si_ctl(left=2, right=5):\n    Out.ar(0, SoundIn.ar([left, right]))\n"
         "def si_cons():\n    Out.ar(0, SoundIn.ar([2, 3]))\n"
         "def si_gap():\n    Out.ar(0, SoundIn.ar([2, 5]))\n"
         "def si_perm():\n    Out.ar(0, SoundIn.ar([0, 2, 1, 3]))\n", ns)
    for name, want in (('si_ctl', [1, 1]), ('si_cons', [2]), ('si_gap', [1, 1]), ('si_perm', [1, 1, 1, 1])):
        try:
            d = scgf.parse(bytes(SynthDef(name, ns[name]).as_bytes()))[0]
            ins = [len(u['outs']) for u in d['ugens'] if u['cls'] == 'In']
            problem = None
            if ins != want:
                problem = f'input units with {ins} channels, expected {want}'
            elif name == 'si_ctl':
                # every control output is used
                used = {(a, k) for u in d['ugens'] for a, k in u['ins'] if a >= 0 and d['ugens'][a]['cls'] == 'Control'}
                if len(used) != 2:
                    problem = f'only control outputs {sorted(used)} are wired (both bus parameters must be read)'
            res.append(['soundin:' + name, problem or 'ok'])
        except Exception as ex:
            res.append(['soundin:' + name, f'EXC {type(ex).__name__}: {ex}'[:120]])
    return res


def method_probe(payload):
    """each operator carries the server opcode of that operator — method and builtin-function entry
    points: for every operator of the server tables, every attribute of a unit generator (and every
    function of sc3.base.builtins) whose name is the operator's name (also snake_case / lower case) is
    called; the operator unit it emits must carry that operator's index."""
    _init(payload.get('mode', 'nrt'))
    import re
    from sc3.synth.synthdef import SynthDef
    from sc3.synth.ugens.noise import WhiteNoise, Dust
    from sc3.synth.ugens.inout import Out
    from sc3.base import builtins as bi
    res = []

    def cands(name):
        snake = re.sub(r'(?<!^)(?=[A-Z])', '_', name).lower()
        return list(dict.fromkeys([name, snake, name.lower(), name + '_']))
    for arity, names in (('unary', opcodes_ref.UNARY), ('binary', opcodes_ref.BINARY)):
        for idx, name in enumerate(names):
            if not name[0].isalpha():
                continue
            for cand in cands(name):
                for entry in ('method', 'builtin', 'builtin_num_first'):
                    if entry == 'builtin_num_first' and arity == 'unary':
                        continue
                    st = {}

                    def f():
                        x, y = WhiteNoise.ar(), Dust.ar(5)
                        if entry == 'builtin_num_first':
                            fn = getattr(bi, cand, None)
                            if not callable(fn):
                                st['na'] = True; raise LookupError
                            r = fn(3, x)
                        elif entry == 'method':
                            fn = getattr(x, cand, None)
                            if not callable(fn):
                                st['na'] = True; raise LookupError
                            r = fn() if arity == 'unary' else fn(y)
                        else:
                            fn = getattr(bi, cand, None)
                            if not callable(fn):
                                st['na'] = True; raise LookupError
                            r = fn(x) if arity == 'unary' else fn(x, y)
                        Out.ar(0, r)
                    try:
                        sd = SynthDef('mp', f)
                        d = scgf.parse(bytes(sd.as_bytes()))[0]
                    except Exception as ex:
                        if not st.get('na'):
                            res.append([arity, name, cand, entry, 'EXC', type(ex).__name__, idx])
                        continue
                    cls = 'UnaryOpUGen' if arity == 'unary' else 'BinaryOpUGen'
                    ops = [(u['cls'], u['sp']) for u in d['ugens'] if u['cls'] in ('UnaryOpUGen', 'BinaryOpUGen', 'MulAdd', 'Sum3', 'Sum4')]
                    if entry == 'builtin_num_first':
                        # operand order: the number is the FIRST input, the unit the second
                        bo = [u for u in d['ugens'] if u['cls'] == 'BinaryOpUGen']
                        if len(bo) == 1:
                            ins = bo[0]['ins']
                            okorder = (len(ins) == 2 and ins[0][0] < 0 and d['consts'][ins[0][1]] == 3.0 and ins[1][0] >= 0)
                            if not okorder:
                                ops = ops + [('ORDER', [list(i) for i in ins])]
                    res.append([arity, name, cand, entry, 'OK', ops, idx])
    return res
