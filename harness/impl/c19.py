"""C19 implementation side: the real sc3.synth.envelope.Env."""
from fractions import Fraction


def fr(x):
    if isinstance(x, bool):
        return f'b:{x}'
    if isinstance(x, int):
        return str(x)
    if isinstance(x, float):
        if x != x or x in (float('inf'), float('-inf')):
            return f'x:{x!r}'
        q = Fraction(x)
        return str(q.numerator) if q.denominator == 1 else f'{q.numerator}/{q.denominator}'
    return f'o:{type(x).__name__}'


def pf(s):
    if isinstance(s, list):                       # a multichannel (list-valued) entry
        return [pf(i) for i in s]
    return float(Fraction(s))


def cv(s):
    """'n:lin' -> 'lin' ; 'c:-4' -> -4.0 (float) ; 'ci:-4' -> -4 (a Python int curvature)"""
    if s.startswith('ci:'):
        return int(s[3:])
    return s[2:] if s.startswith('n:') else pf(s[2:])


def graph_units(e):
    """The envelope used through EnvGen.ar/.kr and IEnvGen.ar/.kr inside a real SynthDef build; the
    emitted definition is read back with the independent SCgf reader: per unit class and rate the
    list of constant input arrays (float32 values)."""
    from sc3.synth.synthdef import SynthDef
    from sc3.synth.ugens import EnvGen, IEnvGen, Out, DC
    from tools import scgf

    def g():
        Out.ar(0, EnvGen.ar(e))
        Out.kr(0, EnvGen.kr(e))
        Out.kr(8, IEnvGen.kr(e, 0.5))
        Out.ar(8, IEnvGen.ar(e, DC.ar(0.5)))
    sd = SynthDef('c19', g)
    d = scgf.parse(bytes(sd.as_bytes()))[0]
    out = {}
    for u in d['ugens']:
        if u['cls'] in ('EnvGen', 'IEnvGen'):
            key = u['cls'] + ('.ar' if u['rate'] == 2 else '.kr' if u['rate'] == 1 else f'.rate{u["rate"]}')
            out.setdefault(key, []).append(
                [fr(float(d['consts'][k])) if a == -1 else f'u:{d["ugens"][a]["cls"]}' for a, k in u['ins']])
    return out


def prepare(Env, case):
    """-> (constructor, argument list): the call is made by the caller so that the SAME argument
    objects can be passed twice."""
    ctor = case['ctor']
    if case.get('defaults'):                       # the documented default arguments
        return (Env if ctor == 'new' else getattr(Env, ctor)), []
    a = [pf(x) for x in case.get('args', [])]
    if ctor == 'new':
        curves = case['curves']
        curves = [cv(c) for c in curves] if isinstance(curves, list) else cv(curves)
        return Env, [[pf(x) for x in case['levels']], [pf(x) for x in case['times']], curves,
                     case['rel'], case['loop'], pf(case['offset'])]
    if ctor in ('triangle', 'sine'):
        return getattr(Env, ctor), a
    if ctor in ('perc', 'linen', 'cutoff', 'asr'):
        return getattr(Env, ctor), a + [cv(case['curve'])]
    if ctor == 'dadsr':
        return Env.dadsr, a[:6] + [cv(case['curve']), a[6]]
    if ctor == 'adsr':
        return Env.adsr, a[:5] + [cv(case['curve']), a[5]]
    if ctor == 'step':
        return Env.step, [[pf(x) for x in case['levels']], [pf(x) for x in case['times']],
                          case['rel'], case['loop'], pf(case['offset'])]
    if ctor == 'xyc':
        return Env.xyc, [[[pf(t), pf(l), cv(c)] for t, l, c in case['pts']]]
    if ctor == 'pairs':
        cs = case['curves']
        cs = None if cs is None else ([cv(c) for c in cs] if isinstance(cs, list) else cv(cs))
        return Env.pairs, [[[pf(t), pf(l)] for t, l in case['pts']], cs]
    raise ValueError(ctor)


def build(Env, case, reuse=None):
    """The envelope; `reuse` (a dict) receives what happened to the caller's argument objects: they
    must be unchanged by the call and a second call with the same objects must give an equal envelope."""
    import copy
    fn, args = prepare(Env, case)
    snap = copy.deepcopy(args)
    e = fn(*args)
    if reuse is not None:
        if repr(args) != repr(snap):
            reuse['changed'] = [repr(snap), repr(args)]
        else:
            def fmt_of(mk):
                try:
                    return repr(mk()._envgen_format())
                except Exception as ex:
                    return f'E:{type(ex).__name__}: {ex}'
            f1 = fmt_of(lambda: e)
            f2 = fmt_of(lambda: fn(*args))
            if f1 != f2:
                reuse['second'] = [f1, f2]
            # the formats asked above are cached on e: take a fresh object for the rest of the case
            e = fn(*copy.deepcopy(snap))
    return e


def run_case(Env, case):
    reuse = {}
    try:
        e = build(Env, case, reuse)
    except Exception as ex:
        return {'fmt': f'E:{type(ex).__name__}', 'at': []}
    out = {}
    if reuse:
        out['reuse'] = reuse
    # the encodings must not depend on what the object was used for before: on every other case the
    # IEnvGen (interpolation) encoding and an evaluation are requested first (cached formats)
    import zlib
    if zlib.crc32(repr(case).encode()) % 2 == 0:
        for pre in (lambda: e._interpolation_format(), lambda: e._at(0.25)):
            try:
                pre()
            except Exception:
                pass
    try:
        data = e._envgen_format()
        if case.get('mc'):
            out['fmt'] = [[fr(v) for v in ch] for ch in data]
        elif len(data) != 1:
            out['fmt'] = f'E:multichannel({len(data)})'
        else:
            out['fmt'] = [fr(v) for v in data[0]]
    except Exception as ex:
        out['fmt'] = f'E:{type(ex).__name__}'
    # the node-parameter entry point: an Env given as the value of a synth control
    try:
        ci = e._as_control_input()
        out['ctl'] = [[fr(v) for v in ch] for ch in ci] if isinstance(ci, list) else [[fr(v) for v in ci]]
        lst = []
        e._embed_as_osc_arg(lst)
        out['osc'] = [x if isinstance(x, str) else fr(x) for x in lst]
    except Exception as ex:
        out['ctl'] = f'E:{type(ex).__name__}'
    if not isinstance(out.get('fmt'), str):
        try:
            out['ifmt'] = [[fr(v) for v in ch] for ch in e._interpolation_format()]
        except Exception as ex:
            out['ifmt'] = f'E:{type(ex).__name__}'
        try:
            out['graph'] = graph_units(e)
        except Exception as ex:
            out['graph'] = f'E:{type(ex).__name__}'
    ats = []
    for t in case.get('at', []):
        try:
            v = e._at(pf(t))
            ats.append([fr(x) for x in v] if isinstance(v, list) else fr(v))
        except Exception as ex:
            ats.append(f'E:{type(ex).__name__}')
    out['at'] = ats
    try:
        if not case.get('mc'):
            out['env'] = {'levels': [fr(v) for v in e.levels], 'times': [fr(v) for v in e.times],
                          'offset': fr(e.offset)}
    except Exception:
        pass
    if case.get('dur') and not case.get('mc'):
        # the duration property (the only Env property with a setter), last: it changes the object
        try:
            before = [fr(v) for v in e.times]
            e.duration = pf(case['dur'])
            out['dur'] = {'before': before, 'after': [fr(v) for v in e.times], 'get': fr(e.duration)}
        except Exception as ex:
            out['dur'] = f'E:{type(ex).__name__}'
    return out


def run(payload):
    import sc3
    sc3.init('nrt', 'ERROR')
    from sc3.synth.envelope import Env
    return [run_case(Env, c) for c in payload['cases']]


def defaults(payload):
    """Default arguments of the constructors, read from the source with `ast`."""
    import ast
    from pathlib import Path
    tree = ast.parse((Path(payload['repo']) / 'sc3' / 'synth' / 'envelope.py').read_text())
    out = {}
    for c in tree.body:
        if isinstance(c, ast.ClassDef) and c.name == 'Env':
            for m in c.body:
                if isinstance(m, ast.FunctionDef):
                    names = [a.arg for a in m.args.args[1:]]
                    ds = [ast.literal_eval(d) for d in m.args.defaults]
                    out[m.name] = dict(zip(names[len(names) - len(ds):], ds))
    return out
