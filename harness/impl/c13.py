"""C13 implementation side: build REAL sc3 pattern objects from a term and drive their streams."""
import signal
from fractions import Fraction


class _Timeout(Exception):
    pass


def _alarm(signum, frame):
    raise _Timeout()


def val(t):
    k = t[0]
    if k == 'i':
        return int(t[1])
    if k == 'f':
        return float(Fraction(t[1]))
    if k == 'b':
        return bool(t[1])
    if k == 'l':
        return [val(x) for x in t[1:]]
    if k == 't':
        return tuple(val(x) for x in t[1:])
    raise ValueError(t)


def rep(r):
    return float('inf') if r == 'inf' else int(r)


def fmt(v):
    if type(v) is bool:
        return 'bT' if v else 'bF'
    if type(v) is int:
        return f'i{v}'
    if type(v) is float:
        if v != v or v in (float('inf'), float('-inf')):
            return f'f{v}'
        fr = Fraction(v)
        return f'f{fr.numerator}/{fr.denominator}'
    if type(v) is list:
        return '[' + ','.join(fmt(x) for x in v) + ']'
    if type(v) is tuple:
        return '(' + ','.join(fmt(x) for x in v) + ')'
    return f'?{type(v).__name__}'


def build_fn(f):
    import operator
    from sc3.base import builtins as bi
    if f == 'id':
        return lambda x: x
    k = f[0]
    un = {'neg': operator.neg, 'abs': operator.abs, 'pos': operator.pos}
    bn = {'add': operator.add, 'sub': operator.sub, 'mul': operator.mul, 'div': operator.truediv,
          'pymod': operator.mod, 'mod': bi.mod, 'lt': operator.lt, 'le': operator.le, 'gt': operator.gt,
          'ge': operator.ge, 'min': bi.min, 'max': bi.max}
    if k == 'un':
        g, o = build_fn(f[2]), un[f[1]]
        return lambda x: o(g(x))
    if k == 'binR':
        g, o, c = build_fn(f[2]), bn[f[1]], val(f[3])
        return lambda x: o(g(x), c)
    if k == 'binL':
        g, o, c = build_fn(f[3]), bn[f[1]], val(f[2])
        return lambda x: o(c, g(x))
    if k == 'isInt':
        g = build_fn(f[1])
        return lambda x: type(g(x)) is int
    raise ValueError(f)


CALLER_LISTS = []          # the list objects handed to ListPattern constructors (Pseq, Pser, Place, Ptuple, Pslide)


def keep(lst):
    CALLER_LISTS.append(lst)
    return lst


def build(t):
    """Term -> plain value (for ['const', v]) or a real Pattern object."""
    import operator
    from sc3.base import builtins as bi
    from sc3.seq.patterns import listpatterns as lp
    from sc3.seq.patterns import filterpatterns as fp
    from sc3.seq.patterns import valuepatterns as vp
    from sc3.seq.patterns import funcpatterns as up
    k = t[0]
    B = build
    if k == 'const':
        return val(t[1])
    if k == 'seq':
        return lp.Pseq(keep([B(x) for x in t[1]]), rep(t[2]), t[3])
    if k == 'ser':
        return lp.Pser(keep([B(x) for x in t[1]]), rep(t[2]), t[3])
    if k == 'pn':
        return fp.Pn(B(t[1]), rep(t[2]))
    if k == 'place':
        items = []
        for it in t[1]:
            if isinstance(it, dict):
                sub = [B(x) for x in it['sub']]
                items.append(tuple(sub) if it.get('tuple') else sub)
            else:
                items.append(B(it))
        return lp.Place(keep(items), rep(t[2]), t[3])
    if k == 'tuple':
        return lp.Ptuple(keep([B(x) for x in t[1]]), rep(t[2]))
    if k == 'pseed':
        rp = t[2]
        cls = {'prand': lp.Prand, 'pxrand': lp.Pxrand, 'pshuffle': lp.Pshuffle, 'pwrand': None}[rp[0]]
        def seed(sd):
            return float(sd[1:]) if isinstance(sd, str) else int(sd)
        sd = lp.Pseq([seed(x) for x in t[1][1:]], 1) if isinstance(t[1], list) else seed(t[1])
        if rp[0] == 'pwrand':
            return fp.Pseed(sd, lp.Pwrand([B(x) for x in rp[1]], rp[3], rep(rp[2])))
        return fp.Pseed(sd, cls([B(x) for x in rp[1]], rep(rp[2])))
    if k == 'switch':
        return lp.Pswitch([B(x) for x in t[1]], B(t[2]))
    if k == 'switch1':
        return lp.Pswitch1([B(x) for x in t[1]], B(t[2]))
    if k == 'slide':
        return lp.Pslide(keep([B(x) for x in t[1]]), B(t[2]), B(t[3]), t[4], bool(t[5]), rep(t[6]))
    if k == 'series':
        return vp.Pseries(val(t[1]), B(t[2]), rep(t[3]))
    if k == 'geom':
        return vp.Pgeom(val(t[1]), B(t[2]), rep(t[3]))
    if k == 'stutter':
        return fp.Pstutter(B(t[1]), B(t[2]))
    if k == 'clump':
        return fp.Pclump(B(t[1]), B(t[2]))
    if k == 'flatten':
        return fp.Pflatten(B(t[1]), B(t[2]))
    if k == 'diff':
        return fp.Pdiff(B(t[1]))
    if k == 'pconst':
        tol = t[3]
        if tol == 'default':
            return fp.Pconst(B(t[1]), val(t[2]))
        return fp.Pconst(B(t[1]), val(t[2]), float(Fraction(tol)))
    if k == 'drop':
        return fp.Pdrop(B(t[1]), t[2])
    if k == 'len':
        return fp.Plen(B(t[1]), t[2])
    if k == 'collect':
        return fp.Pcollect(build_fn(t[1]), B(t[2]))
    if k == 'select':
        return fp.Pselect(build_fn(t[1]), B(t[2]))
    if k == 'reject':
        return fp.Preject(build_fn(t[1]), B(t[2]))
    if k == 'pif':
        return up.Pif(B(t[1]), B(t[2]), B(t[3]))
    if k == 'wrap':
        return fp.Pwrap(B(t[1]), B(t[2]), B(t[3]))
    if k == 'unop':
        a = B(t[2])
        from sc3.seq import pattern as ptt
        if not isinstance(a, ptt.Pattern):     # operator on a plain value: make the pattern explicitly
            return ptt.Punop({'neg': operator.neg, 'abs': operator.abs, 'pos': operator.pos}[t[1]], a)
        return {'neg': lambda: -a, 'abs': lambda: abs(a), 'pos': lambda: +a}[t[1]]()
    if k == 'binop':
        a, b = B(t[2]), B(t[3])
        o = t[1]
        style = t[4] if len(t) > 4 else 'op'
        from sc3.seq import pattern as ptt
        a_is_pat = isinstance(a, ptt.Pattern)
        if style == 'op' or not a_is_pat:
            f = {'add': operator.add, 'sub': operator.sub, 'mul': operator.mul,
                 'div': operator.truediv, 'mod': operator.mod, 'lt': operator.lt, 'le': operator.le,
                 'gt': operator.gt, 'ge': operator.ge, 'min': bi.min, 'max': bi.max}[o]
            if not a_is_pat and not isinstance(b, ptt.Pattern):
                # two plain values: make the pattern object explicitly
                return ptt.Pbinop(bi.mod if o == 'mod' else f, a, b)
            return f(a, b)
        return ptt.Pbinop({'add': operator.add, 'sub': operator.sub, 'mul': operator.mul,
                           'div': operator.truediv, 'mod': bi.mod, 'lt': operator.lt,
                           'le': operator.le, 'gt': operator.gt, 'ge': operator.ge,
                           'min': bi.min, 'max': bi.max}[o], a, b)
    if k == 'narop':
        a, lo, hi = B(t[2]), B(t[3]), B(t[4])
        from sc3.seq import pattern as ptt
        f = {'clip': bi.clip, 'wrap': bi.wrap}[t[1]]
        if isinstance(a, ptt.Pattern):
            m = getattr(a, t[1])
            # (Pslide instances carry a bool attribute `wrap` that hides the operator method)
            return m(lo, hi) if callable(m) else f(a, lo, hi)
        return ptt.Pnarop(f, a, lo, hi)
    raise ValueError(t)


def run_case(case, budget_s):
    from sc3.base import stream as stm
    out = []
    del CALLER_LISTS[:]
    try:
        p = build(case['pat'])
    except Exception as e:
        return [f'BUILD:{type(e).__name__}'] * len(case['ops'])
    streams = []
    inval_mode = case.get('inval', 0)
    sentinel = {'inval': 1} if inval_mode == 2 else (7 if inval_mode == 1 else None)
    signal.signal(signal.SIGALRM, _alarm)
    signal.setitimer(signal.ITIMER_REAL, budget_s)
    try:
        for op in case['ops']:
            if op[0] == 'mutate':
                # the caller goes on using the lists it built the patterns from
                for lst in CALLER_LISTS:
                    if op[1] == 'reverse':
                        lst.reverse()
                    elif op[1] == 'append':
                        lst.append(-99)
                    elif lst:
                        lst[0] = -77
                out.append('ok')
            elif op[0] == 'new':
                out.append(str(len(streams)))
                streams.append(stm.stream(p))
            elif op[0] == 'next':
                s = streams[op[1]]
                if s is None:
                    out.append('STOP')
                    continue
                try:
                    v = next(s) if sentinel is None else s.next(sentinel)
                    out.append(fmt(v))
                except stm.StopStream:
                    out.append('STOP')
                except _Timeout:
                    raise
                except Exception as e:
                    out.append('ERR')
                    streams[op[1]] = None
            elif op[0] == 'all':
                # the other way of draining a stream: all() = the values that remain
                s = streams[op[1]]
                try:
                    vs = [] if s is None else (s.all() if sentinel is None else s.all(sentinel))
                    out.append('all:' + ','.join(fmt(v) for v in vs))
                except _Timeout:
                    raise
                except Exception as e:
                    out.append('ERR')
                    streams[op[1]] = None
            else:
                out.append('bad-op')
    except _Timeout:
        out.append('TIMEOUT')
        out += ['SKIP'] * (len(case['ops']) - len(out))
    finally:
        signal.setitimer(signal.ITIMER_REAL, 0)
    return out


def run(payload):
    import sc3
    sc3.init('nrt', 'ERROR')
    return [run_case(c, payload.get('budget_s', 5.0)) for c in payload['cases']]
