"""C03 implementation side: drive the REAL sc3 multichannel expansion code.

Case kinds (JSON):
  ctor    {'k':'ctor','mod','cls','meth','args':[A…],'pre':[kinds]}      a direct-delegating constructor in a build
  op      {'k':'op','op':name,'a':A,'b':A|absent,'pre'}                  operator / AbstractObject method in a build
  meth    {'k':'meth','name','self':[A…],'args':[A…],'pre'}              ChannelList convenience method in a build
  out     {'k':'out','cls','meth','fixed':[A…],'output':A,'pre'}         Out/ReplaceOut/OffsetOut/XOut/LocalOut
  lbinop / lunop / lnarop / wrapext / flop / perform                     utils functions with recording leaves

Value grammar A: number | {'u':k} premade unit | {'t':[A…]} tuple | {'l':[A…]} list |
                 {'c':[A…]} ChannelList | {'s':str} | None

Everything that is pure (token printing, the reference law) lives at module level without importing
sc3, so harness/props/c03.py can import it too.
"""
import operator

SCALE = 1024
RATE_IDS = {'audio': 90, 'control': 91, 'scalar': 92, 'demand': 93}
NONE_ID = 99
STR_BASE = 100
FRESH = 1000


# ---------------------------------------------------------------------------------------------
# pure helpers (shared with the property module)

def strings_of(case):
    """stable table of the strings occurring in a case (ids STR_BASE + index)"""
    found = []

    def walk(a):
        if isinstance(a, dict):
            if 's' in a:
                if a['s'] not in found:
                    found.append(a['s'])
            if 'cw' in a:
                walk(a['cw'])
            for k in ('t', 'l', 'c'):
                if k in a:
                    for x in a[k]:
                        walk(x)
        elif isinstance(a, list):
            for x in a:
                walk(x)
    for key in ('args', 'a', 'b', 'self', 'fixed', 'output', 'cols', 'items'):
        if key in case:
            walk(case[key])
    return found


def num_tok(v):
    """dyadic numbers exactly (scaled); any other float (a default such as 0.2) is an opaque non-zero
    object for the model, named by its value"""
    s = v * SCALE
    if s != s or s in (float('inf'), float('-inf')):
        return 'o999999'
    if s != int(s):
        return f'o{10 ** 6 + int(round(abs(v) * 10 ** 6)) * 2 + (1 if v < 0 else 0)}'
    return f'n{int(s)}'


def tok(a, strs):
    """token string of a JSON value A"""
    if a is None:
        return f'o{NONE_ID}'
    if isinstance(a, bool):
        return num_tok(int(a))
    if isinstance(a, (int, float)):
        return num_tok(a)
    if 'u' in a:
        return f"o{a['u']}"
    if 's' in a:
        return f"o{STR_BASE + strs.index(a['s'])}"
    if 'r' in a:
        return f"o{RATE_IDS[a['r']]}"
    if 'cw' in a:
        return ' '.join(['(c'] + [tok(x, strs) for x in items(a)] + [')'])
    for k in ('t', 'l', 'c'):
        if k in a:
            return ' '.join([f'({k}'] + [tok(x, strs) for x in a[k]] + [')'])
    raise ValueError(a)


def is_list(a):
    return isinstance(a, dict) and ('l' in a or 'c' in a or 'cw' in a)


def items(a):
    if 'cw' in a:
        # ChannelList(x) built directly from ONE value: a tuple, string or scalar is a single channel
        # (never unpacked); an iterable list gives its items
        x = a['cw']
        return items(x) if is_list(x) else [x]
    return a['l'] if 'l' in a else a['c']


# ---- the reference law (closed form: valid paths + per-argument selection), independent of the Lean model

class LawError(Exception):
    """the law is undefined (empty list next to a non-empty one)"""


def law_sel(a, path):
    for i in path:
        if is_list(a):
            xs = items(a)
            if not xs:
                raise LawError
            a = xs[i % len(xs)]
    return a


def law_paths(args):
    """valid channel paths in lexicographic order; [] = []-path only when no list is present"""
    out = []

    def rec(prefix):
        row = [law_sel(a, prefix) for a in args]
        lens = [len(items(a)) for a in row if is_list(a)]
        n = max(lens, default=0)
        if n == 0:
            out.append(list(prefix))
            return
        if 0 in lens:
            raise LawError
        for i in range(n):
            rec(prefix + [i])
    rec([])
    return out


def law_tree(args, leaf):
    """nested list shaped like the expansion; leaf(row, path) -> value"""
    def rec(prefix):
        row = [law_sel(a, prefix) for a in args]
        lens = [len(items(a)) for a in row if is_list(a)]
        n = max(lens, default=0)
        if n == 0:
            return leaf(row, list(prefix))
        if 0 in lens:
            raise LawError
        return {'chan': [rec(prefix + [i]) for i in range(n)]}
    return rec([])


# ---------------------------------------------------------------------------------------------
# real-code side

class _Abort(Exception):
    pass


def unit_free(a):
    """no premade unit anywhere inside the JSON value (then the value can outlive a build)"""
    if isinstance(a, dict):
        if 'u' in a:
            return False
        if 'cw' in a:
            return unit_free(a['cw'])
        for k in ('t', 'l', 'c'):
            if k in a:
                return all(unit_free(x) for x in a[k])
    return True


def dump(x):
    """type-tagged structure of a caller-owned argument object (to see whether a call changed it)"""
    if isinstance(x, tuple):
        return ['t'] + [dump(i) for i in x]
    if isinstance(x, list):
        return [type(x).__name__] + [dump(i) for i in x]
    if x is None or isinstance(x, (bool, int, float, str)):
        return repr(x)
    return '<' + type(x).__name__ + '>'


def shared_report(shared):
    """(number of caller-owned sequences, list of paths whose object was modified)"""
    paths = [k for k in shared if not k.startswith('#')]
    return len(paths), sorted(p for p in paths if dump(shared[p]) != shared['#' + p])


_state = {}


def _init():
    if _state:
        return
    import warnings
    warnings.filterwarnings('ignore')
    import logging
    logging.disable(logging.CRITICAL)
    import sc3
    sc3.init('nrt', 'ERROR')
    from sc3.synth import synthdef, ugen, _graphparam
    from sc3.base import utils, builtins
    from sc3.synth.ugens import oscillators, inout, line, noise
    _state.update(sdf=synthdef, ugn=ugen, gpp=_graphparam, utl=utils, bi=builtins,
                  ocl=oscillators, iou=inout, lne=line, nse=noise)


def in_build(fn):
    """run fn() inside a SynthDef graph function; the build is aborted afterwards (no optimisation,
    no input checks) and fn's result / exception is returned"""
    _init()
    box = {}

    def graph():
        try:
            box['res'] = fn()
        except _Abort:
            raise
        except Exception as e:  # noqa
            box['exc'] = e
        raise _Abort()
    try:
        _state['sdf'].SynthDef('c03', graph)
    except _Abort:
        pass
    if 'exc' in box:
        return None, box['exc']
    return box.get('res'), None


def make_pre(kinds):
    """premade input units (one object per entry); returns list of objects"""
    ocl, iou, nse = _state['ocl'], _state['iou'], _state['nse']
    out = []
    for k, kind in enumerate(kinds):
        if kind == 'ar':
            out.append(ocl.SinOsc.ar(100 + k))
        elif kind == 'kr':
            out.append(ocl.SinOsc.kr(1 + k))
        elif kind == 'ar2':
            out.append(iou.In.ar(k, 2)[1])
        elif kind == 'kr2':
            out.append(iou.In.kr(k, 2)[1])
        elif kind == 'ir':
            out.append(nse.Rand.new(k, k + 1))
        else:
            raise ValueError(kind)
    return out


class Ctx:
    """object <-> id registry of one build"""

    def __init__(self, case, pre):
        self.strs = strings_of(case)
        self.pre = pre
        self.sd = None
        self.n0 = 0

    def value(self, a, path='v'):
        """JSON value -> real Python value.  Sequences without units (numbers, strings, None only, at
        any depth) are CALLER-OWNED constants: when `self.shared` is set they are created once per case
        and the very same Python object is handed to every build (see `run_twice`)."""
        ugn = _state['ugn']
        if a is None or isinstance(a, (int, float)):
            return a
        if 'u' in a:
            return self.pre[a['u']]
        if 's' in a:
            return a['s']
        if 'r' in a:
            return a['r']
        shared = getattr(self, 'shared', None)
        if shared is not None and unit_free(a):
            if path not in shared:
                shared[path] = self._fresh(a, path)
                shared['#' + path] = dump(shared[path])
            return shared[path]
        return self._fresh(a, path)

    def _fresh(self, a, path):
        ugn = _state['ugn']
        if 'cw' in a:
            return ugn.ChannelList(self.value(a['cw'], path + '.w'))
        if 't' in a:
            return tuple(self.value(x, f'{path}.{i}') for i, x in enumerate(a['t']))
        if 'l' in a:
            return [self.value(x, f'{path}.{i}') for i, x in enumerate(a['l'])]
        if 'c' in a:
            return ugn.ChannelList([self.value(x, f'{path}.{i}') for i, x in enumerate(a['c'])])
        raise ValueError(a)

    def mark(self):
        from sc3.base.main import main
        self.sd = main._current_synthdef
        self.n0 = len(self.sd._children)

    def created(self):
        return self.sd._children[self.n0:]

    def obj_id(self, x):
        ugn = _state['ugn']
        for k, p in enumerate(self.pre):
            if x is p:
                return k
        if x is None:
            return NONE_ID
        if isinstance(x, str):
            if x in RATE_IDS:
                return RATE_IDS[x]
            if x in self.strs:
                return STR_BASE + self.strs.index(x)
            return None
        src = x.source_ugen if isinstance(x, ugn.OutputProxy) else x
        for off, u in enumerate(self.created()):
            if u is src:
                if isinstance(x, ugn.OutputProxy) and x._output_index != 0:
                    return None
                return FRESH + off
        return None

    def tok(self, x):
        """token string of a real value (argument rows handed to _new1 / recorded leaves)"""
        if isinstance(x, bool):
            return num_tok(int(x))
        if isinstance(x, (int, float)):
            return num_tok(x)
        if isinstance(x, tuple):
            return ' '.join(['(t'] + [self.tok(i) for i in x] + [')'])
        if isinstance(x, list):
            k = 'c' if isinstance(x, _state['ugn'].ChannelList) else 'l'
            return ' '.join([f'({k}'] + [self.tok(i) for i in x] + [')'])
        i = self.obj_id(x)
        if i is None:
            return f'?{type(x).__name__}'
        return f'o{i}'

    def term(self, x, depth=0):
        """structural description of a returned value (units as terms over the premade inputs)"""
        ugn = _state['ugn']
        if depth > 40:
            return 'DEEP'
        if x is None:
            return None
        if isinstance(x, bool):
            return ['n', int(x) * SCALE]
        if isinstance(x, (int, float)):
            s = x * SCALE
            return ['n', int(s)] if s == int(s) else ['f', repr(float(x))]
        if isinstance(x, str):
            return ['s', x]
        if isinstance(x, tuple):
            return ['t', [self.term(i, depth + 1) for i in x]]
        if isinstance(x, list):
            return ['c' if isinstance(x, ugn.ChannelList) else 'l', [self.term(i, depth + 1) for i in x]]
        for k, p in enumerate(self.pre):
            if x is p:
                return ['u', k]
        if isinstance(x, ugn.OutputProxy):
            return ['p', self.term(x.source_ugen, depth + 1), x._output_index]
        if isinstance(x, ugn.SynthObject):
            ins = [self.term(i, depth + 1) for i in x.inputs]
            extra = []
            if hasattr(x, 'values'):
                extra = [self.term(list(x.values), depth + 1)]
            return ['U', type(x).__name__, x.rate, x._special_index, ins, x._num_outputs()] + extra
        return ['?', type(x).__name__]


def terms_of(tree, ctx):
    """describe the leaves of a law tree only after every single-channel call was made (units such
    as MaxLocalBufs are updated by later calls)"""
    if 'chan' in tree:
        return {'chan': [terms_of(t, ctx) for t in tree['chan']]}
    return {'leaf': ctx.term(tree['leaf'])}


def exc_name(e):
    return type(e).__name__


# ---- ctor -----------------------------------------------------------------------------------

def _get_cls(case):
    import importlib
    m = importlib.import_module('sc3.synth.ugens.' + case['mod'])
    return getattr(m, case['cls'])


class Recorder:
    """records the outermost _multi_new row and every _new1 call of one class"""

    def __init__(self, cls, ctx):
        self.cls, self.ctx = cls, ctx
        self.calls, self.results, self.top, self.depth = [], [], None, 0

    def __enter__(self):
        cls, rec = self.cls, self
        self.saved = {n: cls.__dict__.get(n) for n in ('_new1', '_multi_new')}
        orig_new1, orig_mn = cls._new1.__func__, cls._multi_new.__func__

        def new1(c, *args):
            idx = len(rec.calls)
            rec.calls.append(' '.join(rec.ctx.tok(a) for a in args))
            rec.results.append(None)
            res = orig_new1(c, *args)
            rec.results[idx] = res
            return res

        def multi_new(c, *args):
            if rec.depth == 0 and rec.top is None:
                rec.top = ' '.join(rec.ctx.tok(a) for a in args)
            rec.depth += 1
            try:
                return orig_mn(c, *args)
            finally:
                rec.depth -= 1
        cls._new1 = classmethod(new1)
        cls._multi_new = classmethod(multi_new)
        return self

    def __exit__(self, *a):
        for n, v in self.saved.items():
            if v is None:
                delattr(self.cls, n)
            else:
                setattr(self.cls, n, v)

    def tree(self, res):
        """the returned nesting with the _new1 calls as leaves (by identity, in call order)"""
        ugn = _state['ugn']
        used = [False] * len(self.results)

        def rec(x):
            for k, r in enumerate(self.results):
                if not used[k] and r is x:
                    used[k] = True
                    return '{' + self.calls[k] + '}'
            if isinstance(x, ugn.ChannelList):
                return '[' + ' '.join(rec(i) for i in x) + ']'
            return f'?{type(x).__name__}'
        s = rec(res)
        if not all(used):
            s += ' UNUSED-CALLS'
        return s


def run_ctor(case):
    shared = {}

    def observed():
        cls = _get_cls(case)
        pre = make_pre(case['pre'])
        ctx = Ctx(case, pre)
        ctx.shared = shared
        ctx.mark()
        args = [ctx.value(a, f'a{i}') for i, a in enumerate(case['args'])]
        out = {}
        with Recorder(cls, ctx) as rec:
            try:
                res = getattr(cls, case['meth'])(*args)
                out['tree'] = rec.tree(res)
                out['ret'] = ctx.term(res)
            except Exception as e:  # noqa
                out['exc'] = exc_name(e)
            out['row'] = rec.top
            out['calls'] = list(rec.calls)
        out['nunits'] = len(ctx.created())
        return out

    def expected():
        cls = _get_cls(case)
        pre = make_pre(case['pre'])
        ctx = Ctx(case, pre)
        ctx.mark()

        def leaf(row, path):
            return {'leaf': getattr(cls, case['meth'])(*[ctx.value(a) for a in row])}
        out = {}
        try:
            out['ret'] = terms_of(law_tree(case['args'], leaf), ctx)
        except LawError:
            out['exc'] = 'LawError'
        except Exception as e:  # noqa
            out['exc'] = exc_name(e)
        out['nunits'] = len(ctx.created())
        return out
    obs, e1 = in_build(observed)
    obs2, e3 = in_build(observed)
    exp, e2 = in_build(expected)
    if e1 or e2 or e3:
        return {'infra': f'{e1!r} {e2!r} {e3!r}'}
    n, changed = shared_report(shared)
    return {'obs': obs, 'exp': exp, 'again_same': obs2 == obs, 'again': None if obs2 == obs else obs2,
            'nshared': n, 'args_changed': changed}


# ---- operators and methods in a build -------------------------------------------------------------

BINOPS = {
    'add': operator.add, 'sub': operator.sub, 'mul': operator.mul, 'truediv': operator.truediv,
    'mod': operator.mod, 'pow': operator.pow, 'lt': operator.lt, 'le': operator.le,
    'gt': operator.gt, 'ge': operator.ge, 'floordiv': operator.floordiv,
    'eq': operator.eq, 'ne': operator.ne,      # `==`/`!=` on units and channel lists BUILD units
}
BIN_METHODS = ['min', 'max', 'round', 'trunc', 'atan2', 'hypot', 'ring1', 'difsqr', 'sumsqr', 'absdif',
               'thresh', 'amclip', 'scaleneg', 'clip2', 'fold2', 'wrap2', 'excess']
UNOPS = {'neg': operator.neg, 'abs': operator.abs}
UN_METHODS = ['midicps', 'cpsmidi', 'squared', 'sqrt', 'reciprocal', 'tanh', 'distort', 'softclip', 'sign',
              'floor', 'ceil', 'frac', 'dbamp', 'ampdb', 'exp', 'log']


def apply_op(name, a, b=None, have_b=False):
    bi = _state['bi']
    num = (int, float)
    if isinstance(a, num) and (not have_b or isinstance(b, num)):
        # number-only leaf: sc3 arithmetic on numbers (bi.mod etc.) is not this property's concern;
        # take whatever the lifted operator computes for a one-element channel list
        cl = _state['ugn'].ChannelList([a])
        r = apply_op(name, cl, b, have_b)
        return r[0]
    if name in BINOPS:
        return BINOPS[name](a, b)
    if name in UNOPS:
        return UNOPS[name](a)
    if name in BIN_METHODS:
        if isinstance(a, num):           # scalar leaf `number . unit`: the dispatching builtin
            return getattr(bi, name)(a, b)
        return getattr(a, name)(b)
    if name in UN_METHODS:
        return getattr(a, name)()
    raise ValueError(name)


def run_op(case):
    have_b = 'b' in case

    def observed():
        pre = make_pre(case['pre'])
        ctx = Ctx(case, pre)
        ctx.mark()
        out = {}
        try:
            a = ctx.value(case['a'])
            res = apply_op(case['op'], a, ctx.value(case['b']), True) if have_b else apply_op(case['op'], a)
            out['ret'] = ctx.term(res)
        except Exception as e:  # noqa
            out['exc'] = exc_name(e)
        out['nunits'] = len(ctx.created())
        return out

    def expected():
        pre = make_pre(case['pre'])
        ctx = Ctx(case, pre)
        ctx.mark()
        args = [case['a']] + ([case['b']] if have_b else [])

        def leaf(row, path):
            vals = [ctx.value(a) for a in row]
            return {'leaf': apply_op(case['op'], *vals, have_b=have_b)}
        out = {}
        try:
            out['ret'] = terms_of(law_tree(args, leaf), ctx)
        except LawError:
            out['exc'] = 'LawError'
        except Exception as e:  # noqa
            out['exc'] = exc_name(e)
        out['nunits'] = len(ctx.created())
        return out
    obs, e1 = in_build(observed)
    exp, e2 = in_build(expected)
    if e1 or e2:
        return {'infra': f'{e1!r} {e2!r}'}
    return {'obs': obs, 'exp': exp}


def run_meth(case):
    """ChannelList(self).name(*args) against [self[i].name(*args[i]) …] (one level, `flop` law)"""
    def observed():
        pre = make_pre(case['pre'])
        ctx = Ctx(case, pre)
        ctx.mark()
        out = {}
        try:
            cl = _state['ugn'].ChannelList([ctx.value(x) for x in case['self']])
            res = getattr(cl, case['name'])(*[ctx.value(a) for a in case['args']])
            out['ret'] = ctx.term(res)
        except Exception as e:  # noqa
            out['exc'] = exc_name(e)
        out['nunits'] = len(ctx.created())
        return out

    def expected():
        pre = make_pre(case['pre'])
        ctx = Ctx(case, pre)
        ctx.mark()
        cols = [{'c': case['self']}] + list(case['args'])
        lens = [len(items(a)) for a in cols if is_list(a)]
        out = {}
        try:
            if case['name'] == 'dup':          # n references to the same channel list
                cl = _state['ugn'].ChannelList([ctx.value(x) for x in case['self']])
                n = case['args'][0] if case['args'] else 2
                out['ret'] = terms_of({'chan': [{'leaf': cl}] * n}, ctx)
                out['nunits'] = len(ctx.created())
                return out
            if case['name'] == 'sum':          # ((0 + x0) + x1) + … with the real operator
                acc = 0
                for x in case['self']:
                    acc = acc + ctx.value(x)
                out['ret'] = terms_of({'leaf': acc}, ctx)
                out['nunits'] = len(ctx.created())
                return out
            if 0 in lens:
                raise LawError
            rows = []
            for i in range(max(lens)):
                row = [items(a)[i % len(items(a))] if is_list(a) else a for a in cols]
                vals = [ctx.value(a) for a in row]
                recv = vals[0]
                if isinstance(recv, (int, float)):
                    # a plain number channel answers through its graph-parameter wrapper (UGenScalar)
                    recv = _state['gpp'].ugen_param(recv)
                    if not hasattr(recv, case['name']):
                        raise LawError       # numbers do not answer this method: nothing to require
                rows.append({'leaf': getattr(recv, case['name'])(*vals[1:])})
            out['ret'] = terms_of({'chan': rows}, ctx)
        except LawError:
            out['exc'] = 'LawError'
        except Exception as e:  # noqa
            out['exc'] = exc_name(e)
        out['nunits'] = len(ctx.created())
        return out
    obs, e1 = in_build(observed)
    exp, e2 = in_build(expected)
    if e1 or e2:
        return {'infra': f'{e1!r} {e2!r}'}
    return {'obs': obs, 'exp': exp}


# ---- output units -----------------------------------------------------------------------------------

def run_out(case):
    """Out.ar(bus, output) etc.: records rows of _new1, the silence units, and the law evaluation
    (the same constructor on zero-free scalar rows)."""
    def get():
        return getattr(_state['iou'], case['cls'])

    shared = {}

    def observed():
        cls = get()
        pre = make_pre(case['pre'])
        ctx = Ctx(case, pre)
        ctx.shared = shared
        ctx.mark()
        out = {}
        with Recorder(cls, ctx) as rec:
            try:
                fixed = [ctx.value(a, f'f{i}') for i, a in enumerate(case['fixed'])]
                res = getattr(cls, case['meth'])(*fixed, ctx.value(case['output'], 'out'))
                out['ret'] = ctx.term(res)
            except Exception as e:  # noqa
                out['exc'] = exc_name(e)
            out['row'] = rec.top
            out['calls'] = list(rec.calls)
            out['tree'] = None
            if rec.results and 'exc' not in out:
                # Out returns nothing: rebuild the nesting from the recorded results is impossible,
                # the call list in creation order is the observable
                out['tree'] = ' '.join('{' + c + '}' for c in rec.calls)
        units = ctx.created()
        out['nunits'] = len(units)
        out['units'] = [ctx.term(u) for u in units if isinstance(u, cls)]
        out['silence'] = sum(1 for u in units if type(u).__name__ == 'DC')
        out['others'] = sorted({type(u).__name__ for u in units if not isinstance(u, cls)} - {'DC'})
        return out
    obs, e1 = in_build(observed)
    if e1:
        return {'infra': repr(e1)}
    # the same call with the same caller-owned argument objects in a second build
    obs2, e2 = in_build(observed)
    if e2:
        return {'infra': repr(e2)}
    n, changed = shared_report(shared)
    return {'obs': obs, 'again_same': obs2 == obs, 'again': None if obs2 == obs else obs2,
            'nshared': n, 'args_changed': changed}


# ---- utils with recording leaves --------------------------------------------------------------------

class Atom:
    def __init__(self, i):
        self.i = i


class Ap:
    def __init__(self, *xs):
        self.xs = xs


def _uval(a, atoms):
    if a is None or isinstance(a, (int, float)):
        return a
    if 'u' in a:
        return atoms.setdefault(a['u'], Atom(a['u']))
    if 's' in a:
        return a['s']
    if 'cw' in a:
        _init()
        return _state['ugn'].ChannelList(_uval(a['cw'], atoms))
    if 't' in a:
        return tuple(_uval(x, atoms) for x in a['t'])
    if 'l' in a:
        return [_uval(x, atoms) for x in a['l']]
    if 'c' in a:
        _init()
        return _state['ugn'].ChannelList([_uval(x, atoms) for x in a['c']])
    raise ValueError(a)


def _utok(x, strs):
    if x is None:
        return f'o{NONE_ID}'
    if isinstance(x, bool):
        return num_tok(int(x))
    if isinstance(x, (int, float)):
        return num_tok(x)
    if isinstance(x, Atom):
        return f'o{x.i}'
    if isinstance(x, str):
        return f'o{STR_BASE + strs.index(x)}'
    if isinstance(x, Ap):
        return '{' + ' '.join(_utok(i, strs) for i in x.xs) + '}'
    if isinstance(x, tuple):
        return ' '.join(['(t'] + [_utok(i, strs) for i in x] + [')'])
    if isinstance(x, list):
        _init()
        k = 'c' if isinstance(x, _state['ugn'].ChannelList) else 'l'
        return ' '.join([f'({k}'] + [_utok(i, strs) for i in x] + [')'])
    return f'?{type(x).__name__}'


def _opres(x, strs):
    """container kinds + applications"""
    if isinstance(x, Ap):
        return _utok(x, strs)
    if isinstance(x, tuple):
        return 't[' + ' '.join(_opres(i, strs) for i in x) + ']'
    if isinstance(x, list):
        k = 'c' if isinstance(x, _state['ugn'].ChannelList) else 'l'
        return k + '[' + ' '.join(_opres(i, strs) for i in x) + ']'
    return f'?{type(x).__name__}'


def _kind(t):
    _init()
    return {'t': tuple, 'l': list, 'c': _state['ugn'].ChannelList}[t]


def run_util(case):
    _init()
    utl = _state['utl']
    strs = strings_of(case)
    atoms = {}
    k = case['k']
    try:
        if k == 'lbinop':
            r = utl.list_binop(lambda x, y: Ap(x, y), _uval(case['a'], atoms), _uval(case['b'], atoms),
                               _kind(case['t']))
            return {'out': _opres(r, strs)}
        if k == 'lunop':
            r = utl.list_unop(lambda x: Ap(x), _uval(case['a'], atoms), _kind(case['t']))
            return {'out': _opres(r, strs)}
        if k == 'lnarop':
            r = utl.list_narop(lambda x, *a: Ap(x, *a), _uval(case['a'], atoms),
                               *[_uval(x, atoms) for x in case['args']], t=_kind(case['t']))
            return {'out': _opres(r, strs)}
        if k == 'wrapext':
            r = utl.wrap_extend([_uval(x, atoms) for x in case['items']], case['n'])
            return {'out': ' '.join(_utok(x, strs) for x in r)}
        if k == 'flop':
            r = utl.flop([_uval(x, atoms) for x in case['cols']])
            return {'out': ' '.join('{' + ' '.join(_utok(x, strs) for x in row) + '}' for row in r)}
        if k == 'perform':
            # ChannelList._multichannel_perform with recording elements
            calls = []

            class Elem(_state['gpp'].UGenParameter):
                def __init__(self, i):
                    super().__init__(self)
                    self.i = i

                def sel(self, *a):
                    calls.append(Ap(Atom(self.i), *a))
                    return calls[-1]
            cl = _state['ugn'].ChannelList([Elem(x['u']) for x in case['self']])
            r = cl._multichannel_perform('sel', *[_uval(x, atoms) for x in case['args']])
            ok = isinstance(r, _state['ugn'].ChannelList) and all(a is b for a, b in zip(r, calls)) \
                and len(r) == len(calls)
            return {'out': ' '.join(_utok(x, strs) for x in calls) + ('' if ok else ' BAD-RESULT')}
    except Exception as e:  # noqa
        return {'out': 'EXC:' + exc_name(e)}
    raise ValueError(k)


def run_one(case):
    k = case['k']
    if k == 'ctor':
        return run_ctor(case)
    if k == 'op':
        return run_op(case)
    if k == 'meth':
        return run_meth(case)
    if k == 'out':
        return run_out(case)
    return run_util(case)


def run(payload):
    _init()
    out = []
    for case in payload['cases']:
        try:
            out.append(run_one(case))
        except Exception as e:  # noqa
            import traceback
            out.append({'infra': traceback.format_exc()[-800:]})
    return out
