"""C05 / C10 implementation side: programs of the time model run on the REAL clocks.

  run_nrt(payload)  under sc3.init('nrt','ERROR'): root routine played, main.process()
  run_rt(payload)   under sc3.init('rt','ERROR') driven by harness/vtime.py: the real
                    SystemClock._run / TempoClock._run threads run in virtual time with a scripted
                    lateness per wake-up; every awake is recorded as an environment move
                    (advance to the physical time, run that clock's thread).

A case = {'tempi': ['2', '1/2', …], 'root': 'sys'|'app'|'t0'…, 'rts': [[act…], …],
          'late': {'mode': 'zero'|'common'|'perthread'|'random', 'vals': ['1/64', …]}}
Acts (tokens of lean/Sc3Verif/C05/Driver.lean): y d | hang | log | send b | spawn r clk | tempo i x |
beats i b | etempo i x | pause r | resume r | stop r | wait c | sig c | seed n | draw k | pull r (r.next() on a sub-stream).

Output per case: {'trace': 'R:… L:… | end=… pend=…'  (same text as the Lean driver's `dump`),
                  'moves': [['adv','1/8'], ['run','sys'], …]   (RT only),
                  'bundles': [[secs_rel, id], …]  decoded from the score / the datagrams,
                  'draw_values': …}
"""
import hashlib
import logging
import random
import signal
import zlib
import struct
from fractions import Fraction

LAT = 0.25          # latency used by `send b` for even b
LAT_ODD = 1.25      # … and for odd b (so bundle times are not monotone in send order)


def lat_of(b):
    return LAT if b % 2 == 0 else LAT_ODD
MAIN_SEED = 424242  # seed given to the main thread's generator (generator id 0)

_env = {}

# Every builtin random function and argument form (one entry per branch that reads the generator).
# harness/props/c10.py checks by `ast` that no function of builtins.py reading the generator is missing
# and that the number of generator reads per function is the one this table was written for.
FORM_NAMES = [
    'rand:float', 'rand:int+', 'rand:int-', 'rand2:float', 'rand2:int+', 'rand2:int-',
    'linrand:float', 'linrand:int+', 'linrand:int-', 'bilinrand:float', 'bilinrand:int+', 'bilinrand:int-',
    'sum3rand:float', 'coin', 'rrand:float', 'rrand:int-asc', 'rrand:int-desc', 'exprand',
    'xrand', 'xrand2:float', 'xrand2:int', 'gauss', 'choice', 'choices', 'shuffle', 'scramble', 'table_rand',
    # one full stream of a random list PATTERN object that all routines (and all plays) of the program share
    'Pshuffle', 'Prand', 'Pxrand',
]
PATTERN_FORMS = [i for i, n in enumerate(FORM_NAMES) if n[0] == 'P']
PAT_ITEMS = list(range(8))
RGEN_READS = {'rand': 3, 'rand2': 3, 'linrand': 6, 'bilinrand': 6, 'sum3rand': 3, 'coin': 1, 'rrand': 3,
              'exprand': 1, 'choice': 1, 'choices': 1, 'shuffle': 2}


def make_forms(bi):
    def shuffled():
        l = list(range(6))
        bi.shuffle(l)
        return l
    f = {
        'rand:float': lambda: bi.rand(1.0), 'rand:int+': lambda: bi.rand(7), 'rand:int-': lambda: bi.rand(-7),
        'rand2:float': lambda: bi.rand2(1.5), 'rand2:int+': lambda: bi.rand2(5), 'rand2:int-': lambda: bi.rand2(-5),
        'linrand:float': lambda: bi.linrand(2.0), 'linrand:int+': lambda: bi.linrand(6),
        'linrand:int-': lambda: bi.linrand(-6), 'bilinrand:float': lambda: bi.bilinrand(2.0),
        'bilinrand:int+': lambda: bi.bilinrand(6), 'bilinrand:int-': lambda: bi.bilinrand(-6),
        'sum3rand:float': lambda: bi.sum3rand(1.0), 'coin': lambda: bi.coin(0.5),
        'rrand:float': lambda: bi.rrand(1.0, 3.0), 'rrand:int-asc': lambda: bi.rrand(2, 90),
        'rrand:int-desc': lambda: bi.rrand(90, 2), 'exprand': lambda: bi.exprand(1.0, 8.0),
        'xrand': lambda: bi.xrand(8, 3), 'xrand2:float': lambda: bi.xrand2(2.0), 'xrand2:int': lambda: bi.xrand2(5, 1),
        'gauss': lambda: bi.gauss(0.0, 1.0), 'choice': lambda: bi.choice([1, 2, 3, 4, 5]),
        'choices': lambda: bi.choices([1, 2, 3], [1, 2, 1]), 'shuffle': shuffled,
        'scramble': lambda: bi.scramble(list(range(6))), 'table_rand': lambda: bi.table_rand([0.0, 1.0, 4.0]),
    }
    from sc3.seq.patterns import listpatterns as lp
    from sc3.base.stream import stream

    def pattern_form(cls, repeats, count):
        shared = cls(PAT_ITEMS, repeats)

        def pull(p=None):
            s = stream(shared if p is None else p)
            return [s.next() for _ in range(count)]
        pull.fresh = lambda: pull(cls(PAT_ITEMS, repeats))     # the same draw from a pattern object never used before
        return pull
    f['Pshuffle'] = pattern_form(lp.Pshuffle, 1, len(PAT_ITEMS))
    f['Prand'] = pattern_form(lp.Prand, 4, 4)
    f['Pxrand'] = pattern_form(lp.Pxrand, 4, 4)
    return [f[n] for n in FORM_NAMES]


def fr(x):
    if isinstance(x, float) and (x != x or x in (float('inf'), float('-inf'))):
        return str(x)
    f = Fraction(x)
    return str(f.numerator) if f.denominator == 1 else f'{f.numerator}/{f.denominator}'


def num(tok):
    f = Fraction(tok)
    return int(f) if f.denominator == 1 else float(f)


class Prog:
    """One program instantiated on real objects (mode independent)."""

    def __init__(self, env, case, start):
        self.env, self.case, self.start = env, case, start
        self.main, self.stm, self.clk = env['main'], env['stm'], env['clk']
        self.events, self.moves, self.draws = [], [], []
        self.R = [None] * len(case['rts'])
        self.idx = {}
        nconds = 1 + max([a[1] for s in case['rts'] for a in s if a[0] in ('wait', 'sig', 'unh')], default=-1)
        self.conds = [self.stm.Condition() for _ in range(nconds)]
        self.tempo = [self.clk.TempoClock(num(t)) for t in case['tempi']]
        self.addr = env['NetAddr']('127.0.0.1', 57110)
        self.gens, self.draw_values, self.draw_diag, self.law, self.saved = {}, [], [], {}, {}
        self.yar_at = {}
        self.forms = make_forms(env['bi'])
        run = self

        class RR(self.stm.Routine):
            def __awake__(self, clock):
                run.moves.append((run.cname(clock), run.env['now']()))
                return super().__awake__(clock)
        self.RR = RR

    def cname(self, c):
        if c is self.clk.SystemClock:
            return 'sys'
        if c is self.clk.AppClock:
            return 'app'
        for i, t in enumerate(self.tempo):
            if c is t:
                return f't{i}'
        return '?'

    def clock(self, tok):
        if tok == 'sys':
            return self.clk.SystemClock
        if tok == 'app':
            return self.clk.AppClock
        return self.tempo[int(tok[1:])]

    def register(self, obj, key):
        """Remember a generator OBJECT under the seed it was created with (first registration wins)."""
        if id(obj) not in self.gens:
            self.gens[id(obj)] = [obj, key, 0, []]      # object, seed, draws so far, forms drawn since the seed

    def draw(self, i, form):
        """Call one builtin random function; report WHICH generator object it read, by comparing the states of
        all known generator objects before and after (independent of what the function computes)."""
        before = {k: g[0].getstate() for k, g in self.gens.items()}
        fn = self.forms[form % len(self.forms)]
        fresh = getattr(fn, 'fresh', None)
        own = self.main.current_tt._rgen
        st0 = own.getstate()
        value = fn()
        changed = [k for k, g in self.gens.items() if g[0].getstate() != before[k]]
        if fresh is not None:
            # a random pattern shared with other routines / earlier plays: what a routine gets from it depends on the
            # routine's generator only, so a pattern object never used before gives the same values from the same state
            st1 = own.getstate()
            own.setstate(st0)
            ref = fresh()
            if ref != value or own.getstate() != st1:
                self.draw_diag.append(f'{FORM_NAMES[form % len(FORM_NAMES)]}({PAT_ITEMS}) in routine {i}: the shared '
                                      f'pattern object gave {value!r}; a new pattern object gives {ref!r} from the '
                                      f'same generator state (the values depend on who used the pattern before)')
            own.setstate(st1)
        self.draw_values.append(f'{FORM_NAMES[form % len(FORM_NAMES)]}={value!r}')
        if len(changed) == 1:
            g = self.gens[changed[0]]
            self.events.append(f'D:{i}:{g[1]}:{g[2]}')
            g[2] += 1
            # the value is a function of (seed, the forms drawn from that stream so far): equal seeds in two
            # routines, a second play and a restored rand_state must all reproduce it
            g[3] = g[3] + [form % len(FORM_NAMES)]
            k = (g[1], tuple(g[3]))
            if self.law.setdefault(k, repr(value)) != repr(value):
                self.draw_diag.append(f'{FORM_NAMES[form % len(FORM_NAMES)]} in routine {i}: draw #{g[2] - 1} of a '
                                      f'generator seeded {g[1]} gave {value!r}, the same seed and history gave '
                                      f'{self.law[k]} before')
        else:
            keys = [self.gens[k][1] for k in changed]
            self.events.append(f'D:{i}:?:{len(changed)}')
            self.draw_diag.append(f'{FORM_NAMES[form % len(FORM_NAMES)]} in routine {i} read generators {keys}')
        return value

    def make_sub_body(self, i):
        """Body of a routine only ever pulled with next() from another body (a sub-stream)."""
        script, run, main, bi = self.case['rts'][i], self, self.main, self.env['bi']

        def body():
            for a in script:
                op = a[0]
                if op == 'y':
                    yield num(a[1])
                elif op == 'seed':
                    main.current_tt.rand_seed = a[1]
                    run.register(main.current_tt._rgen, a[1])
                elif op == 'draw':
                    run.draw(i, a[1] if len(a) > 1 else 0)
                elif op == 'log':
                    # a routine resumed by next() from inside a playing routine reads the caller's logical time
                    sysc = run.clk.SystemClock
                    run.events.append(f'L:{i}:{fr(sysc.beats)}:{fr(sysc.seconds - run.start)}')
                elif op == 'spawn':
                    r = run.R[a[1]] or run.create(a[1])
                    r.play(run.clock(a[2]), 0)
        body.__qualname__ = f'sub{i}'
        return body

    def create(self, i, sub=False):
        r = self.RR(self.make_sub_body(i) if sub else self.make_body(i))
        self.R[i] = r
        self.idx[id(r)] = i
        return r

    def make_body(self, i):
        script, run, stm, main = self.case['rts'][i], self, self.stm, self.main
        bi = self.env['bi']

        def resumed(k, clock):
            run.events.append(f'R:{i}:{k}:{run.cname(clock)}:{fr(clock.beats)}:{fr(clock.seconds - run.start)}')

        def body(inval):
            me, clock = inval
            last = 0.0
            pseed = None
            # `yar d` = raise YieldAndReset(d) once: the routine waits d and its function starts over; the restarted
            # body goes on after the `yar` action (to the script it is a yield)
            skip = run.yar_at.get(i)
            resumed(0 if skip is None else skip + 1, clock)
            for k, a in enumerate(script):
                op = a[0]
                if skip is not None and k <= skip:
                    continue
                if op == 'yar':
                    run.yar_at[i] = k
                    raise stm.YieldAndReset(num(a[1]))
                elif op == 'pseed':
                    # one more value of a stream of Pseed(seed, Pwhite(0.0, 1.0)) that this routine pulls between its
                    # own draws / the routines it makes: the k-th value is the k-th number of that seed, and no
                    # generator of the program is read or replaced
                    run.events.append(f'L:{i}:{fr(clock.beats)}:{fr(clock.seconds - run.start)}')
                    if pseed is None:
                        from sc3.seq.patterns.filterpatterns import Pseed
                        from sc3.seq.patterns.valuepatterns import Pwhite
                        pseed = [stm.stream(Pseed(7 + i, Pwhite(0.0, 1.0))), random.Random(7 + i), 0]
                    before = {g: v[0].getstate() for g, v in run.gens.items()}
                    own = main.current_tt._rgen
                    v, ref = pseed[0].next(), pseed[1].random()
                    pseed[2] += 1
                    run.draw_values.append(f'Pseed={v!r}')
                    changed = [run.gens[g][1] for g in run.gens if run.gens[g][0].getstate() != before[g]]
                    if v != ref or changed or main.current_tt._rgen is not own:
                        run.draw_diag.append(f'Pseed({7 + i}, Pwhite(0.0, 1.0)) pulled by routine {i}: value #{pseed[2]} '
                                             f'is {v!r}, seed {7 + i} gives {ref!r}; generators read meanwhile: '
                                             f'{changed}; the puller\'s generator object was '
                                             f'{"kept" if main.current_tt._rgen is own else "replaced"}')
                elif op == 'y':
                    me, clock = yield num(a[1])
                    resumed(k + 1, clock)
                elif op == 'hang':
                    me, clock = yield 'hang'
                    resumed(k + 1, clock)
                elif op == 'yinf':
                    me, clock = yield float('inf')
                    resumed(k + 1, clock)
                elif op == 'log':
                    run.events.append(f'L:{i}:{fr(clock.beats)}:{fr(clock.seconds - run.start)}')
                elif op == 'note':
                    run.events.append(f'L:{i}:{fr(clock.beats)}:{fr(clock.seconds - run.start)}')
                    if run.env['mode'] == 'nrt':
                        run.env['note'](a[1])
                elif op == 'send':
                    run.addr.send_bundle(lat_of(a[1]), ['/c10', float(zlib.crc32(repr(last).encode()) % 4096), a[1]])
                    run.events.append(f'B:{i}:{a[1]}:{fr(clock.seconds - run.start)}')
                elif op == 'spawn' and len(a) > 3 and run.R[a[1]] is None:
                    # the decorator entry point: @routine.run(clock, quant) creates the routine and plays it (the
                    # recording Routine subclass is what the decorator instantiates, nothing else is touched)
                    orig = stm.Routine
                    stm.Routine = run.RR
                    try:
                        r = stm.routine.run(run.clock(a[2]), 0)(run.make_body(a[1]))
                    finally:
                        stm.Routine = orig
                    run.R[a[1]] = r
                    run.idx[id(r)] = a[1]
                elif op == 'spawn':
                    r = run.R[a[1]] or run.create(a[1])
                    r.play(run.clock(a[2]), 0)
                elif op == 'tempo':
                    try:
                        run.tempo[a[1]].tempo = num(a[2])
                    except ValueError:
                        run.events.append(f'X:{i}:{i}')
                elif op == 'etempo':
                    run.tempo[a[1]].etempo(num(a[2]))
                elif op == 'beats':
                    run.tempo[a[1]].beats = num(a[2])
                elif op == 'raise':
                    raise ValueError('c05 body fails')
                elif op == 'defer':
                    def task(t=a[1], c=run.clock(a[2])):
                        # a plain function scheduled with defer(func, delta, clock) = clock.sched(delta, func)
                        run.moves.append((run.cname(c), run.env['now']()))
                        run.events.append(f'R:{t}:0:{run.cname(c)}:{fr(c.beats)}:{fr(c.seconds - run.start)}')
                        for b in run.case['rts'][t]:
                            if b[0] == 'log':
                                run.events.append(f'L:{t}:{fr(c.beats)}:{fr(c.seconds - run.start)}')
                    run.clk.defer(task, num(a[3]), run.clock(a[2]))
                elif op == 'spawnabs':
                    # a child started with SystemClock.sched_abs(<logical now> + d, child)
                    r = run.R[a[1]] or run.create(a[1])
                    sysclk = run.clk.SystemClock
                    sysclk.sched_abs(sysclk.seconds + num(a[2]), r)
                elif op == 'unh':
                    run.conds[a[1]].unhang()
                elif op in ('pause', 'stop', 'reset'):
                    r = run.R[a[1]]
                    if r is not None:
                        try:
                            getattr(r, op)()
                        except stm.RoutineException:
                            run.events.append(f'X:{i}:{a[1]}')
                elif op == 'resume':
                    r = run.R[a[1]]
                    if r is not None:
                        r.resume(quant=0)
                elif op == 'wait':
                    yield from run.conds[a[1]].wait()
                    clock = run.R[i]._clock
                    resumed(k + 1, clock)
                elif op == 'sig':
                    run.conds[a[1]].test = True
                    run.conds[a[1]].signal()
                elif op == 'seed':
                    main.current_tt.rand_seed = a[1]
                    run.register(main.current_tt._rgen, a[1])
                elif op == 'yv':
                    me, clock = yield {'T': True, 'F': False, 'N': None, 'S': 'later', 'O': object()}[a[1]]
                    resumed(k + 1, clock)
                elif op == 'save':
                    r = run.R[a[2]]
                    if r is not None:
                        st = r.rand_state               # read from inside (a[2] == i) or from outside
                        if st != r._rgen.getstate():
                            run.draw_diag.append(f'rand_state of routine {a[2]} read by routine {i} is not the state '
                                                 f'of routine {a[2]}\'s own generator')
                        hit = [g for g in run.gens.values() if g[0].getstate() == st]
                        run.saved[a[1]] = (st, (hit[0][1], hit[0][2], list(hit[0][3])) if hit else None)
                elif op == 'restore':
                    r, sv = run.R[a[2]], run.saved.get(a[1])
                    if r is not None and sv is not None:
                        r.rand_state = sv[0]
                        g = run.gens.get(id(r._rgen))
                        if g is not None and sv[1] is not None:
                            g[1], g[2], g[3] = sv[1][0], sv[1][1], list(sv[1][2])
                elif op == 'pull':
                    if a[1] != i:
                        r = run.R[a[1]] or run.create(a[1], sub=True)
                        try:
                            r.next()
                        except stm.StopStream:
                            pass
                elif op == 'draw':
                    last = run.draw(i, a[1] if len(a) > 1 else 0)
                else:
                    raise AssertionError(a)
        body.__qualname__ = f'body{i}'
        return body

    def start_root(self):
        self.main._m_rgen.seed(MAIN_SEED)
        self.register(self.main._m_rgen, 'M')
        r0 = self.create(0)
        r0.play(self.clock(self.case['root']), 0)

    def replay(self, start):
        """Play the SAME routine objects again: every existing routine is reset(), clocks and conditions are
        new (NRT: after main.reset()); generators are whatever the objects still hold."""
        self.start = start
        self.events, self.moves, self.draw_values, self.draw_diag = [], [], [], []
        for r in self.R:
            if r is not None:
                r.reset()
        self.tempo = [self.clk.TempoClock(num(t)) for t in self.case['tempi']]
        self.conds = [self.stm.Condition() for _ in self.conds]

    def play_root_again(self):
        self.R[0].play(self.clock(self.case['root']), 0)


RT_CASE_TIMEOUT = 25      # wall-clock seconds for one program in virtual time (normally < 0.1 s)


class Livelock(Exception):
    pass


def _alarm(signum, frame):
    raise Livelock()


def boot_nrt(payload_has_notes=False):
    if _env:
        return _env
    import sc3
    sc3.init('nrt', 'ERROR')
    logging.disable(logging.CRITICAL)
    from sc3.base.main import main
    from sc3.base import stream as stm, clock as clk, builtins as bi
    from sc3.base.netaddr import NetAddr
    _env.update(main=main, stm=stm, clk=clk, bi=bi, NetAddr=NetAddr, mode='nrt',
                now=lambda: main.main_tt._m_seconds, note=lambda k: None)
    if payload_has_notes:
        from sc3.all import synthdef, EnvGen, Env, RLPF, Saw, Out, Pan2, Mix
        from sc3.seq.event import event

        @synthdef
        def c10ping(freq=440, amp=0.1, pan=0, gate=1, out=0, cutoff=2000, rq=0.5, detune=0.1):
            env = EnvGen.kr(Env.asr(), gate, done_action=2)
            sig = RLPF.ar(Saw.ar([freq, freq + detune]), cutoff, rq) * env * amp
            Out.ar(out, Pan2.ar(Mix(sig), pan))
        _env['note'] = lambda k: event({'instrument': 'c10ping', 'midinote': 60 + k, 'dur': 0.5, 'amp': 0.1 + k / 100,
                                        'pan': (k - 6) / 6, 'cutoff': 300.0 + 100 * k, 'rq': 0.3}).play()
    return _env


def nrt_blank(err):
    return {'raw_sha1': None, 'draw_values': [], 'draw_diag': [], 'trace': ' | end=0 pend=0', 'bundles': [],
            'task_times': [], 'elapsed': '0', 'error': err}


def nrt_play(env, p, case, first):
    """One score.  Whatever the code under test does (exception, hang) becomes the `error` of the output."""
    main = env['main']
    err, score = None, None
    signal.signal(signal.SIGALRM, _alarm)
    signal.setitimer(signal.ITIMER_REAL, RT_CASE_TIMEOUT)
    try:
        if first:
            p.start_root()
        else:
            main.reset()                 # documented: "Reset sc3 time, scheduler and command scores"
            p.replay(0)
            p.play_root_again()
        score = main.process(num(case.get('tail', '0')))
    except Livelock:
        err = f'hang: no answer within {RT_CASE_TIMEOUT} s'
    except BaseException as e:
        err = f'{type(e).__name__}: {e}'
    finally:
        signal.setitimer(signal.ITIMER_REAL, 0)
    try:
        end = main.main_tt._m_seconds
        pend = sum(1 for _ in main._clock_scheduler.queue)
        bundles = []
        if score is not None:
            for b in score.list:
                if len(b) == 2 and b[1][0] == '/c10':
                    bundles.append([fr(b[0] - lat_of(b[1][2])), b[1][2]])
        times = [fr(t) for _, t in p.moves]
        raw = hashlib.sha1(bytes(score.raw)).hexdigest() if score is not None else None
        return {'raw_sha1': raw, 'draw_values': p.draw_values, 'draw_diag': p.draw_diag,
                'trace': ' '.join(p.events) + f' | end={fr(end)} pend={pend}', 'bundles': bundles,
                'task_times': times, 'elapsed': fr(main.elapsed_time()), 'error': err}
    except BaseException as e:
        return nrt_blank(err or f'{type(e).__name__}: {e}')


def nrt_case(case):
    env = boot_nrt()
    main = env['main']
    try:
        # cases are independent: start from a clean library state (repairing what an earlier case left)
        main.current_tt = main.main_tt
        main.reset()
        main.current_tt = main.main_tt
        p = Prog(env, case, 0)
    except BaseException as e:
        return nrt_blank(f'setup: {type(e).__name__}: {e}')
    out = nrt_play(env, p, case, True)
    if case.get('rerun'):
        out['rerun'] = nrt_play(env, p, case, False)
    return out


def run_nrt(payload):
    boot_nrt(any(a[0] == 'note' for c in payload['cases'] for sc in c['rts'] for a in sc))
    return [nrt_case(c) for c in payload['cases']]


# ---- RT under virtual time --------------------------------------------------------------------

def boot_rt():
    if _env:
        return _env
    from harness import vtime
    vt = vtime.boot(start=64.0, epoch=1_700_000_000.0)
    logging.disable(logging.CRITICAL)
    from sc3.base.main import main
    from sc3.base import stream as stm, clock as clk, builtins as bi
    from sc3.base.netaddr import NetAddr
    _env.update(main=main, stm=stm, clk=clk, bi=bi, NetAddr=NetAddr, mode='rt', vt=vt,
                now=lambda: vt.now, sent=[])
    main._osc_interface._send = lambda msg, target: _env['sent'].append(bytes(msg.dgram))
    return _env


def rt_case(case):
    env = boot_rt()
    if env.get('broken'):
        return {'skipped': True, 'trace': ' | end=0 pend=0', 'moves': [], 'bundles': [], 'start': '0',
                'error': None, 'phys': []}
    try:
        out = rt_play(env, case, None)
        if case.get('rerun') and not env.get('broken') and out.get('_prog') is not None:
            out['rerun'] = rt_play(env, case, out['_prog'])
            out['rerun'].pop('_prog', None)
        out.pop('_prog', None)
        return out
    except BaseException as e:
        # the code under test failed outside a guarded region: an observation of THIS case; the virtual-time
        # state can no longer be trusted, the remaining cases are skipped
        env['broken'] = True
        signal.setitimer(signal.ITIMER_REAL, 0)
        return {'trace': ' | end=0 pend=0', 'moves': [], 'bundles': [], 'start': '0', 'phys': [],
                'draw_values': [], 'draw_diag': [], 'error': f'crash: {type(e).__name__}: {e}'}


def rt_play(env, case, prog):
    vt, main, clk = env['vt'], env['main'], env['clk']
    start = (int(vt.now) // 64 + 1) * 64.0
    vt.advance_to(start)
    env['sent'].clear()
    first = prog is None
    p = Prog(env, case, start) if first else prog
    if not first:
        p.replay(start)              # same routine objects, reset; new clocks
    vt.settle()                      # tempo clock threads reach their first wait
    lt = case.get('late') or {'mode': 'zero', 'vals': ['0']}
    vals = [float(Fraction(v)) for v in lt['vals']] or [0.0]
    per, cnt = {}, [0]

    def late(rec):
        if lt['mode'] == 'zero':
            return 0.0
        if lt['mode'] == 'common':
            return vals[0]
        if lt['mode'] == 'perthread':
            if rec.label not in per:
                per[rec.label] = vals[len(per) % len(vals)]
            return per[rec.label]
        cnt[0] += 1
        return vals[cnt[0] % len(vals)]

    err = None
    maxlate = max([0.0] + vals) if lt['mode'] != 'zero' else 0.0
    signal.signal(signal.SIGALRM, _alarm)
    signal.setitimer(signal.ITIMER_REAL, RT_CASE_TIMEOUT)
    try:
        if first:
            p.start_root()
        else:
            p.play_root_again()
        # own drain loop (vt.drain does not progress with late > 0)
        idle, limit, guard = False, start + 8192.0, 0
        while True:
            vt.settle()
            d = vt.next_deadline()
            if d is None:
                idle = True
                break
            guard += 1
            if d > limit or guard > 100000:
                break
            vt.run_until(max(d, vt.now) + maxlate, late)
        if not idle:
            err = 'not idle at the horizon'
    except Livelock:
        # a clock thread spins without virtual time advancing; the process cannot be reused
        env['broken'] = True
        signal.setitimer(signal.ITIMER_REAL, 0)
        return {'trace': ' '.join(p.events) + ' | end=0 pend=0', 'moves': [], 'bundles': [],
                'start': fr(start), 'phys': [],
                'error': f'livelock: the clock threads did not settle within {RT_CASE_TIMEOUT} s of wall-clock '
                         f'time at virtual time {fr(vt.now - start)} s'}
    except Exception as e:
        err = f'{type(e).__name__}: {e}'
    finally:
        signal.setitimer(signal.ITIMER_REAL, 0)
    dead = [r.label for r in [vt.thread('SystemClock')] if r.done]
    pend = len(list(clk.SystemClock._task_queue)) + sum(len(list(t._task_queue)) for t in p.tempo)
    end = main.main_tt._m_seconds
    # environment moves in the order the tasks were woken
    moves, prev = [], start
    for c, now in p.moves:
        if now != prev:
            moves.append(['adv', fr(now - prev)])
            prev = now
        moves.append(['run', c])
    bundles = []
    off = clk.SystemClock._elapsed_osc_offset
    for d in env['sent']:
        if d[:8] == b'#bundle\0':
            tt = struct.unpack('>Q', d[8:16])[0]
            i = d.find(b'/c10')
            if i >= 0:
                ident = struct.unpack('>i', d[-4:])[0]
                bundles.append([fr(Fraction(tt - off, 2 ** 32) - Fraction(lat_of(ident)) - Fraction(start)), ident])
    # tidy up for the next case
    for t in p.tempo:
        t.stop()
    clk.SystemClock.clear()
    vt.settle()
    if dead:
        err = (err or '') + f' dead threads: {dead}'
    return {'trace': ' '.join(p.events) + f' | end={fr(end - start)} pend={pend}', 'moves': moves,
            'bundles': bundles, 'start': fr(start), 'error': err, 'draw_values': p.draw_values,
            'draw_diag': p.draw_diag, 'phys': [fr(now - start) for _, now in p.moves], '_prog': p}


def run_rt(payload):
    return [rt_case(c) for c in payload['cases']]
