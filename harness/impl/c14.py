"""C14 implementation side: play real sc3 events / event patterns in NRT mode and return the
note commands of the score `main.process()` renders."""
import logging
from fractions import Fraction


class _Errors(logging.Handler):
    def __init__(self):
        super().__init__(logging.ERROR)
        self.n = 0
        self.last = ''

    def emit(self, record):
        self.n += 1
        txt = record.getMessage()
        if record.exc_info and record.exc_info[1] is not None:
            import traceback
            tb = traceback.extract_tb(record.exc_info[2])
            where = f'{tb[-1].filename.split("/")[-1]}:{tb[-1].name}' if tb else ''
            txt += f' | {type(record.exc_info[1]).__name__}: {record.exc_info[1]} @ {where}'
        self.last = txt[:300]


def num(q, as_int=False):
    fr = Fraction(q)
    if as_int and fr.denominator == 1:
        return int(fr)
    return float(fr)


def val(v):
    from sc3.seq.event import Rest
    from sc3.seq.scale import Scale
    if v == 'none':
        return None
    k = v[0]
    if k == 'n':
        return num(v[1])
    if k == 'ni':
        return num(v[1], True)
    if k == 'r':
        return Rest(num(v[1]))
    if k == 'ri':
        return Rest(num(v[1], True))
    if k == 'ra':                # arithmetic on values (Rest or plain) done by Python itself
        import operator
        f = {'add': operator.add, 'sub': operator.sub, 'mul': operator.mul, 'div': operator.truediv}[v[1]]
        return f(val(v[2]), val(v[3]))
    if k == 's':
        return v[1]
    if k == 'b':
        return bool(v[1])
    if k == 'sc':
        return Scale(list(v[1:]))
    if k == 'sct':
        from sc3.seq.scale import Tuning
        return Scale(list(v[2:]), Tuning.et(int(v[1])))
    raise ValueError(v)


def vseq(s):
    from sc3.seq.patterns.listpatterns import Pseq
    if s[0] == 'finop':          # k (op) Pseq([...]) or Pseq([...]) (op) k: element-wise through Pbinop
        import operator
        from sc3.seq.patterns.listpatterns import Pseq as _Pseq
        f = {'add': operator.add, 'sub': operator.sub, 'mul': operator.mul, 'div': operator.truediv}[s[1]]
        p = _Pseq([val(x) for x in s[4:]], 1)
        return f(val(s[3]), p) if s[2] == 'L' else f(p, val(s[3]))
    kind, vals = s[0], [val(x) for x in s[1:] if x != 'seq']
    if kind == 'cyc':
        if len(vals) == 1 and s[-1] != 'seq':
            return vals[0]                      # a plain value in the Pbind
        return Pseq(vals, float('inf'))
    return Pseq(vals, 1)


def binds(b, tup=None):
    if tup is None:
        return {k: vseq(s) for k, s in b}
    # rows tup and tup+1 given as ONE tuple key whose values are lists of two items: the same events
    from sc3.seq.patterns.listpatterns import Pseq
    from math import gcd
    out = {}
    for i, (k, s) in enumerate(b):
        if i == tup:
            (k2, s2) = b[i + 1]
            v1 = [val(x) for x in s[1:] if x != 'seq']
            v2 = [val(x) for x in s2[1:] if x != 'seq']
            if s[0] == 'fin':
                n = min(len(v1), len(v2))
                out[(k, k2)] = Pseq([[v1[j], v2[j]] for j in range(n)], 1)
            else:
                n = len(v1) * len(v2) // gcd(len(v1), len(v2))
                out[(k, k2)] = Pseq([[v1[j % len(v1)], v2[j % len(v2)]] for j in range(n)], float('inf'))
        elif i == tup + 1:
            continue
        else:
            out[k] = vseq(s)
    return out


def epat(t):
    from sc3.seq.patterns.eventpatterns import Pbind, Ppar, Pchain
    from sc3.seq.patterns.filterpatterns import Pdur, Pdelta
    k = t[0]
    if k == 'bind':
        return Pbind(binds(t[1], t[2]['tuple'] if len(t) > 2 else None))
    if k == 'chain':
        if len(t) > 3 and t[3] == 'method':
            return Pchain(Pbind(binds(t[1]))).chain(epat(t[2]))     # the method form of Pchain(a, b)
        return Pchain(Pbind(binds(t[1])), epat(t[2]))
    if k == 'mono':
        from sc3.seq.patterns.eventpatterns import Pmono
        return Pmono(t[1], binds(t[3]), bool(t[2]))
    if k == 'monop':
        from sc3.seq.patterns.eventpatterns import Pmono
        return Pmono(t[1], binds(t[2]))
    if k == 'seq':
        from sc3.seq.patterns.listpatterns import Pseq
        return Pseq([epat(x) for x in t[1:]], 1)
    if k == 'pn':
        from sc3.seq.patterns.filterpatterns import Pn
        return Pn(epat(t[2]), int(t[1]))
    if k == 'par':
        return Ppar(*[epat(x) for x in t[1:]])
    if k == 'dur':
        if len(t) > 4:
            return Pdur(num(t[1]), epat(t[3]), num(t[2]), quant=num(t[4]))
        return Pdur(num(t[1]), epat(t[3]), num(t[2]))
    if k == 'delta':
        if len(t) > 3 and t[3] == 'pad':
            return epat(t[2])            # the silence is the quant padding of the Pdur before it
        return Pdelta(num(t[1]), epat(t[2]))
    raise ValueError(t)


def make_def(name, controls):
    from sc3.synth.synthdef import SynthDef
    from sc3.synth.ugens.inout import Out
    from sc3.synth.ugens.oscillators import SinOsc
    from sc3.synth.ugens.envgen import EnvGen
    from sc3.synth.envelope import Env
    args = ', '.join(f'{c}={i + 1}' for i, c in enumerate(controls))
    use = ' + '.join(controls) if controls else '0'
    body = f'def f({args}):\n    Out.ar(0, SinOsc.ar(440) * ({use}))\n'
    if 'gate' in controls:
        body = (f'def f({args}):\n    Out.ar(0, SinOsc.ar(440) * ({use}) * '
                f'EnvGen.kr(Env.asr(), gate, done_action=2))\n')
    ns = dict(Out=Out, SinOsc=SinOsc, EnvGen=EnvGen, Env=Env)
    exec(body, ns)
    SynthDef(name, ns['f']).add()


def fmt_arg(a):
    if isinstance(a, bool):
        return ['n', repr(float(a))]
    if isinstance(a, (int, float)):
        return ['n', repr(float(a))]
    if isinstance(a, str):
        return ['s', a]
    return ['?', type(a).__name__]


_SECOND = []


def second_server():
    """A second, non-default server whose client id is 2 (as a login reply would assign it)."""
    if not _SECOND:
        from sc3.base.netaddr import NetAddr
        from sc3.synth.server import Server, ServerOptions
        opt = ServerOptions()
        opt.max_logins = 4
        s2 = Server('second', NetAddr('127.0.0.1', 57111), opt)
        s2._set_client_id(2)
        _SECOND.append(s2)
    return _SECOND[0]


def run_case(case, errs):
    from sc3.base.main import main
    from sc3.base.stream import routine
    from sc3.seq.event import event
    from sc3.synth.server import Server
    from sc3.synth.synthdesc import SynthDescLib
    main.reset()
    Server.default.latency = num(case['lat'])
    s2 = None
    if case.get('server2'):
        s2 = second_server()
        s2.latency = num(case['lat'])

    def evdict(kvs):
        d = {k: val(v) for k, v in kvs}
        if s2 is not None:
            d['server'] = s2             # played on the second server: its default group is the target
        return d
    for d in case['defs']:
        make_def(d['name'], d['controls'])
        if d.get('keep_gate'):
            SynthDescLib.default.at(d['name']).keep_gate = True
    prog = case['prog']
    t0 = num(prog[1])
    before = errs.n
    build_error = []

    def body():
        yield t0
        try:
            if prog[0] == 'event' and len(prog) > 3:
                # play(dict, **keywords): keywords repeat keys of the dict and override them
                from sc3.base.play import play as _play
                kw = {k: val(v) for k, v in prog[2] if k in prog[3]}
                d = {k: (1 if k in prog[3] else val(v)) for k, v in prog[2]}
                if s2 is not None:
                    d['server'] = s2
                _play(d, **kw)
                return
            if prog[0] in ('event', 'replay', 'redef'):
                obj = event(evdict(prog[2]))
            else:
                obj = epat(prog[2])
        except Exception as e:           # not playable at all
            build_error.append(type(e).__name__)
            return
        if prog[0] == 'restart':
            # stop the player mid-way, later play it again from the beginning (documented reset=True)
            player = obj.play()
            yield num(prog[3])
            player.stop()
            yield num(prog[4])
            player.play(reset=True)
            return
        obj.play()
        if prog[0] == 'redef':
            # the SynthDef is added again under the same name with other controls, then an equal event plays
            yield num(prog[3])
            d = prog[4]
            make_def(d['name'], d['controls'])
            if d.get('keep_gate'):
                SynthDescLib.default.at(d['name']).keep_gate = True
            event(evdict(prog[2])).play()
        if prog[0] == 'replay':
            # the same event OBJECT (or a copy of the already played object) played again later
            for pl in prog[3]:
                dt, mode = pl[0], pl[1]
                yield num(dt)
                if len(pl) > 2:                   # a key of the event object is changed between two plays
                    obj[pl[2][0]] = val(pl[2][1])
                (obj if mode == 'same' else obj.copy()).play()

    r = routine(body)
    r.play()
    score = main.process(1.0)
    out = []
    end = None
    for entry in score.list:
        t = entry[0]
        for msg in entry[1:]:
            if msg[0] == '/c_set':
                end = repr(float(t) - 1.0)        # time of the last wake-up (tail = 1.0)
            if msg[0] == '/s_new' and s2 is not None:
                # target group relative to the event's server: its default group reads 1, anything else is foreign
                g2 = s2.default_group.node_id
                msg = list(msg)
                msg[4] = 1 if msg[4] == g2 else msg[4] + 1000000
            if msg[0] in ('/s_new', '/n_set', '/n_free'):
                out.append([repr(float(t)), msg[0]] + [fmt_arg(a) for a in msg[1:]])
    if prog[0] == 'restart':
        end = None                      # stale wake-ups of the stopped pass may come last
    return {'msgs': out, 'end': end, 'errors': errs.n - before, 'build_error': build_error,
            'error_text': errs.last if errs.n > before else ''}


def run(payload):
    import sc3
    sc3.init('nrt', 'ERROR')
    errs = _Errors()
    lg = logging.getLogger('sc3')
    lg.handlers = [errs]            # count errors logged by the clocks, keep stderr quiet
    lg.propagate = False
    lg.setLevel(logging.ERROR)
    res = []
    import signal

    class _Timeout(BaseException):
        pass

    def _alarm(signum, frame):
        raise _Timeout()
    signal.signal(signal.SIGALRM, _alarm)
    for c in payload['cases']:
        try:
            signal.setitimer(signal.ITIMER_REAL, payload.get('budget_s', 10.0))
            try:
                res.append(run_case(c, errs))
            finally:
                signal.setitimer(signal.ITIMER_REAL, 0)
        except _Timeout:
            res.append({'msgs': [], 'end': None, 'errors': -1, 'build_error': ['TIMEOUT'], 'error_text': 'TIMEOUT'})
        except Exception as e:
            res.append({'msgs': [], 'end': None, 'errors': -1, 'error_text': '',
                        'build_error': ['HARNESS:' + type(e).__name__ + ':' + str(e)[:200]]})
    return res
