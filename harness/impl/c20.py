"""C20 implementation side: builds under hostile conditions (repeated, after failing builds,
from several threads, other hash seed / mode) using the C01 program interpreter."""
import threading

from harness.impl import c01


def light(o):
    return {'canon': o['canon'], 'residue': o.get('residue'), 'flags': o.get('flags'),
            'skip': o.get('skip'), 'detail': o.get('detail')}


class Hang(Exception):
    pass


def guarded(fn, *a, seconds=25, **kw):
    """run a build in a helper thread: a build that does not return (e.g. a leaked build lock) is a
    finding, not something to wait for"""
    box = {}

    def w():
        try:
            box['r'] = fn(*a, **kw)
        except BaseException as e:      # noqa: B902 - reported to the caller
            box['e'] = e
    t = threading.Thread(target=w, daemon=True)
    t.start()
    t.join(seconds)
    if t.is_alive():
        raise Hang()
    if 'e' in box:
        raise box['e']
    return box['r']


def args_probe(mode):
    """build arguments (rates, prepend, variants, metadata) are inputs, not scratch space: building
    must not change them, and a later build that is handed the same objects gives the bytes a
    build with fresh copies gives"""
    import copy
    from sc3.synth.synthdef import SynthDef
    from sc3.synth.ugens.inout import Out
    from sc3.synth.ugens.oscillators import SinOsc
    ns = {'Out': Out, 'SinOsc': SinOsc}
    exec("def fa(a:'ir'=1, b:'tr'=0, c=3, d:'ar'=0):\n    Out.kr(0, SinOsc.kr(c) * a)\n"
         "def fb(x=1, y=2, z=(3, 4), w=5):\n    Out.kr(0, SinOsc.kr(x) * y + w)\n", ns)
    problems = []
    import hashlib
    digests = []
    # a definition built before anything else in this probe ... (compared at the end)
    exec("def fz(a=1, c=3):\n    Out.kr(0, SinOsc.kr(c) * a)\n", ns)
    fresh_z = bytes(SynthDef('pz', ns['fz']).as_bytes())
    vs = {'bright': {'c': 7}, 'dark': {'c': 1}, 'wide': {'d': 0.5}, 'x': {'a': 2}, 'long_name': {'c': 9, 'a': 3}}
    pvdef = SynthDef('pv', ns['fa'], None, None, vs)
    pv1 = bytes(pvdef.as_bytes())
    pv2 = bytes(pvdef.as_bytes())
    pv3 = bytes(SynthDef('pv', ns['fa'], None, None, copy.deepcopy(vs)).as_bytes())
    # the file written by store() is the same definition
    pv4 = pv1
    try:
        import os, tempfile
        tmpd = tempfile.mkdtemp(dir=os.environ.get('HOME'))
        pvdef.store(dir=tmpd)
        files = [f for f in os.listdir(tmpd) if f.startswith('pv.')]
        pv4 = open(os.path.join(tmpd, files[0]), 'rb').read() if files else b'no file written'
        pv2 = bytes(SynthDef('pv', ns['fa'], None, None, vs).as_bytes()) if pv4 == pv1 else pv2
    except Exception as e:
        problems.append(f'store() of a definition with variants raised {type(e).__name__}: {e}'[:200])
    if pv4 != pv1:
        problems.append(f'the file written by store() differs from as_bytes() of the same definition with five variants '
                        f'({len(pv4)} vs {len(pv1)} bytes)')
    if not (pv1 == pv2 == pv3):
        problems.append(f'a definition with five variants serialised twice / rebuilt from equal arguments gives different bytes '
                        f'({len(pv1)}, {len(pv2)}, {len(pv3)} bytes)')
    digests.append(hashlib.sha1(pv1).hexdigest())
    for rates in ([0.5, 0.25, None, 0.125], [None, 'kr', 0.5, 0.25], [0.1, 0.1]):
        shared = copy.deepcopy(rates)
        variants = {'v': {'c': 7}}
        meta = {'note': [1, 2]}
        prepend = []
        snap = copy.deepcopy((shared, variants, meta, prepend))
        first = bytes(SynthDef('pa', ns['fa'], shared, prepend, variants, meta).as_bytes())
        if repr((shared, variants, meta, prepend)) != repr(snap):
            problems.append(f'building changed the argument objects it was given: {snap} -> {(shared, variants, meta, prepend)}')
        again = bytes(SynthDef('pb', ns['fb'], shared).as_bytes())
        fresh = bytes(SynthDef('pb', ns['fb'], copy.deepcopy(rates)).as_bytes())
        if again != fresh:
            problems.append(f'definition built with a rates list that an earlier build had used differs from the '
                            f'build with a fresh copy of {rates}')
        refirst = bytes(SynthDef('pa', ns['fa'], copy.deepcopy(rates), [], {'v': {'c': 7}}, {'note': [1, 2]}).as_bytes())
        if refirst != first:
            problems.append('rebuilding the first definition with equal arguments gives different bytes')
        digests.append(hashlib.sha1(first + again).hexdigest())
    # objects owned by the caller and used INSIDE the graph function (channel layouts with silent
    # channels, frequency tables, prepended arguments): every build of the same function with the
    # same objects gives the same bytes and leaves the objects as they were
    from sc3.synth.ugens.inout import ReplaceOut, XOut, OffsetOut
    from sc3.synth.ugen import ChannelList
    MUTE = [0, 0]
    LAYOUT = [[0.0, 0], 0]
    NEST = [[0, [0, 0.0]], [0]]
    FREQS = [440, [550, 660]]
    CL = ChannelList([0, ChannelList([0, 0])])

    def g_mute():
        Out.ar(0, SinOsc.ar(440)); ReplaceOut.ar(2, MUTE)

    def g_layout():
        Out.ar(0, SinOsc.ar(440)); ReplaceOut.ar(2, LAYOUT); OffsetOut.ar(6, NEST)

    def g_xout(layout, fade=0.5):
        Out.ar(0, SinOsc.ar(440)); XOut.ar(4, fade, layout)

    def g_freqs():
        Out.ar(0, SinOsc.ar(FREQS)); Out.ar(8, CL)
    shared_cases = [('gm', g_mute, {}, lambda: (MUTE,)), ('gl', g_layout, {}, lambda: (LAYOUT, NEST)),
                    ('gx', g_xout, {'prepend': [LAYOUT]}, lambda: (LAYOUT,)),
                    ('gf', g_freqs, {}, lambda: (FREQS, CL))]
    for name, fn, kw, objs in shared_cases:
        before = repr(objs())
        try:
            builds = [bytes(SynthDef(name, fn, **kw).as_bytes()) for _ in range(3)]
        except Exception as e:
            problems.append(f'rebuilding {fn.__name__} with the same caller-owned objects raised {type(e).__name__}: {e}'[:300])
            continue
        if len(set(builds)) != 1:
            problems.append(f'{fn.__name__}: builds of the same function with the same caller-owned channel lists differ '
                            f'({[len(b) for b in builds]} bytes)')
        if repr(objs()) != before:
            problems.append(f'{fn.__name__}: building changed caller-owned objects used in the graph function: {before} -> {repr(objs())[:200]}')
        digests.append(hashlib.sha1(builds[0]).hexdigest())
    # ... and again after the library has been used: definitions built with default arguments whose
    # variants / metadata the caller filled in afterwards must not leak into later definitions
    try:
        used = SynthDef('py', ns['fz'])
        used.variants['alt'] = {'c': 9}
        used.metadata['specs'] = {'a': [0, 1]}
        used.metadata['note'] = 'x'
        # more use of the library between the two builds: registration in the description library,
        # a wrapped sub-function with prepended arguments, a definition of the same name as the probe's
        try:
            used.add()
        except Exception:
            pass
        exec("def inner(sig, amp=0.25):\n    return sig * amp\n"
             "def outer(freq=220):\n    Out.kr(0, SynthDef.wrap(inner, None, [SinOsc.kr(freq)]))\n",
             g2 := dict(ns, SynthDef=SynthDef))
        SynthDef('pw', g2['outer'])
        SynthDef('pz', g2['outer'])
    except Exception as e:
        problems.append(f'filling variants/metadata of a built definition raised {type(e).__name__}: {e}')
    # a definition whose parameter default is None, before and after the SAME function was registered under
    # the same name with specs metadata
    try:
        exec("def fq(a=None, c=3):\n    Out.kr(0, SinOsc.kr(c) * (a if a is not None else 1))\n", ns)
        q0 = bytes(SynthDef('pq', ns['fq']).as_bytes())
        try:
            from sc3.synth.spec import spec as _spec
            SynthDef('pq', ns['fq'], metadata={'specs': {'a': _spec('freq')}}).add()
        except Exception:
            pass
        q1 = bytes(SynthDef('pq', ns['fq']).as_bytes())
        if q0 != q1:
            problems.append('a definition built without metadata differs after the same function was registered under the same '
                            f'name with specs metadata ({len(q0)} vs {len(q1)} bytes)')
    except Exception as e:
        problems.append(f'metadata history probe raised {type(e).__name__}: {e}'[:200])
    # a "graph function" that is not a plain function is refused and leaves no trace
    try:
        import functools

        class Callable_:
            def __call__(self, c=3):
                Out.kr(0, SinOsc.kr(c))
        for label, notf in (('functools.partial', functools.partial(ns['fz'])), ('callable instance', Callable_()),
                            ('bound method', Callable_().__call__), ('a number', 3)):
            try:
                SynthDef('nf', notf)
            except Exception:
                r = c01.residue()
                if not all(r.values()):
                    problems.append(f'a build refused because the graph function is {label} left a trace: {r}')
                    break
    except Exception as e:
        problems.append(f'non-function probe raised {type(e).__name__}: {e}'[:200])
    # control names that occur more than once (wrapped functions sharing parameter names): part of the digests
    try:
        exec("def in1(freq=220, amp=0.5):\n    return SinOsc.kr(freq) * amp\n"
             "def in2(amp=0.25, freq=330, pan=0):\n    return SinOsc.kr(freq) * amp + pan\n"
             "def out2(freq=110, gate=1):\n    Out.kr(0, SynthDef.wrap(in1) + SynthDef.wrap(in2) + SinOsc.kr(freq) * gate)\n",
             g3 := dict(ns, SynthDef=SynthDef))
        digests.append(hashlib.sha1(bytes(SynthDef('rep', g3['out2']).as_bytes())).hexdigest())
    except Exception as e:
        problems.append(f'repeated-name probe raised {type(e).__name__}: {e}'[:200])
    # a definition made through the decorator whose writer fails leaves nothing registered for the next boot
    try:
        from sc3.synth.synthdef import synthdef as _deco
        from sc3.base.systemactions import ServerBoot

        def count_boot():
            return sum(len(v) for v in ServerBoot._servers.values())
        n0 = count_boot()
        try:
            @_deco(variants={'bad': {'c': 'not-a-number'}})
            def fbad(c=3):
                Out.kr(0, SinOsc.kr(c))
            failed = False
        except Exception:
            failed = True
        if failed and count_boot() != n0:
            problems.append('a decorated definition whose build/registration raised left a ServerBoot action registered '
                            f'({n0} -> {count_boot()} actions)')
    except Exception as e:
        problems.append(f'decorator probe raised {type(e).__name__}: {e}'[:200])
    again_z = bytes(SynthDef('pz', ns['fz']).as_bytes())
    if again_z != fresh_z:
        problems.append(f'a definition built with default arguments after earlier use of the library (another definition\'s '
                        f'variants and metadata were filled in) differs from the same build before that use: '
                        f'{len(again_z)} vs {len(fresh_z)} bytes')
    digests.append(hashlib.sha1(fresh_z).hexdigest())
    # function objects that share one code object (closures of a factory, lambdas in a loop) and differ in
    # their defaults: each definition carries ITS function's defaults
    try:
        from tools import scgf as _scgf

        def make(fq, amp):
            def voice(freq=fq, amp=amp):
                Out.kr(0, SinOsc.kr(freq) * amp)
            return voice
        for fq, amp in ((220, 0.5), (440, 0.25), (220, 0.125)):
            d = _scgf.parse(bytes(SynthDef('fv', make(fq, amp)).as_bytes()))[0]
            if [float(x) for x in d['params']] != [float(fq), float(amp)]:
                problems.append(f'definition of a factory-made function with defaults ({fq}, {amp}) carries control defaults {d["params"]} '
                                '(another function with the same code object was built before)')
        lams = [(lambda freq=f0: Out.kr(0, SinOsc.kr(freq))) for f0 in (100, 200, 300)]
        for f0, lam in zip((100, 200, 300), lams):
            d = _scgf.parse(bytes(SynthDef('lv', lam).as_bytes()))[0]
            if [float(x) for x in d['params']] != [float(f0)]:
                problems.append(f'definition of the loop lambda with default {f0} carries control defaults {d["params"]}')
    except Exception as e:
        problems.append(f'building factory-made functions raised {type(e).__name__}: {e}'[:200])
    # one definition per constructible unit class of the library: the bytes must not depend on the hash
    # seed, the mode or what was built before (digests are compared across all configurations)
    try:
        sw = c01.class_sweep({'mode': mode, 'digest': True, 'noinit': True})
        digests.append(hashlib.sha1(' '.join(f'{r[0]}.{r[1]}:{r[-1]}' for r in sw).encode()).hexdigest())
        digests.append(f'classes={len(sw)}')
    except Exception as e:
        problems.append(f'class sweep raised {type(e).__name__}: {e}'[:200])
    return problems + ['DIGESTS ' + ' '.join(digests)]


def _threaded_phases(payload, cases, out, nthreads):
    import io, sys
    from sc3.synth.synthdef import SynthDef
    from sc3.synth.synthdesc import SynthDesc
    from sc3.synth.ugens.inout import Out
    results = [None] * len(cases)
    errors = []
    # a definition with a long control table: its description is read (SynthDesc reader, which
    # also enters the build context) by a reader thread while the builder threads build
    ns = {'Out': Out}
    exec('def big(a=' + repr(tuple(range(1, 801))) + '):\n    Out.kr(0, a[0])\n', ns)
    big_raw = bytes(SynthDef('big', ns['big']).as_bytes())
    stop = threading.Event()
    reads = [0]

    def reader():
        try:
            while not stop.is_set():
                SynthDesc._read_stream(io.BytesIO(big_raw), keep_defs=(reads[0] % 2 == 0))
                reads[0] += 1
        except Exception as e:
            errors.append(f'reader: {type(e).__name__}: {e}')
    old_si = sys.getswitchinterval()
    sys.setswitchinterval(5e-5)
    rt = threading.Thread(target=reader)
    rt.start()

    import time as _time
    deadline = _time.time() + payload.get('thread_seconds', 6)

    def worker(k):
        try:
            for i in range(k, min(len(cases), payload.get('thread_cases', 10**9)), nthreads):
                if _time.time() > deadline:
                    break
                if cases[i].get('poison') and i % 2:
                    c01.build_program(cases[i]['poison'], residue_check=False)
                results[i] = c01.build_program(cases[i]['prog'], residue_check=False)['canon']
        except Exception as e:      # harness failure, reported
            errors.append(f'{type(e).__name__}: {e}')
    ts = [threading.Thread(target=worker, args=(k,)) for k in range(nthreads)]
    for t in ts: t.start()
    for t in ts: t.join()
    stop.set(); rt.join()
    # second concurrent phase, builders only, with rendez-vous points: whenever all builders have
    # finished a build and none has started the next, nothing is being built, so the global
    # current definition must be None and the lock free
    samples = []

    def sample():
        from sc3.base import main as _libsc3
        samples.append(_libsc3.main._current_synthdef is None)
    bar = threading.Barrier(nthreads, action=sample)

    def worker2(k):
        try:
            for rnd in range(12):
                # several builds per round, so that constructors start while other threads build
                for j in range(2 + (k + rnd) % 3):
                    i = (k + (3 * rnd + j) * nthreads) % len(cases)
                    # (no description read here: the reader itself clears the global and would mask a residue)
                    c01.build_program(cases[i]['prog'], residue_check=False, desc=False)
                bar.wait(timeout=60)
        except Exception as e:
            errors.append(f'barrier phase: {type(e).__name__}: {e}')
            try: bar.abort()
            except Exception: pass
    ts2 = [threading.Thread(target=worker2, args=(k,)) for k in range(nthreads)]
    for t in ts2: t.start()
    for t in ts2: t.join()
    out[0]['barrier_current_none'] = samples
    # third concurrent phase: the same builds with a scheduling delay injected at the build lock:
    # a proxy around main._def_build_lock hands the processor to the other threads right after
    # the lock is acquired and right after it is released (delays a correct implementation
    # cannot observe; they make the windows around the critical section wide)
    from sc3.base import main as _libsc3

    class DelayLock:
        def __init__(self, inner):
            self.inner = inner

        def __enter__(self):
            r = self.inner.__enter__(); _time.sleep(0.0005); return r

        def __exit__(self, *a):
            r = self.inner.__exit__(*a); _time.sleep(0.003); return r

        def acquire(self, *a, **k):
            return self.inner.acquire(*a, **k)

        def release(self):
            self.inner.release(); _time.sleep(0.003)

        def __getattr__(self, n):
            return getattr(self.inner, n)
    delayed = [None] * len(cases)
    real_lock = _libsc3.main._def_build_lock
    _libsc3.main._def_build_lock = DelayLock(real_lock)
    try:
        def worker3(k):
            try:
                for i in list(range(k, len(cases), nthreads))[:payload.get('delay_cases', 10)]:
                    delayed[i] = c01.build_program(cases[i]['prog'], residue_check=False, desc=False)['canon']
            except Exception as e:
                errors.append(f'delay phase: {type(e).__name__}: {e}')
        ts3 = [threading.Thread(target=worker3, args=(k,)) for k in range(nthreads)]
        for t in ts3: t.start()
        for t in ts3: t.join()
    finally:
        _libsc3.main._def_build_lock = real_lock
    for i, r in enumerate(out):
        r['delayed'] = delayed[i]
    # a build that takes long (slow graph function) while another thread wants to build: the
    # second build waits, however long that is, and both come out as when built alone
    from sc3.synth.ugens.oscillators import SinOsc
    slow_s = payload.get('slow_seconds', 2.6)

    def mk_slow(sec):
        def slow():
            a = SinOsc.ar(440)
            b = SinOsc.ar(441)
            _time.sleep(sec)
            Out.ar(0, a * b)
        return slow

    def fast():
        Out.ar(0, SinOsc.ar(220) * 0.5)
    try:
        ref_slow = bytes(SynthDef('slow', mk_slow(0)).as_bytes())
        ref_fast = bytes(SynthDef('fast', fast).as_bytes())
        got = {}

        def ta():
            try: got['slow'] = bytes(SynthDef('slow', mk_slow(slow_s)).as_bytes())
            except Exception as e: got['slow'] = f'{type(e).__name__}: {e}'

        def tb():
            _time.sleep(0.15)
            # public use of the library from another thread while the build is running
            try:
                if payload.get('mode', 'nrt') == 'nrt' and hasattr(_libsc3.main, 'reset'):
                    _libsc3.main.reset()
                    got['reset'] = 'ok'
            except Exception as e:
                got['reset'] = f'{type(e).__name__}: {e}'
            try: got['fast'] = bytes(SynthDef('fast', fast).as_bytes())
            except Exception as e: got['fast'] = f'{type(e).__name__}: {e}'
        th = [threading.Thread(target=ta), threading.Thread(target=tb)]
        for t in th: t.start()
        for t in th: t.join()
        probs = []
        for k, ref in (('slow', ref_slow), ('fast', ref_fast)):
            if got.get(k) != ref:
                g = got.get(k)
                probs.append(f'{k} definition built while the other thread was building: '
                             + (g if isinstance(g, str) else f'{len(g)} bytes') + f', built alone: {len(ref)} bytes')
        out[0]['slow_build'] = probs
        out[0]['slow_build_reset'] = got.get('reset', 'n/a')
    except Exception as e:
        errors.append(f'slow-build phase: {type(e).__name__}: {e}')
    sys.setswitchinterval(old_si)
    out[0]['desc_reads_during_builds'] = reads[0]
    for i, r in enumerate(out):
        r['threaded'] = results[i]
    if errors:
        out[0]['thread_errors'] = errors
    out[0]['residue_after_threads'] = c01.residue()


def run(payload):
    c01._init(payload.get('mode', 'nrt'))
    cases = payload['cases']
    out = []
    try:
        probe = guarded(args_probe, payload.get('mode', 'nrt'))
    except Hang:
        probe = ['HANG in the build-argument probe']
    except Exception as e:
        probe = [f'build-argument probe raised {type(e).__name__}: {e}']
    for case in cases:
        res = {}
        # 1. optional poison build first (raises in the graph function / fails input checks / fails in the writer)
        try:
            if case.get('poison'):
                p = guarded(c01.build_program, case['poison'])
                res['poison'] = light(p)
            # 2. the build itself, twice
            a = guarded(c01.build_program, case['prog'])
            b = guarded(c01.build_program, case['prog'])
        except Hang:
            # a build never returned: report what we have and stop this process (the hung thread
            # may hold the build lock for ever)
            res['hang'] = True
            res.setdefault('first', {'canon': 'HANG', 'residue': None, 'flags': {}, 'skip': None, 'detail': 'build did not return within 25 s'})
            res['second'] = 'HANG'
            out.append(res)
            while len(out) < len(cases):
                out.append({'first': {'canon': 'NOT-RUN', 'residue': None, 'flags': {}, 'skip': 'not-run', 'detail': ''}, 'second': None})
            out[0]['args_probe'] = probe
            import json, os, sys
            sys.stdout.write('\n@@RESULT@@' + json.dumps(out))
            sys.stdout.flush()
            os._exit(0)
        res['first'] = light(a)
        res['second'] = b['canon']
        out.append(res)
    if out:
        out[0]['args_probe'] = probe
    # 3. the same programs from several threads at once
    nthreads = payload.get('threads', 0)
    if nthreads:
        try:
            _threaded_phases(payload, cases, out, nthreads)
        except Exception as e:      # a plain definition of the harness itself no longer builds after the earlier builds
            import traceback
            out[0]['later_build_error'] = f'{type(e).__name__}: {e} @ ' + traceback.format_exc().strip().splitlines()[-3].strip()[:160]
    return out
