"""C20 implementation side: builds under hostile conditions (repeated, after failing builds,
from several threads, other hash seed / mode) using the C01 program interpreter."""
import threading

from harness.impl import c01


def light(o):
    return {'canon': o['canon'], 'residue': o.get('residue'), 'flags': o.get('flags'),
            'skip': o.get('skip'), 'detail': o.get('detail')}


def run(payload):
    c01._init(payload.get('mode', 'nrt'))
    cases = payload['cases']
    out = []
    for case in cases:
        res = {}
        # 1. optional poison build first (raises in the graph function / fails input checks / fails in the writer)
        if case.get('poison'):
            p = c01.build_program(case['poison'])
            res['poison'] = light(p)
        # 2. the build itself, twice
        a = c01.build_program(case['prog'])
        b = c01.build_program(case['prog'])
        res['first'] = light(a)
        res['second'] = b['canon']
        out.append(res)
    # 3. the same programs from several threads at once
    nthreads = payload.get('threads', 0)
    if nthreads:
        import io, sys
        from sc3.synth.synthdef import SynthDef
        from sc3.synth.synthdesc import SynthDesc
        from sc3.synth.ugens.inout import Out
        results = [None] * len(cases)
        errors = []
        # a definition with a long control table: its description is read (SynthDesc reader, which
        # also enters the build context) by a reader thread while the builder threads build
        ns = {'Out': Out}
        exec('def big(a=' + repr(tuple(range(1, 801))) + '):\n    Out.kr(0, a[0])\n', ns)
        big_raw = bytes(SynthDef('big', ns['big']).as_bytes())
        stop = threading.Event()
        reads = [0]

        def reader():
            try:
                while not stop.is_set():
                    SynthDesc._read_stream(io.BytesIO(big_raw), keep_defs=(reads[0] % 2 == 0))
                    reads[0] += 1
            except Exception as e:
                errors.append(f'reader: {type(e).__name__}: {e}')
        old_si = sys.getswitchinterval()
        sys.setswitchinterval(5e-5)
        rt = threading.Thread(target=reader)
        rt.start()

        import time as _time
        deadline = _time.time() + payload.get('thread_seconds', 6)

        def worker(k):
            try:
                for i in range(k, min(len(cases), payload.get('thread_cases', 10**9)), nthreads):
                    if _time.time() > deadline:
                        break
                    if cases[i].get('poison') and i % 2:
                        c01.build_program(cases[i]['poison'], residue_check=False)
                    results[i] = c01.build_program(cases[i]['prog'], residue_check=False)['canon']
            except Exception as e:      # harness failure, reported
                errors.append(f'{type(e).__name__}: {e}')
        ts = [threading.Thread(target=worker, args=(k,)) for k in range(nthreads)]
        for t in ts: t.start()
        for t in ts: t.join()
        stop.set(); rt.join()
        sys.setswitchinterval(old_si)
        out[0]['desc_reads_during_builds'] = reads[0]
        for i, r in enumerate(out):
            r['threaded'] = results[i]
        if errors:
            out[0]['thread_errors'] = errors
        out[0]['residue_after_threads'] = c01.residue()
    return out
