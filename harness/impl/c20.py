"""C20 implementation side: builds under hostile conditions (repeated, after failing builds,
from several threads, other hash seed / mode) using the C01 program interpreter."""
import threading

from harness.impl import c01


def light(o):
    return {'canon': o['canon'], 'residue': o.get('residue'), 'flags': o.get('flags'),
            'skip': o.get('skip'), 'detail': o.get('detail')}


def run(payload):
    c01._init(payload.get('mode', 'nrt'))
    cases = payload['cases']
    out = []
    for case in cases:
        res = {}
        # 1. optional poison build first (raises in the graph function / fails input checks / fails in the writer)
        if case.get('poison'):
            p = c01.build_program(case['poison'])
            res['poison'] = light(p)
        # 2. the build itself, twice
        a = c01.build_program(case['prog'])
        b = c01.build_program(case['prog'])
        res['first'] = light(a)
        res['second'] = b['canon']
        out.append(res)
    # 3. the same programs from several threads at once
    nthreads = payload.get('threads', 0)
    if nthreads:
        results = [None] * len(cases)
        errors = []

        def worker(k):
            try:
                for i in range(k, len(cases), nthreads):
                    if cases[i].get('poison') and i % 2:
                        c01.build_program(cases[i]['poison'], residue_check=False)
                    results[i] = c01.build_program(cases[i]['prog'], residue_check=False)['canon']
            except Exception as e:      # harness failure, reported
                errors.append(f'{type(e).__name__}: {e}')
        ts = [threading.Thread(target=worker, args=(k,)) for k in range(nthreads)]
        for t in ts: t.start()
        for t in ts: t.join()
        for i, r in enumerate(out):
            r['threaded'] = results[i]
        if errors:
            out[0]['thread_errors'] = errors
        out[0]['residue_after_threads'] = c01.residue()
    return out
