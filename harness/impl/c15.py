"""C15 implementation side: the real sc3.base.builtins kernels and the real operator lifting
(Function / Stream / Pattern / list / ChannelList / Operand) of sc3."""
import math
from fractions import Fraction


# ---------------------------------------------------------------------------------------------
# numbers on the wire:  i:<int>   f:<p/q> (exact value of a float)   x:<repr> (non-finite)
# ---------------------------------------------------------------------------------------------

def parse_num(s):
    tag, body = s[:2], s[2:]
    if tag == 'i:':
        return int(body)
    if tag == 'f:':
        return float(Fraction(body))
    raise ValueError(s)


def fmt_num(v):
    if isinstance(v, bool):
        return f'b:{v}'
    if isinstance(v, int):
        return f'i:{v}'
    if isinstance(v, float):
        if v != v or v in (float('inf'), float('-inf')):
            return f'x:{v!r}'
        q = Fraction(v)
        return f'f:{q.numerator}' if q.denominator == 1 else f'f:{q.numerator}/{q.denominator}'
    return f'o:{type(v).__name__}'


def call_kernel(bi, name, args):
    try:
        return fmt_num(getattr(bi, name)(*args))
    except Exception as e:                       # mapped to the class name
        return f'E:{type(e).__name__}'


def run_kernel(bi, case):
    """case: {'k': name, 'a': [num...], 'then': name2 | None}
    -> {'r': result, 'rr': result of applying `then` to (r, *a[1:])} """
    args = [parse_num(a) for a in case['a']]
    out = {'r': call_kernel(bi, case['k'], args)}
    then = case.get('then')
    if then and out['r'][:2] in ('i:', 'f:'):
        r = parse_num(out['r'])
        out['rr'] = call_kernel(bi, then, [r] + args[1:])
    return out


# ---------------------------------------------------------------------------------------------
# lifting: symbolic leaves
# ---------------------------------------------------------------------------------------------

def make_sym():
    from sc3.base import absobject as aob

    class Sym(aob.AbstractObject):
        """A free implementation of the AbstractObject hooks: records which selector is
        applied to which evaluated operands, in which order."""
        def __init__(self, term):
            self.term = term

        def _compose_unop(self, selector):
            return Sym([selector.__name__, self.term])

        def _compose_binop(self, selector, other):
            return Sym([selector.__name__, self.term, term_of(other)])

        def _rcompose_binop(self, selector, other):
            return Sym([selector.__name__, term_of(other), self.term])

        def _compose_narop(self, selector, *args):
            return Sym([selector.__name__, self.term] + [term_of(a) for a in args])

        def __hash__(self):
            return id(self)

        def __bool__(self):
            raise TypeError('truth value of a symbolic operand')

    def term_of(v):
        if isinstance(v, Sym):
            return v.term
        if isinstance(v, bool):
            return f'b:{v}'
        if isinstance(v, (int, float)):
            return fmt_num(v)
        if isinstance(v, str):
            return f's:{v}'
        if v is None:
            return 'none'
        from sc3.base.operand import Operand
        if isinstance(v, Operand):
            return ['Operand', term_of(v.value)]
        if isinstance(v, (list, tuple)):
            return [type(v).__name__] + [term_of(i) for i in v]
        return f'o:{type(v).__name__}'

    return Sym, term_of


class LiftRunner:
    """Builds operand objects from a JSON description and applies an operator to them.

    operand description (JSON):
      ['num', 'i:3']                        plain number
      ['sym', 'a']                          symbolic scalar
      ['fn', tag]                           Function whose value at x is  sym "tag(x)"
      ['strm', [item...]]                   finite stream of the items (each an operand description of a scalar)
      ['cstrm', item]                       (never built directly; numbers are promoted by the library)
      ['pat', [item...]]                    Pseq of the items, one pass
      ['list'|'tuple'|'chan', [operand...]] plain list / tuple / ChannelList (nested allowed)
      ['opnd', operand]                     Operand(value)
    """

    def __init__(self):
        import sc3
        sc3.init('nrt', 'ERROR')
        from sc3.base import builtins as bi
        from sc3.base import functions as fn
        from sc3.base import stream as stm
        from sc3.base import utils as utl
        from sc3.base.operand import Operand
        from sc3.seq.patterns import listpatterns as lsp
        from sc3.synth.ugen import ChannelList
        import operator
        self.bi, self.fn, self.stm, self.utl, self.operator = bi, fn, stm, utl, operator
        self.Operand, self.Pseq, self.ChannelList = Operand, lsp.Pseq, ChannelList
        self.Sym, self.term_of = make_sym()

    def scalar(self, d):
        if d[0] == 'num':
            return parse_num(d[1])
        if d[0] == 'sym':
            return self.Sym(f's:{d[1]}')
        raise ValueError(d)

    def build(self, d):
        k = d[0]
        if k in ('num', 'sym'):
            return self.scalar(d)
        if k == 'fn':
            tag, Sym = d[1], self.Sym

            def f(x):
                return Sym(['call', f's:{tag}', self.term_of(x)])
            return self.fn.Function(f)
        if k == 'strm':
            return self.stm.stream(self.Pseq([self.scalar(i) for i in d[1]]))
        if k == 'pat':
            return self.Pseq([self.scalar(i) for i in d[1]])
        if k == 'list':
            return [self.build(i) for i in d[1]]
        if k == 'tuple':
            return tuple(self.build(i) for i in d[1])
        if k == 'chan':
            return self.ChannelList([self.build(i) for i in d[1]])
        if k == 'opnd':
            return self.Operand(self.build(d[1]))
        raise ValueError(d)

    def selector(self, sel):
        """'operator.add' / 'bi.mod' -> the function object."""
        ns, name = sel.split('.')
        return getattr(self.operator if ns == 'operator' else self.bi, name)

    def apply(self, case):
        """case: {'via': 'method'|'dunder'|'rdunder'|'builtin'|'listfn', 'name': .., 'sel': ..,
                  'args': [operand...]}"""
        args = [self.build(a) for a in case['args']]
        via, name = case['via'], case['name']
        if via == 'method':                  # a.name(b, ...)
            return getattr(args[0], name)(*args[1:])
        if via == 'dunder':                  # python operator syntax: a <op> b, resolved by Python
            return self.selector(case['sel'])(*args) if len(args) > 1 else self.selector(case['sel'])(args[0])
        if via == 'builtin':                 # bi.name(a, b, ...)
            return getattr(self.bi, name)(*args)
        if via == 'listfn':                  # utl.list_unop/binop/narop(sel, ...)
            return getattr(self.utl, name)(self.selector(case['sel']), *args)
        raise ValueError(via)

    def observe(self, obj, case):
        """Evaluate the composed object -> JSON term."""
        fn, stm = self.fn, self.stm
        if isinstance(obj, fn.AbstractFunction):
            return ['fnval', self.term_of(obj(self.Sym('s:x')))]
        from sc3.seq.pattern import Pattern
        if isinstance(obj, (stm.Stream, Pattern)):
            kind = 'pat' if isinstance(obj, Pattern) else 'strm'
            s = stm.stream(obj)
            out = []
            for _ in range(case.get('take', 12)):
                try:
                    out.append(self.observe_value(s.next()))
                except stm.StopStream:
                    out.append('stop')
                    break
            return [kind] + out
        return self.observe_value(obj)

    def observe_value(self, v):
        if isinstance(v, self.ChannelList):
            return ['chan'] + [self.observe(i, {}) for i in v]
        if isinstance(v, (list, tuple)):
            return [type(v).__name__] + [self.observe(i, {}) for i in v]
        if isinstance(v, self.Operand):
            return ['opnd', self.observe(v.value, {})]
        if isinstance(v, (self.fn.AbstractFunction, self.stm.Stream)):
            return self.observe(v, {})
        return self.term_of(v)

    def run(self, case):
        try:
            return self.observe(self.apply(case), case)
        except Exception as e:
            return f'E:{type(e).__name__}'

    # numeric oracle support: evaluate lifted vs direct with concrete numbers
    def run_numeric(self, case):
        """case['args'] hold only numeric leaves (functions are x -> x*k + c).  Returns the
        evaluated result of the lifted object and of direct application, as terms."""
        raise NotImplementedError


def extract_ops(repo):
    """Operator list read with `ast` from absobject.py: method name -> (hook, selector, arity)."""
    import ast
    from pathlib import Path
    tree = ast.parse((Path(repo) / 'sc3' / 'base' / 'absobject.py').read_text())
    ops = []
    for cls in tree.body:
        if isinstance(cls, ast.ClassDef) and cls.name == 'AbstractObject':
            for m in cls.body:
                if not isinstance(m, ast.FunctionDef):
                    continue
                for node in ast.walk(m):
                    if isinstance(node, ast.Return) and isinstance(node.value, ast.Call) \
                            and isinstance(node.value.func, ast.Attribute) \
                            and isinstance(node.value.func.value, ast.Name) \
                            and node.value.func.value.id == 'self' \
                            and node.value.func.attr in ('_compose_unop', '_compose_binop',
                                                         '_rcompose_binop', '_compose_narop'):
                        call = node.value
                        sel = ast.unparse(call.args[0])
                        params = [a.arg for a in m.args.args[1:]]
                        defaults = [ast.literal_eval(d) for d in m.args.defaults]
                        rest = [ast.unparse(a) for a in call.args[1:]]
                        ops.append({'method': m.name, 'hook': call.func.attr, 'sel': sel,
                                    'params': params, 'defaults': defaults, 'passes': rest})
    return ops


_lift = None


def run(payload):
    global _lift
    out = []
    bi = None
    for case in payload['cases']:
        if 'k' in case:
            if bi is None:
                from sc3.base import builtins as bi
            out.append(run_kernel(bi, case))
        elif 'via' in case:
            if _lift is None:
                _lift = LiftRunner()
            out.append({'t': _lift.run(case)})
        else:
            out.append({'r': 'bad-case'})
    return out


def ops(payload):
    import os
    return extract_ops(os.environ.get('SC3_REPO_PATH') or payload['repo'])
