"""C15 implementation side: the real sc3.base.builtins kernels and the real operator lifting
(Function / Stream / Pattern / list / ChannelList / Operand) of sc3."""
import math
from fractions import Fraction


# ---------------------------------------------------------------------------------------------
# numbers on the wire:  i:<int>   f:<p/q> (exact value of a float)   x:<repr> (non-finite)
# ---------------------------------------------------------------------------------------------

def parse_num(s):
    tag, body = s[:2], s[2:]
    if tag == 'i:':
        return int(body)
    if tag == 'f:':
        return float(Fraction(body))
    raise ValueError(s)


def fmt_num(v):
    if isinstance(v, bool):
        return f'b:{v}'
    if isinstance(v, int):
        return f'i:{v}'
    if isinstance(v, float):
        if v != v or v in (float('inf'), float('-inf')):
            return f'x:{v!r}'
        q = Fraction(v)
        return f'f:{q.numerator}' if q.denominator == 1 else f'f:{q.numerator}/{q.denominator}'
    return f'o:{type(v).__name__}'


def call_kernel(bi, name, args):
    try:
        return fmt_num(getattr(bi, name)(*args))
    except Exception as e:                       # mapped to the class name
        return f'E:{type(e).__name__}'


def run_kernel(bi, case):
    """case: {'k': name, 'a': [num...], 'then': name2 | None}
    -> {'r': result, 'rr': result of applying `then` to (r, *a[1:])} """
    args = [parse_num(a) for a in case['a']]
    out = {'r': call_kernel(bi, case['k'], args)}
    then = case.get('then')
    if then and out['r'][:2] in ('i:', 'f:'):
        r = parse_num(out['r'])
        out['rr'] = call_kernel(bi, then, [r] + args[1:])
    return out


# ---------------------------------------------------------------------------------------------
# lifting: symbolic leaves
# ---------------------------------------------------------------------------------------------

def make_sym():
    from sc3.base import absobject as aob

    class Sym(aob.AbstractObject):
        """A free implementation of the AbstractObject hooks: records which selector is
        applied to which evaluated operands, in which order."""
        def __init__(self, term):
            self.term = term

        def _compose_unop(self, selector):
            return Sym([selector.__name__, self.term])

        def _compose_binop(self, selector, other):
            # a Sym stands for a plain number: like a number it yields to the other operand's hook
            if hasattr(other, '_rcompose_binop') and not isinstance(other, Sym):
                return other._rcompose_binop(selector, self)
            return Sym([selector.__name__, self.term, term_of(other)])

        def _rcompose_binop(self, selector, other):
            return Sym([selector.__name__, term_of(other), self.term])

        def _compose_narop(self, selector, *args):
            return Sym([selector.__name__, self.term] + [term_of(a) for a in args])

        def __hash__(self):
            return id(self)

        def __bool__(self):
            raise TypeError('truth value of a symbolic operand')

    def term_of(v):
        if isinstance(v, Sym):
            return v.term
        if isinstance(v, bool):
            return f'b:{v}'
        if isinstance(v, (int, float)):
            return fmt_num(v)
        if isinstance(v, str):
            return f's:{v}'
        if v is None:
            return 'none'
        from sc3.base.operand import Operand
        if isinstance(v, Operand):
            return ['Operand', term_of(v.value)]
        if isinstance(v, (list, tuple)):
            return [type(v).__name__] + [term_of(i) for i in v]
        return f'o:{type(v).__name__}'

    return Sym, term_of


class LiftRunner:
    """Builds operand objects from a JSON description and applies an operator to them.

    operand description (JSON):
      ['num', 'i:3']                        plain number
      ['sym', 'a']                          symbolic scalar
      ['fn', tag]                           Function whose value at x is  sym "tag(x)"
      ['strm', [item...]]                   finite stream of the items (each an operand description of a scalar)
      ['cstrm', item]                       (never built directly; numbers are promoted by the library)
      ['pat', [item...]]                    Pseq of the items, one pass
      ['list'|'tuple'|'chan', [operand...]] plain list / tuple / ChannelList (nested allowed)
      ['opnd', operand]                     Operand(value)
    """

    def __init__(self):
        import sc3
        sc3.init('nrt', 'ERROR')
        from sc3.base import builtins as bi
        from sc3.base import functions as fn
        from sc3.base import stream as stm
        from sc3.base import utils as utl
        from sc3.base.operand import Operand
        from sc3.seq.patterns import listpatterns as lsp
        from sc3.synth.ugen import ChannelList
        import operator
        self.bi, self.fn, self.stm, self.utl, self.operator = bi, fn, stm, utl, operator
        from sc3.seq.patterns import funcpatterns as fnp
        self.Operand, self.Pseq, self.ChannelList, self.Pfunc = Operand, lsp.Pseq, ChannelList, fnp.Pfunc
        self.Sym, self.term_of = make_sym()

    def scalar(self, d):
        if d[0] == 'num':
            if d[1].startswith('s:'):
                return d[1][2:]               # a string argument such as clip='minmax'
            return parse_num(d[1])
        if d[0] == 'sym':
            return self.Sym(f's:{d[1]}')
        raise ValueError(d)

    def build(self, d):
        k = d[0]
        if k in ('num', 'sym'):
            return self.scalar(d)
        if k == 'fn':
            tag, Sym = d[1], self.Sym

            def f(x):
                return Sym(['call', f's:{tag}', self.term_of(x)])
            return self.fn.Function(f)
        if k == 'fnc':                       # a composed function: -F  (an UnopFunction, not a Function)
            return -self.build(['fn', d[1]])
        if k == 'strm':
            return self.stm.stream(self.Pseq([self.scalar(i) for i in d[1]]))
        if k == 'pat':
            return self.Pseq([self.scalar(i) for i in d[1]])
        if k in ('fstrm', 'fpat'):           # values depend on the input value: item k = at(tag, inval_k)
            tag, Sym = d[1], self.Sym

            def nxt(inval):
                return Sym(['at', f's:{tag}', self.term_of(inval)])
            return self.stm.FunctionStream(nxt) if k == 'fstrm' else self.Pfunc(nxt)
        if k == 'list':
            return [self.build(i) for i in d[1]]
        if k == 'tuple':
            return tuple(self.build(i) for i in d[1])
        if k == 'chan':
            return self.ChannelList([self.build(i) for i in d[1]])
        if k == 'opnd':
            return self.Operand(self.scalar(d[1]))
        raise ValueError(d)

    def selector(self, ns, name):
        return getattr(self.operator if ns == 'operator' else self.bi, name)

    def apply(self, case):
        """case: {'via': 'pyop'|'meth'|'bi'|'listfn', 'name': .., 'args': [operand...], ...}"""
        import math
        args = [self.build(a) for a in case['args']]
        via, name = case['via'], case['name']
        if via == 'pyop':                    # Python operator syntax, resolved by the interpreter
            if len(args) == 2:
                return getattr(self.operator, name)(*args)
            f = {'round': round, 'trunc': math.trunc, 'ceil': math.ceil, 'floor': math.floor}.get(name) \
                or getattr(self.operator, name)
            return f(args[0])
        if via == 'meth':                    # a.name(b, ...)
            return getattr(args[0], name)(*args[1:])
        if via == 'bi':                      # bi.name(a, b, ...)
            return getattr(self.bi, name)(*args)
        if via == 'listfn':                  # utl.list_unop/binop/narop(selector, ...)
            t = {'list': list, 'tuple': tuple, 'chan': self.ChannelList}[case['t']]
            sel = self.selector(case['ns'], case['sel'])
            if name == 'list_narop':
                return self.utl.list_narop(sel, *args, t=t)
            return getattr(self.utl, name)(sel, *args, t)
        raise ValueError(via)

    def observe(self, obj, case):
        """Evaluate the composed object -> JSON term.  A function is called positionally AND by
        keyword, a stream is pulled, reset() and pulled again: both must give the same values (the
        model has one value); a difference is made visible in the term."""
        fn, stm = self.fn, self.stm
        if isinstance(obj, fn.AbstractFunction):
            pos = self.term_of(obj(self.Sym('s:x')))
            try:
                kw = self.term_of(obj(x=self.Sym('s:x')))
            except Exception as e:
                kw = f'E:{type(e).__name__}'
            if kw != pos:
                return ['fnval', pos, 'called-by-keyword', kw]
            return ['fnval', pos]
        from sc3.seq.pattern import Pattern
        if isinstance(obj, (stm.Stream, Pattern)):
            kind = 'pat' if isinstance(obj, Pattern) else 'strm'
            s = stm.stream(obj)

            def pull():
                out = []
                for k in range(case.get('take', 8)):
                    try:                       # the k-th pull passes the input value i<k>
                        out.append(self.observe_value(s.next(self.Sym(f's:i{k}'))))
                    except stm.StopStream:
                        out.append('stop')
                        break
                return out
            first = pull()
            s.reset()
            second = pull()
            if second != first:
                return [kind] + first + ['after-reset'] + second
            if kind == 'pat' and self._embed_ok:   # the same pattern embedded in another one (`__embed__`)
                s = stm.stream(self.Pseq([obj]))
                third = pull()
                if third != first:
                    return [kind] + first + ['embedded'] + third
            return [kind] + first
        return self.observe_value(obj)

    def observe_value(self, v):
        if isinstance(v, self.ChannelList):
            return ['chan'] + [self.observe(i, {}) for i in v]
        if isinstance(v, (list, tuple)):
            return [type(v).__name__] + [self.observe(i, {}) for i in v]
        if isinstance(v, self.Operand):
            return ['opnd', self.observe(v.value, {})]
        if isinstance(v, (self.fn.AbstractFunction, self.stm.Stream)):
            return self.observe(v, {})
        return self.term_of(v)

    _embed_ok = False

    def run(self, case):
        import json
        # a stream operand is a shared, stateful object: embedding the pattern again would continue it
        self._embed_ok = 'strm' not in json.dumps(case.get('args'))
        try:
            return self.observe(self.apply(case), case)
        except Exception as e:
            return f'E:{type(e).__name__}'

    # ---- numeric oracle: lifted evaluation vs direct application (independent of the model) ----
    def build_numeric(self, d):
        k = d[0]
        if k == 'none':                      # an explicit None argument (clip=None: extrapolate)
            return None
        if k == 'num':
            return d[1][2:] if d[1].startswith('s:') else parse_num(d[1])
        if k == 'fnn':                       # x -> x * a + b
            a, b = parse_num(d[1]), parse_num(d[2])
            return self.fn.Function(lambda x: x * a + b)
        if k == 'fnnc':                      # composed: -(x * a + b)
            a, b = parse_num(d[1]), parse_num(d[2])
            return -self.fn.Function(lambda x: x * a + b)
        if k == 'strm':
            return self.stm.stream(self.Pseq([parse_num(i[1]) for i in d[1]]))
        if k == 'pat':
            return self.Pseq([parse_num(i[1]) for i in d[1]])
        if k in ('fstrmn', 'fpatn'):         # item = inval * a + b
            a, b = parse_num(d[1]), parse_num(d[2])
            return self.stm.FunctionStream(lambda inval: inval * a + b) if k == 'fstrmn' \
                else self.Pfunc(lambda inval: inval * a + b)
        if k == 'list':
            return [self.build_numeric(i) for i in d[1]]
        if k == 'tuple':
            return tuple(self.build_numeric(i) for i in d[1])
        if k == 'chan':
            return self.ChannelList([self.build_numeric(i) for i in d[1]])
        if k == 'opnd':
            return self.Operand(parse_num(d[1][1]))
        raise ValueError(d)

    def deep_eval(self, v, x0, take, check=False):
        """Evaluate every lazy member: functions at x0, streams/patterns to ('strm', items, ended).
        With `check` (the lifted object) a function is also called by keyword and a stream is
        reset() and pulled a second time; a difference becomes an ('anomaly', …) value."""
        from sc3.seq.pattern import Pattern
        if isinstance(v, self.fn.AbstractFunction):
            pos = self.deep_eval(v(x0), x0, take, check)
            if check:
                try:
                    kw = self.deep_eval(v(x=x0), x0, take, check)
                except Exception as e:
                    kw = f'E:{type(e).__name__}'
                if self.fmt_deep(kw) != self.fmt_deep(pos):
                    return ('anomaly', 'called-by-keyword', pos, kw)
            return pos
        if isinstance(v, (self.stm.Stream, Pattern)):
            s = self.stm.stream(v)

            def pull():
                out, ended = [], False
                for k in range(take):
                    try:                       # the k-th pull passes the input value k + 1
                        out.append(self.deep_eval(s.next(float(k + 1)), x0, take, check))
                    except self.stm.StopStream:
                        ended = True
                        break
                return ('strm', out, ended)
            first = pull()
            if check:
                s.reset()
                second = pull()
                if self.fmt_deep(second) != self.fmt_deep(first):
                    return ('anomaly', 'after-reset', first, second)
                if isinstance(v, Pattern) and self._embed_ok:   # the same pattern embedded (`__embed__`)
                    s = self.stm.stream(self.Pseq([v]))
                    third = pull()
                    if self.fmt_deep(third) != self.fmt_deep(first):
                        return ('anomaly', 'embedded', first, third)
            return first
        if isinstance(v, self.Operand):
            return self.deep_eval(v.value, x0, take, check)
        if isinstance(v, (list, tuple)):
            return [self.deep_eval(i, x0, take, check) for i in v]
        return v

    def spec_apply(self, f, ops, take, narop=False):
        """The abstract spec: apply the numeric function to the evaluated operands — pointwise
        for streams (ending with the shortest), element-wise with wrap-around for lists
        (n-ary operators map over the first operand only)."""
        if any(isinstance(o, tuple) and o and o[0] == 'strm' for o in ops):
            n, ended = take, False
            for o in ops:
                if isinstance(o, tuple):
                    if o[2] and len(o[1]) <= n:
                        n, ended = len(o[1]), True
                    else:
                        n = min(n, len(o[1]))
            items = []
            for i in range(n):
                items.append(self.spec_apply(f, [o[1][i] if isinstance(o, tuple) else o for o in ops], take, narop))
            return ('strm', items, ended)
        if narop:
            if isinstance(ops[0], list):
                return [self.spec_apply(f, [x] + ops[1:], take, True) for x in ops[0]]
            return f(*ops)
        lists = [o for o in ops if isinstance(o, list)]
        if not lists:
            return f(*ops)
        if len(ops) == 1:
            return [self.spec_apply(f, [x], take) for x in ops[0]]
        a, b = ops
        if isinstance(a, list) and isinstance(b, list):
            if not a or not b:
                return []
            n = max(len(a), len(b))
            return [self.spec_apply(f, [a[i % len(a)], b[i % len(b)]], take) for i in range(n)]
        if isinstance(a, list):
            return [self.spec_apply(f, [x, b], take) for x in a]
        return [self.spec_apply(f, [a, y], take) for y in b]

    def fmt_deep(self, v):
        if isinstance(v, tuple) and v and v[0] == 'anomaly':
            return [v[1] + '-differs', self.fmt_deep(v[2]), self.fmt_deep(v[3])]
        if isinstance(v, str):
            return v
        if isinstance(v, tuple) and v and v[0] == 'strm':
            return ['strm'] + [self.fmt_deep(i) for i in v[1]] + (['stop'] if v[2] else [])
        if isinstance(v, list):
            return ['seq'] + [self.fmt_deep(i) for i in v]
        return fmt_num(v)

    def run_numeric(self, case):
        """-> {'lifted': …, 'direct': …}: the composed object evaluated at x0, and the numeric
        selector applied directly to the evaluated operands."""
        import json
        self._embed_ok = 'strm' not in json.dumps(case.get('args'))
        take = case.get('take', 8)
        x0 = parse_num(case['x0'])
        out = {}
        saved = self.build
        self.build = self.build_numeric
        try:
            try:
                out['lifted'] = self.fmt_deep(self.deep_eval(self.apply(case), x0, take, check=True))
            except Exception as e:
                out['lifted'] = f'E:{type(e).__name__}'
            try:
                ops = [self.deep_eval(self.build_numeric(a), x0, take) for a in case['args']]
                if case['via'] == 'meth' and case.get('defaults'):
                    ops += [parse_num(d) for d in case['defaults']]
                f = self.selector(case['ns'], case['sel'])
                narop = case.get('hook') == '_compose_narop' or case.get('kind') == 'narop' \
                    or case.get('name') == 'list_narop'
                if case.get('flop'):        # ChannelList's own n-ary methods: rows of receiver and arguments
                    width = max(len(o) if isinstance(o, list) else 1 for o in ops)
                    rows = [[o[i % len(o)] if isinstance(o, list) else o for o in ops] for i in range(width)]
                    out['direct'] = self.fmt_deep([f(*r) for r in rows])
                else:
                    out['direct'] = self.fmt_deep(self.spec_apply(f, ops, take, narop))
            except Exception as e:
                out['direct'] = f'E:{type(e).__name__}'
        finally:
            self.build = saved
        return out


def extract_ops(repo):
    """Operator list read with `ast` from absobject.py: method name -> (hook, selector, arity)."""
    import ast
    from pathlib import Path
    tree = ast.parse((Path(repo) / 'sc3' / 'base' / 'absobject.py').read_text())
    ops = []
    for cls in tree.body:
        if isinstance(cls, ast.ClassDef) and cls.name == 'AbstractObject':
            for m in cls.body:
                if not isinstance(m, ast.FunctionDef):
                    continue
                for node in ast.walk(m):
                    if isinstance(node, ast.Return) and isinstance(node.value, ast.Call) \
                            and isinstance(node.value.func, ast.Attribute) \
                            and isinstance(node.value.func.value, ast.Name) \
                            and node.value.func.value.id == 'self' \
                            and node.value.func.attr in ('_compose_unop', '_compose_binop',
                                                         '_rcompose_binop', '_compose_narop'):
                        call = node.value
                        sel = ast.unparse(call.args[0])
                        params = [a.arg for a in m.args.args[1:]]
                        defaults = [ast.literal_eval(d) for d in m.args.defaults]
                        rest = [ast.unparse(a) for a in call.args[1:]]
                        ops.append({'method': m.name, 'hook': call.func.attr, 'sel': sel,
                                    'params': params, 'defaults': defaults, 'passes': rest})
    return ops


_lift = None


def run(payload):
    global _lift
    out = []
    bi = None
    for case in payload['cases']:
        if 'k' in case:
            if bi is None:
                from sc3.base import builtins as bi
            out.append(run_kernel(bi, case))
        elif 'via' in case:
            if _lift is None:
                _lift = LiftRunner()
            if case.get('numeric'):
                out.append(_lift.run_numeric(case))
            else:
                out.append({'t': _lift.run(case)})
        else:
            out.append({'r': 'bad-case'})
    return out


def ops(payload):
    import os
    return extract_ops(os.environ.get('SC3_REPO_PATH') or payload['repo'])
