"""C08 implementation side: the REAL SystemClock / AppClock / TempoClock threads driven in
virtual time (harness/vtime.py) by op scripts.  One output string per script line.

Script lines (numbers are rationals `p/q`; seconds are relative to the start of the case):
  task <id> <F|R|P> <beh> | <beh> | ... behaviour of the k-th awake: op atoms then a result atom
                                          (F: a Function object, R: a Routine, P: a plain Python function — every
                                          sched call wraps it in a new Function, i.e. every call is its own task)
        op atoms:  !                      the task stops here in the middle of its step (holding the lock)
                                          until `resume`; meanwhile only `adv`, `dump` and `op o <clk> s|q|c`
                                          may follow (these calls block on the lock and complete after the
                                          step); any other line resumes first
                   <clk>:s:<key>:<task>   clk.sched_abs(key, task)
                   <clk>:q:<delta>:<task> clk.sched(delta, task)
                   <clk>:c                clk.clear()
                   <clk>:T:<v>            clk.tempo = v
                   <clk>:E:<v>            clk.etempo(v)
                   <clk>:d:<delta>:<task> defer(callable of the plain task, delta, clk): runs exactly once
                   +:<dt>                 the task takes dt of physical time
        result:    r:<delta> (return/yield a number; ri:<int> an IntEnum member, rf:<delta> a float subclass) | d (return None / end) | x (raise) |
                   n (a str) | bt (True) | bf (False) | o (an object): only a number re-schedules
  new <i> <rate> [p]                     t<i> = TempoClock(rate); p: t<i>.permanent = True
  cmdp [h]                               CmdPeriod.run() / hard_run() (servers untouched): clears every clock, stops the
                                          non-permanent TempoClocks; events of this line are sorted (the library
                                          walks a set of clocks)
  adv <dt>
  op <m|o> <clk> s <key> <task> | q <delta> <task> | c | T <v> | stop
                                          m = driver thread, o = a second (virtual) thread
  half <delta> <task>                    AppClock.sched on its own thread, stopped between its two
                                          critical sections;  `fin` lets the oldest one finish
  wake <clk> n | t <late> | u | p [w]    notified / time-out (deadline+late) / due now / spurious;
                                          `w` (AppClock): stop the thread in the window between
                                          releasing the main lock and taking `_tick_cond`; `cont a`
  run <dt> <late>                        policy: notified threads first (clock order), then the
                                          sleeper with the least deadline+late, until now+dt
  dump                                   queue contents of every clock
Clocks: s (SystemClock), a (AppClock), t<i>.
"""
import logging
import re
from fractions import Fraction as Fr

_S = {}


class TaskFailure(Exception):
    pass


class Seconds(float):
    """a float subclass (a 'unit' type): still a number for the clocks"""


def delta_value(res):
    kind, _, v = res.partition(':')
    if kind == 'ri':
        import enum
        return enum.IntEnum('Beats', {'n': int(v)}).n
    if kind == 'rf':
        return Seconds(num(v))
    return num(v)


NONNUM = {'n': lambda: 'str', 'bt': lambda: True, 'bf': lambda: False, 'o': object}
WATCHDOG = 1000       # awakes of one task within one script line: beyond that it is a tight loop

EXC = [ValueError, KeyError, ZeroDivisionError, TaskFailure, RuntimeError]


def fr(x):
    x = Fr(x)
    return str(x.numerator) if x.denominator == 1 else f'{x.numerator}/{x.denominator}'


def num(s):
    if s == 'inf':
        return float('inf')
    f = Fr(s)
    v = f.numerator / f.denominator
    assert Fr(v) == f, f'not exact in binary64: {s}'
    return v


class _Handler(logging.Handler):
    def emit(self, rec):
        vt = _S['vt']
        try:
            m = re.search(r'task(\d+)', str(rec.args[1]))
            where = rec.msg
            tid = int(m.group(1)) if m else _S.get('current', -1)
        except Exception:
            where, tid = str(rec.msg), -1
        vt.log.append(('error', where, tid, rec.args))


def setup():
    if _S:
        return _S
    import warnings
    warnings.filterwarnings('ignore')
    from harness import vtime
    vt = vtime.boot(start=64.0, epoch=1700000000.0)
    from sc3.base import clock as clk
    from sc3.base import stream as stm
    from sc3.base import main as m
    _S.update(vt=vt, clk=clk, stm=stm, main=m.main)
    lg = logging.getLogger('sc3.base.clock')
    lg.addHandler(_Handler())
    lg.propagate = False
    return _S


class Case:
    def __init__(self):
        S = setup()
        self.vt, self.clk, self.stm = S['vt'], S['clk'], S['stm']
        vt = self.vt
        self.base = float(int(vt.now) + 16)
        vt.advance_to(self.base)
        self.clocks = {'s': self.clk.SystemClock, 'a': self.clk.AppClock}
        self.threads = {'s': vt.thread('SystemClock'), 'a': vt.thread('AppClock')}
        self.order = ['s', 'a']
        self.tasks = {}
        self.halves = []
        self.awakes = {}           # per script line: awakes of each task (watchdog)
        self.paused = None         # rec of the clock thread stopped inside a task step
        self.blocked = []          # (rec, result list) of calls waiting for the lock
        self.mark = len(vt.log)
        self.arm = None
        vt.preempt = self._preempt

    # ---- world reset between cases -------------------------------------------------------
    def reset_world(self):
        """Bring the world back to idle clocks.  Returns the list of failures of the REAL code met on
        the way ('EXC:<Name> in <call>', 'DEAD:<thread>'): clear/stop must cancel and never raise, the
        singleton clock threads must be alive.  A non-empty list means the world is spoilt: the
        remaining cases have to run in a fresh process."""
        vt, clk = self.vt, self.clk
        bad = []

        def attempt(what, f):
            try:
                f()
            except Exception as e:
                bad.append(f'EXC:{type(e).__name__} in {what}')
        vt.preempt = None
        attempt('settle', vt.settle)
        for c in list(clk.TempoClock.all):
            if c._thread is not None and c._thread.is_alive():
                attempt('TempoClock._stop', c._stop)
        attempt('SystemClock.clear', clk.SystemClock.clear)
        attempt('AppClock.clear', clk.AppClock.clear)
        attempt('settle', vt.settle)
        a = vt.thread('AppClock')
        if a.state == 'wait':
            attempt('AppClock wake', lambda: vt.wake(a, 'spurious'))
        attempt('settle', vt.settle)
        if hasattr(clk.AppClock, '_tick_pending'):
            clk.AppClock._tick_pending = False
        _S['main']._in_awake_call = False
        for name in ('SystemClock', 'AppClock'):
            r = vt.thread(name)
            if r.state != 'wait':
                bad.append(f'DEAD:{name}' if r.state == 'done' else f'STUCK:{name}:{r.state}')
        for e in vt.log:
            if e[0] == 'died':
                bad.append(f'DEAD:{e[1]}:{e[2]}')
        vt.clear_log()
        return bad

    def _preempt(self, thread, event, lock):
        if self.arm and event == 'release' and lock == 'main_lock' and thread == self.arm:
            self.arm = None
            return True
        return False

    # ---- naming --------------------------------------------------------------------------
    def cname(self, clock):
        for k, c in self.clocks.items():
            if c is clock:
                return k
        return '?'

    def off(self, k):
        return self.base if k in ('s', 'a') else 0.0

    # ---- tasks ---------------------------------------------------------------------------
    def make_task(self, tid, kind, behs):
        case = self
        st = {'i': 0}

        def perform(clock):
            """ops of the next behaviour; returns its result atom"""
            i = st['i']
            st['i'] += 1
            if i >= len(behs):
                return 'd'
            *ops, res = behs[i]
            for a in ops:
                case.atom(a)
            return res

        def observe(clock):
            _S['current'] = tid
            k = case.cname(clock)
            n = case.awakes.get(tid, 0) + 1
            case.awakes[tid] = n
            if n > WATCHDOG:             # break the loop: raising means "not re-scheduled"
                if n == WATCHDOG + 1:
                    case.vt.log.append(('spin', k, tid))
                raise RuntimeError(f'watchdog task{tid}')
            case.vt.log.append(('awake', k, tid, clock.seconds - case.base,
                                clock.beats - case.off(k), case.vt.now - case.base))

        if kind == 'P':
            def pf(self_, clock):
                observe(clock)
                res = perform(clock)
                if res[0] == 'r':
                    return delta_value(res)
                if res == 'x':
                    raise EXC[tid % len(EXC)](f'task{tid}')
                if res in NONNUM:
                    return NONNUM[res]()
                return None
            pf.__qualname__ = f'task{tid}'
            self.tasks[tid] = pf          # plain: sc3 wraps it at every sched call
            return
        if kind == 'F':
            def f(self_, clock):
                res = perform(clock)
                if res[0] == 'r':
                    return delta_value(res)
                if res == 'x':
                    raise EXC[tid % len(EXC)](f'task{tid}')
                if res in NONNUM:
                    return NONNUM[res]()
                return None
            f.__qualname__ = f'task{tid}'
            obj = self.clk.fn.Function(f)
        else:
            def g(inval):
                while True:
                    _, clock = inval
                    res = perform(clock)
                    if res[0] == 'r':
                        inval = yield delta_value(res)
                    elif res == 'x':
                        raise EXC[tid % len(EXC)](f'task{tid}')
                    elif res in NONNUM:
                        inval = yield NONNUM[res]()
                    else:
                        return
            g.__qualname__ = f'task{tid}'
            obj = self.stm.Routine(g)
        inner = obj.__awake__

        def awake(clock):                # observe every awake, also of a Routine that has ended
            observe(clock)
            return inner(clock)
        obj.__awake__ = awake
        self.tasks[tid] = obj

    # ---- operations ----------------------------------------------------------------------
    def atom(self, a):
        p = a.split(':')
        if p[0] == '!':
            self.paused = self.vt._me()
            self.vt.pause()
            return
        if p[0] == '+':
            self.vt.advance(num(p[1]))
            return
        self.clock_op(p[0], p[1:])

    def clock_op(self, k, w):
        c = self.clocks[k]
        if w[0] == 's':
            c.sched_abs(self.off(k) + num(w[1]), self.tasks[int(w[2])])
        elif w[0] == 'q':
            c.sched(num(w[1]), self.tasks[int(w[2])])
        elif w[0] == 'c':
            c.clear()
        elif w[0] == 'T':
            c.tempo = num(w[1])
        elif w[0] == 'E':
            c.etempo(num(w[1]))
        elif w[0] == 'd':
            f = self.tasks[int(w[2])]            # a plain function (kind P)
            g = lambda: f(None, c)
            g._tid = int(w[2])
            self.clk.defer(g, num(w[1]), c)
        else:
            raise ValueError(w)

    def stop(self, k):
        """TempoClock.stop(): a stop thread is spawned; it, then the clock thread, then it again."""
        vt, c = self.vt, self.clocks[k]
        n = len(vt.recs)
        c.stop()
        if len(vt.recs) > n:
            st = vt.recs[-1]
            vt.step(st)
            vt.step(self.threads[k])
            vt.step(st)

    def events(self):
        vt = self.vt
        out = []
        tname = {r.label: k for k, r in self.threads.items()}
        cname = {'sys': 's', 'app': 'a'}
        for k in self.order[2:]:
            cname[f'c{k}'] = k
        for e in vt.log[self.mark:]:
            if e[0] == 'wait' and e[1] in tname:
                out.append(f'W{tname[e[1]]}:' + ('N' if e[3] is None else fr(e[3])))
            elif e[0] == 'notify' and e[2] in cname:
                out.append(f'N{cname[e[2]]}:{1 if e[3] else 0}')
            elif e[0] == 'exit' and e[1] in tname:
                out.append(f'X{tname[e[1]]}')
            elif e[0] == 'died':
                out.append(f'D{tname.get(e[1], e[1])}:{e[2]}')
            elif e[0] == 'spin':
                out.append(f'SPIN{e[1]}:{e[2]}')
            elif e[0] == 'awake':
                out.append(f'A{e[1]}:{e[2]}:{fr(e[3])}:{fr(e[4])}:{fr(e[5])}')
            elif e[0] == 'error':
                w = e[1]
                k = 's' if 'SystemClock' in w else 'a' if 'AppClock' in w else None
                if k is None:
                    cid = e[3][2] if len(e[3]) > 2 else None
                    for kk, c in self.clocks.items():
                        if id(c) == cid:
                            k = kk
                out.append(f'E{k}:{e[2]}')
        self.mark = len(vt.log)
        return ';'.join(out) if out else '-'

    def rec_state(self, k):
        r = self.threads[k]
        if r.state == 'wait':
            return 'notified' if r.notified else ('timed' if r.deadline is not None else 'idle')
        return r.state

    def wake(self, k, how, late=0.0, window=False):
        vt, r = self.vt, self.threads[k]
        st = self.rec_state(k)
        if window and k == 'a':
            self.arm = r.label
        ok = True
        if how == 'n' and st == 'notified':
            vt.step(r)
        elif how == 't' and st == 'timed':
            vt.now = max(vt.now, r.deadline + late)
            vt.wake(r, 'timeout')
        elif how == 'u' and st == 'timed' and vt.now >= r.deadline:
            vt.wake(r, 'timeout')
        elif how == 'p' and st in ('notified', 'timed', 'idle'):
            vt.wake(r, 'spurious')
        else:
            ok = False
        self.arm = None
        return ok

    def run_policy(self, dt, late):
        vt = self.vt
        T = vt.now + dt
        budget = 20000
        while True:
            budget -= 1
            if budget < 0:
                raise RuntimeError('SPIN: clock threads keep waking without making progress')
            if self.paused is not None:      # a task stopped in the middle of its step: the run ends here
                return
            ks = [k for k in self.order if self.rec_state(k) == 'notified']
            if ks:
                vt.step(self.threads[ks[0]])
                continue
            best = None
            for i, k in enumerate(self.order):
                if self.rec_state(k) == 'timed':
                    w = self.threads[k].deadline + late
                    if w <= T and (best is None or (w, i) < best[:2]):
                        best = (w, i, k)
            if best is None:
                break
            vt.now = max(vt.now, best[0])
            vt.wake(self.threads[best[2]], 'timeout')
        vt.now = max(vt.now, T)

    def dump(self):
        out = []
        for k in self.order:
            c = self.clocks[k]
            q = c._scheduler.queue if k == 'a' else c._task_queue
            tid = {id(t): i for i, t in self.tasks.items()}
            def name(t):
                if id(t) in tid:
                    return tid[id(t)]
                f = getattr(t, 'func', None)
                if id(f) in tid:
                    return tid[id(f)]
                try:                              # defer's wrapper: its closure holds our callable
                    return f.__closure__[0].cell_contents._tid
                except Exception:
                    return -1
            items = [f'{fr(p - self.off(k))}:{name(t)}' for p, t in q]
            out.append(f'{k}[' + ','.join(items) + ']')
        return ' '.join(out)

    @staticmethod
    def keeps_pause(w):
        return w[0] in ('adv', 'dump', 'task', 'resume') or \
            (w[0] == 'op' and w[1] == 'o' and w[3] in ('s', 'q', 'c', 'T'))

    def resume(self):
        """let the paused step go on until its thread parks again, then the calls that waited for the lock"""
        vt = self.vt
        res = []
        while self.paused is not None:
            r = self.paused
            self.paused = None
            vt.step(r)                       # may pause again (sets self.paused)
        for r, out in self.blocked:
            while not r.done and vt.step(r):
                pass
            res.extend(out)
        self.blocked = []
        return res

    def line(self, ln):
        w = ln.split()
        pre = []
        self.awakes = {}
        try:
            self._auto = False
            if self.paused is not None and not self.keeps_pause(w):
                self._auto = True
                rs = self.resume()
                ev = self.events()
                pre = ([] if ev == '-' else [ev]) + rs
        except Exception as e:
            return f'HARNESS-EXC:{type(e).__name__}:{e}'
        out = self.line1(w)
        if self._auto:
            self._auto = False
            return ';'.join(pre + ['|'] + ([] if out in ('-', 'noop') else [out]))
        return out

    def line1(self, w):
        vt = self.vt
        try:
            if w[0] == 'resume':
                if self.paused is None:
                    return 'noop'
                rs = self.resume()
                ev = self.events()
                return ';'.join(([] if ev == '-' else [ev]) + rs) or '-'
            if w[0] == 'task':
                behs = [b.split() for b in ' '.join(w[3:]).split('|')]
                self.make_task(int(w[1]), w[2], [b for b in behs if b])
                return '-'
            if w[0] == 'new':
                k = f't{w[1]}'
                n = len(vt.recs)
                c = self.clk.TempoClock(num(w[2]))
                self.clocks[k] = c
                self.threads[k] = vt.recs[n]
                self.order.append(k)
                vt.label(c._sched_cond, f'c{k}')
                if w[-1] == 'p':
                    c.permanent = True
                vt.step(vt.recs[n])
                return self.events()
            if w[0] == 'cmdp':
                from sc3.base import systemactions as sac
                sac.CmdPeriod.free_servers = False
                n = len(vt.recs)
                res = []
                try:
                    if w[-1] == 'h':
                        # servers are left out, as `free_servers = False` does for run()
                        from unittest import mock
                        from sc3.synth import server as srv
                        with mock.patch.object(srv.Server, 'hard_free_all', new=lambda *a, **k: None), \
                                mock.patch.object(srv.Server, '_resume_status_threads', new=lambda *a, **k: None):
                            sac.CmdPeriod.hard_run()
                    else:
                        sac.CmdPeriod.run()
                except Exception as e:
                    res.append(f'R:{type(e).__name__}')
                stoppers = {}
                for r in vt.recs[n:]:
                    tgt = getattr(r.thread, '_target', None)
                    stoppers[id(getattr(tgt, '__self__', None))] = r
                for k in self.order[2:]:
                    st = stoppers.get(id(self.clocks[k]))
                    if st is not None:
                        vt.step(st)
                        vt.step(self.threads[k])
                        vt.step(st)
                for r in vt.recs[n:]:
                    while not r.done and vt.step(r):
                        pass
                ev = self.events()
                evs = sorted(([] if ev == '-' else ev.split(';')) + res)
                return ';'.join(evs) if evs else '-'
            if w[0] == 'adv':
                vt.advance(num(w[1]))
                return '-'
            if w[0] == 'op':
                k = w[2]
                res = []
                if w[3] in ('s', 'q', 'd') and int(w[5]) not in self.tasks:
                    return 'HARNESS-EXC:unknown task'
                if w[3] == 'stop':
                    fn = lambda: self.stop(k)
                else:
                    fn = lambda: self.clock_op(k, w[3:])

                def guarded():
                    try:
                        fn()
                    except Exception as e:
                        res.append(f'R:{type(e).__name__}')
                if w[1] == 'm' or w[3] == 'stop':
                    guarded()
                else:
                    r = vt.spawn(guarded, 'o')
                    while not r.done and vt.step(r):
                        pass
                    if not r.done:               # waits for the lock held by the paused step
                        self.blocked.append((r, res))
                        return self.events()
                ev = self.events()
                return ev if not res else (res[0] if ev == '-' else ev + ';' + res[0])
            if w[0] == 'half':
                task = self.tasks[int(w[2])]
                d = num(w[1])
                r = vt.spawn(lambda: self.clocks['a'].sched(d, task), 'h')
                self.arm = r.label
                vt.step(r)
                self.arm = None
                if not r.done:
                    self.halves.append(r)
                return self.events()
            if w[0] == 'fin':
                if self.halves:
                    r = self.halves.pop(0)
                    while not r.done:
                        vt.step(r)
                    return self.events()
                return 'noop'
            if w[0] == 'cont':
                r = self.threads[w[1]]
                if r.state == 'preempt':
                    vt.step(r)
                    return self.events()
                return 'noop'
            if w[0] == 'wake':
                how = w[2]
                late = num(w[3]) if how == 't' else 0.0
                ok = self.wake(w[1], how, late, window=(w[-1] == 'w'))
                return self.events() if ok else 'noop'
            if w[0] == 'run':
                self.run_policy(num(w[1]), num(w[2]))
                return self.events()
            if w[0] == 'dump':
                return self.dump()
            return 'bad-line'
        except Exception as e:          # harness-level failure: reported, never hidden
            import traceback
            return f'HARNESS-EXC:{type(e).__name__}:{e}:{traceback.format_exc()[-300:]}'

    def finish(self):
        """let unfinished helper threads end, then tear the case down; -> failures of the real code"""
        bad = []
        try:
            self.resume()
        except Exception as e:
            bad.append(f'EXC:{type(e).__name__} in resume')
        try:
            for r in self.halves:
                while not r.done:
                    if not self.vt.step(r):
                        bad.append('STUCK:half-sched')
                        break
        except Exception as e:
            bad.append(f'EXC:{type(e).__name__} in AppClock.sched')
        self.halves = []
        self.mark = len(self.vt.log)
        return bad + self.reset_world()


def run_case(lines):
    """-> (one output per line, world still usable?)"""
    c = Case()
    out = [c.line(l) + ' @' + fr(Fr(c.vt.now) - Fr(c.base)) for l in lines]
    at = ' @' + fr(Fr(c.vt.now) - Fr(c.base))
    bad = c.finish()
    if bad and out:
        # failures of the real code during teardown belong to this case: shown on its last line
        body, _, _ = out[-1].rpartition(' @')
        out[-1] = ('' if body == '-' else body + ';') + ';'.join('T:' + b.replace(';', ',').replace(' ', '_') for b in bad) + at
    return out, not bad


def run(payload):
    """Runs cases until the world is spoilt by a failure of the real code (dead clock thread,
    clear/stop raising, ...); the caller runs the remaining cases in a fresh process."""
    setup()
    outs = []
    for lines in payload['cases']:
        out, ok = run_case(lines)
        outs.append(out)
        if not ok:
            break
    return {'outs': outs}


# ---- real threads, real sleeps (thorough tier soak; no virtual time) ---------------------------
def run_soak(payload):
    """Each scenario: tasks on SystemClock / AppClock / a TempoClock scheduled from the main thread
    and from a second real thread while the clock threads really sleep; returns the awake log
    [(clock, task, logical seconds, physical seconds)] relative to the start, plus thread liveness."""
    import threading
    import time
    import warnings
    warnings.filterwarnings('ignore')
    import sc3
    sc3.init('rt', 'ERROR')
    from sc3.base import clock as clk, main as m
    main = m.main
    out = []
    for sc in payload['scenarios']:
        tempo = clk.TempoClock(sc.get('tempo', 2.0))
        clocks = {'s': clk.SystemClock, 'a': clk.AppClock, 't': tempo}
        log = []
        t_start = main.elapsed_time()

        def mk(tid, k, deltas):
            st = {'i': 0}

            def f(self_, clock):
                log.append((k, tid, clock.seconds - t_start, clock.beats if k == 't' else None,
                            main.elapsed_time() - t_start))
                i = st['i']
                st['i'] += 1
                if i < len(deltas):
                    if deltas[i] == 'x':
                        raise ValueError('soak')
                    return deltas[i]
                return None
            f.__qualname__ = f'task{tid}'
            return f

        def second_thread(items):
            for delay, k, d, tid, deltas in items:
                time.sleep(delay)
                clocks[k].sched(d, mk(tid, k, deltas))
        th = threading.Thread(target=second_thread, args=(sc['late_items'],), daemon=True)
        for k, d, tid, deltas in sc['items']:
            clocks[k].sched(d, mk(tid, k, deltas))
        th.start()
        time.sleep(sc['horizon'])
        th.join()
        alive = {'s': clk.SystemClock._thread.is_alive(), 'a': clk.AppClock._thread.is_alive(),
                 't': tempo.running()}
        tempo.stop()
        out.append({'log': log, 'alive': alive})
    return out
