"""C06 implementation side: drive the real OSC builders / parsers / size prediction / clumping.

Case kinds (see harness/props/c06.py for the generator):
  msg    {'k','send','off','args'}              _build_msg, OscPacket(dgram), _calc_msg_dgram_size
  bndl   {'k','send','off','args'}              _build_bundle, OscPacket(dgram), _calc_bndl_dgram_size
  dec    {'k','hex'}                            OscPacket(bytes)
  clump  {'k','size','els'}                     _clump_bundle + real size of every clump
  sendc  {'k','time','els'}                     send_clumped_bundles with the interface's _send captured
  sync   {'k','lat','els'}                      sync(elements=...) with _send captured
JSON encoding of Python values: null, true/false, int, {'f': float.hex()}, {'s': str}, {'b': hex},
{'ba': hex} bytearray, {'mv': hex} memoryview, {'u': [..]} tuple, [..] list, {'o': 1} object().
"""
import signal
import struct


class Hang(BaseException):
    pass


def _alarm(signum, frame):
    raise Hang()


def pv(j):
    if j is None or isinstance(j, (bool, int)):
        return j
    if isinstance(j, list):
        return [pv(x) for x in j]
    if 'f' in j:
        return float.fromhex(j['f']) if j['f'] not in ('nan', 'inf', '-inf') else float(j['f'])
    if 's' in j:
        return j['s']
    if 'b' in j:
        return bytes.fromhex(j['b'])
    if 'ba' in j:
        return bytearray.fromhex(j['ba'])
    if 'mv' in j:
        return memoryview(bytes.fromhex(j['mv']))
    if 'u' in j:
        return tuple(pv(x) for x in j['u'])
    if 'o' in j:
        return object()
    raise ValueError(j)


def fmt_float(v, fmt, code):
    if v != v:
        return code + 'nan'
    return code + '%d' % struct.unpack(fmt.upper().replace('F', 'I').replace('D', 'Q'), struct.pack(fmt, v))[0]


def fmt_val(v, tags):
    """`tags` iterates over the value-producing type tags of the message in order."""
    if isinstance(v, list):
        return ' '.join(['['] + [fmt_val(x, tags) for x in v] + [']'])
    t = next(tags)
    if t == 'T' or t == 'F':
        return t if v is (t == 'T') else f'?{v!r}'
    if t == 'i':
        return f'i{v}'
    if t == 'f':
        return fmt_float(v, '>f', 'f')
    if t == 'd':
        return fmt_float(v, '>d', 'd')
    if t == 's':
        return 's' + v.encode('utf-8', 'surrogatepass').hex()
    if t == 'b':
        return 'b' + bytes(v).hex()
    if t == 'r':
        return f'r{v}'
    if t == 't':
        return f't{v}'
    if t == 'm':
        return 'm' + '.'.join(str(x) for x in v)
    return f'?{t}'


def fmt_msg(oli, m):
    dg = m.dgram
    _, idx = oli.get_string(dg, 0)
    tags = ''
    if dg[idx:]:
        tags, _ = oli.get_string(dg, idx)
    tags = iter([t for t in tags if t in 'ifdsbrmtTF'])
    return (m.address.encode('utf-8', 'surrogatepass').hex() + ';'
            + ' '.join(fmt_val(p, tags) for p in m.params))


def fmt_packet(oli, dgram):
    """Canonical form of OscPacket(dgram).messages; value kinds are recovered from the message's own
    type tag string (the parser returns doubles/rgba/timetags as plain numbers)."""
    msgs = oli.OscPacket(dgram).messages
    return '|'.join(('None' if m.time is None else str(m.time)) + ';' + fmt_msg(oli, m.message)
                    for m in msgs)


def guarded(f, *a):
    signal.signal(signal.SIGALRM, _alarm)
    signal.setitimer(signal.ITIMER_REAL, 20.0)
    try:
        return 'ok ' + str(f(*a))
    except Hang:
        return 'HANG'
    except Exception as e:
        return 'err ' + type(e).__name__
    finally:
        signal.setitimer(signal.ITIMER_REAL, 0)


_state = {}


def setup():
    if _state:
        return _state
    import warnings
    warnings.filterwarnings('ignore')
    import logging
    import sc3
    sc3.init('nrt', 'ERROR')
    logging.disable(logging.CRITICAL)
    from sc3.base.main import main
    from sc3.base import _osclib as oli
    from sc3.base import _oscinterface as osci
    from sc3.base.netaddr import NetAddr
    from sc3.base.clock import SystemClock

    sent = []

    class Capture(osci.OscInterface):
        def _send(self, msg, target):
            sent.append(msg.dgram)

    _state.update(main=main, oli=oli, osc=main._osc_interface, NetAddr=NetAddr, clock=SystemClock,
                  sent=sent, cap=Capture())
    return _state


def run_case(c):
    st = setup()
    oli, osc, clock = st['oli'], st['cap'], st['clock']
    k = c['k']
    out = {}
    if k in ('msg', 'bndl'):
        clock._elapsed_osc_offset = c['off']
        send = float.fromhex(c['send'])
        args = pv(c['args'])
        build = osc._build_msg if k == 'msg' else osc._build_bundle
        out['r'] = guarded(lambda: build(send, args).dgram.hex())
        if out['r'].startswith('ok '):
            dgram = bytes.fromhex(out['r'][3:])
            out['dec'] = guarded(fmt_packet, oli, dgram)
        n = st['NetAddr']('127.0.0.1', 57110)
        args2 = pv(c['args'])
        if k == 'msg':
            out['size'] = guarded(n._calc_msg_dgram_size, args2)
        else:
            out['size'] = guarded(n._calc_bndl_dgram_size, args2[1:])
    elif k == 'dec':
        out['dec'] = guarded(fmt_packet, oli, bytes.fromhex(c['hex']))
    elif k == 'clump':
        clock._elapsed_osc_offset = 0
        n = st['NetAddr']('127.0.0.1', 57110)
        els = expand_els(c['els'])

        def f():
            return n._clump_bundle(els, c['size'])
        try:
            cl = f()
            out['r'] = 'ok ' + ','.join(str(len(x)) for x in cl)
            flat = [id(e) for x in cl for e in x]
            out['concat'] = flat == [id(e) for e in els]
            out['real'] = [len(osc._build_bundle(0.0, [None] + x).dgram) for x in cl]
            out['pred'] = [n._calc_bndl_dgram_size(x) for x in cl]
            out['elem_pred'] = elem_pred(n, c['els'])
        except Exception as e:
            out['r'] = 'err ' + type(e).__name__
    elif k in ('sendc', 'sync'):
        clock._elapsed_osc_offset = 0
        n = st['NetAddr']('127.0.0.1', 57110)
        n._osc_interface = st['cap']
        sent = st['sent']
        del sent[:]
        els = expand_els(c['els'])
        try:
            if k == 'sendc':
                t = None if c['time'] is None else float.fromhex(c['time'])
                n.send_clumped_bundles(t, *els)
            else:
                ids = iter(range(1000, 100000))
                n._make_sync_responder = lambda cond: next(ids)

                class Cond:
                    test = False

                    def wait(self):
                        return iter(())

                    def signal(self):
                        pass
                lat = None if c['lat'] is None else float.fromhex(c['lat'])
                for _ in n.sync(Cond(), lat, els):
                    pass
            out['r'] = 'ok'
            out['sizes'] = [len(d) for d in sent]
            from tools import osc10
            addrs, tts = [], []
            for d in sent:
                pkt = osc10.read_packet(d)          # strict reader, bundle order (no sorting)
                addrs.append([a.decode() for _, a, _ in osc10.flatten(pkt)])
                tts.append(pkt[1])
            out['counts'] = [len(a) for a in addrs]
            out['addrs_per'] = addrs
            out['elem_pred'] = elem_pred(n, c['els'])
            out['order'] = [a for x in addrs for a in x]
            out['tts'] = tts
        except Exception as e:
            out['r'] = 'err ' + type(e).__name__
    elif k == 'reuse':
        out = run_reuse(st, c)
    elif k == 'dsend':
        out = run_dsend(st, c)
    elif k == 'bna':
        out = run_bna(st, c)
    elif k == 'bnag':
        out = run_bnag(st, c)
    return out


def _capture_addr(st):
    n = st['NetAddr']('127.0.0.1', 57110)
    n._osc_interface = st['cap']
    ids = iter(range(1000, 100000))
    n._make_sync_responder = lambda cond: next(ids)

    class Cond:
        test = False

        def wait(self):
            return iter(())

        def signal(self):
            pass
    real_sync = st['NetAddr'].sync
    n.sync = lambda condition=None, latency=None, elements=None: real_sync(n, Cond(), latency, elements)
    return n


def run_dsend(st, c):
    """SynthDef._do_send with a definition of a chosen byte size and a completion message"""
    from tools import osc10
    from sc3.synth.synthdef import SynthDef
    st['clock']._elapsed_osc_offset = 0
    n = _capture_addr(st)

    class FakeServer:
        addr = n
    sd = SynthDef.__new__(SynthDef)
    sd._name = 'big'
    data = bytes((i * 7 + 3) % 251 for i in range(c['size']))
    sd._bytes = memoryview(data)
    sd._write_def_file = lambda d: None
    sent = st['sent']
    del sent[:]
    out = {}
    try:
        sd._do_send(FakeServer(), pv(c['completion']))
        kinds = []
        for d in sent:
            addr, vals, _ = osc10.read_message(d)
            kinds.append(addr.decode())
        out['sizes'] = [len(d) for d in sent]
        out['kinds'] = kinds
        if kinds == ['/d_recv']:
            out['r'] = f'ok recv {len(sent[0])}'
            out['blob_ok'] = vals[0] == ('b', data)
            out['tail'] = sent[0][8 + 4 + 4 + len(data) + (-len(data) % 4):].hex()
            out['ntags'] = len(vals)
        elif kinds == ['/d_load']:
            out['r'] = 'ok load'
        else:
            out['r'] = 'ok ' + ','.join(kinds)
    except Exception as e:
        out['r'] = 'err ' + type(e).__name__
    return out


def run_bna(st, c):
    """BundleNetAddr (server.bind()) histories: collect / sync / exit"""
    from tools import osc10
    from sc3.base.netaddr import BundleNetAddr
    st['clock']._elapsed_osc_offset = 0
    n = _capture_addr(st)
    sent = st['sent']
    del sent[:]
    per_op, dgrams = [], []

    def flush():
        counts = []
        for d in sent:
            pkt = osc10.read_packet(d)
            addrs = [a.decode() for _, a, _ in osc10.flatten(pkt)]
            counts.append(len(addrs))
            dgrams.append({'addrs': addrs, 'size': len(d)})
        del sent[:]
        return 'ok ' + ','.join(str(x) for x in counts)
    out = {}
    try:
        b = BundleNetAddr(n)
        with b:
            for op in c['ops']:
                if op[0] == 'msg':
                    b.send_msg(*pv(op[1]))
                elif op[0] == 'bundle':
                    b.send_bundle(None, *pv(op[1]))
                elif op[0] == 'clumped':
                    b.send_clumped_bundles(None, *pv(op[1]))
                elif op[0] == 'status':
                    b.send_status_msg()
                elif op[0] == 'sync':
                    for _ in b.sync(None, None, None if op[1] is None else pv(op[1])):
                        pass
                per_op.append(flush())
        per_op.append(flush())
        out['r'] = 'ok'
        out['ops'] = per_op
        out['dgrams'] = dgrams
    except Exception as e:
        out['r'] = 'err ' + type(e).__name__
        out['ops'] = per_op
    return out


def unpv(v):
    if v is None or isinstance(v, (bool, int)):
        return v
    if isinstance(v, float):
        return {'f': v.hex() if v == v and abs(v) != float('inf') else str(v)}
    if isinstance(v, str):
        return {'s': v}
    if isinstance(v, (list, tuple)):
        return [unpv(x) for x in v]
    return {'o': type(v).__name__}


def run_bnag(st, c):
    """collecting proxy BundleNetAddr(addr, send=False): messages, bundles (nested ones with latencies),
    sync(latency, elements), then get_bundle(time): the element structure as given, encoded by the real encoder"""
    from sc3.base.netaddr import BundleNetAddr
    st['clock']._elapsed_osc_offset = 0
    n = _capture_addr(st)
    out = {}
    try:
        b = BundleNetAddr(n, send=False)
        for op in c['ops']:
            if op[0] == 'msg':
                b.send_msg(*pv(op[1]))
            elif op[0] == 'bundle':
                b.send_bundle(None, *pv(op[1]))
            elif op[0] == 'clumped':
                b.send_clumped_bundles(None, *pv(op[1]))
            elif op[0] == 'status':
                b.send_status_msg()
            elif op[0] == 'sync':
                for _ in b.sync(None, pv(op[1]), None if op[2] is None else pv(op[2])):
                    pass
        g = b.get_bundle(pv(c['time']))
        bundles = g if any(op[0] == 'sync' for op in c['ops']) else [g]
        out['r'] = 'ok'
        out['struct'] = unpv(bundles)
        out['hex'] = [guarded(lambda x=x: st['cap']._build_bundle(0.0, x).dgram.hex()) for x in bundles]
    except Exception as e:
        out['r'] = 'err ' + type(e).__name__
        out['hex'] = []
    return out


def run_reuse(st, c):
    """the SAME argument objects handed to a send path several times"""
    import copy
    from tools import osc10
    oli, clock = st['oli'], st['clock']
    clock._elapsed_osc_offset = 0
    n = st['NetAddr']('127.0.0.1', 57110)
    n._osc_interface = st['cap']
    sent = st['sent']
    m = c['method']
    if m == 'msg':
        args = pv(c['args'])
    else:
        args = expand_els(c['els'])
        if c.get('as') == 'tuple':
            args = tuple(args)
    snapshot = copy.deepcopy(args)
    ids = iter(range(1000, 100000))
    n._make_sync_responder = lambda cond: next(ids)

    class Cond:
        test = False

        def wait(self):
            return iter(())

        def signal(self):
            pass
    t = None if c.get('time') is None else float.fromhex(c['time'])
    calls = []
    out = {'r': 'ok'}
    try:
        for _ in range(c['n']):
            del sent[:]
            if m == 'sync':
                for _x in n.sync(Cond(), t, args):
                    pass
            elif m == 'sendc':
                n.send_clumped_bundles(t, *args)
            elif m == 'bundle':
                n.send_bundle(t, *args)
            else:
                n.send_msg(*args)
            per = []
            for d in sent:
                pkt = osc10.read_packet(d)
                per.append([a.decode() for _, a, _ in osc10.flatten(pkt)])
            calls.append({'counts': [len(x) for x in per], 'addrs': per, 'sizes': [len(d) for d in sent],
                          'hex': [d.hex() for d in sent] if m in ('bundle', 'msg') else None})
        out['calls'] = calls
        out['r'] = 'ok ' + ';'.join(','.join(str(x) for x in cl['counts']) for cl in calls)
        out['mutated'] = not (args == snapshot)
        if m != 'msg':
            out['elem_pred'] = elem_pred(n, c['els'])
    except Exception as e:
        out['r'] = 'err ' + type(e).__name__
    return out


def elem_pred(n, spec):
    res = []
    for _, e in spec:
        e = pv(e)
        res.append(n._calc_msg_dgram_size(e) if isinstance(e[0], str) else n._calc_bndl_dgram_size(e[1:]))
    return res


def expand_els(spec):
    """Element lists for the clump tests are given run-length encoded:
    [[count, element-json], ...]; every element is a distinct list object with a distinct address
    suffix patched in by the generator where order matters."""
    els = []
    for cnt, e in spec:
        for _ in range(cnt):
            els.append(pv(e))
    return els


def run(payload):
    return [run_case(c) for c in payload['cases']]
