"""C09 implementation side: drive the real sc3.base._taskq.TaskQueue."""


def fmt_item(r):
    t = r[1][0] if isinstance(r[1], tuple) else r[1]
    return f'({int(r[0] * 8)},{t})'


def T(t):
    """a task object that is EQUAL to, but not identical with, every other T(t): items are compared
    by equality (as the bound methods the library itself queues: `obj.stop == obj.stop`, two objects)"""
    return tuple([int(t), 'task'])


def run_history(ops):
    from sc3.base._taskq import TaskQueue
    q = TaskQueue()
    out = []
    for line in ops:
        w = line.split()
        try:
            if w[0] == 'add':
                q.add(int(w[1]) / 8.0, T(w[2])); out.append('ok')
            elif w[0] == 'remove':
                q.remove(T(w[1])); out.append('ok')
            elif w[0] == 'pop':
                out.append(fmt_item(q.pop()))
            elif w[0] == 'peekS':
                out.append(fmt_item(q.peek()))
            elif w[0] == 'peekL':
                out.append(fmt_item(q.peek(False)))
            elif w[0] == 'empty':
                out.append(str(bool(q.empty())))
            elif w[0] == 'clear':
                q.clear(); out.append('ok')
            elif w[0] == 'iter':
                out.append('[' + ','.join(fmt_item(x) for x in q) + ']')
            else:
                out.append('bad-op')
        except KeyError:
            out.append('KeyError')
        except Exception as e:   # anything else is reported as is
            out.append(f'EXC:{type(e).__name__}')
    return out


def run_shutdown(case):
    """exit actions: the real Process._shutdown drains main._atexitq while the running actions
    add / move / remove pending actions."""
    from sc3.base import main as _libsc3
    from sc3.base._taskq import TaskQueue
    main = _libsc3.main
    saved = main._atexitq
    q = TaskQueue()
    main._atexitq = q
    ran = []
    actions = {}

    class Owner:
        def __init__(self, t):
            self.t = t

        def action(self):
            t = self.t
            ran.append(t)
            if len(ran) > 200:
                raise RuntimeError('runaway shutdown')
            for op in case['beh'].get(str(t), []):
                if op[0] == 'a':
                    q.add(op[1] / 8.0, get(op[2]))
                else:
                    q.remove(get(op[1]))

    def get(t):
        # a NEW bound-method object on every call (equal to the earlier ones), as `self.stop` is
        if t not in actions:
            actions[t] = Owner(t)
        return actions[t].action
    try:
        for p, t in case['adds']:
            q.add(p / 8.0, get(t))
        try:
            main._shutdown()
            out = 'ran ' + ' '.join(str(t) for t in ran)
        except Exception as e:
            out = f'EXC:{type(e).__name__} after ' + ' '.join(str(t) for t in ran)
    finally:
        main._atexitq = saved
        import atexit
        atexit.register(main._shutdown)
    return [out]


def fmt_items(l):
    return '[' + ','.join(f'({int(round(t * 8))},{i})' for t, i in l) + ']'


def run_sched(case):
    """the real non-real-time ClockScheduler and ClockTask, driven with stub clocks
    (secs = (offset + beats * scale) / 8) and scripted tasks"""
    from sc3.base.clock import ClockScheduler, ClockTask
    sched = ClockScheduler()
    cts = []          # creation order = clock task id
    clocks = {}
    tasks = {}
    woke = []

    class StubClock:
        def __init__(self):
            self.scale, self.offset = 1, 0

        def beats2secs(self, beats):
            return (self.offset + beats * self.scale) / 8.0

    def body_a(): pass

    def body_b(): pass

    class StubTask:
        # like Routine: several task objects may be built from the same function (`func`)
        def __init__(self, t):
            self.t, self.n = t, 0
            self.func = (body_a, body_b)[t % 2]

        def __awake__(self, clock):
            n = self.n
            self.n += 1
            if len(woke) > 400:
                raise RuntimeError('runaway')
            b = case.get('beh', {}).get(f'{self.t}:{n}')
            if not b:
                return None
            for op in b[1]:
                do(op)
            return b[0]

    def clock(c):
        if c not in clocks:
            clocks[c] = StubClock()
        return clocks[c]

    def task(t):
        if t not in tasks:
            tasks[t] = StubTask(t)
        return tasks[t]

    def do(op):
        if op[0] == 'clock':
            clock(op[1]).scale, clock(op[1]).offset = op[2], op[3]
        elif op[0] == 'sched':
            cts.append(ClockTask(op[1], clock(op[2]), task(op[3]), sched))
        elif op[0] == 'tempo':
            clock(op[1]).scale, clock(op[1]).offset = op[2], op[3]
            sched.retime(clock(op[1]))

    def ident(ct):
        return next(i for i, x in enumerate(cts) if x is ct)

    # wrap _wakeup to log which clock task woke at which time
    orig = ClockTask._wakeup

    def logged(self, time):
        woke.append((time, ident(self)))
        return orig(self, time)
    ClockTask._wakeup = logged
    out = []
    try:
        for op in case['ops']:
            try:
                if op[0] == 'iter':
                    out.append(fmt_items([(t, ident(ct)) for t, ct in sched.queue]))
                elif op[0] == 'run':
                    del woke[:]
                    sched.run()
                    out.append('woke ' + fmt_items(woke))
                else:
                    do(op)
                    out.append('ok')
            except Exception as e:
                out.append(f'EXC:{type(e).__name__}')
    finally:
        ClockTask._wakeup = orig
    return out


def run_score(case):
    """the real OscScore: bundles added from the main thread with absolute times, then finish"""
    from sc3.base import main as _libsc3
    from sc3.base._oscinterface import OscScore
    main = _libsc3.main
    base = main.current_tt._seconds
    score = OscScore()
    try:
        rejected = 0
        for t8, content in case['adds']:
            if content < 0:
                # a bundle the encoder refuses (un-encodable argument): must leave the score as it was
                try:
                    score.add([t8 / 8.0, ['/n_set', 1000, 'amp', object()]])
                except Exception:
                    rejected += 1
                continue
            score.add([t8 / 8.0, ['/n_set', 1000 + content, 'amp', content]])
        d0 = score.duration
        score.finish(case['tail'] / 8.0)
        lst = score.list
        d1, d2 = score.duration, score.duration
    except Exception as e:
        return [f'EXC:{type(e).__name__}: {e}'[:200]]
    items = []
    for b in lst:
        m = b[1]
        what = 'root' if m[0] == '/g_new' else 'tail' if m[0] == '/c_set' else str(m[3])
        items.append(f'({int(round(b[0] * 8))},{what})')
    ok = len(score.raw) > 0

    def f8(x):
        return 'None' if x is None else str(int(round(x * 8)))
    return ['listing [' + ','.join(items) + f'] duration {f8(d0)} {f8(d1)} {f8(d2)} refused {rejected}', int(round(base * 8)), ok]


def run_appsched(case):
    """the real `Scheduler` (AppClock's scheduler), driven directly with a stub clock and scripted
    items: sched / sched_abs / advance to a time (which wakes everything due, in time order)"""
    from sc3.base.clock import Scheduler
    woke = []

    class StubClock:
        def secs2beats(self, s):
            return s

    class Item:
        def __init__(self, t):
            self.t, self.n = t, 0

        def __awake__(self, clock):
            n = self.n
            self.n += 1
            woke.append((sch.seconds, self.t))
            if len(woke) > 400:
                raise RuntimeError('runaway')
            b = case.get('beh', {}).get(f'{self.t}:{n}')
            if not b:
                return None
            for op in b[1]:
                do(op)
            return None if b[0] is None else b[0] / 8.0
    sch = Scheduler(StubClock(), drift=False, recursive=bool(case.get('recursive')))
    items = {}

    def item(t):
        if t not in items:
            items[t] = Item(t)
        return items[t]

    def do(op):
        if op[0] == 'sched':
            sch.sched(op[1] / 8.0, item(op[2]))
        elif op[0] == 'abs':
            sch.sched_abs(op[1] / 8.0, item(op[2]))
        elif op[0] == 'clear':
            sch.clear()
    out = []
    for op in case['ops']:
        try:
            if op[0] == 'to':
                del woke[:]
                sch.seconds = op[1] / 8.0
                out.append('woke ' + fmt_items(woke) + f' now {int(round(sch.seconds * 8))} empty {bool(sch.empty())}')
            else:
                do(op)
                out.append('ok')
        except Exception as e:
            out.append(f'EXC:{type(e).__name__}')
    return out


def run_ppar(case):
    """the real Ppar over Pbind children with scripted deltas (k/8), consumed as a stream"""
    from sc3.seq.patterns.eventpatterns import Ppar, Pbind
    from sc3.seq.patterns.listpatterns import Pseq
    from sc3.base import stream as stm
    from sc3.seq import event as evt
    try:
        pp = Ppar(*[Pbind({'delta': Pseq([d / 8.0 for d in ds]), 'child': i}) for i, ds in enumerate(case['rem'])])
        # two streams of the SAME pattern object, consumed alternately: each is the whole merge
        streams = [stm.stream(pp), stm.stream(pp)]
        outs = [[], []]
        live = [True, True]
        for _ in range(2 * (sum(len(d) for d in case['rem']) + 3 * len(case['rem']) + 5)):
            if not any(live):
                break
            for k in (0, 1):
                if not live[k]:
                    continue
                try:
                    e = streams[k].next(evt.event({}))
                except stm.StopStream:
                    live[k] = False
                    continue
                who = 'r' if evt.is_rest(e) else str(e.get('child'))
                outs[k].append(f'{who}:{int(round(float(e["delta"]) * 8))}')
        else:
            outs[0].append('RUNAWAY')
        if outs[0] != outs[1]:
            return ['merge ' + ' '.join(outs[0]) + ' BUT-SECOND-STREAM ' + ' '.join(outs[1])]
        return ['merge ' + ' '.join(outs[0])]
    except Exception as e:
        return [f'EXC:{type(e).__name__}: {e}'[:200]]


def run(payload):
    res = []
    inited = False
    for c in payload['cases']:
        if isinstance(c, dict):
            if not inited:
                import sc3
                sc3.init('nrt', 'ERROR')
                inited = True
            if c.get('kind') == 'sched':
                res.append(run_sched(c))
                continue
            if c.get('kind') == 'score':
                res.append(run_score(c))
                continue
            if c.get('kind') == 'ppar':
                res.append(run_ppar(c))
                continue
            if c.get('kind') == 'appsched':
                res.append(run_appsched(c))
                continue
            res.append(run_shutdown(c))
        else:
            res.append(run_history(c))
    return res
