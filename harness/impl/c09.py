"""C09 implementation side: drive the real sc3.base._taskq.TaskQueue."""


def fmt_item(r):
    return f'({int(r[0] * 8)},{r[1]})'


def run_history(ops):
    from sc3.base._taskq import TaskQueue
    q = TaskQueue()
    out = []
    for line in ops:
        w = line.split()
        try:
            if w[0] == 'add':
                q.add(int(w[1]) / 8.0, int(w[2])); out.append('ok')
            elif w[0] == 'remove':
                q.remove(int(w[1])); out.append('ok')
            elif w[0] == 'pop':
                out.append(fmt_item(q.pop()))
            elif w[0] == 'peekS':
                out.append(fmt_item(q.peek()))
            elif w[0] == 'peekL':
                out.append(fmt_item(q.peek(False)))
            elif w[0] == 'empty':
                out.append(str(bool(q.empty())))
            elif w[0] == 'clear':
                q.clear(); out.append('ok')
            elif w[0] == 'iter':
                out.append('[' + ','.join(fmt_item(x) for x in q) + ']')
            else:
                out.append('bad-op')
        except KeyError:
            out.append('KeyError')
        except Exception as e:   # anything else is reported as is
            out.append(f'EXC:{type(e).__name__}')
    return out


def run_shutdown(case):
    """exit actions: the real Process._shutdown drains main._atexitq while the running actions
    add / move / remove pending actions."""
    from sc3.base import main as _libsc3
    from sc3.base._taskq import TaskQueue
    main = _libsc3.main
    saved = main._atexitq
    q = TaskQueue()
    main._atexitq = q
    ran = []
    actions = {}

    def make(t):
        def action():
            ran.append(t)
            if len(ran) > 200:
                raise RuntimeError('runaway shutdown')
            for op in case['beh'].get(str(t), []):
                if op[0] == 'a':
                    q.add(op[1] / 8.0, get(op[2]))
                else:
                    q.remove(get(op[1]))
        return action

    def get(t):
        if t not in actions:
            actions[t] = make(t)
        return actions[t]
    try:
        for p, t in case['adds']:
            q.add(p / 8.0, get(t))
        try:
            main._shutdown()
            out = 'ran ' + ' '.join(str(t) for t in ran)
        except Exception as e:
            out = f'EXC:{type(e).__name__} after ' + ' '.join(str(t) for t in ran)
    finally:
        main._atexitq = saved
        import atexit
        atexit.register(main._shutdown)
    return [out]


def run(payload):
    res = []
    inited = False
    for c in payload['cases']:
        if isinstance(c, dict):
            if not inited:
                import sc3
                sc3.init('nrt', 'ERROR')
                inited = True
            res.append(run_shutdown(c))
        else:
            res.append(run_history(c))
    return res
