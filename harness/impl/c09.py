"""C09 implementation side: drive the real sc3.base._taskq.TaskQueue."""


def fmt_item(r):
    return f'({int(r[0] * 8)},{r[1]})'


def run_history(ops):
    from sc3.base._taskq import TaskQueue
    q = TaskQueue()
    out = []
    for line in ops:
        w = line.split()
        try:
            if w[0] == 'add':
                q.add(int(w[1]) / 8.0, int(w[2])); out.append('ok')
            elif w[0] == 'remove':
                q.remove(int(w[1])); out.append('ok')
            elif w[0] == 'pop':
                out.append(fmt_item(q.pop()))
            elif w[0] == 'peekS':
                out.append(fmt_item(q.peek()))
            elif w[0] == 'peekL':
                out.append(fmt_item(q.peek(False)))
            elif w[0] == 'empty':
                out.append(str(bool(q.empty())))
            elif w[0] == 'clear':
                q.clear(); out.append('ok')
            elif w[0] == 'iter':
                out.append('[' + ','.join(fmt_item(x) for x in q) + ']')
            else:
                out.append('bad-op')
        except KeyError:
            out.append('KeyError')
        except Exception as e:   # anything else is reported as is
            out.append(f'EXC:{type(e).__name__}')
    return out


def run(payload):
    return [run_history(ops) for ops in payload['cases']]
