"""
Framework shared by every property check (see DESIGN.md §2, §4).

A property module (harness/props/cXX.py) defines a class `Check(common.Check)`:

    PROP            'C09'
    LEAN_TARGETS    ['Sc3Verif.C09.Props']        lake targets holding the property theorems
    LEAN_DIRS       ['Sc3Verif/C09']              sources scanned for forbidden tokens
    THEOREMS        ['Sc3Verif.C09.refines_sorted_list', ...]   audited with #print axioms
    regen(self)                 optional: translator step, writes lean/Sc3Verif/Gen/*.lean
    corpus(self)                list of cases replayed first (minimised past failures / witnesses)
    gen(self, rng, n)           list of n generated cases (JSON-able)
    impl(self, cases)           run the REAL sc3 code on the cases -> list of canonical outputs
    model(self, cases)          run the Lean driver on the cases -> list of canonical outputs
    oracle(self, case, out)     property predicate on the real behaviour, independent of the
                                model: returns None or {'what':..., 'signature':...}
    nontrivial(self, case, out) -> bool ; describe(self) -> rule text ; histogram(...)

`run_check` implements the verdict logic of DESIGN.md §4.
Exit codes: 0 held / 1 VIOLATION line printed / 2 infrastructure failure.
"""
import fcntl
import hashlib
import json
import os
import random
import re
import shutil
import subprocess
import sys
import tempfile
import time
from pathlib import Path

VERIF = Path(__file__).resolve().parent.parent
LEAN = VERIF / 'lean'
REPO = Path(os.environ.get('SC3_REPO', '/repo'))
PY = os.environ.get('SC3_PYTHON', '/venv/bin/python')
GUARD = 'SC3_VERIF'

ALLOWED_AXIOMS = {'propext', 'Classical.choice', 'Quot.sound'}
FORBIDDEN = re.compile(
    r'\bsorry\b|\badmit\b|^\s*axiom\s|native_decide|bv_decide|implemented_by|'
    r'^\s*unsafe\s|\bunsafe def\b|maxHeartbeats\s+0\b', re.M)

TRUSTED_BASE = [
    'Lean 4.33.0 kernel',
    'axioms: subset of {propext, Classical.choice, Quot.sound} (audited by #print axioms each run)',
    'no sorry/admit/native_decide/bv_decide/own axioms (source scan each run)',
    'correspondence harness (generators, canonicalisers) ties the hand-written model to /repo',
    'CPython runtime (heapq, dict order, struct, re, generators, threading primitives)',
]


class Infra(Exception):
    """Infrastructure failure (exit 2, never a VIOLATION)."""


def sh(cmd, cwd=None, input=None, timeout=None, env=None):
    try:
        p = subprocess.run(cmd, cwd=cwd, input=input, capture_output=True, text=True,
                           timeout=timeout, env=env)
    except subprocess.TimeoutExpired as e:
        raise Infra(f'timeout after {timeout}s: {cmd}') from e
    return p


class LakeLock:
    def __enter__(self):
        self.f = open(LEAN / '.lake.lock', 'w')
        fcntl.flock(self.f, fcntl.LOCK_EX)
        return self

    def __exit__(self, *a):
        fcntl.flock(self.f, fcntl.LOCK_UN)
        self.f.close()


def strip_comments(src):
    """Remove Lean comments (nested block comments and line comments)."""
    out, i, depth, n = [], 0, 0, len(src)
    while i < n:
        if src.startswith('/-', i):
            depth += 1; i += 2; continue
        if depth and src.startswith('-/', i):
            depth -= 1; i += 2; continue
        if depth:
            if src[i] == '\n':
                out.append('\n')
            i += 1; continue
        if src.startswith('--', i):
            while i < n and src[i] != '\n':
                i += 1
            continue
        out.append(src[i]); i += 1
    return ''.join(out)


def scan_forbidden(dirs):
    hits = []
    for d in dirs:
        p = LEAN / d
        files = [p] if p.is_file() else sorted(p.rglob('*.lean'))
        for f in files:
            m = FORBIDDEN.search(strip_comments(f.read_text()))
            if m:
                hits.append(f'{f.relative_to(LEAN)}: {m.group(0).strip()}')
    return hits


def enclosing_decl(path, line):
    try:
        lines = Path(path).read_text().splitlines()
    except OSError:
        return None
    for i in range(min(line, len(lines)) - 1, -1, -1):
        m = re.match(r'\s*(?:@\[[^\]]*\]\s*)?(?:private\s+|protected\s+)?'
                     r'(theorem|lemma|def|example|instance|abbrev)\s+([^\s:({\[]+)?', lines[i])
        if m:
            return f'{m.group(1)} {m.group(2) or ""}'.strip()
    return None


def lean_build(targets, timeout=3000, locked=False):
    """lake build; returns (ok, log, first_failing_decl)."""
    if locked:
        p = sh(['lake', 'build'] + list(targets), cwd=LEAN, timeout=timeout)
    else:
        with LakeLock():
            p = sh(['lake', 'build'] + list(targets), cwd=LEAN, timeout=timeout)
    log = p.stdout + p.stderr
    if p.returncode == 0:
        return True, log, None
    m = re.search(r'error: ([^\s:]+\.lean):(\d+):(\d+)', log)
    decl = None
    if m:
        decl = f'{m.group(1)}:{m.group(2)} ' + str(enclosing_decl(LEAN / m.group(1), int(m.group(2))))
    return False, log, decl


def lean_axioms(imports, theorems, timeout=1200):
    """#print axioms for each theorem. Returns {name: [axioms]} ; missing names -> None."""
    src = ''.join(f'import {i}\n' for i in imports)
    src += ''.join(f'#print axioms {t}\n' for t in theorems)
    d = LEAN / '.audit'
    d.mkdir(exist_ok=True)
    f = d / f'Audit_{os.getpid()}.lean'
    f.write_text(src)
    try:
        p = sh(['lake', 'env', 'lean', str(f)], cwd=LEAN, timeout=timeout)
    finally:
        f.unlink(missing_ok=True)
    out = p.stdout + p.stderr
    res = {}
    for t in theorems:
        m = re.search(r"'" + re.escape(t) + r"' depends on axioms: \[([^\]]*)\]", out, re.S)
        if m:
            res[t] = [a.strip() for a in m.group(1).replace('\n', ' ').split(',') if a.strip()]
        elif re.search(r"'" + re.escape(t) + r"' does not depend on any axioms", out):
            res[t] = []
        else:
            res[t] = None
    return res, out


def run_driver(driver_rel, lines, timeout=1800, args=()):
    """Feed lines to a Lean line-protocol driver; returns list of output lines."""
    data = '\n'.join(lines) + '\n'
    p = sh(['lake', 'env', 'lean', '--run', driver_rel] + list(args), cwd=LEAN, input=data,
           timeout=timeout)
    if p.returncode != 0:
        return None, p.stdout[-2000:] + p.stderr[-4000:]
    return p.stdout.splitlines(), ''


def impl_env(home):
    env = dict(os.environ)
    env['PYTHONPATH'] = f'{REPO}:{VERIF}'
    env['HOME'] = str(home)
    env[GUARD] = '1'
    env.setdefault('PYTHONHASHSEED', '0')
    env['PYTHONDONTWRITEBYTECODE'] = '1'
    return env


def run_impl(module, func, payload, timeout=1800, extra_env=None):
    """Run `harness.impl.<module>.<func>(payload)` under the repo's interpreter against
    the current working tree of REPO, in a fresh process with a scratch HOME.
    Returns (result, error_text)."""
    home = tempfile.mkdtemp(prefix='sc3verif_home_')
    try:
        env = impl_env(home)
        if extra_env:
            env.update(extra_env)
        try:
            p = subprocess.run([PY, str(VERIF / 'harness' / 'implrun.py'), module, func],
                               input=json.dumps(payload), capture_output=True, text=True,
                               timeout=timeout, env=env, cwd=home)
        except subprocess.TimeoutExpired:
            return None, f'TIMEOUT after {timeout}s'
        # the result marker decides: interpreter-shutdown noise (e.g. BytesIO buffers exported by
        # SynthDef.as_bytes) may turn the exit status non-zero after the result was written
        try:
            marker = p.stdout.rindex('\n@@RESULT@@')
            return json.loads(p.stdout[marker + len('\n@@RESULT@@'):]), ''
        except ValueError:
            return None, f'no result marker (exit {p.returncode})\n' + p.stdout[-1000:] + p.stderr[-3000:]
    finally:
        shutil.rmtree(home, ignore_errors=True)


def load_known():
    f = VERIF / 'known_findings.json'
    k = json.loads(f.read_text()) if f.exists() else {'open': [], 'fixed': []}
    k.setdefault('open', []); k.setdefault('fixed', [])
    def key(e):
        return (e.get('property'), e.get('signature'), e.get('commit'), e.get('status'))
    seen = {key(e) for e in k['open'] + k['fixed']}
    d = VERIF / 'known_findings.d'
    if d.is_dir():            # per-defect files, merged into known_findings.json by tools/mkknown.py
        for g in sorted(d.glob('*.json')):
            e = json.loads(g.read_text())
            if key(e) not in seen:
                k['open' if e.get('status') == 'open' else 'fixed'].append(e)
    return k


def canon(obj):
    return json.dumps(obj, sort_keys=True, separators=(',', ':'))


def truncate_deep(obj, n=400):
    """copy of a JSON-able object with long strings cut (evidence samples stay readable)"""
    if isinstance(obj, str):
        return obj if len(obj) <= n else obj[:n] + f'...(+{len(obj) - n} chars)'
    if isinstance(obj, list):
        return [truncate_deep(x, n) for x in obj[:60]]
    if isinstance(obj, dict):
        return {k: truncate_deep(v, n) for k, v in obj.items()}
    return obj


def shrink_list(seq, still_fails, max_steps=400):
    """Delta-debugging on a list: smallest sub-list (found greedily) on which still_fails."""
    seq = list(seq)
    n, steps = 2, 0
    while len(seq) >= 2 and steps < max_steps:
        chunk = max(1, len(seq) // n)
        reduced = False
        for i in range(0, len(seq), chunk):
            cand = seq[:i] + seq[i + chunk:]
            steps += 1
            if cand and still_fails(cand):
                seq, n, reduced = cand, max(n - 1, 2), True
                break
            if steps >= max_steps:
                break
        if not reduced:
            if chunk == 1:
                break
            n = min(len(seq), n * 2)
    return seq


class Check:
    PROP = None
    LEAN_TARGETS = []
    LEAN_DIRS = []
    LEAN_IMPORTS = None          # defaults to LEAN_TARGETS
    THEOREMS = []
    LEVEL = 'proof'
    N_QUICK = 200
    N_THOROUGH = 4000
    SEARCH_FACTOR = 5            # extra generated cases for the failing-input search
    ASSUMPTIONS = []
    EXTRA_TRUSTED = []

    def __init__(self, tier, seed):
        self.tier, self.seed = tier, seed
        self.rng = random.Random(f'{self.PROP}:{seed}')
        self.t0 = time.time()
        self.notes = []

    # ---- to override -------------------------------------------------------------
    def regen(self):
        return None                      # or error text (broken tie)

    def corpus(self):
        d = VERIF / 'harness' / 'corpus' / self.PROP
        out = []
        if d.is_dir():
            for f in sorted(d.glob('*.json')):
                out.append(json.loads(f.read_text()))
        return out

    def gen(self, rng, n):
        return []

    def impl(self, cases):
        raise NotImplementedError

    def model(self, cases):
        raise NotImplementedError

    def oracle(self, case, out):
        return None

    def nontrivial(self, case, out):
        return True

    def rule(self):
        return ''

    def histogram(self, cases, outs):
        return {}

    def compare(self, case, impl_out, model_out):
        """None if equal, else description."""
        if canon(impl_out) == canon(model_out):
            return None
        return {'impl': impl_out, 'model': model_out}

    def shrink(self, case, fails):
        return case

    def extra_static(self):
        """Additional always-run static/semantic checks. Returns list of violations
        [{'what', 'signature', 'case'}] found on the real code."""
        return []

    # ---- machinery -----------------------------------------------------------------
    def n_cases(self):
        return self.N_THOROUGH if self.tier == 'thorough' else self.N_QUICK

    def proof_stage(self):
        """Returns (ok, detail dict). Regeneration, build and audit happen under one lock so that two
        checks running at once (e.g. against different SC3_REPO copies) do not see each other's
        regenerated files."""
        with LakeLock():
            return self._proof_stage_locked()

    def _proof_stage_locked(self):
        detail = {'targets': self.LEAN_TARGETS, 'theorems': len(self.THEOREMS)}
        err = self.regen()
        if err:
            detail['broken'] = f'translator: {err}'
            return False, detail
        hits = scan_forbidden(self.LEAN_DIRS)
        if hits:
            detail['broken'] = 'forbidden token: ' + '; '.join(hits)
            return False, detail
        ok, log, decl = lean_build(self.LEAN_TARGETS, locked=True)
        if not ok:
            detail['broken'] = f'lake build failed at {decl}'
            detail['log_tail'] = log[-1500:]
            return False, detail
        ax, out = lean_axioms(self.LEAN_IMPORTS or self.LEAN_TARGETS, self.THEOREMS)
        bad = {t: a for t, a in ax.items() if a is None or not set(a) <= ALLOWED_AXIOMS}
        detail['axioms'] = sorted({a for v in ax.values() if v for a in v})
        if bad:
            detail['broken'] = f'axiom audit failed: {bad}'
            detail['log_tail'] = out[-1500:]
            return False, detail
        if self.tier == 'thorough' and os.environ.get('VERIF_LEANCHECKER', '1') == '1':
            p = sh(['lake', 'env', 'leanchecker'] + list(self.LEAN_TARGETS), cwd=LEAN, timeout=3000)
            detail['leanchecker'] = 'ok' if p.returncode == 0 else 'FAILED'
            if p.returncode != 0:
                detail['broken'] = 'leanchecker rejected: ' + (p.stdout + p.stderr)[-800:]
                return False, detail
        return True, detail

    def run_cases(self, cases, want_model=True):
        """Returns (impl_outs, model_outs or None, error text)."""
        impl_outs = self.impl(cases)
        model_outs = self.model(cases) if want_model else None
        return impl_outs, model_outs

    def write_replay(self, obj):
        d = VERIF / 'replays'
        d.mkdir(exist_ok=True)
        h = hashlib.sha1(canon(obj).encode()).hexdigest()[:10]
        f = d / f'{self.PROP}-{h}.json'
        obj = dict(obj)
        obj['property'] = self.PROP
        obj['how_to_rerun'] = f'./check {self.PROP} --replay replays/{f.name}'
        f.write_text(json.dumps(obj, indent=1, sort_keys=True))
        return f'replays/{f.name}'

    def _oracle_safe(self, c, io):
        """the property oracle; an observation it cannot even interpret (never the case on the unchanged tree)
        is itself reported, with the case as the failing input, instead of ending the run as an
        infrastructure error"""
        try:
            return self.oracle(c, io)
        except Infra:
            raise
        except Exception as e:
            return {'what': f'the observation cannot be interpreted by the property oracle ({type(e).__name__}: {e}): '
                            'its shape differs from every observation the unchanged code produces',
                    'signature': f'{self.PROP.lower()}:uninterpretable'}

    def run(self):
        known = load_known()
        open_sigs = {k['signature']: k for k in known.get('open', []) if k['property'] == self.PROP}
        violations, known_hits = [], {}
        proof_ok, pdetail = self.proof_stage()

        def note_violation(v):
            sig = v.get('signature')
            if sig in open_sigs:
                known_hits[sig] = open_sigs[sig]
            else:
                violations.append(v)

        for v in self.extra_static():
            note_violation(v)

        corpus = self.corpus()
        cases = corpus + self.gen(self.rng, self.n_cases())
        impl_outs = self.impl(cases)
        if impl_outs is None or len(impl_outs) != len(cases):
            err = str(self.notes[-1]) if self.notes else ''
            crashed_in_code = ('Traceback' in err and (str(REPO) in err or 'harness/impl' in err)
                               and 'TIMEOUT' not in err)
            if not crashed_in_code:
                raise Infra(f'impl runner failed: {self.notes[-1:]}')
            # The runner of the REAL code died with a Python exception raised in the library (or in the
            # harness code driving it): on the unchanged tree this never happens, so the correspondence
            # between model and implementation can no longer be established.  Look for a single case
            # that still crashes (replay), then report as a broken tie.
            culprit = None
            lo, hi = 0, len(cases)
            for _ in range(12):
                if hi - lo <= 1:
                    break
                mid = (lo + hi) // 2
                if self.impl(cases[lo:mid]) is None:
                    hi = mid
                elif self.impl(cases[mid:hi]) is None:
                    lo = mid
                else:
                    break
            if hi - lo == 1 and self.impl(cases[lo:hi]) is None:
                culprit = cases[lo]
            wall = time.time() - self.t0
            ev = {'property_id': self.PROP, 'tier': self.tier, 'seed': self.seed, 'level': self.LEVEL,
                  'coverage': {'obligations': len(self.THEOREMS), 'discharged': len(self.THEOREMS) if proof_ok else 0,
                               'checker_cmd': f'cd lean && lake build {" ".join(self.LEAN_TARGETS)}',
                               'trusted_base': TRUSTED_BASE + self.EXTRA_TRUSTED, 'evaluations': 0,
                               'distinct_nontrivial': 0, 'rule': self.rule(),
                               'notes': ['the runner of the real code crashed: ' + err[-600:]]},
                  'assumptions': self.ASSUMPTIONS, 'wall_s': round(wall, 2), 'violations': 1}
            (VERIF / 'evidence').mkdir(exist_ok=True)
            (VERIF / 'evidence' / f'{self.PROP}.json').write_text(json.dumps(ev, indent=1))
            path = self.write_replay({'kind': 'tie-broken',
                                      'no_longer_checks': 'correspondence: the runner of the real code raised inside the library',
                                      'crash': err[-2500:], 'disagreements': ([{'case': culprit, 'diff': 'runner crashed on this case'}]
                                                                               if culprit is not None else []),
                                      'proof_detail': pdetail})
            print(f'VIOLATION property={self.PROP} replay={path} no-failing-input-found')
            return 1
        model_outs, model_err = None, None
        try:
            model_outs = self.model(cases)
        except Infra:
            raise
        except Exception as e:          # driver did not build/run: the tie is broken
            model_err = f'{type(e).__name__}: {e}'
        if model_outs is not None and len(model_outs) != len(cases):
            model_err = f'model driver returned {len(model_outs)} outputs for {len(cases)} cases'
            model_outs = None

        disagreements = []
        if model_outs is not None:
            for c, io, mo in zip(cases, impl_outs, model_outs):
                d = self.compare(c, io, mo)
                if d is not None:
                    disagreements.append((c, d))
        for c, io in zip(cases, impl_outs):
            v = self._oracle_safe(c, io)
            if v:
                v = dict(v); v['case'] = c; v['observed'] = io
                note_violation(v)

        tie_broken = (not proof_ok) or model_err is not None or bool(disagreements)
        searched = 0
        if tie_broken and not violations:
            # failing-input search (DESIGN §4 step 5): more generated cases, oracle only
            extra = self.gen(random.Random(f'{self.PROP}:search:{self.seed}'),
                             self.n_cases() * self.SEARCH_FACTOR)
            more = [c for c, _ in disagreements] + extra
            outs = self.impl(more)
            searched = len(more)
            if outs is not None:
                for c, io in zip(more, outs):
                    v = self._oracle_safe(c, io)
                    if v:
                        v = dict(v); v['case'] = c; v['observed'] = io
                        note_violation(v)
                        if violations:
                            break

        nontriv = set()
        for c, io in zip(cases, impl_outs):
            try:                      # bookkeeping callbacks must never turn a finding into an infra error
                if self.nontrivial(c, io):
                    nontriv.add(canon(c))
            except Exception as e:
                if not any(n.startswith('nontrivial() failed') for n in self.notes):
                    self.notes.append(f'nontrivial() failed on an observed output: {type(e).__name__}: {e}')
        try:
            hist = self.histogram(cases, impl_outs)
        except Exception as e:
            hist = {'error': f'histogram() failed on the observed outputs: {type(e).__name__}: {e}'}
        wall = time.time() - self.t0
        n_ob = len(self.THEOREMS)
        cov = {
            'obligations': n_ob,
            'discharged': n_ob if proof_ok else 0,
            'checker_cmd': f'cd lean && lake build {" ".join(self.LEAN_TARGETS)} '
                           f'&& #print axioms on {n_ob} property theorems',
            'trusted_base': TRUSTED_BASE + self.EXTRA_TRUSTED,
            'theorems': self.THEOREMS,
            'axioms_used': pdetail.get('axioms', []),
            'evaluations': len(cases) + searched,
            'distinct_nontrivial': len(nontriv),
            'rule': self.rule(),
            'samples': truncate_deep([{'case': c, 'impl': o} for c, o in
                                      list(zip(cases, impl_outs))[len(corpus):len(corpus) + 3]]),
            'corpus_cases': len(corpus),
            'traces_validated_against_impl': len(cases) if model_outs is not None else 0,
            'disagreements_checked': len(disagreements),
            'histogram': hist,
            'proof_detail': {k: v for k, v in pdetail.items() if k != 'log_tail'},
            'known_findings_hit': sorted(known_hits),
            'notes': self.notes,
        }
        ev = {'property_id': self.PROP, 'tier': self.tier, 'seed': self.seed, 'level': self.LEVEL,
              'coverage': cov, 'assumptions': self.ASSUMPTIONS, 'wall_s': round(wall, 2),
              'violations': len(violations) + (1 if tie_broken and not violations else 0)}
        (VERIF / 'evidence').mkdir(exist_ok=True)
        (VERIF / 'evidence' / f'{self.PROP}.json').write_text(json.dumps(ev, indent=1))

        for sig, k in known_hits.items():
            print(f'KNOWN-FINDING: property={self.PROP} {k["what"]}')
        if violations:
            v = violations[0]
            if isinstance(v.get('case'), (list, dict)):
                try:
                    v['case'] = self.shrink(v['case'], lambda c: self._still_violates(c, v))
                    outs = self.impl([v['case']])
                    w = self._oracle_safe(v['case'], outs[0]) if outs else None
                    if w:
                        v.update(w); v['observed'] = outs[0]
                except Exception as e:
                    self.notes.append(f'shrink failed: {e}')
            path = self.write_replay({'kind': 'failing-input', 'violation': v,
                                      'proof_ok': proof_ok, 'proof_detail': pdetail,
                                      'n_violations': len(violations)})
            print(f'VIOLATION property={self.PROP} replay={path}')
            return 1
        if tie_broken:
            what = pdetail.get('broken') or model_err or 'model/implementation disagreement'
            rep = {'kind': 'tie-broken', 'no_longer_checks': what, 'proof_detail': pdetail,
                   'model_error': model_err,
                   'disagreements': [{'case': c, 'diff': d} for c, d in disagreements[:5]],
                   'searched_cases': searched + len(cases)}
            path = self.write_replay(rep)
            print(f'VIOLATION property={self.PROP} replay={path} no-failing-input-found')
            return 1
        print(f'OK property={self.PROP} tier={self.tier} theorems={n_ob} cases={len(cases)} '
              f'nontrivial={len(nontriv)} wall={wall:.1f}s')
        return 0

    def _still_violates(self, case, v):
        outs = self.impl([case])
        if not outs:
            return False
        w = self._oracle_safe(case, outs[0])
        return bool(w) and w.get('signature') == v.get('signature')

    def replay(self, path):
        obj = json.loads(Path(path).read_text())
        case = (obj.get('violation') or {}).get('case')
        if case is None:
            ds = obj.get('disagreements') or []
            case = ds[0]['case'] if ds else None
        if case is None:
            print(json.dumps(obj, indent=1)); return 0
        outs = self.impl([case])
        v = self._oracle_safe(case, outs[0]) if outs else {'what': 'impl runner failed'}
        print(json.dumps({'case': case, 'observed': outs[0] if outs else None, 'oracle': v}, indent=1))
        if v:
            print(f'VIOLATION property={self.PROP} replay={path}')
            return 1
        return 0
