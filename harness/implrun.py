"""Entry point of the implementation-side process: imports harness.impl.<module>,
calls <func>(payload) and prints the JSON result after a marker (stdout noise of the
library is tolerated before it)."""
import importlib
import json
import sys

if __name__ == '__main__':
    module, func = sys.argv[1], sys.argv[2]
    payload = json.loads(sys.stdin.read())
    mod = importlib.import_module(f'harness.impl.{module}')
    res = getattr(mod, func)(payload)
    sys.stdout.write('\n@@RESULT@@' + json.dumps(res))
    sys.stdout.flush()
