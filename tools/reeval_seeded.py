#!/usr/bin/env python3
"""Re-run every stored seeded change against the current checks (4 in parallel):
  tools/reeval_seeded.py [ids...]
For each seeded/<id>/ the checks listed in its last evaluation are run again."""
import json, subprocess, sys
from concurrent.futures import ThreadPoolExecutor
from pathlib import Path
V = Path(__file__).resolve().parent.parent
ids = sys.argv[1:] or sorted(p.name for p in (V / 'seeded').iterdir() if (p / 'patch.diff').exists())

def one(sid):
    d = (V / 'seeded' / sid).resolve()
    m = json.loads((d / 'meta.json').read_text())
    props = list((m.get('evaluation') or {}).get('checks') or {}) or [sid.split('-')[0]]
    p = subprocess.run([sys.executable, str(V / 'tools/eval_seeded.py'), str(d), sid] + props,
                       capture_output=True, text=True, timeout=7200)
    try:
        ev = json.loads(p.stdout)
    except Exception:
        return sid, 'EVAL-FAILED ' + (p.stdout + p.stderr)[-200:]
    res = []
    for prop, rs in ev['checks'].items():
        if any(r['exit'] == 1 and 'no-failing-input-found' not in r['line'] for r in rs): res.append(f'{prop}:failing-input')
        elif any(r['exit'] == 1 for r in rs): res.append(f'{prop}:tie-broken')
        elif all(r['exit'] == 0 for r in rs): res.append(f'{prop}:quiet')
        else: res.append(f'{prop}:exit{rs[-1]["exit"]}')
    return sid, f'demo {ev.get("demo_without", [None])[0]}/{ev.get("demo_with", [None])[0]} ' + ' '.join(res)

import os
with ThreadPoolExecutor(int(os.environ.get('REEVAL_WORKERS', '4'))) as ex:
    for sid, line in ex.map(one, ids):
        print(sid, line, flush=True)
