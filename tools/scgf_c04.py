"""Minimal, strict, independent reader of SuperCollider synth definition files, format SCgf
version 2 (written for the C04 check; does not import sc3).

    parse(bytes) -> list of defs, each
      {'name', 'constants': [f], 'params': [f], 'pnames': [(name, index)],
       'ugens': [{'cls','rate','special','ins':[('c', value)|('u', unit, out)],'outs':[rate]}],
       'variants': [(name, [f])]}

Raises ScgfError on anything malformed: bad magic/version, truncated data, trailing bytes,
references out of range, negative counts.
"""
import struct


class ScgfError(Exception):
    pass


class _R:
    def __init__(self, data):
        self.d = bytes(data)
        self.p = 0

    def take(self, n):
        if n < 0 or self.p + n > len(self.d):
            raise ScgfError(f'truncated at byte {self.p} (need {n})')
        b = self.d[self.p:self.p + n]
        self.p += n
        return b

    def i8(self):
        return struct.unpack('>b', self.take(1))[0]

    def i16(self):
        return struct.unpack('>h', self.take(2))[0]

    def i32(self):
        return struct.unpack('>i', self.take(4))[0]

    def f32(self):
        return struct.unpack('>f', self.take(4))[0]

    def pstr(self):
        n = self.take(1)[0]
        return self.take(n).decode('ascii', errors='replace')

    def count(self, v, what):
        if v < 0:
            raise ScgfError(f'negative {what}: {v}')
        return v


def parse(data):
    r = _R(data)
    if r.take(4) != b'SCgf':
        raise ScgfError('bad magic')
    ver = r.i32()
    if ver != 2:
        raise ScgfError(f'version {ver}')
    ndefs = r.count(r.i16(), 'number of defs')
    defs = [_parse_def(r) for _ in range(ndefs)]
    if r.p != len(r.d):
        raise ScgfError(f'{len(r.d) - r.p} trailing bytes after the last definition')
    return defs


def _parse_def(r):
    d = {'name': r.pstr()}
    d['constants'] = [r.f32() for _ in range(r.count(r.i32(), 'constants'))]
    d['params'] = [r.f32() for _ in range(r.count(r.i32(), 'params'))]
    d['pnames'] = []
    for _ in range(r.count(r.i32(), 'param names')):
        n = r.pstr()
        i = r.i32()
        d['pnames'].append((n, i))
    ugens = []
    for k in range(r.count(r.i32(), 'ugens')):
        u = {'cls': r.pstr(), 'rate': r.i8()}
        nin = r.count(r.i32(), 'inputs')
        nout = r.count(r.i32(), 'outputs')
        u['special'] = r.i16()
        ins = []
        for _ in range(nin):
            a, b = r.i32(), r.i32()
            if a == -1:
                if not 0 <= b < len(d['constants']):
                    raise ScgfError(f'unit {k}: constant index {b} out of range')
                ins.append(('c', d['constants'][b]))
            else:
                if not 0 <= a < k:
                    raise ScgfError(f'unit {k}: input refers to unit {a}')
                if not 0 <= b < len(ugens[a]['outs']):
                    raise ScgfError(f'unit {k}: input refers to output {b} of unit {a}')
                ins.append(('u', a, b))
        u['ins'] = ins
        u['outs'] = [r.i8() for _ in range(nout)]
        ugens.append(u)
    d['ugens'] = ugens
    nvar = r.count(r.i16(), 'variants')
    d['variants'] = []
    for _ in range(nvar):
        n = r.pstr()
        d['variants'].append((n, [r.f32() for _ in range(len(d['params']))]))
    return d
