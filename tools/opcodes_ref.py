"""Reference operator opcodes of the SuperCollider server (enum order of Opcodes.h in the
scsynth sources; UnaryOpUGen / BinaryOpUGen special indices). Transcribed by hand — this is
the oracle's reference, independent of sc3/synth/_specialindex.py."""
UNARY = ['neg', 'not', 'isNil', 'notNil', 'bitNot', 'abs', 'asFloat', 'asInteger', 'ceil', 'floor',
         'frac', 'sign', 'squared', 'cubed', 'sqrt', 'exp', 'reciprocal', 'midicps', 'cpsmidi',
         'midiratio', 'ratiomidi', 'dbamp', 'ampdb', 'octcps', 'cpsoct', 'log', 'log2', 'log10',
         'sin', 'cos', 'tan', 'asin', 'acos', 'atan', 'sinh', 'cosh', 'tanh', 'rand', 'rand2',
         'linrand', 'bilinrand', 'sum3rand', 'distort', 'softclip', 'coin', 'digitValue',
         'silence', 'thru', 'rectWindow', 'hanWindow', 'welWindow', 'triWindow', 'ramp', 'scurve']
BINARY = ['+', '-', '*', 'div', '/', 'mod', '==', '!=', '<', '>', '<=', '>=', 'min', 'max', 'bitAnd',
          'bitOr', 'bitXor', 'lcm', 'gcd', 'round', 'roundUp', 'trunc', 'atan2', 'hypot', 'hypotApx',
          'pow', 'leftShift', 'rightShift', 'unsignedRightShift', 'fill', 'ring1', 'ring2', 'ring3',
          'ring4', 'difsqr', 'sumsqr', 'sqrsum', 'sqrdif', 'absdif', 'thresh', 'amclip', 'scaleneg',
          'clip2', 'excess', 'fold2', 'wrap2', 'firstArg', 'rrand', 'exprand']
assert len(UNARY) == 54 and len(BINARY) == 49
