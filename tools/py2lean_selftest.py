#!/usr/bin/env python3
"""Self-test of tools/py2lean.py: accepted shapes produce the expected Lean text, everything
outside the subset aborts with `Unsupported` (a broken tie, never a guess); the non-zero analysis
omits the divisor check exactly when the divisor is guarded.  Exit code 0 = all as expected."""
import sys
from pathlib import Path

sys.path.insert(0, str(Path(__file__).resolve().parent))
import py2lean  # noqa: E402

sys.path.insert(0, str(Path(__file__).resolve().parent / 'testdata'))
import py2lean_cases  # noqa: E402


def main():
    mod = py2lean.PyModule(Path(__file__).resolve().parent / 'testdata' / 'py2lean_cases.py')
    bad = 0
    for name, (sig, frag) in py2lean_cases.EXPECT.items():
        tr = py2lean.Translator('exec')
        tr.lock_exprs = {'LOCK'}
        try:
            tr.function(mod, None, name, 'function', list(sig))
            text = '\n'.join(t for _, t in tr.defs)
            if frag is None:
                print(f'FAIL {name}: accepted, expected Unsupported\n{text}')
                bad += 1
            elif frag not in text:
                print(f'FAIL {name}: `{frag}` not in\n{text}')
                bad += 1
            elif name == 'ok_guarded_division' and 'ZeroDivisionError' in text:
                print(f'FAIL {name}: a guarded division got a zero check\n{text}')
                bad += 1
        except (py2lean.Unsupported, py2lean.NotExecutable) as e:
            if frag is not None:
                print(f'FAIL {name}: rejected ({e})')
                bad += 1
    print('py2lean self-test:', 'ok' if not bad else f'{bad} failures')
    return 1 if bad else 0


if __name__ == '__main__':
    sys.exit(main())
