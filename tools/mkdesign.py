#!/usr/bin/env python3
"""Assemble DESIGN.md from design.d/_head.md, design.d/Cxx.md, known_findings.d/*.json,
seeded/*/meta.json and design.d/_tail.md."""
import json, re
from pathlib import Path

V = Path(__file__).resolve().parent.parent
props = [json.loads(l) for l in (V / 'properties.jsonl').read_text().splitlines() if l.strip()]
out = [(V / 'design.d' / '_head.md').read_text().rstrip() + '\n\n']

out.append('## 5. Per-property: as built\n\n'
           'One subsection per property, written by whoever built the check (notation: T = translator '
           'tie, X = correspondence tie). Theorem names are those audited on every run (`THEOREMS` in '
           '`harness/props/cxx.py`).\n\n')
manifest = json.loads((V / 'MANIFEST.json').read_text()) if (V / 'MANIFEST.json').exists() else {'checks': []}
claimed = {c['property_id'] for c in manifest.get('checks', [])}
# summary table
out.append('Summary (numbers from the last committed quick run of each check, `evidence/Cxx.json`):\n\n'
           '| property | theorems audited | cases (quick) | non-trivial | defects repaired | seeded changes: failing input by own check / by another check / not applicable any more |\n'
           '|---|---|---|---|---|---|\n')
_kf = {}
for f in (V / 'known_findings.d').glob('*.json'):
    try:
        e = json.loads(f.read_text()); _kf[e.get('property')] = _kf.get(e.get('property'), 0) + 1
    except Exception:
        pass
_sd = {}
if (V / 'seeded').is_dir():
    for d in (V / 'seeded').iterdir():
        mf = d / 'meta.json'
        if not mf.exists():
            continue
        pid = d.name.split('-')[0]
        ev = json.loads(mf.read_text()).get('evaluation', {})
        own = other = False
        for prop, rs in (ev.get('checks') or {}).items():
            hit = any(r.get('exit') == 1 and 'no-failing-input-found' not in r.get('line', '') for r in rs)
            if hit and prop == pid: own = True
            elif hit: other = True
        c = _sd.setdefault(pid, [0, 0, 0, 0])
        if ev.get('note'): c[2] += 1
        elif own: c[0] += 1
        elif other: c[1] += 1
        else: c[3] += 1
for p in props:
    ef = V / 'evidence' / f'{p["id"]}.json'
    cov = json.loads(ef.read_text()).get('coverage', {}) if ef.exists() else {}
    sd = _sd.get(p['id'], [0, 0, 0, 0])
    out.append(f'| {p["id"]} | {cov.get("discharged", "-")} | {cov.get("evaluations", "-")} | {cov.get("distinct_nontrivial", "-")} | '
               f'{_kf.get(p["id"], 0)} | {sd[0]} / {sd[1]} / {sd[2]}' + (f' (+{sd[3]} only tie-broken)' if sd[3] else '') + ' |\n')
out.append('\n')
for p in props:
    f = V / 'design.d' / f'{p["id"]}.md'
    out.append(f'### {p["id"]} — {p["title"]}\n\n')
    if f.exists():
        body = f.read_text()
        body = re.sub(r'^# .*\n', '', body, count=1)                      # drop own title
        body = re.sub(r'^(#{1,4}) ', lambda m: '#' * (len(m.group(1)) + 2) + ' ', body, flags=re.M)
        out.append(body.strip() + '\n\n')
    else:
        out.append('_no as-built note yet' + ('' if p['id'] in claimed else '; property not claimed in MANIFEST.json') + '_\n\n')

out.append('## 6. Genuine defects found and repaired\n\n'
           'Every entry was first reported by the named property check on the then-current tree (replay kept under '
           '`findings/`), then repaired by one minimal unguarded `fix:` commit in /repo; the pinned suite gives its '
           '60 baseline passes and the same 8 always-failing tests after each. None is left open.\n\n'
           '| id | property | fix commit | what failed |\n|---|---|---|---|\n')
kf = []
for f in sorted((V / 'known_findings.d').glob('*.json')):
    try:
        kf.append((f.stem, json.loads(f.read_text())))
    except Exception:
        pass
def keyf(x):
    m = re.match(r'D(\d+)$', x[0])
    return (0, int(m.group(1)), '') if m else (1, 0, x[0])
for name, e in sorted(kf, key=keyf):
    what = str(e.get('what', '')).replace('|', '\\|').replace('\n', ' ')
    out.append(f'| {name} | {e.get("property", "")} | `{e.get("commit", "")}` ({e.get("status", "")}) | {what} |\n')
out.append('\n')

out.append('## 7. Independently seeded changes: which checks catch which\n\n'
           'Each change was written by a fresh sub-agent that saw only the text of one property and a scratch worktree '
           '(nothing from /verif), together with a demonstration program; it compiles and the pinned suite is unchanged '
           'with it. `tools/eval_seeded.py` re-verified the demonstration (fails with / passes without the change) and ran '
           'the listed checks against a scratch worktree with the change applied. "failing input" = the check printed a '
           'VIOLATION with a concrete replay; "tie broken" = VIOLATION … no-failing-input-found.\n\n'
           'Ten rounds were run (ids `Cxx-mK` = round 1, `Cxx-rNmK` = round N; rounds 1-3: 183 changes, rounds 4-8: 60 each, '
           'round 9: 35, round 10: 23). Later rounds were told what already existed and asked for rarely used entry points, '
           'error paths, second uses of one object, refactoring-style and optimisation-style mistakes, and callers outside the '
           'anchored files. From round 4 on roughly a third of each round was at first missed by the property\'s own check; every '
           'miss was answered by widening that check (generator classes, model moves, oracle rules, sweeps over all classes of '
           'the library) — never by special-casing the seeded input — and then the whole collection was re-evaluated. '
           'TOTALS_PLACEHOLDER\n\n'
           '| seeded | breaks | needs | demo (without / with) | checks |\n|---|---|---|---|---|\n')
sd = V / 'seeded'
if sd.is_dir():
    for d in sorted(sd.iterdir()):
        mf = d / 'meta.json'
        if not mf.exists():
            continue
        m = json.loads(mf.read_text())
        ev = m.get('evaluation', {})
        res = []
        for prop, rs in (ev.get('checks') or {}).items():
            last = rs[-1] if rs else {}
            if any(r.get('exit') == 1 and 'no-failing-input-found' not in r.get('line', '') for r in rs):
                res.append(f'{prop}: failing input')
            elif any(r.get('exit') == 1 for r in rs):
                res.append(f'{prop}: tie broken')
            elif all(r.get('exit') == 0 for r in rs):
                res.append(f'{prop}: quiet')
            else:
                res.append(f'{prop}: exit {last.get("exit")}')
        def cell(x):
            return str(x).replace('|', '\\|').replace('\n', ' ')[:150]
        dw = (ev.get('demo_without') or [None])[0]
        dm = (ev.get('demo_with') or [None])[0]
        out.append(f'| {d.name} | {cell(m.get("breaks", ""))} | {cell(m.get("needs", ""))} | {dw} / {dm} | {"; ".join(res)} |\n')
out.append('\n')
out.append((V / 'design.d' / '_tail.md').read_text())
# totals over the seeded collection (from the stored evaluations)
tot = {'all': 0, 'own': 0, 'other': 0, 'tie': 0, 'na': 0, 'quiet': 0}
if sd.is_dir():
    for d in sorted(sd.iterdir()):
        mf = d / 'meta.json'
        if not mf.exists():
            continue
        ev = json.loads(mf.read_text()).get('evaluation', {})
        prop = d.name.split('-')[0]
        tot['all'] += 1
        if ev.get('applies') is False:
            tot['na'] += 1
            continue
        def fi(rs):
            return any(r.get('exit') == 1 and 'no-failing-input-found' not in r.get('line', '') for r in rs)
        checks = ev.get('checks') or {}
        if prop in checks and fi(checks[prop]):
            tot['own'] += 1
        elif any(fi(rs) for rs in checks.values()):
            tot['other'] += 1
        elif any(r.get('exit') == 1 for rs in checks.values() for r in rs):
            tot['tie'] += 1
        else:
            tot['quiet'] += 1
totals = (f"Totals after the last re-evaluation: {tot['all']} seeded changes; {tot['own']} reported with a concrete failing input by the "
          f"property's own check, {tot['other']} only by the check of a neighbouring property, {tot['tie']} only as a broken tie, "
          f"{tot['quiet']} not reported, {tot['na']} no longer applicable (their lines were changed by a later `fix:` commit).")
(V / 'DESIGN.md').write_text(''.join(out).replace('TOTALS_PLACEHOLDER', totals))
print('DESIGN.md', sum(len(x) for x in out), 'chars')
