#!/usr/bin/env python3
"""Merge manifest.d/*.json fragments into MANIFEST.json (one fragment per claimed property).
Properties without a fragment are listed under not_applicable with the reason given in
manifest.d/_not_applicable.json (or 'no check built yet')."""
import json
from pathlib import Path

V = Path(__file__).resolve().parent.parent
props = [json.loads(l)['id'] for l in (V / 'properties.jsonl').read_text().splitlines() if l.strip()]
frags = {}
for f in sorted((V / 'manifest.d').glob('C*.json')):
    d = json.loads(f.read_text())
    frags[d['property_id']] = d
na_file = V / 'manifest.d' / '_not_applicable.json'
na_reasons = json.loads(na_file.read_text()) if na_file.exists() else {}
base = json.loads((V / 'manifest.d' / '_base.json').read_text())
checks = []
for pid in props:
    if pid in frags:
        d = dict(frags[pid])
        d.setdefault('quick_cmd', f'./check {pid} --tier quick')
        d.setdefault('thorough_cmd', f'./check {pid} --tier thorough')
        d.setdefault('evidence_file', f'evidence/{pid}.json')
        d.setdefault('replay_cmd_template', f'./check {pid} --replay {{path}}')
        checks.append(d)
base['checks'] = checks
base['not_applicable'] = [
    {'property_id': pid, 'reason': na_reasons.get(pid, 'no check built yet (work in progress); not claimed')}
    for pid in props if pid not in frags]
(V / 'MANIFEST.json').write_text(json.dumps(base, indent=1) + '\n')
print(f'{len(checks)} checks, {len(base["not_applicable"])} not claimed')
