"""Source shapes for tools/py2lean_selftest.py: each function is translated on its own;
`EXPECT` says whether the translator must accept it (and a fragment the Lean text must contain)
or abort with "unsupported" (never a guess)."""
import math


def ok_early_return(x, lo):
    if x < lo:
        return lo
    x -= lo
    return x + 1


def ok_type_dispatch(x, q):
    if type(x) is type(q) is int:
        return x // q
    return x / q


def ok_guarded_division(a, b):
    if b == 0:
        return 0.0
    return a / b


def ok_unguarded_division(a, b):
    return a / b


def ok_raise(a):
    if a < 0:
        raise ValueError('negative')
    return a * 2


def bad_loop(n):
    s = 0
    for i in range(n):
        s += i
    return s


def bad_while(n):
    while n > 0:
        n -= 1
    return n


def bad_unknown_call(x):
    return math.gamma(x)


def bad_recursion(n):
    if n <= 0:
        return 0
    return bad_recursion(n - 1) + 1


def bad_falls_off(x):
    if x > 0:
        return x


def bad_starargs(*xs):
    return 0


def bad_list(x):
    return [x, x][0]


def ok_conditional_division_guarded(a, b):
    return a if b == 0 else a / b


def bad_conditional_division(a, b):
    return a / b if a > 0 else 0.0


def ok_with_lock(x):
    with LOCK:
        y = x + 1
    return y * 2


def bad_with_other_manager(x):
    with OTHER:
        return x


def bad_with_file(x):
    with open('f') as fh:
        return x


def bad_string_result(x):
    return 'x'


EXPECT = {
    'ok_early_return': ('FF', 'let x : Rat := (x - lo)'),
    'ok_type_dispatch': ('II', 'Int.fdiv x q'),
    'ok_guarded_division': ('FF', '(a / b)'),
    'ok_unguarded_division': ('FF', '.error "ZeroDivisionError"'),
    'ok_raise': ('F', '.error "ValueError"'),
    'bad_loop': ('I', None), 'bad_while': ('I', None), 'bad_unknown_call': ('F', None),
    'bad_recursion': ('I', None), 'bad_falls_off': ('F', None), 'bad_starargs': ('', None),
    'bad_list': ('F', None), 'bad_string_result': ('F', None), 'bad_with_file': ('F', None),
    'ok_with_lock': ('F', 'let y : Rat :='), 'bad_with_other_manager': ('F', None),
    'ok_conditional_division_guarded': ('FF', 'then a else (a / b))'),
    'bad_conditional_division': ('FF', None),
}
