"""
Independent strict OSC 1.0 reader (oracle for C06/C18).  Written from the OSC 1.0 specification,
not from sc3/_osclib.py or the Lean model.  It accepts exactly well-formed packets:

* packet length is a multiple of 4;
* OSC-string: non-NUL bytes, then 1-4 NULs so that the total is a multiple of 4; every pad byte 0;
* message: address (OSC-string starting with '/'), type tag string (OSC-string starting with ','),
  then the arguments announced by the tags, nothing left over;
* int32/float32/timetag/... big-endian, fixed size; blob: int32 size >= 0, data, zero pad to 4;
* arrays '[' ']' balanced;
* bundle: b'#bundle\\0', 8-byte timetag, then elements: int32 size (> 0, multiple of 4, fits),
  each element a message or a bundle, exactly covering the packet.

Strings are returned as bytes (OSC 1.0 says ASCII; `ascii_only` tells whether that held — UTF-8 is
the usual extension and is what sc3 sends for non-ASCII text).

Values: ('i', int) ('f', bits) ('d', bits) ('s', bytes) ('S', bytes) ('b', bytes) ('h', int)
('t', int) ('c', int) ('r', int) ('m', (p, s, d1, d2)) ('T',) ('F',) ('N',) ('I',) ('[', [values]).
"""
import struct


class Osc10Error(Exception):
    pass


class Reader:
    def __init__(self, data):
        self.d = bytes(data)
        self.ascii_only = True

    def need(self, i, n, what):
        if i + n > len(self.d):
            raise Osc10Error(f'{what}: needs {n} bytes at {i}, packet has {len(self.d)}')

    def string(self, i, what):
        j = self.d.find(b'\x00', i)
        if j < 0:
            raise Osc10Error(f'{what}: string not NUL-terminated')
        s = self.d[i:j]
        end = j + 1
        end += -end % 4
        self.need(i, end - i, what)
        if any(self.d[j:end]):
            raise Osc10Error(f'{what}: string padding is not all NUL')
        if any(c > 127 for c in s):
            self.ascii_only = False
        return s, end

    def int32(self, i, what, fmt='>i'):
        self.need(i, 4, what)
        return struct.unpack(fmt, self.d[i:i + 4])[0], i + 4

    def int64(self, i, what, fmt='>q'):
        self.need(i, 8, what)
        return struct.unpack(fmt, self.d[i:i + 8])[0], i + 8

    def blob(self, i, what):
        n, i = self.int32(i, what + ' size')
        if n < 0:
            raise Osc10Error(f'{what}: negative blob size {n}')
        self.need(i, n, what)
        b = self.d[i:i + n]
        end = i + n
        end += -end % 4
        self.need(i, end - i, what + ' padding')
        if any(self.d[i + n:end]):
            raise Osc10Error(f'{what}: blob padding is not all NUL')
        return b, end


def read_message(data):
    """-> (address bytes, [values], ascii_only)"""
    r = Reader(data)
    if len(r.d) % 4:
        raise Osc10Error(f'message length {len(r.d)} is not a multiple of 4')
    addr, i = r.string(0, 'address')
    if not addr.startswith(b'/'):
        raise Osc10Error(f'address {addr!r} does not start with "/"')
    if i == len(r.d):
        raise Osc10Error('missing type tag string')
    tags, i = r.string(i, 'type tags')
    if not tags.startswith(b','):
        raise Osc10Error(f'type tag string {tags!r} does not start with ","')
    stack = [[]]
    for t in tags[1:].decode('latin-1'):
        w = f'argument {t!r}'
        if t == 'i':
            v, i = r.int32(i, w); stack[-1].append(('i', v))
        elif t == 'f':
            v, i = r.int32(i, w, '>I'); stack[-1].append(('f', v))
        elif t == 'd':
            v, i = r.int64(i, w, '>Q'); stack[-1].append(('d', v))
        elif t in 'sS':
            v, i = r.string(i, w); stack[-1].append((t, v))
        elif t == 'b':
            v, i = r.blob(i, w); stack[-1].append(('b', v))
        elif t == 'h':
            v, i = r.int64(i, w); stack[-1].append(('h', v))
        elif t == 't':
            v, i = r.int64(i, w, '>Q'); stack[-1].append(('t', v))
        elif t in 'cr':
            v, i = r.int32(i, w, '>I'); stack[-1].append((t, v))
        elif t == 'm':
            r.need(i, 4, w); stack[-1].append(('m', tuple(r.d[i:i + 4]))); i += 4
        elif t in 'TFNI':
            stack[-1].append((t,))
        elif t == '[':
            a = []
            stack[-1].append(('[', a)); stack.append(a)
        elif t == ']':
            if len(stack) < 2:
                raise Osc10Error('unbalanced "]" in type tags')
            stack.pop()
        else:
            raise Osc10Error(f'unknown type tag {t!r}')
    if len(stack) != 1:
        raise Osc10Error('unbalanced "[" in type tags')
    if i != len(r.d):
        raise Osc10Error(f'{len(r.d) - i} bytes left over after the last argument')
    return addr, stack[0], r.ascii_only


def read_bundle(data):
    """-> ('bundle', timetag, [elements]) ; element = ('msg', addr, values) | ('bundle', ...)"""
    d = bytes(data)
    if len(d) % 4:
        raise Osc10Error(f'bundle length {len(d)} is not a multiple of 4')
    if not d.startswith(b'#bundle\x00'):
        raise Osc10Error('missing #bundle header')
    if len(d) < 16:
        raise Osc10Error('bundle shorter than header + timetag')
    tt = struct.unpack('>Q', d[8:16])[0]
    i, els = 16, []
    while i < len(d):
        if i + 4 > len(d):
            raise Osc10Error('truncated element size')
        n = struct.unpack('>i', d[i:i + 4])[0]
        i += 4
        if n <= 0 or n % 4 or i + n > len(d):
            raise Osc10Error(f'bad element size {n} at {i - 4} (packet {len(d)})')
        els.append(read_packet(d[i:i + n]))
        i += n
    return ('bundle', tt, els)


def read_packet(data):
    d = bytes(data)
    if d.startswith(b'#'):
        return read_bundle(d)
    addr, vals, _ = read_message(d)
    return ('msg', addr, vals)


def flatten(pkt, time=None):
    """[(time | None, addr, values)] in bundle order (no sorting)."""
    if pkt[0] == 'msg':
        return [(time, pkt[1], pkt[2])]
    out = []
    for e in pkt[2]:
        out.extend(flatten(e, pkt[1]))
    return out
