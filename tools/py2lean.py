#!/usr/bin/env python3
"""
py2lean — translator (T) from a small closed-form subset of Python to Lean 4 definitions.

    tools/py2lean.py C15|C12|C19 [--repo DIR] [--check] [--stdout]

It regenerates `lean/Sc3Verif/Cxx/Gen*.lean` from the CURRENT source of `$SC3_REPO`
(`common.REPO`), so that the theorems of `Props.lean` are statements about the code as it
stands: a changed formula in /repo changes the Lean term and the proof is re-checked.

Supported subset (anything else raises `Unsupported` = "broken tie", never a guess):

  * module-level functions (decorated with `@scbuiltin.unop/binop/narop` or plain), methods,
    property getters/setters of a class whose numeric private fields form a state record,
    and statement fragments cut out of a larger function;
  * statements: `return`, assignment / augmented assignment to a local name or to a
    `self._field`, `if/elif/else` with fall-through (translated in continuation-passing
    style, so early returns and "falls out of the if" both work), `raise X(...)`,
    whitelisted no-op expression statements, `with <whitelisted lock>:` (body translated in place),
    docstrings, `pass`;
  * expressions: int/float literals (floats become the exact rational of their shortest decimal
    text), names, `+ - * / // %`, unary minus, comparisons (chained too), `and/or/not`,
    `a if c else b`, `type(x) is int|float` dispatch (also `type(a) is type(b) is int`,
    `T = type(x); T(y)`), `x is None`, `int() float() abs() math.floor/ceil/fabs/fmod`,
    `builtins.min/max`, subscripts of literal dict tables, calls of other translatable
    functions (memoised per argument type pattern), and — only in ℝ mode — `math.pow/log/log2/
    log10/exp/sin/cos/sqrt` and `math.acos(-1.)`;
  * literal dict / list tables → Lean lists.

Typing is static: every Python variable carries `I` (int → `Int`) or `F` (float → `Rat` in
the executable mode, `ℝ` in the proof-only mode); `type(x) is int` is decided at translation
time, so a function with a dynamic type dispatch yields one Lean definition per argument
type pattern (`wrap_III`, `wrap_IFF`, …) plus a dispatcher over the dynamic number type `Num`.
Binary64 rounding is idealised (see DESIGN §3).

Division by zero.  Lean's `x / 0 = 0` must never stand in for a Python exception.  Every `/`,
`//`, `%`, `math.fmod` records its divisor; unless a small syntactic analysis of the path
conditions shows the divisor non-zero (an enclosing `if b == 0: return`, `range = hi - lo`
under `hi != lo`, a non-zero literal, …) the statement is wrapped in
`if d = 0 then .error "ZeroDivisionError" else …` and the definition returns `Except String _`.

Python `float('-inf')` / `float('inf')` have no counterpart in ℝ: a function that can return one
takes an extra universally quantified parameter `ninf`/`pinf` (threaded through its callers);
theorems therefore hold for every value of it.

The translator is validated by the correspondence engines of C15/C12/C19, which run every
generated executable definition against the Python original on generated inputs.
"""
import ast
import itertools
import os
import re
import sys
from fractions import Fraction
from pathlib import Path

VERIF = Path(__file__).resolve().parent.parent


class Unsupported(Exception):
    """Source shape outside the supported subset: the tie is broken."""


class NotExecutable(Exception):
    """A transcendental function in the executable (Rat) mode."""


class Static:
    """A value known at translation time (None, a type, a literal dict, a string)."""
    def __init__(self, value):
        self.value = value

    def __repr__(self):
        return f'Static({self.value!r})'


TYPE_I, TYPE_F = Static('int-type'), Static('float-type')   # the values of `int`, `float`, `type(x)`

RESERVED = {'end', 'at', 'from', 'fun', 'then', 'else', 'if', 'let', 'in', 'do', 'open', 'by',
            'have', 'show', 'match', 'with', 'where', 'def', 'theorem', 'instance', 'class',
            'structure', 'namespace', 'section', 'variable', 'universe', 'local', 'set_option'}


def lname(n):
    n = n.lstrip('_') or 'u'
    return n + '_' if n in RESERVED else n


# ---------------------------------------------------------------------------------------------
# Python side: parsed modules
# ---------------------------------------------------------------------------------------------

class PyModule:
    def __init__(self, path, aliases=None):
        self.path = Path(path)
        try:
            self.src = self.path.read_text()
            self.tree = ast.parse(self.src)
        except (OSError, SyntaxError) as e:
            raise Unsupported(f'cannot read/parse {path}: {e}')
        self.aliases = aliases or {}          # local name -> PyModule (e.g. 'bi')
        self.funcs, self.consts, self.classes = {}, {}, {}
        for node in self.tree.body:
            if isinstance(node, ast.FunctionDef):
                self.funcs.setdefault(node.name, []).append(node)
            elif isinstance(node, ast.ClassDef):
                self.classes[node.name] = node
            elif isinstance(node, ast.Assign) and len(node.targets) == 1 \
                    and isinstance(node.targets[0], ast.Name):
                self.consts.setdefault(node.targets[0].id, []).append(node.value)

    def func(self, name):
        fs = self.funcs.get(name)
        if not fs:
            raise Unsupported(f'{self.path.name}: no function `{name}`')
        if len(fs) > 1:
            raise Unsupported(f'{self.path.name}: function `{name}` defined {len(fs)} times')
        return fs[0]

    @staticmethod
    def _kind(node):
        decs = [ast.unparse(d) for d in node.decorator_list]
        if 'property' in decs:
            return 'getter', decs
        if f'{node.name}.setter' in decs:
            return 'setter', decs
        return 'method', decs

    def method(self, cls, name, kind='method'):
        c = self.classes.get(cls)
        if c is None:
            raise Unsupported(f'{self.path.name}: no class `{cls}`')
        found = []
        for node in c.body:
            if isinstance(node, ast.FunctionDef) and node.name == name:
                k, decs = self._kind(node)
                if k == 'method' and decs and decs != ['classmethod']:
                    raise Unsupported(f'{cls}.{name}: decorator {decs} not supported')
                if k == kind:
                    found.append(node)
        if len(found) != 1:
            raise Unsupported(f'{self.path.name}: {cls}.{name} ({kind}) found {len(found)} times')
        return found[0]

    def member_kinds(self, cls, name):
        c = self.classes.get(cls)
        return {self._kind(n)[0] for n in (c.body if c else [])
                if isinstance(n, ast.FunctionDef) and n.name == name}

    def class_const(self, cls, name):
        c = self.classes.get(cls)
        if c is None:
            raise Unsupported(f'{self.path.name}: no class `{cls}`')
        vals = [n.value for n in c.body if isinstance(n, ast.Assign) and len(n.targets) == 1
                and isinstance(n.targets[0], ast.Name) and n.targets[0].id == name]
        if len(vals) != 1:
            raise Unsupported(f'{self.path.name}: {cls}.{name} assigned {len(vals)} times')
        return vals[0]


def literal_table(node, what):
    try:
        return ast.literal_eval(node)
    except (ValueError, SyntaxError):
        raise Unsupported(f'{what} is not a literal')


# ---------------------------------------------------------------------------------------------
# Syntactic helpers on generated terms (only for the non-zero analysis)
# ---------------------------------------------------------------------------------------------

def toks(code):
    """Top-level tokens of a parenthesised Lean term "(A op B)" -> [A, op, B]; None otherwise."""
    code = code.strip()
    if not (code.startswith('(') and code.endswith(')')):
        return None
    depth, out, cur = 0, [], ''
    for i, ch in enumerate(code):
        if ch == '(':
            depth += 1
            if depth == 1:
                continue
        elif ch == ')':
            depth -= 1
            if depth == 0:
                if i != len(code) - 1:
                    return None
                break
        if ch == ' ' and depth == 1:
            if cur:
                out.append(cur)
            cur = ''
        else:
            cur += ch
    if cur:
        out.append(cur)
    return out


def strip_cast(code):
    """Remove redundant parentheses and type ascriptions / Int→F casts (injective, keep 0)."""
    while True:
        t = toks(code)
        if t is None:
            return code.strip()
        if len(t) == 1:
            code = t[0]
        elif len(t) == 3 and t[1] == ':':
            code = t[0]
        else:
            return code.strip()


class Ctx:
    """Translation context of one function body (immutable style: copy on change).
    `facts`: atomic conditions (code, truth) known on the current path; `defs`: let-bound
    name -> defining term.  Both are only used to decide that a divisor cannot be zero."""
    def __init__(self, mod, cls, env, fn, facts=(), defs=None):
        self.mod, self.cls, self.env, self.fn = mod, cls, env, fn
        self.facts, self.defs = tuple(facts), dict(defs or {})

    def bind(self, name, code, ty, definition=None):
        e = dict(self.env)
        e[name] = (code, ty)
        facts, defs = self.facts, self.defs
        if code is not None:
            pat = re.compile(r'(?<![\w.])' + re.escape(code) + r'(?![\w])')
            facts = tuple(f for f in facts if not pat.search(f[0]))
            defs = {k: v for k, v in defs.items() if k != code and not pat.search(v)}
            if definition is not None and not pat.search(definition):
                defs[code] = definition
        return Ctx(self.mod, self.cls, e, self.fn, facts, defs)

    def forget(self, code):
        """Drop everything known about a (rebound) Lean name, e.g. the state record `s`."""
        pat = re.compile(r'(?<![\w.])' + re.escape(code) + r'(?![\w])')
        facts = tuple(f for f in self.facts if not pat.search(f[0]))
        defs = {k: v for k, v in self.defs.items() if k != code and not pat.search(v)}
        return Ctx(self.mod, self.cls, self.env, self.fn, facts, defs)

    def assume(self, code, truth):
        if isinstance(code, bool):
            return self
        t = toks(code)
        if t and t[0] == '¬' and len(t) == 2:
            return self.assume(t[1], not truth)
        if t and '∧' in t and truth:
            c = self
            for part in t[::2]:
                c = c.assume(part, True)
            return c
        if t and '∨' in t and not truth:
            c = self
            for part in t[::2]:
                c = c.assume(part, False)
            return c
        return Ctx(self.mod, self.cls, self.env, self.fn, self.facts + ((code, truth),), self.defs)

    # --- non-zero analysis ---------------------------------------------------------------
    def norm(self, code):
        s = strip_cast(code)
        seen = set()
        while s in self.defs and s not in seen:
            seen.add(s)
            d = strip_cast(self.defs[s])
            if re.fullmatch(r'-?\d+', d) or re.fullmatch(r'[A-Za-z_][\w.]*', d):
                s = d
            else:
                break
        return s

    def neq_pairs(self):
        out = set()
        for code, truth in self.facts:
            t = toks(code)
            if not t or len(t) != 3:
                continue
            a, rel, b = t
            if (truth and rel in ('≠', '<', '>')) or (not truth and rel in ('=', '≤', '≥')):
                out.add((self.norm(a), self.norm(b)))
                out.add((self.norm(b), self.norm(a)))
        return out

    def sign_facts(self):
        """Terms known > 0 from the path facts."""
        pos = set()
        for code, truth in self.facts:
            t = toks(code)
            if not t or len(t) != 3:
                continue
            a, rel, b = self.norm(t[0]), t[1], self.norm(t[2])
            if b == '0' and ((truth and rel == '>') or (not truth and rel == '≤')):
                pos.add(a)
            if a == '0' and ((truth and rel == '<') or (not truth and rel == '≥')):
                pos.add(b)
        return pos

    def literal(self, s):
        """Fraction value of a literal term, else None."""
        s = strip_cast(s)
        if re.fullmatch(r'-?\d+', s):
            return Fraction(int(s))
        t = toks(s if s.startswith('(') else f'({s})')
        if t and len(t) == 3 and t[1] == '/':
            a, b = self.literal(t[0]), self.literal(t[2])
            if a is not None and b:
                return a / b
        if t and len(t) == 1 and t[0].startswith('-'):
            a = self.literal(t[0][1:])
            return None if a is None else -a
        return None

    def positive(self, code, depth=0):
        s = self.norm(code)
        v = self.literal(s)
        if v is not None:
            return v > 0
        if s in self.sign_facts():
            return True
        if depth > 6:
            return False
        if s in self.defs:
            return self.positive(self.defs[s], depth + 1)
        t = toks(s)
        if t and len(t) == 3 and t[1] == '+':
            return (self.positive(t[0], depth + 1) and self.nonneg(t[2], depth + 1)) or \
                   (self.nonneg(t[0], depth + 1) and self.positive(t[2], depth + 1))
        if t and len(t) == 3 and t[1] == '*':
            return self.positive(t[0], depth + 1) and self.positive(t[2], depth + 1)
        return False

    def nonneg(self, code, depth=0):
        s = self.norm(code)
        t = toks(s)
        if t and len(t) == 2 and t[0] in ('Py.absI', 'Py.absQ', 'Py.absR'):
            return True
        if s in self.defs and depth <= 6:
            return self.nonneg(self.defs[s], depth + 1) or self.positive(s, depth + 1)
        return self.positive(s, depth)

    def nonzero(self, code, depth=0):
        s = self.norm(code)
        v = self.literal(s)
        if v is not None:
            return v != 0
        pairs = self.neq_pairs()
        if (s, '0') in pairs:
            return True
        if self.positive(s):
            return True
        if depth > 6:
            return False
        if s in self.defs:
            return self.nonzero(self.defs[s], depth + 1)
        t = toks(s)
        if t and len(t) == 3:
            a, op, b = t
            if op == '-' and (self.norm(a), self.norm(b)) in pairs:
                return True
            if op == '+' and self.norm(a) == self.norm(b):
                return self.nonzero(a, depth + 1)
            if op == '*':
                return self.nonzero(a, depth + 1) and self.nonzero(b, depth + 1)
        if t and len(t) == 1 and t[0].startswith('-'):
            return self.nonzero(t[0][1:], depth + 1)
        if t and len(t) == 2 and t[0] in ('Py.absI', 'Py.absQ', 'Py.absR'):
            return self.nonzero(t[1], depth + 1)          # |x| = 0 iff x = 0
        return False


class FnState:
    """Mutable facts discovered while translating one function variant."""
    def __init__(self, name, want, wrap, state_fn):
        self.name = name
        self.want = want            # None or 'F': coerce Int results to F
        self.wrap = wrap            # None or 'except'
        self.state_fn = state_fn    # True: a setter — returns the state record
        self.ret_types = set()
        self.raises = False
        self.not_exec = False
        self.implicit = []          # ordered implicit parameter names used
        self.pending = []           # divisors met in the current statement: (code, error name)
        self._probing = False


# ---------------------------------------------------------------------------------------------
# The translator
# ---------------------------------------------------------------------------------------------

class Translator:
    """mode 'exec' : F = Rat, core Lean only.  mode 'real' : F = ℝ, Mathlib, noncomputable."""

    TRANSC = {'pow': 'Real.rpow', 'log': 'Real.log', 'exp': 'Real.exp', 'sin': 'Real.sin',
              'cos': 'Real.cos', 'sqrt': 'Real.sqrt'}

    def __init__(self, mode, assumptions=None, skip_calls=(), state=None, partial_ok=False,
                 implicit=None):
        assert mode in ('exec', 'real')
        self.mode = mode
        self.F = 'Rat' if mode == 'exec' else 'ℝ'
        self.sfx = 'Q' if mode == 'exec' else 'R'
        self.assumptions = assumptions or {}     # source text -> True/False/('extern', name, ty)
        self.used_assumptions = set()
        self.skip_calls = set(skip_calls)        # dotted callee names of no-op statements
        self.lock_exprs = set()                   # context managers that are locks (`with lock:` is transparent)
        self.state = state                        # {'struct': 'TC', 'fields': {'_tempo': 'tempo', ..}}
        self.partial_ok = partial_ok              # exec mode: transcendental return -> error value
        self.implicit_types = dict(implicit or {})
        self.implicit_types.setdefault('ninf', 'F')
        self.implicit_types.setdefault('pinf', 'F')
        self.memo = {}
        self.in_progress = set()
        self.depth = 0                            # nesting of function() calls (callees > 1)
        self.defs = []                            # (lean_name, text)

    # ------------------------------------------------------------------ helpers
    def T(self, ty):
        return {'I': 'Int', 'F': self.F, 'B': 'Bool', 'L': f'List {self.F}', 'C': 'Curve', 'E': 'Env',
                'S': self.state['struct'] if self.state else '?'}[ty]

    def lit(self, v):
        if isinstance(v, bool):
            raise Unsupported('bool literal as a number')
        if isinstance(v, int):
            return (f'({v} : Int)', 'I')
        if isinstance(v, float):
            if v != v or v in (float('inf'), float('-inf')):
                raise Unsupported('non-finite float literal')
            q = Fraction(repr(v))
            if q.denominator == 1:
                return (f'({q.numerator} : {self.F})', 'F')
            return (f'(({q.numerator} : {self.F}) / {q.denominator})', 'F')
        raise Unsupported(f'literal {v!r}')

    def toF(self, code, ty):
        if ty == 'F':
            return code
        if ty == 'I':
            return f'(({code} : Int) : {self.F})'
        raise Unsupported(f'cannot use a value of type {ty} as a float')

    def unify(self, a, b):
        (ca, ta), (cb, tb) = a, b
        if isinstance(ta, Static) or isinstance(tb, Static):
            raise Unsupported('static value used as a number')
        if ta == tb:
            return ca, cb, ta
        if {ta, tb} == {'I', 'F'}:
            return self.toF(ca, ta), self.toF(cb, tb), 'F'
        raise Unsupported(f'cannot unify {ta} and {tb}')

    def dotted(self, node):
        if isinstance(node, ast.Name):
            return node.id
        if isinstance(node, ast.Attribute):
            d = self.dotted(node.value)
            return None if d is None else d + '.' + node.attr
        return None

    def assumed(self, node):
        key = ast.unparse(node)
        if key in self.assumptions:
            self.used_assumptions.add(key)
            return True, self.assumptions[key]
        return False, None

    def use_implicit(self, ctx, name):
        if name not in ctx.fn.implicit:
            ctx.fn.implicit.append(name)
        return name

    def divisor(self, ctx, code, err='ZeroDivisionError'):
        ctx.fn.pending.append((code, err))

    def conditional_divs(self, ctx, mark, what):
        """Divisors recorded since `mark` sit in a conditionally evaluated sub-expression:
        they may only stay if provably non-zero (they cannot be hoisted)."""
        new = ctx.fn.pending[mark:]
        del ctx.fn.pending[mark:]
        for d, _ in new:
            if not ctx.nonzero(d):
                raise Unsupported(f'possibly-zero divisor `{d}` inside a conditional expression ({what})')

    # ------------------------------------------------------------------ expressions
    def expr(self, node, ctx):
        """-> (lean code, type)   type in 'I','F' or a Static."""
        hit, val = self.assumed(node)
        if hit and isinstance(val, tuple) and val[0] == 'extern':
            self.implicit_types[val[1]] = val[2]
            return (self.use_implicit(ctx, val[1]), val[2])
        if isinstance(node, ast.Constant):
            if node.value is None:
                return (None, Static(None))
            if isinstance(node.value, str):
                return (None, Static(node.value))
            return self.lit(node.value)
        if isinstance(node, ast.Name):
            if node.id in ctx.env:
                return ctx.env[node.id]
            if node.id == 'int':
                return (None, TYPE_I)
            if node.id == 'float':
                return (None, TYPE_F)
            return self.module_const(ctx.mod, node.id, ctx)
        if isinstance(node, ast.UnaryOp):
            if isinstance(node.op, ast.USub):
                c, t = self.expr(node.operand, ctx)
                if t not in ('I', 'F'):
                    raise Unsupported('unary minus on a non-number')
                return (f'(-{c})', t)
            if isinstance(node.op, ast.UAdd):
                return self.expr(node.operand, ctx)
            raise Unsupported(f'unary operator {type(node.op).__name__} in a numeric expression')
        if isinstance(node, ast.BinOp):
            return self.binop(node, ctx)
        if isinstance(node, ast.IfExp):
            c = self.cond(node.test, ctx)
            if c is True:
                return self.expr(node.body, ctx)
            if c is False:
                return self.expr(node.orelse, ctx)
            mark = len(ctx.fn.pending)
            ra = self.expr(node.body, ctx.assume(c, True))
            self.conditional_divs(ctx.assume(c, True), mark, 'if-expression')
            rb = self.expr(node.orelse, ctx.assume(c, False))
            self.conditional_divs(ctx.assume(c, False), mark, 'if-expression')
            a, b, t = self.unify(ra, rb)
            return (f'(if {c} then {a} else {b})', t)
        if isinstance(node, ast.List) and getattr(self, 'ctor_mode', False):
            items = []
            for el in node.elts:
                c, t = self.expr(el, ctx)
                if t not in ('I', 'F'):
                    raise Unsupported(f'list element `{ast.unparse(el)}` is not a number')
                items.append(self.toF(c, t))
            return ('[' + ', '.join(items) + ']', 'L')
        if isinstance(node, ast.Call):
            return self.call(node, ctx)
        if isinstance(node, ast.Attribute):
            return self.attribute(node, ctx)
        if isinstance(node, ast.Subscript):
            base = self.expr(node.value, ctx)
            if isinstance(base[1], Static) and isinstance(base[1].value, dict):
                key = self.expr(node.slice, ctx)
                if not isinstance(key[1], Static) or key[1].value not in base[1].value:
                    raise Unsupported(f'table lookup with key {ast.unparse(node.slice)}')
                v = base[1].value[key[1].value]
                if isinstance(v, (int, float)) and not isinstance(v, bool):
                    return self.lit(v)
                return (None, Static(v))
            raise Unsupported(f'subscript `{ast.unparse(node)}`')
        raise Unsupported(f'expression `{ast.unparse(node)}` ({type(node).__name__})')

    def binop(self, node, ctx):
        a, b = self.expr(node.left, ctx), self.expr(node.right, ctx)
        op = node.op
        if a[1] not in ('I', 'F') or b[1] not in ('I', 'F'):
            raise Unsupported(f'arithmetic on non-numbers in `{ast.unparse(node)}`')
        if isinstance(op, (ast.Add, ast.Sub, ast.Mult)):
            ca, cb, t = self.unify(a, b)
            sym = {ast.Add: '+', ast.Sub: '-', ast.Mult: '*'}[type(op)]
            return (f'({ca} {sym} {cb})', t)
        if isinstance(op, ast.Div):           # true division: always a float
            self.divisor(ctx, b[0])
            return (f'({self.toF(*a)} / {self.toF(*b)})', 'F')
        if isinstance(op, ast.FloorDiv):
            if a[1] == b[1] == 'I':
                self.divisor(ctx, b[0])
                return (f'(Int.fdiv {a[0]} {b[0]})', 'I')
            raise Unsupported('`//` on floats')
        if isinstance(op, ast.Mod):
            if a[1] == b[1] == 'I':
                self.divisor(ctx, b[0])
                return (f'(Int.fmod {a[0]} {b[0]})', 'I')
            raise Unsupported('`%` on floats')
        raise Unsupported(f'operator {type(op).__name__}')

    def module_const(self, mod, name, ctx):
        vals = mod.consts.get(name)
        if not vals:
            raise Unsupported(f'unknown name `{name}` in {mod.path.name}')
        if len(vals) > 1:
            raise Unsupported(f'module constant `{name}` assigned {len(vals)} times')
        sub = Ctx(mod, None, {}, ctx.fn)
        return self.expr(vals[0], sub)

    def attribute(self, node, ctx):
        d = self.dotted(node)
        if isinstance(node.value, ast.Name) and node.value.id == 'self' and ctx.cls:
            if self.state and node.attr in self.state['fields']:
                return (f'{ctx.env["self"][0]}.{self.state["fields"][node.attr]}', 'F')
            kinds = ctx.mod.member_kinds(ctx.cls, node.attr)
            if 'getter' in kinds:
                return self.call_function(ctx.mod, ctx.cls, node.attr, 'getter', [], ctx)
            try:
                v = ctx.mod.class_const(ctx.cls, node.attr)
            except Unsupported:
                raise Unsupported(f'`self.{node.attr}` is neither a state field, a property nor a class table')
            return (None, Static(literal_table(v, f'{ctx.cls}.{node.attr}')))
        if isinstance(node.value, ast.Name) and node.value.id in ctx.mod.aliases:
            return self.module_const(ctx.mod.aliases[node.value.id], node.attr, ctx)
        raise Unsupported(f'attribute `{d or ast.unparse(node)}`')

    # ------------------------------------------------------------------ calls
    def call(self, node, ctx):
        if node.keywords:
            raise Unsupported(f'keyword arguments in `{ast.unparse(node)}`')
        f = node.func
        d = self.dotted(f)
        args = node.args
        if any(isinstance(a, ast.Starred) for a in args):
            raise Unsupported('starred argument')
        if isinstance(f, ast.Name) and (f.id in ctx.env or f.id in ('int', 'float')):
            fv = ctx.env.get(f.id) or (None, TYPE_I if f.id == 'int' else TYPE_F)
            if fv[1] is TYPE_I or fv[1] is TYPE_F:
                if len(args) != 1:
                    raise Unsupported(f'`{ast.unparse(node)}`')
                if fv[1] is TYPE_F and isinstance(args[0], ast.Constant) and args[0].value in ('-inf', 'inf'):
                    if self.mode == 'exec':
                        raise NotExecutable('infinity')
                    return (self.use_implicit(ctx, 'ninf' if args[0].value == '-inf' else 'pinf'), 'F')
                c, t = self.expr(args[0], ctx)
                if fv[1] is TYPE_I:
                    if t == 'I':
                        return (c, 'I')
                    if t == 'F':
                        return (f'(Py.trunc{self.sfx} {c})', 'I')
                else:
                    if t in ('I', 'F'):
                        return (self.toF(c, t), 'F')
                raise Unsupported(f'`{ast.unparse(node)}`: conversion of {t}')
            raise Unsupported(f'call of local `{f.id}`')
        if d == 'utl.list_binop' and getattr(self, 'ctor_mode', False):
            # element-wise list algebra with a scalar: utl.list_binop(operator.add|mul, a, b)
            if len(args) != 3 or self.dotted(args[0]) not in ('operator.add', 'operator.mul'):
                raise Unsupported(f'`{ast.unparse(node)}`')
            sym = '+' if self.dotted(args[0]) == 'operator.add' else '*'
            a, b = self.expr(args[1], ctx), self.expr(args[2], ctx)
            if a[1] in ('I', 'F') and b[1] in ('I', 'F'):
                return (f'({self.toF(*a)} {sym} {self.toF(*b)})', 'F')
            if a[1] == 'L' and b[1] in ('I', 'F'):
                return (f'({a[0]}.map (· {sym} {self.toF(*b)}))', 'L')
            if a[1] in ('I', 'F') and b[1] == 'L':
                return (f'({b[0]}.map ({self.toF(*a)} {sym} ·))', 'L')
            raise Unsupported(f'`{ast.unparse(node)}`: operand types {a[1]}, {b[1]}')
        if d == 'type':
            if len(args) != 1:
                raise Unsupported('type() with several arguments')
            c, t = self.expr(args[0], ctx)
            if t == 'I':
                return (None, TYPE_I)
            if t == 'F':
                return (None, TYPE_F)
            raise Unsupported(f'type() of a {t}')
        if d in ('abs', 'math.fabs'):
            c, t = self.one_num(args, ctx, d)
            if d == 'math.fabs':
                c, t = self.toF(c, t), 'F'
            return (f'(Py.abs{"I" if t == "I" else self.sfx} {c})', t)
        if d in ('math.floor', 'math.ceil'):
            c, t = self.one_num(args, ctx, d)
            if t == 'I':
                return (c, 'I')
            return (f'(Py.{d[5:]}{self.sfx} {c})', 'I')
        if d == 'math.fmod':
            if len(args) != 2:
                raise Unsupported('math.fmod arity')
            a, b = self.expr(args[0], ctx), self.expr(args[1], ctx)
            if a[1] == b[1] == 'I':
                self.divisor(ctx, b[0], 'ValueError')
                return (self.toF(f'(Int.tmod {a[0]} {b[0]})', 'I'), 'F')
            raise Unsupported('math.fmod on floats')
        if d in ('builtins.min', 'builtins.max'):
            if len(args) != 2:
                raise Unsupported(f'{d} with {len(args)} arguments')
            a, b, t = self.unify(self.expr(args[0], ctx), self.expr(args[1], ctx))
            rel = '<' if d.endswith('min') else '>'      # Python keeps the first on ties
            return (f'(if {b} {rel} {a} then {b} else {a})', t)
        if d and d.startswith('math.'):
            return self.transcendental(d[5:], args, ctx, node)
        if isinstance(f, ast.Name):
            return self.call_function(ctx.mod, None, f.id, 'function', args, ctx)
        if isinstance(f, ast.Attribute) and isinstance(f.value, ast.Name):
            if f.value.id in ctx.mod.aliases:
                return self.call_function(ctx.mod.aliases[f.value.id], None, f.attr, 'function', args, ctx)
            if f.value.id == 'self' and ctx.cls:
                return self.call_function(ctx.mod, ctx.cls, f.attr, 'method', args, ctx)
        raise Unsupported(f'call `{ast.unparse(node)}`')

    def one_num(self, args, ctx, what):
        if len(args) != 1:
            raise Unsupported(f'{what} arity')
        c, t = self.expr(args[0], ctx)
        if t not in ('I', 'F'):
            raise Unsupported(f'{what} of a non-number')
        return c, t

    def transcendental(self, name, args, ctx, node):
        if name == 'acos' and len(args) == 1 and ast.unparse(args[0]) in ('-1.0', '-1.', '-1'):
            if self.mode == 'exec':
                raise NotExecutable('pi')
            return ('Real.pi', 'F')
        if name in ('log2', 'log10'):
            if self.mode == 'exec':
                raise NotExecutable(name)
            c, t = self.one_num(args, ctx, name)
            return (f'(Real.logb {name[3:]} {self.toF(c, t)})', 'F')
        if name in self.TRANSC:
            if self.mode == 'exec':
                raise NotExecutable(name)
            n = 2 if name == 'pow' else 1
            if len(args) != n:
                raise Unsupported(f'math.{name} with {len(args)} arguments')
            cs = [self.toF(*self.expr(a, ctx)) for a in args]
            return (f'({self.TRANSC[name]} {" ".join(cs)})', 'F')
        raise Unsupported(f'math.{name} is not whitelisted')

    # ------------------------------------------------------------------ conditions
    def junction(self, node, ctx, sym, absorbing):
        """and/or with short-circuit: divisors inside later operands are conditional."""
        parts = []
        c2 = ctx
        for i, v in enumerate(node.values):
            mark = len(ctx.fn.pending)
            p = self.cond(v, c2)
            if i > 0:
                self.conditional_divs(c2, mark, 'and/or')
            if p is absorbing:
                return absorbing
            if isinstance(p, str):
                parts.append(p)
                c2 = c2.assume(p, not absorbing)
        if not parts:
            return not absorbing
        return parts[0] if len(parts) == 1 else '(' + f' {sym} '.join(parts) + ')'

    def cond(self, node, ctx):
        """-> True | False | lean Prop code"""
        hit, val = self.assumed(node)
        if hit and isinstance(val, bool):
            return val
        if isinstance(node, ast.BoolOp):
            if isinstance(node.op, ast.And):
                return self.junction(node, ctx, '∧', False)
            return self.junction(node, ctx, '∨', True)
        if isinstance(node, ast.UnaryOp) and isinstance(node.op, ast.Not):
            c = self.cond(node.operand, ctx)
            return (not c) if isinstance(c, bool) else f'(¬ {c})'
        if isinstance(node, ast.Compare):
            vals = [self.expr(v, ctx) for v in [node.left] + node.comparators]
            parts = [self.compare(a, op, b, node) for (a, op, b) in zip(vals, node.ops, vals[1:])]
            if any(p is False for p in parts):
                return False
            parts = [p for p in parts if p is not True]
            return True if not parts else (parts[0] if len(parts) == 1 else '(' + ' ∧ '.join(parts) + ')')
        if isinstance(node, ast.Constant) and isinstance(node.value, bool):
            return node.value
        c, t = self.expr(node, ctx)          # truthiness of a number:  `if b:`
        if t in ('I', 'F'):
            return f'({c} ≠ 0)'
        if isinstance(t, Static) and t.value is None:
            return False
        raise Unsupported(f'condition `{ast.unparse(node)}`')

    def compare(self, a, op, b, node):
        sa, sb = isinstance(a[1], Static), isinstance(b[1], Static)
        if isinstance(op, (ast.Is, ast.IsNot)):
            if not (sa or sb):
                raise Unsupported(f'`is` between dynamic values in `{ast.unparse(node)}`')
            if sa and sb:
                if a[1] in (TYPE_I, TYPE_F) or b[1] in (TYPE_I, TYPE_F):
                    same = a[1] is b[1]
                else:
                    same = a[1].value is None and b[1].value is None
                    if not same and not (a[1].value is None or b[1].value is None):
                        raise Unsupported(f'`is` between static values in `{ast.unparse(node)}`')
            else:
                other = b[1] if sa else a[1]
                st = a[1] if sa else b[1]
                if st.value is None and other in ('I', 'F'):
                    same = False            # a number is not None
                else:
                    raise Unsupported(f'`is` in `{ast.unparse(node)}`')
            return same if isinstance(op, ast.Is) else not same
        if sa or sb:
            if sa and sb and isinstance(op, (ast.Eq, ast.NotEq)) \
                    and isinstance(a[1].value, (str, type(None))) and isinstance(b[1].value, (str, type(None))):
                eq = a[1].value == b[1].value
                return eq if isinstance(op, ast.Eq) else not eq
            raise Unsupported(f'comparison of a static value in `{ast.unparse(node)}`')
        ca, cb, _ = self.unify(a, b)
        sym = {ast.Lt: '<', ast.LtE: '≤', ast.Gt: '>', ast.GtE: '≥', ast.Eq: '=', ast.NotEq: '≠'}.get(type(op))
        if sym is None:
            raise Unsupported(f'comparison operator {type(op).__name__}')
        return f'({ca} {sym} {cb})'

    # ------------------------------------------------------------------ statements (CPS)
    def err(self, fn, name, ctx=None):
        """An exception.  A state-updating function reports the state as far as it was updated
        when the exception was raised (Python keeps the assignments already made)."""
        fn.raises = True
        if fn.wrap != 'except':
            return 'PENDING_RAISE'
        if fn.state_fn and ctx is not None:
            return f'.error ("{name}", {ctx.env["self"][0]})'
        return f'.error "{name}"'

    def guard(self, ctx, ind, k):
        """Wrap the code produced by k(ctx, ind) in zero-divisor checks for the divisors the
        statement just translated has recorded (unless provably non-zero)."""
        divs, ctx.fn.pending = ctx.fn.pending, []
        todo = []
        for d, e in divs:
            if not ctx.nonzero(d) and (d, e) not in todo:
                todo.append((d, e))
        if not todo:
            return k(ctx, ind)
        d, e = todo[0]
        ctx.fn.pending = todo[1:]
        i2 = ind + '  '
        c2 = ctx.assume(f'({d} ≠ 0)', True)
        rest = self.guard(c2, i2, k)
        return f'if {d} = 0 then\n{i2}{self.err(ctx.fn, e, ctx)}\n{ind}else\n{i2}{rest}'

    def block(self, stmts, ctx, k, ind):
        if not stmts:
            return k(ctx, ind)
        s, rest = stmts[0], stmts[1:]
        cont = lambda c, i: self.block(rest, c, k, i)       # noqa: E731
        if ctx.fn.pending:
            raise Unsupported('internal: pending divisors at statement start')
        if isinstance(s, ast.Return):
            return self.ret(s.value, ctx, ind)
        if isinstance(s, ast.Pass):
            return cont(ctx, ind)
        if isinstance(s, ast.Expr):
            if isinstance(s.value, ast.Constant) and isinstance(s.value.value, str):
                return cont(ctx, ind)                        # docstring
            if isinstance(s.value, ast.Call) and self.dotted(s.value.func) in self.skip_calls:
                self.used_assumptions.add('no-op: ' + self.dotted(s.value.func) + '(…)')
                return cont(ctx, ind)
            raise Unsupported(f'expression statement `{ast.unparse(s)}`')
        if isinstance(s, ast.Raise):
            exc = s.exc
            if isinstance(exc, ast.Call):
                exc = exc.func
            name = self.dotted(exc) if exc is not None else None
            if name is None:
                raise Unsupported(f'`{ast.unparse(s)}`')
            return self.err(ctx.fn, name.split('.')[-1], ctx)
        if isinstance(s, (ast.Assign, ast.AugAssign, ast.If)) and self.partial_ok and self.depth <= 1 \
                and not getattr(ctx.fn, '_probing', False):
            # exec mode: if this statement needs a transcendental function the rest of the path is
            # "not executable over Rat" (an explicit error value, never a guess)
            probe = s.value if not isinstance(s, ast.If) else s.test
            try:
                ctx.fn._probing = True
                mark = len(ctx.fn.pending)
                if isinstance(s, ast.If):
                    self.cond(probe, ctx)
                else:
                    self.expr(probe, ctx)
                del ctx.fn.pending[mark:]
            except NotExecutable as e:
                ctx.fn.pending = []
                ctx.fn.not_exec = True
                ctx.fn._probing = False
                return self.err(ctx.fn, f'not-executable-over-Rat:{e}')
            finally:
                ctx.fn._probing = False
        if isinstance(s, (ast.Assign, ast.AugAssign)):
            if isinstance(s, ast.Assign):
                if len(s.targets) != 1:
                    raise Unsupported('multiple assignment targets')
                target, value = s.targets[0], self.expr(s.value, ctx)
            else:
                target = s.target
                if isinstance(target, ast.Name):
                    load = ast.Name(id=target.id, ctx=ast.Load())
                elif isinstance(target, ast.Attribute):
                    load = ast.Attribute(value=target.value, attr=target.attr, ctx=ast.Load())
                else:
                    raise Unsupported('augmented assignment target')
                value = self.expr(ast.BinOp(left=load, op=s.op, right=s.value), ctx)
            code, ty = value

            def emit(c, i):
                if isinstance(target, ast.Name):
                    if isinstance(ty, Static):
                        return cont(c.bind(target.id, None, ty), i)
                    n = lname(target.id)
                    c2 = c.bind(target.id, n, ty, definition=code)
                    return f'let {n} : {self.T(ty)} := {code}\n{i}' + cont(c2, i)
                if isinstance(target, ast.Attribute) and isinstance(target.value, ast.Name) \
                        and target.value.id == 'self' and self.state and target.attr in self.state['fields']:
                    if ty not in ('I', 'F'):
                        raise Unsupported(f'non-numeric value stored in self.{target.attr}')
                    s0 = c.env['self'][0]
                    fld = self.state['fields'][target.attr]
                    c2 = c.forget(s0)
                    c2.defs[f'{s0}.{fld}'] = self.toF(code, ty)
                    return (f'let {s0} : {self.state["struct"]} := {{ {s0} with {fld} := {self.toF(code, ty)} }}\n{i}'
                            + cont(c2, i))
                raise Unsupported(f'assignment target `{ast.unparse(target)}`')
            return self.guard(ctx, ind, emit)
        if isinstance(s, ast.If):
            c = self.cond(s.test, ctx)
            if c is True:
                return self.guard(ctx, ind, lambda cc, i: self.block(s.body, cc, cont, i))
            if c is False:
                return self.guard(ctx, ind, lambda cc, i: self.block(s.orelse, cc, cont, i))

            def emit_if(cc, i):
                i2 = i + '  '
                a = self.block(s.body, cc.assume(c, True), cont, i2)
                b = self.block(s.orelse, cc.assume(c, False), cont, i2)
                return f'if {c} then\n{i2}{a}\n{i}else\n{i2}{b}'
            return self.guard(ctx, ind, emit_if)
        if isinstance(s, ast.With):
            # `with <lock>:` is transparent for the sequential model: the body runs in place.  Only
            # whitelisted lock expressions, without `as` target; any other context manager aborts.
            for item in s.items:
                d = self.dotted(item.context_expr)
                if item.optional_vars is not None or d not in self.lock_exprs:
                    raise Unsupported(f'`with {ast.unparse(item.context_expr)}` at line {s.lineno}: '
                                      'not a whitelisted lock')
                self.used_assumptions.add(f'lock (transparent): with {d}')
            return self.block(list(s.body) + list(rest), ctx, k, ind)
        raise Unsupported(f'statement `{type(s).__name__}` at line {getattr(s, "lineno", "?")}')

    def ret(self, value, ctx, ind):
        fn = ctx.fn
        if fn.state_fn:
            if value is not None and not (isinstance(value, ast.Constant) and value.value is None):
                raise Unsupported('a state-updating function returns a value')
            code = ctx.env['self'][0]
            return f'.ok {code}' if fn.wrap == 'except' else code
        if value is None:
            raise Unsupported(f'{fn.name}: bare `return` in a value function')
        try:
            code, ty = self.expr(value, ctx)
        except NotExecutable as e:
            fn.pending = []
            if not self.partial_ok or self.depth > 1:
                raise
            fn.not_exec = True
            return self.err(fn, f'not-executable-over-Rat:{e}')
        if isinstance(ty, Static):
            raise Unsupported(f'{fn.name}: returns a non-number ({ty})')
        fn.ret_types.add(ty)
        if fn.want == 'F' and ty == 'I':
            code, ty = self.toF(code, ty), 'F'
        return self.guard(ctx, ind, lambda c, i: f'.ok {code}' if fn.wrap == 'except' else code)

    # ------------------------------------------------------------------ functions
    def call_function(self, mod, cls, name, kind, args, ctx):
        argv = [self.expr(a, ctx) for a in args]
        info = self.function(mod, cls, name, kind, [t for _, t in argv])
        if info.get('not_exec'):
            raise NotExecutable(name)
        if info['wrap'] or info['ret'] == 'S':
            raise Unsupported(f'call of the partial/state-updating function `{name}` inside an expression')
        for n in info['implicit']:
            self.use_implicit(ctx, n)
        parts = [info['lean']]
        if cls:
            parts.append(ctx.env['self'][0])
        parts += info['implicit']
        parts += [c for c, t in argv if not isinstance(t, Static)]
        return ('(' + ' '.join(parts) + ')', info['ret'])

    def stabilise(self, what, state_fn, run):
        """Translate a body repeatedly until the result type / wrapper no longer change."""
        want, wrap = None, None
        for _ in range(4):
            fn = FnState(what, want, wrap, state_fn)
            body = run(fn)
            new_want = 'F' if fn.ret_types == {'I', 'F'} else want
            new_wrap = 'except' if fn.raises else wrap
            if (new_want, new_wrap) == (want, wrap):
                if 'PENDING_RAISE' in body:
                    raise Unsupported(f'`{what}`: internal (pending raise)')
                ret = 'S' if state_fn else ('F' if want == 'F' else
                                            (sorted(fn.ret_types)[0] if fn.ret_types else 'F'))
                rty = self.T(ret)
                if wrap == 'except':
                    rty = f'Except (String × {rty}) {rty}' if state_fn else f'Except String {rty}'
                return fn, body, ret, rty, wrap
            want, wrap = new_want, new_wrap
        raise Unsupported(f'`{what}`: translation did not stabilise')

    def function(self, mod, cls, name, kind, argtypes, lean_name=None):
        """Translate (memoised) the variant of a function for the given argument types.
        argtypes: list of 'I' | 'F' | Static(None)."""
        sig = ''.join(t if isinstance(t, str) else 'N' for t in argtypes)
        key = (str(mod.path), cls, name, kind, sig)
        if key in self.memo:
            return self.memo[key]
        if key in self.in_progress:
            raise Unsupported(f'recursive function `{name}`')
        self.in_progress.add(key)
        self.depth += 1
        try:
            node = mod.method(cls, name, kind) if cls else mod.func(name)
            if not cls:
                for dnode in node.decorator_list:
                    if ast.unparse(dnode) not in ('scbuiltin.unop', 'scbuiltin.binop', 'scbuiltin.narop'):
                        raise Unsupported(f'decorator `{ast.unparse(dnode)}` on `{name}`')
            a = node.args
            if a.vararg or a.kwarg or a.kwonlyargs or a.posonlyargs:
                raise Unsupported(f'`{name}`: variadic / keyword-only parameters')
            params = [p.arg for p in a.args]
            if cls:
                if not params or params[0] != 'self':
                    raise Unsupported(f'`{cls}.{name}`: first parameter is not self')
                params = params[1:]
            defaults = [None] * (len(params) - len(a.defaults)) + list(a.defaults)
            if len(argtypes) > len(params):
                raise Unsupported(f'`{name}` called with {len(argtypes)} arguments')
            base = lean_name or (lname(name) if kind != 'setter' else 'set_' + lname(name))
            lean = base + ('_' + sig if sig else '')
            state_fn = kind == 'setter' or (cls is not None and self.mutating(node))
            lparams = []

            def run(fn):
                env = {}
                del lparams[:]
                if cls:
                    env['self'] = ('s', 'S')
                for i, p in enumerate(params):
                    if i < len(argtypes):
                        t = argtypes[i]
                        if isinstance(t, Static):
                            env[p] = (None, t)
                        else:
                            env[p] = (lname(p), t)
                            lparams.append((lname(p), t))
                    else:
                        if defaults[i] is None:
                            raise Unsupported(f'`{name}`: missing argument `{p}`')
                        env[p] = self.expr(defaults[i], Ctx(mod, cls, {}, fn))
                        fn.pending = []
                ctx = Ctx(mod, cls, env, fn)

                def fall(c, i):
                    if fn.state_fn:
                        return self.ret(None, c, i)
                    raise Unsupported(f'`{name}`: a path falls off the end without `return`')
                return self.block(node.body, ctx, fall, '    ')
            try:
                fn, body, ret, rty, wrap = self.stabilise(name, state_fn, run)
            except NotExecutable:
                if self.depth <= 1:
                    raise
                info = {'lean': None, 'not_exec': True, 'wrap': None, 'ret': 'F', 'implicit': []}
                self.memo[key] = info
                return info
            binders = ''
            if cls:
                binders += f' (s : {self.state["struct"]})'
            for n in fn.implicit:
                binders += f' ({n} : {self.T(self.implicit_types[n])})'
            for n, t in lparams:
                binders += f' ({n} : {self.T(t)})'
            src = f'{mod.path.name} {cls + "." if cls else ""}{name}' + \
                  (f' [{kind}]' if kind in ('getter', 'setter') else '') + \
                  f'  argument types {sig or "-"}'
            text = f'/-- {src} -/\ndef {lean}{binders} : {rty} :=\n    {body}\n'
            self.defs.append((lean, text))
            info = {'lean': lean, 'ret': ret, 'wrap': wrap, 'implicit': list(fn.implicit),
                    'params': list(lparams), 'not_exec': fn.not_exec, 'sig': sig, 'py': name}
            self.memo[key] = info
            return info
        finally:
            self.depth -= 1
            self.in_progress.discard(key)

    @staticmethod
    def mutating(node):
        for n in ast.walk(node):
            if isinstance(n, (ast.Assign, ast.AugAssign)):
                ts = n.targets if isinstance(n, ast.Assign) else [n.target]
                for t in ts:
                    if isinstance(t, ast.Attribute) and isinstance(t.value, ast.Name) and t.value.id == 'self':
                        return True
        return False

    def fragment(self, lean, mod, cls, stmts, params, prebind=None, lineno=None):
        """Translate a statement list cut out of a function as a definition with the given
        free variables.  params: [(python name, 'I'|'F')]; prebind: {name: Static}."""
        def run(fn):
            env = {p: (lname(p), t) for p, t in params}
            for k, v in (prebind or {}).items():
                env[k] = (None, v)
            ctx = Ctx(mod, cls, env, fn)

            def fall(c, i):
                raise Unsupported(f'fragment `{lean}`: a path falls off the end')
            return self.block(stmts, ctx, fall, '    ')
        self.depth += 1
        try:
            fn, body, ret, rty, wrap = self.stabilise(lean, False, run)
        finally:
            self.depth -= 1
        binders = ''.join(f' ({n} : {self.T(self.implicit_types[n])})' for n in fn.implicit)
        binders += ''.join(f' ({lname(p)} : {self.T(t)})' for p, t in params)
        text = (f'/-- fragment of {mod.path.name}' +
                f' -/\ndef {lean}{binders} : {rty} :=\n    {body}\n')
        self.defs.append((lean, text))
        return {'lean': lean, 'ret': ret, 'wrap': wrap, 'implicit': list(fn.implicit),
                'not_exec': fn.not_exec}

    # ------------------------------------------------------------------ constructors (C19)
    def constructor(self, mod, cls, name, curve_params=('curve',)):
        """Translate a `@classmethod` whose body is straight-line assignments followed by
        `return cls(levels, times[, curves[, release_node[, loop_node[, offset]]]])` into a
        definition returning the hand-written `Env.new …` (the `__init__` defaults are read from the
        source).  Parameters named in `curve_params` are opaque curve specifications."""
        self.ctor_mode = True
        node = mod.method(cls, name)
        if [ast.unparse(d) for d in node.decorator_list] != ['classmethod']:
            raise Unsupported(f'{cls}.{name} is not a classmethod')
        a = node.args
        if a.vararg or a.kwarg or a.kwonlyargs or a.posonlyargs:
            raise Unsupported(f'{cls}.{name}: variadic parameters')
        params = [p.arg for p in a.args[1:]]
        init = mod.method(cls, '__init__')
        iparams = [p.arg for p in init.args.args[1:]]
        if iparams != ['levels', 'times', 'curves', 'release_node', 'loop_node', 'offset']:
            raise Unsupported(f'{cls}.__init__ parameters changed: {iparams}')
        idefaults = dict(zip(iparams[len(iparams) - len(init.args.defaults):], init.args.defaults))
        fn = FnState(name, None, None, False)
        env, binders = {}, []
        for p_ in params:
            t = 'C' if p_ in curve_params else 'F'
            env[p_] = (lname(p_), t)
            binders.append(f'({lname(p_)} : {self.T(t)})')
        ctx = Ctx(mod, cls, env, fn)
        lines = []
        body = [b for b in node.body if not (isinstance(b, ast.Expr) and isinstance(b.value, ast.Constant))]
        for st in body[:-1]:
            if not (isinstance(st, ast.Assign) and len(st.targets) == 1 and isinstance(st.targets[0], ast.Name)):
                raise Unsupported(f'{cls}.{name}: statement `{ast.unparse(st)}`')
            c, t = self.expr(st.value, ctx)
            if t not in ('F', 'I', 'L'):
                raise Unsupported(f'{cls}.{name}: `{ast.unparse(st)}` has type {t}')
            n = lname(st.targets[0].id)
            lines.append(f'let {n} : {self.T(t)} := {c}')
            ctx = ctx.bind(st.targets[0].id, n, t)
        last = body[-1]
        if not (isinstance(last, ast.Return) and isinstance(last.value, ast.Call)
                and isinstance(last.value.func, ast.Name) and last.value.func.id == 'cls'):
            raise Unsupported(f'{cls}.{name}: does not end with `return cls(…)`')
        call = last.value
        if len(call.args) > 6 or any(k.arg not in iparams for k in call.keywords):
            raise Unsupported(f'{cls}.{name}: `{ast.unparse(call)}`')
        given = dict(zip(iparams, call.args))
        given.update({k.arg: k.value for k in call.keywords})
        for k in iparams:
            if k not in given:
                if k not in idefaults:
                    raise Unsupported(f'{cls}.{name}: `{k}` missing in `{ast.unparse(call)}`')
                given[k] = idefaults[k]

        def lst(x):
            c, t = self.expr(x, ctx)
            if t != 'L':
                raise Unsupported(f'{cls}.{name}: `{ast.unparse(x)}` is not a list of numbers')
            return c

        def curves(x):
            if isinstance(x, ast.Constant) and isinstance(x.value, str):
                return f'[Curve.name {lean_string(x.value)}]'
            if isinstance(x, ast.Constant) and isinstance(x.value, (int, float)) and not isinstance(x.value, bool):
                return f'[Curve.num {self.toF(*self.lit(x.value))}]'
            if isinstance(x, ast.Name) and x.id in ctx.env and ctx.env[x.id][1] == 'C':
                return f'[{ctx.env[x.id][0]}]'
            raise Unsupported(f'{cls}.{name}: curves argument `{ast.unparse(x)}`')

        def node_(x):
            if isinstance(x, ast.Constant) and x.value is None:
                return 'none'
            if isinstance(x, ast.Constant) and isinstance(x.value, int) and not isinstance(x.value, bool):
                return f'(some ({x.value} : Int))'
            raise Unsupported(f'{cls}.{name}: node argument `{ast.unparse(x)}`')
        off = self.expr(given['offset'], ctx)
        if off[1] not in ('I', 'F'):
            raise Unsupported(f'{cls}.{name}: offset `{ast.unparse(given["offset"])}`')
        if fn.pending:
            for d_, _ in fn.pending:
                if not ctx.nonzero(d_):
                    raise Unsupported(f'{cls}.{name}: possibly-zero divisor `{d_}`')
            fn.pending = []
        lines.append(f'Env.new {lst(given["levels"])} {lst(given["times"])} {curves(given["curves"])} '
                     f'{node_(given["release_node"])} {node_(given["loop_node"])} {self.toF(*off)}')
        text = (f'/-- {mod.path.name} {cls}.{name} [classmethod] -/\n'
                f'def {lname(name)} {" ".join(binders)} : Env :=\n    ' + '\n    '.join(lines) + '\n')
        self.defs.append((lname(name), text))
        self.ctor_mode = False
        return {'lean': lname(name), 'params': params}

    # ------------------------------------------------------------------ dispatchers over Num
    def dispatcher(self, name, infos, arity):
        """`def name (a b : Num) : Except String Num` choosing the variant by the dynamic types,
        for the driver and for theorems quantified over all int/float arguments."""
        vs = [f'a{i}' for i in range(arity)]
        lines = [f'/-- `{name}` on dynamically typed numbers: picks the variant the Python code would run. -/',
                 f'def {name}_D ' + ' '.join(f'({v} : Num)' for v in vs) + ' : Except String Num :=',
                 '    match ' + ', '.join(vs) + ' with']
        for info in infos:
            pats = ', '.join(f'.{"i" if t == "I" else "f"} {v}' for t, v in zip(info['sig'], vs))
            callee = info['lean'] + ''.join(f' {v}' for v in vs)
            con = '.i' if info['ret'] == 'I' else '.f'
            if info['wrap'] == 'except':
                rhs = f'({callee}).map {con}'
            else:
                rhs = f'.ok ({con} ({callee}))'
            lines.append(f'    | {pats} => {rhs}')
        self.defs.append((name + '_D', '\n'.join(lines) + '\n'))

    # ------------------------------------------------------------------ output
    def render(self, namespace, header, imports=(), extra_top='', opens=()):
        out = ['/-', 'GENERATED by tools/py2lean.py — do not edit; regenerated from $SC3_REPO on every check run.',
               header.rstrip()]
        if self.used_assumptions:
            out.append('Assumptions applied while translating (source text → value):')
            for k in sorted(self.used_assumptions):
                out.append(f'  {k}' + (f'  ↦ {self.assumptions[k]}' if k in self.assumptions else ''))
        out.append('-/')
        out += [f'import {i}' for i in imports]
        out.append('set_option linter.unusedVariables false')
        out.append(f'namespace {namespace}')
        for o in opens:
            out.append(f'open {o}')
        if self.mode == 'real':
            out.append('noncomputable section')
            out.append('open Classical')
        if extra_top:
            out.append(extra_top.rstrip())
        out.append('')
        for _, text in self.defs:
            out.append(text)
        if self.mode == 'real':
            out.append('end')
        out.append(f'end {namespace}')
        return '\n'.join(out) + '\n'


def lean_string(s):
    return '"' + s.replace('\\', '\\\\').replace('"', '\\"') + '"'


def table_def(name, value, what):
    """dict {str: int} / list of ints|strs -> Lean list definition."""
    if isinstance(value, dict):
        if not all(isinstance(k, str) and isinstance(v, int) and not isinstance(v, bool)
                   for k, v in value.items()):
            raise Unsupported(f'{what}: only {{str: int}} tables are supported')
        items = ', '.join(f'({lean_string(k)}, ({v} : Int))' for k, v in value.items())
        return f'/-- {what} -/\ndef {name} : List (String × Int) :=\n  [{items}]\n'
    if isinstance(value, (list, tuple)):
        if all(isinstance(v, int) and not isinstance(v, bool) for v in value):
            return f'/-- {what} -/\ndef {name} : List Int :=\n  [{", ".join(str(v) for v in value)}]\n'
        if all(isinstance(v, str) for v in value):
            return f'/-- {what} -/\ndef {name} : List String :=\n  [{", ".join(lean_string(v) for v in value)}]\n'
    raise Unsupported(f'{what}: unsupported table shape')


PRELUDE_EXEC = '''
/-- Python `int(x)` on a float: truncation toward zero. -/
def Py.truncQ (q : Rat) : Int := if 0 ≤ q then q.floor else q.ceil
def Py.floorQ (q : Rat) : Int := q.floor
def Py.ceilQ (q : Rat) : Int := q.ceil
def Py.absI (a : Int) : Int := if a < 0 then -a else a
def Py.absQ (a : Rat) : Rat := if a < 0 then -a else a

/-- A dynamically typed Python number: `int` or `float` (float idealised as a rational). -/
inductive Num where
  | i (n : Int)
  | f (q : Rat)
deriving Repr, DecidableEq

/-- The numeric value of a Python number. -/
def Num.val : Num → Rat
  | .i n => (n : Rat)
  | .f q => q

def Num.isInt : Num → Bool
  | .i _ => true
  | .f _ => false
'''

PRELUDE_REAL = '''
/-- Python `int(x)` on a float: truncation toward zero. -/
def Py.truncR (x : ℝ) : Int := if 0 ≤ x then ⌊x⌋ else ⌈x⌉
def Py.floorR (x : ℝ) : Int := ⌊x⌋
def Py.ceilR (x : ℝ) : Int := ⌈x⌉
def Py.absI (a : Int) : Int := if a < 0 then -a else a
def Py.absR (a : ℝ) : ℝ := |a|
'''


def write_if_changed(path, text):
    path = Path(path)
    if path.exists() and path.read_text() == text:
        return False
    path.parent.mkdir(parents=True, exist_ok=True)
    tmp = path.with_suffix(path.suffix + f'.tmp{os.getpid()}')
    tmp.write_text(text)
    os.replace(tmp, path)
    return True


# =============================================================================================
# Units: what is translated for each property
# =============================================================================================

def patterns(n):
    return [''.join(p) for p in itertools.product('IF', repeat=n)]


C15_EXEC = {          # function -> argument type patterns of the executable (Int/Rat) variants
    'mod': patterns(2), 'div': patterns(2),
    'wrap': patterns(3), 'fold': patterns(3), 'clip': patterns(3),
    'round': patterns(2), 'roundup': patterns(2), 'trunc': patterns(2),
    'wrap2': patterns(2), 'fold2': patterns(2), 'clip2': patterns(2),
    'floor': patterns(1), 'ceil': patterns(1), 'frac': patterns(1),
    'squared': patterns(1), 'cubed': patterns(1), 'sign': patterns(1),
    'min': patterns(2), 'max': patterns(2), 'absdif': patterns(2), 'thresh': patterns(2),
    'excess': patterns(2), 'ring1': patterns(2), 'ring2': patterns(2), 'ring3': patterns(2),
    'ring4': patterns(2), 'difsqr': patterns(2), 'sumsqr': patterns(2), 'sqrsum': patterns(2),
    'sqrdif': patterns(2), 'scaleneg': patterns(2), 'amclip': patterns(2), 'blend': patterns(3),
    'wrap1': patterns(1), 'fold1': patterns(1), 'ramp': patterns(1), 'scurve': patterns(1),
    'distort': patterns(1), 'softclip': patterns(1), 'triwindow': patterns(1),
    'rectwindow': patterns(1), 'reciprocal': patterns(1), 'first_arg': patterns(2),
}
C15_REAL = {          # ℝ variants of the conversion kernels (proof only)
    'midicps': ['F'], 'cpsmidi': ['F'], 'midiratio': ['F'], 'ratiomidi': ['F'],
    'octcps': ['F'], 'cpsoct': ['F'], 'ampdb': ['F'], 'dbamp': ['F'],
}


def kernels_exec(mod, table):
    ex = Translator('exec')
    names = []
    for name, sigs in table.items():
        infos = [ex.function(mod, None, name, 'function', list(sig)) for sig in sigs]
        ex.dispatcher(lname(name), infos, len(sigs[0]))
        names.append((name, len(sigs[0])))
    rows = []
    for name, ar in names:
        vs = [f'a{i}' for i in range(ar)]
        rows.append(f'    | {lean_string(name)}, [{", ".join(vs)}] => some ({lname(name)}_D {" ".join(vs)})')
    ex.defs.append(('kernel', '/-- Name → dispatcher (used by the line-protocol driver). -/\n'
                    'def kernel (name : String) (args : List Num) : Option (Except String Num) :=\n'
                    '    match name, args with\n' + '\n'.join(rows) + '\n    | _, _ => none\n'))
    ex.defs.append(('kernelNames', table_def('kernelNames', [n for n, _ in names],
                                             'functions of builtins.py translated here')))
    return ex


def extract_ops(repo):
    """The operator list of `AbstractObject` read with `ast`: every method whose body is
    `return self._compose_*(selector, …)`.  Anything else in a method body is unsupported."""
    mod = PyModule(Path(repo) / 'sc3' / 'base' / 'absobject.py')
    cls = mod.classes.get('AbstractObject')
    if cls is None:
        raise Unsupported('absobject.py: no class AbstractObject')
    hooks = ('_compose_unop', '_compose_binop', '_rcompose_binop', '_compose_narop')
    rows = []
    for m in cls.body:
        if not isinstance(m, ast.FunctionDef) or m.name in hooks or m.name == '__hash__':
            continue
        body = [b for b in m.body
                if not (isinstance(b, ast.Expr) and isinstance(b.value, ast.Constant))]
        if len(body) != 1 or not isinstance(body[0], ast.Return) or not isinstance(body[0].value, ast.Call):
            raise Unsupported(f'AbstractObject.{m.name}: body is not a single `return self._compose_*(…)`')
        call = body[0].value
        f = call.func
        if not (isinstance(f, ast.Attribute) and isinstance(f.value, ast.Name) and f.value.id == 'self'
                and f.attr in hooks) or call.keywords or not call.args:
            raise Unsupported(f'AbstractObject.{m.name}: does not forward to a _compose_* hook')
        sel = call.args[0]
        if not (isinstance(sel, ast.Attribute) and isinstance(sel.value, ast.Name)
                and sel.value.id in ('operator', 'bi')):
            raise Unsupported(f'AbstractObject.{m.name}: selector `{ast.unparse(sel)}`')
        a = m.args
        if a.vararg or a.kwarg or a.kwonlyargs or a.posonlyargs:
            raise Unsupported(f'AbstractObject.{m.name}: variadic parameters')
        params = [p.arg for p in a.args[1:]]

        def atom(node, what):
            try:
                v = ast.literal_eval(node)
            except (ValueError, SyntaxError):
                raise Unsupported(f'AbstractObject.{m.name}: {what} `{ast.unparse(node)}` is not a literal')
            if isinstance(v, bool) or not isinstance(v, (int, float, str)):
                raise Unsupported(f'AbstractObject.{m.name}: {what} `{v!r}`')
            if isinstance(v, int):
                return f'i:{v}'
            if isinstance(v, float):
                q = Fraction(v)
                return f'f:{q.numerator}' if q.denominator == 1 else f'f:{q.numerator}/{q.denominator}'
            return f's:{v}'
        defaults = [atom(d, 'default') for d in a.defaults]
        passes = []
        for x in call.args[1:]:
            if isinstance(x, ast.Name) and x.id in params:
                passes.append(x.id)
            else:
                passes.append(atom(x, 'forwarded argument'))
        rows.append({'method': m.name, 'hook': f.attr, 'ns': sel.value.id, 'sel': sel.attr,
                     'params': params, 'defaults': defaults, 'passes': passes})
    return rows


def c15_index_tolerant(repo):
    """Operator table and builtin kinds WITHOUT the shape checks: used by the C15 check to keep
    generating inputs for the failing-input search when the translation itself is refused."""
    out = {'exec': dict(C15_EXEC), 'real': dict(C15_REAL), 'ops': [], 'builtin_kinds': {}}
    try:
        out['ops'] = extract_ops(repo)
    except Unsupported:
        pass
    try:
        out['builtin_kinds'] = builtin_kinds(PyModule(Path(repo) / 'sc3' / 'base' / 'builtins.py'), check=False)
    except Unsupported:
        pass
    return out


def builtin_kinds(mod, check=True):
    """name -> 'unop' | 'binop' | 'narop' for the `@scbuiltin.*` functions of builtins.py, after
    checking that the three decorators still have the dispatch shape the model assumes."""
    cls = mod.classes.get('scbuiltin')
    if cls is None:
        raise Unsupported('builtins.py: no class scbuiltin')
    # The model assumes: left operand's hook, else (binop) right operand's reflected hook, else the
    # numeric function; and the hooks receive the DISPATCHING wrapper, not the raw function.
    expect = {
        'unop': ["if hasattr(x, '_compose_unop'):\n    return x._compose_unop(scbuiltin_)", 'return func(x)'],
        'binop': ["if hasattr(a, '_compose_binop'):\n    return a._compose_binop(scbuiltin_, b)",
                  "if hasattr(b, '_rcompose_binop'):\n    return b._rcompose_binop(scbuiltin_, a)",
                  'return func(a, b)'],
        'narop': ["if hasattr(x, '_compose_narop'):\n    return x._compose_narop(scbuiltin_, *args)",
                  'return func(x, *args)'],
    }
    seen = set()
    for m in (cls.body if check else []):
        if isinstance(m, ast.FunctionDef) and m.name in expect:
            inner = [n for n in ast.walk(m) if isinstance(n, ast.FunctionDef) and n.name == 'scbuiltin_']
            if not inner:
                raise Unsupported(f'scbuiltin.{m.name}: no inner wrapper `scbuiltin_`')
            for f in inner:
                got = [ast.unparse(b) for b in f.body]
                if got != expect[m.name]:
                    raise Unsupported(f'scbuiltin.{m.name}: wrapper body changed: {got}')
            seen.add(m.name)
    if check and seen != set(expect):
        raise Unsupported(f'scbuiltin: decorators found {sorted(seen)}')
    kinds = {}
    for name, fs in mod.funcs.items():
        for f in fs:
            for d in f.decorator_list:
                u = ast.unparse(d)
                if u.startswith('scbuiltin.'):
                    kinds[name] = u.split('.')[1]
    return kinds


def unit_c15(repo):
    src = Path(repo) / 'sc3' / 'base' / 'builtins.py'
    mod = PyModule(src)
    ex = kernels_exec(mod, C15_EXEC)
    hdr = ('Source: sc3/base/builtins.py.  Executable variants over Int (`I`) and Rat (`F` = Python float,\n'
           'binary64 rounding idealised).  One definition per argument type pattern: `wrap_IFF` is\n'
           '`wrap(x, lo, hi)` called with an int `x` and float bounds; `wrap_D` dispatches on `Num`.')
    files = {'Sc3Verif/C15/GenKernels.lean':
             ex.render('Sc3Verif.C15.Gen', hdr, extra_top=PRELUDE_EXEC)}
    re_ = Translator('real')
    for name, sigs in C15_REAL.items():
        for sig in sigs:
            re_.function(mod, None, name, 'function', list(sig))
    hdr = ('Source: sc3/base/builtins.py.  Proof-only variants over ℝ of the pitch / amplitude\n'
           'conversions.  `ninf` stands for the value Python returns for `log(0)` (`-inf`); it is a\n'
           'universally quantified parameter.')
    files['Sc3Verif/C15/GenReal.lean'] = re_.render(
        'Sc3Verif.C15.GenR', hdr,
        imports=['Mathlib.Analysis.SpecialFunctions.Pow.Real', 'Mathlib.Analysis.SpecialFunctions.Log.Base'],
        extra_top=PRELUDE_REAL)
    rows = extract_ops(repo)
    kinds = builtin_kinds(mod)

    def lst(xs):
        return '[' + ', '.join(lean_string(x) for x in xs) + ']'
    body = ['/-',
            'GENERATED by tools/py2lean.py — do not edit; regenerated from $SC3_REPO on every check run.',
            'Source: sc3/base/absobject.py (class AbstractObject) and the @scbuiltin decorators of',
            'sc3/base/builtins.py.  The operator table the lifting model dispatches with.',
            '-/', 'import Sc3Verif.C15.Model', 'namespace Sc3Verif.C15.GenOps', 'open Sc3Verif.C15.Lift', '',
            '/-- one row per operator method of `AbstractObject` -/', 'def ops : List OpRow := [']
    body.append(',\n'.join(
        f'  {{ method := {lean_string(r["method"])}, hook := {lean_string(r["hook"])}, '
        f'sel := {lean_string(r["sel"])}, params := {lst(r["params"])}, defaults := {lst(r["defaults"])}, '
        f'passes := {lst(r["passes"])} }}' for r in rows))
    body.append(']')
    body.append('')
    body.append('/-- `@scbuiltin.unop/binop/narop` functions of builtins.py -/')
    body.append('def builtinKinds : List (String × String) := [')
    body.append(',\n'.join(f'  ({lean_string(k)}, {lean_string(v)})' for k, v in kinds.items()))
    body.append(']')
    body.append('end Sc3Verif.C15.GenOps')
    files['Sc3Verif/C15/GenOps.lean'] = '\n'.join(body) + '\n'
    index = {'exec': dict(C15_EXEC), 'real': dict(C15_REAL),
             'defs_exec': [n for n, _ in ex.defs], 'defs_real': [n for n, _ in re_.defs],
             'ops': rows, 'builtin_kinds': kinds}
    return files, index


C12_STATE = {'struct': 'TC', 'fields': {
    '_tempo': 'tempo', '_beat_dur': 'beatDur', '_base_seconds': 'baseSeconds', '_base_beats': 'baseBeats',
    '_beats_per_bar': 'beatsPerBar', '_bars_per_beat': 'barsPerBeat', '_base_bar': 'baseBar',
    '_base_bar_beat': 'baseBarBeat'}}
C12_ASSUME = {
    'self.running()': True,                                   # the clock is running (NRT: always)
    'self.mode == _libsc3.main.NRT_MODE': True,               # no condition variable to notify
    '_libsc3.main.current_tt._clock is not self': False,      # meter changes come from a routine on this clock
    '_libsc3.main.current_tt._seconds': ('extern', 'now', 'F'),    # logical time of the calling routine
    '_libsc3.main.elapsed_time()': ('extern', 'elapsed', 'F'),     # physical time
}
C12_FUNCS = [          # (python name, kind, argument type patterns)
    ('beats2secs', 'method', ['F']), ('secs2beats', 'method', ['F']),
    ('tempo', 'getter', ['']), ('tempo', 'setter', ['F']), ('etempo', 'method', ['F']),
    ('beat_dur', 'getter', ['']), ('elapsed_beats', 'method', ['']),
    ('beats', 'getter', ['']), ('beats', 'setter', ['F']),
    ('beats_per_bar', 'getter', ['']), ('beats_per_bar', 'setter', ['F']),
    ('base_bar', 'getter', ['']), ('base_bar_beat', 'getter', ['']),
    ('next_time_on_grid', 'method', patterns(3) + [p + 'N' for p in patterns(2)]),
    ('beats2bars', 'method', ['F']), ('bars2beats', 'method', ['F', 'I']),
    ('bar', 'method', ['']), ('next_bar', 'method', ['F', 'N']), ('beat_in_bar', 'method', ['']),
]


def unit_c12(repo):
    bmod = PyModule(Path(repo) / 'sc3' / 'base' / 'builtins.py')
    ex = kernels_exec(bmod, C15_EXEC)          # the kernels live in C15/GenKernels.lean (imported)
    n0 = len(ex.defs)
    cmod = PyModule(Path(repo) / 'sc3' / 'base' / 'clock.py', aliases={'bi': bmod})
    ex.assumptions = dict(C12_ASSUME)
    ex.skip_calls = {'mdl.NotificationCenter.notify',          # observers: no effect on the numeric state
                     '_libsc3.main._clock_scheduler.retime'}    # NRT: pending tasks keep their beat
    ex.lock_exprs = {'_libsc3.main._main_lock', 'self._sched_cond'}
    ex.state = C12_STATE
    infos = {}
    for name, kind, sigs in C12_FUNCS:
        for sig in sigs:
            tys = [Static(None) if c == 'N' else c for c in sig]
            infos[(name, kind, sig)] = ex.function(cmod, 'TempoClock', name, kind, tys)
    rows = []
    for sig in patterns(3) + [p + 'N' for p in patterns(2)]:
        i = infos[('next_time_on_grid', 'method', sig)]
        pat = ', '.join(f'.{"i" if c == "I" else "f"} a{k}' for k, c in enumerate(sig[:2]))
        pat += ', ' + ('none' if sig[2] == 'N' else f'some (.{"i" if sig[2] == "I" else "f"} a2)')
        args = ' '.join(['s'] + i['implicit'] + [f'a{k}' for k, c in enumerate(sig) if c != 'N'])
        rhs = f'{i["lean"]} {args}'
        if i['wrap'] != 'except':
            rhs = f'.ok ({rhs})'
        rows.append(f'    | {pat} => {rhs}')
    ex.defs.append(('next_time_on_grid_D',
                    '/-- `next_time_on_grid(quant, phase, refbeat)` on dynamically typed arguments\n'
                    '    (`refbeat = none`: the current beat of the calling routine). -/\n'
                    'def next_time_on_grid_D (s : TC) (now : Rat) (quant phase : Num) (refbeat : Option Num) :\n'
                    '    Except String Rat :=\n    match quant, phase, refbeat with\n' + '\n'.join(rows) + '\n'))
    local = ex.defs[n0:]
    ex.defs = local
    fields = '\n'.join(f'  {v} : Rat' for v in C12_STATE['fields'].values())
    top = ('/-- The numeric private fields of `TempoClock` (clock.py `__init__`). -/\n'
           f'structure TC where\n{fields}\nderiving Repr, DecidableEq\n')
    hdr = ('Source: sc3/base/clock.py class TempoClock (time arithmetic, quantisation, meter); the numeric\n'
           'kernels `bi.mod/round/roundup/floor/ceil` are the definitions of C15/GenKernels.lean.\n'
           '`now` = logical time of the calling routine (`main.current_tt._seconds`), `elapsed` = physical\n'
           'time (`main.elapsed_time()`); a state-updating function returns the new record.')
    text = ex.render('Sc3Verif.C12.Gen', hdr, imports=['Sc3Verif.C15.GenKernels'], extra_top=top,
                     opens=['Sc3Verif.C15.Gen'])
    index = {'funcs': {f'{n}:{k}:{sg}': {kk: vv for kk, vv in i.items() if kk != 'params'}
                       for (n, k, sg), i in infos.items()},
             'assumptions': sorted(ex.used_assumptions)}
    return {'Sc3Verif/C12/GenTempo.lean': text}, index


C19_CTORS = ['triangle', 'sine', 'perc', 'linen', 'dadsr', 'adsr', 'asr']


def find_env_chain(cmod):
    """Locate, inside Env._env_at, the segment loop, the `if time < end_time:` test, the
    position assignment and the shape chain.  Any other shape of the function is unsupported."""
    fn = cmod.method('Env', '_env_at')
    loops = [n for n in fn.body if isinstance(n, ast.For)]
    if len(loops) != 1:
        raise Unsupported('Env._env_at: expected exactly one segment loop')
    loop = loops[0]
    ifs = [n for n in loop.body if isinstance(n, ast.If)]
    if len(ifs) != 1 or ast.unparse(ifs[0].test) != 'time < end_time':
        raise Unsupported('Env._env_at: expected `if time < end_time:` in the segment loop')
    inner = ifs[0].body
    want = ['shape = data[i + 2]', 'pos = (time - begin_time) / target_dur']
    got = [ast.unparse(n) for n in inner[:2]]
    if got != want or len(inner) != 3 or not isinstance(inner[2], ast.If):
        raise Unsupported(f'Env._env_at: segment body changed: {got}')
    pre = [ast.unparse(n) for n in loop.body if n is not ifs[0]]
    if pre != ['target_level = float(data[i])', 'target_dur = data[i + 1]', 'end_time += target_dur']:
        raise Unsupported(f'Env._env_at: loop prologue changed: {pre}')
    if [ast.unparse(n) for n in ifs[0].orelse] != ['start_level = target_level', 'begin_time = end_time']:
        raise Unsupported('Env._env_at: loop epilogue changed')
    if ast.unparse(loop.iter) != 'range(4, num_stages * 4 + 1, 4)':
        raise Unsupported('Env._env_at: loop range changed')
    return fn, inner[1], inner[2]


def unit_c19(repo):
    bmod = PyModule(Path(repo) / 'sc3' / 'base' / 'builtins.py')
    emod = PyModule(Path(repo) / 'sc3' / 'synth' / 'envelope.py', aliases={'bi': bmod})
    table = literal_table(emod.class_const('Env', '_SHAPE_NAMES'), 'Env._SHAPE_NAMES')
    fn, pos_stmt, chain = find_env_chain(emod)
    files = {}
    for mode in ('exec', 'real'):
        tr = Translator(mode, partial_ok=(mode == 'exec'),
                        assumptions={'data[i + 3]': ('extern', 'curveArg', 'F')})
        tr.fragment('segValue', emod, 'Env', [chain],
                    [('shape', 'I'), ('pos', 'F'), ('start_level', 'F'), ('target_level', 'F')],
                    prebind={'shape_names': Static(table)}, lineno=chain.lineno)
        tr.fragment('segPos', emod, 'Env', [ast.Return(value=pos_stmt.value)],
                    [('time', 'F'), ('begin_time', 'F'), ('target_dur', 'F')], lineno=pos_stmt.lineno)
        hdr = ('Source: sc3/synth/envelope.py, Env._env_at: the chain of shape formulas evaluated inside a\n'
               'segment (`segValue shape pos start_level target_level`, `curveArg` = data[i + 3]) and the\n'
               'position inside the segment (`segPos`); transcendental functions resolved through\n'
               'sc3/base/builtins.py.')
        if mode == 'exec':
            hdr += ('\nExecutable variant over Rat: shapes that need a transcendental function return the error\n'
                    'value "not-executable-over-Rat:…".  Also the literal table Env._SHAPE_NAMES.')
            tr.defs.insert(0, ('shapeNames', table_def('shapeNames', table, 'envelope.py Env._SHAPE_NAMES')))
            files['Sc3Verif/C19/GenEnv.lean'] = tr.render('Sc3Verif.C19.Gen', hdr, extra_top=PRELUDE_EXEC_MIN)
        else:
            files['Sc3Verif/C19/GenEnvReal.lean'] = tr.render(
                'Sc3Verif.C19.GenR', hdr,
                imports=['Mathlib.Analysis.SpecialFunctions.Pow.Real',
                         'Mathlib.Analysis.SpecialFunctions.Trigonometric.Basic',
                         'Mathlib.Analysis.SpecialFunctions.Sqrt'],
                extra_top=PRELUDE_REAL)
    tc = Translator('exec')
    ctors = {}
    for name in C19_CTORS:
        ctors[name] = tc.constructor(emod, 'Env', name)
    hdr = ('Source: sc3/synth/envelope.py, the constructors of Env whose body is straight-line list\n'
           'algebra ending in `return cls(…)`; `Env.new` (Base.lean) is the hand model of `Env.__init__`,\n'
           'its default arguments are read from the source.')
    files['Sc3Verif/C19/GenCtors.lean'] = tc.render('Sc3Verif.C19.GenC', hdr, imports=['Sc3Verif.C19.Base'],
                                                    opens=['Sc3Verif.C19'])
    return files, {'shape_names': table, 'ctors': ctors}


PRELUDE_EXEC_MIN = '''
def Py.truncQ (q : Rat) : Int := if 0 ≤ q then q.floor else q.ceil
def Py.floorQ (q : Rat) : Int := q.floor
def Py.ceilQ (q : Rat) : Int := q.ceil
def Py.absI (a : Int) : Int := if a < 0 then -a else a
def Py.absQ (a : Rat) : Rat := if a < 0 then -a else a
'''

UNITS = {'C15': unit_c15, 'C12': unit_c12, 'C19': unit_c19}


def generate(prop, repo=None, write=True):
    """Regenerate the Gen files of a property.  Returns (error text or None, result dict)."""
    repo = repo or os.environ.get('SC3_REPO', '/repo')
    try:
        files, index = UNITS[prop](repo)
    except Unsupported as e:
        return f'py2lean({prop}): unsupported source shape: {e}', None
    except NotExecutable as e:
        return f'py2lean({prop}): transcendental function in an executable definition: {e}', None
    if write:
        for rel, text in files.items():
            write_if_changed(VERIF / 'lean' / rel, text)
    return None, {'files': files, 'index': index}


def main(argv):
    import argparse
    ap = argparse.ArgumentParser()
    ap.add_argument('prop', choices=sorted(UNITS))
    ap.add_argument('--repo')
    ap.add_argument('--check', action='store_true', help='do not write, fail if files would change')
    ap.add_argument('--stdout', action='store_true')
    a = ap.parse_args(argv)
    err, res = generate(a.prop, a.repo, write=not (a.check or a.stdout))
    if err:
        print(err, file=sys.stderr)
        return 1
    if a.stdout:
        for rel, text in res['files'].items():
            print(f'-- ==== {rel}\n{text}')
    if a.check:
        bad = [rel for rel, text in res['files'].items()
               if not (VERIF / 'lean' / rel).exists() or (VERIF / 'lean' / rel).read_text() != text]
        if bad:
            print('out of date: ' + ', '.join(bad), file=sys.stderr)
            return 1
    return 0


if __name__ == '__main__':
    sys.exit(main(sys.argv[1:]))
