#!/usr/bin/env python3
"""Evaluate a seeded change produced by an independent sub-agent:
  tools/eval_seeded.py <src dir with patch.diff, demo.py, meta.json> <seeded id> <PROP> [more PROPs]
1. fresh scratch worktree of /repo HEAD; demo.py must exit 0 there;
2. apply patch; demo.py must exit non-zero;
3. (optional, --suite) pinned suite must give the baseline outcome;
4. run ./check PROP (quick) for each property with SC3_REPO=<worktree>; record verdict lines;
5. store everything under /verif/seeded/<id>/ (patch.diff, demo.py, meta.json with results);
6. remove the worktree."""
import json, os, shutil, subprocess, sys, tempfile
from pathlib import Path

V = Path(__file__).resolve().parent.parent


def sh(cmd, **kw):
    return subprocess.run(cmd, capture_output=True, text=True, **kw)


def main():
    args = [a for a in sys.argv[1:] if not a.startswith('--')]
    suite = '--suite' in sys.argv
    src, sid, props = Path(args[0]), args[1], args[2:]
    wt = Path(tempfile.mkdtemp(prefix='seeded_wt_'))
    wt.rmdir()
    home = tempfile.mkdtemp(prefix='seeded_home_')
    res = {'id': sid, 'checks': {}}
    try:
        r = sh(['git', '-C', '/repo', 'worktree', 'add', '-q', '--detach', str(wt), 'HEAD'])
        assert r.returncode == 0, r.stderr
        res['repo_head'] = sh(['git', '-C', '/repo', 'rev-parse', '--short', 'HEAD']).stdout.strip()
        env = dict(os.environ, HOME=home, PYTHONPATH=str(wt), PYTHONDONTWRITEBYTECODE='1')

        def demo():
            try:
                p = subprocess.run(['/venv/bin/python', str(src / 'demo.py')], capture_output=True, text=True,
                                   env=env, cwd=home, timeout=600)
                return p.returncode, (p.stdout + p.stderr)[-600:]
            except subprocess.TimeoutExpired:
                return 'timeout', ''
        res['demo_without'] = demo()
        r = sh(['git', '-C', str(wt), 'apply', str(src / 'patch.diff')])
        res['applies'] = r.returncode == 0
        if r.returncode != 0:
            res['apply_error'] = r.stderr[-400:]
        else:
            res['demo_with'] = demo()
            if suite:
                p = sh(['flock', '/tmp/sc3-suite.lock', 'sh', '-c',
                        f'cd {wt} && /venv/bin/python -m pytest -q -p no:cacheprovider --timeout=900 -q 2>&1 | tail -12'], env=env)
                out = p.stdout
                res['suite_failed'] = sorted(l.split(' ')[1] for l in out.splitlines() if l.startswith('FAILED'))
            for prop in props:
                e = dict(os.environ, SC3_REPO=str(wt))
                for seed in ('0', '1'):
                    e['VERIF_SEED'] = seed
                    p = sh([str(V / 'check'), prop], env=e, cwd=V)
                    line = (p.stdout.strip().splitlines() or ['(no output)'])[-1]
                    res['checks'].setdefault(prop, []).append({'seed': seed, 'exit': p.returncode, 'line': line})
                    if p.returncode == 1 and 'replay=' in line:
                        rp = V / line.split('replay=')[1].split()[0]
                        if rp.exists():
                            try:
                                d = json.loads(rp.read_text())
                                res['checks'][prop][-1]['what'] = ((d.get('violation') or {}).get('what')
                                                                   or d.get('no_longer_checks') or '')[:300]
                            except Exception:
                                pass
                        break
        dst = V / 'seeded' / sid
        dst.mkdir(parents=True, exist_ok=True)
        for f in ('patch.diff', 'demo.py'):
            if (src / f).exists() and (src / f).resolve() != (dst / f).resolve():
                shutil.copy(src / f, dst / f)
        meta = {}
        if (src / 'meta.json').exists():
            try:
                meta = json.loads((src / 'meta.json').read_text())
            except Exception:
                meta = {'raw': (src / 'meta.json').read_text()[:2000]}
        meta['evaluation'] = res
        (dst / 'meta.json').write_text(json.dumps(meta, indent=1))
        print(json.dumps(res, indent=1))
    finally:
        sh(['git', '-C', '/repo', 'worktree', 'remove', '--force', str(wt)])
        shutil.rmtree(home, ignore_errors=True)


if __name__ == '__main__':
    main()
