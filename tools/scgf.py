"""Independent strict reader of SCgf version 2 synth definition files (written from the
SuperCollider "Synth Definition File Format" document, not from sc3's writer).
parse(b) -> list of defs; raises ScgfError on any malformation, including trailing bytes."""
import struct


class ScgfError(Exception):
    pass


class _R:
    def __init__(self, b):
        self.b, self.p = bytes(b), 0

    def take(self, n):
        if n < 0 or self.p + n > len(self.b):
            raise ScgfError(f'truncated at {self.p} (+{n})')
        v = self.b[self.p:self.p + n]
        self.p += n
        return v

    def i8(self): return struct.unpack('>b', self.take(1))[0]
    def u8(self): return self.take(1)[0]
    def i16(self): return struct.unpack('>h', self.take(2))[0]
    def i32(self): return struct.unpack('>i', self.take(4))[0]
    def f32(self): return struct.unpack('>f', self.take(4))[0]
    def f32raw(self): return self.take(4).hex()

    def pstr(self):
        n = self.u8()
        raw = self.take(n)
        try:
            return raw.decode('ascii')
        except UnicodeDecodeError as e:
            raise ScgfError('non-ascii pascal string') from e


def _count(r, what):
    n = r.i32()
    if n < 0:
        raise ScgfError(f'negative {what} count {n}')
    return n


def parse(b):
    r = _R(b)
    if r.take(4) != b'SCgf':
        raise ScgfError('bad magic')
    ver = r.i32()
    if ver != 2:
        raise ScgfError(f'version {ver}')
    ndefs = r.i16()
    if ndefs < 0:
        raise ScgfError('negative def count')
    defs = []
    for _ in range(ndefs):
        d = {'name': r.pstr()}
        nc = _count(r, 'constant')
        d['consts'] = [r.f32() for _ in range(nc)]
        npar = _count(r, 'parameter')
        d['params'] = [r.f32() for _ in range(npar)]
        nn = _count(r, 'parameter name')
        d['pnames'] = [(r.pstr(), r.i32()) for _ in range(nn)]
        nu = _count(r, 'ugen')
        us = []
        for _ in range(nu):
            u = {'cls': r.pstr(), 'rate': r.i8()}
            nin, nout = _count(r, 'input'), _count(r, 'output')
            u['sp'] = r.i16()
            u['ins'] = [(r.i32(), r.i32()) for _ in range(nin)]
            u['outs'] = [r.i8() for _ in range(nout)]
            us.append(u)
        d['ugens'] = us
        nv = r.i16()
        if nv < 0:
            raise ScgfError('negative variant count')
        d['variants'] = [(r.pstr(), [r.f32() for _ in range(npar)]) for _ in range(nv)]
        defs.append(d)
    if r.p != len(r.b):
        raise ScgfError(f'{len(r.b) - r.p} trailing bytes')
    return defs


def wellformed(d):
    """Structural rules of the format for one definition. Returns list of problems."""
    bad = []
    nc, npar = len(d['consts']), len(d['params'])
    for name, idx in d['pnames']:
        if not (0 <= idx < max(npar, 1)) or (npar == 0):
            bad.append(f'parameter name {name!r} index {idx} outside {npar} parameters')
    for i, u in enumerate(d['ugens']):
        if u['rate'] not in (0, 1, 2, 3):
            bad.append(f'unit {i} {u["cls"]}: rate {u["rate"]}')
        for j, (a, k) in enumerate(u['ins']):
            if a == -1:
                if not (0 <= k < nc):
                    bad.append(f'unit {i} input {j}: constant index {k} outside {nc}')
            elif not (0 <= a < i):
                bad.append(f'unit {i} {u["cls"]} input {j}: refers to unit {a} (not strictly earlier)')
            elif not (0 <= k < len(d['ugens'][a]['outs'])):
                bad.append(f'unit {i} input {j}: output {k} of unit {a} which has {len(d["ugens"][a]["outs"])}')
        for r_ in u['outs']:
            if r_ not in (0, 1, 2, 3):
                bad.append(f'unit {i}: output rate {r_}')
    for name, vals in d['variants']:
        if len(vals) != npar:
            bad.append(f'variant {name}: {len(vals)} values for {npar} parameters')
    return bad
