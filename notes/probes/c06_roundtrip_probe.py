import sys, warnings, random, struct
warnings.filterwarnings('ignore')
import sc3
sc3.init('nrt', 'ERROR')
from sc3.base.main import main
from sc3.base import _osclib as oli
osc = main._osc_interface
r = random.Random(3)
def rstr():
    n = r.randrange(0, 9)
    return ''.join(r.choice('abc/é_09xyzñ') for _ in range(n))
def rarg(depth=0):
    k = r.randrange(0, 12 if depth < 3 else 8)
    if k == 0: return r.randrange(-2**31, 2**31)
    if k == 1: return r.randrange(-8, 8) / 8
    if k == 2: return rstr()
    if k == 3: return bytes(r.randrange(256) for _ in range(r.randrange(1, 9)))
    if k == 4: return r.choice([True, False])
    if k == 5: return None
    if k == 6: return []
    if k == 7: return b''
    if k == 8: return rmsg(depth + 1)
    if k == 9: return [r.choice([None, 0.0, 0.5, 1]), rmsg(depth+1)] + ([rmsg(depth+1)] if r.random()<.5 else [])
    if k == 10: return 2**31
    return (1, 2, 3, 4)
def rmsg(depth=0):
    return ['/' + rstr().replace('é','e').replace('ñ','n')] + [rarg(depth) for _ in range(r.randrange(0, 5))]
def coerce(a):
    if a is None or a is False or a == []: return 0
    if a is True: return 1
    if isinstance(a, float): return struct.unpack('>f', struct.pack('>f', a))[0]
    if isinstance(a, list):
        if isinstance(a[0], str): return osc._build_msg(0.0, a).dgram
        return osc._build_bundle(0.0, a).dgram
    return a
stats = {}
for i in range(20000):
    m = rmsg()
    try:
        d = osc._build_msg(0.0, list(m)).dgram
    except Exception as e:
        stats[type(e).__name__] = stats.get(type(e).__name__, 0) + 1
        continue
    assert len(d) % 4 == 0
    p = oli.OscPacket(d).messages[0].message
    got = [p.address] + p.params
    exp = [m[0]] + [coerce(a) for a in m[1:]]
    if got != exp:
        print('MISMATCH', m, got, exp); break
    stats['ok'] = stats.get('ok', 0) + 1
print(stats)
