# Prototype: deterministic virtual-time driver for the real SystemClock._run loop.
import sys, warnings, threading
warnings.filterwarnings('ignore')
import sc3
sc3.init('rt')
from sc3.base import main as _m, clock as clk, stream as stm
main = _m.main
from sc3.base.clock import SystemClock

# stop the real thread
SystemClock._sched_stop()

class VT:
    now = 100.0
main.elapsed_time = classmethod(lambda cls: VT.now)

class Stop(Exception): pass

class FakeCond:
    """Single-threaded fake: wait() hands control to the script."""
    def __init__(self, lock, script):
        self.lock = lock; self.script = script; self.notified = False; self.log = []
    def __enter__(self): self.lock.acquire(); return self
    def __exit__(self, *a): self.lock.release()
    def notify(self, n=1): self.notified = True; self.log.append(('notify', VT.now))
    def notify_all(self): self.notify()
    def wait(self, timeout=None):
        self.log.append(('wait', VT.now, timeout))
        deadline = None if timeout is None else VT.now + timeout
        self.notified = False
        while True:
            if not self.script:
                SystemClock._run_sched = False
                return False
            ev = self.script[0]
            # next scripted event time
            if deadline is not None and ev[0] > deadline:
                VT.now = deadline + 0.002   # wake late by 2 ms (jitter)
                return False
            self.script.pop(0)
            VT.now = max(VT.now, ev[0])
            ev[1]()
            if self.notified:
                return True

log = []
def mk(name, deltas):
    def f():
        for d in deltas:
            log.append((name, SystemClock.seconds, VT.now))
            yield d
        log.append((name, SystemClock.seconds, VT.now))
    return stm.Routine(f)

a = mk('a', [0.5, 0.5, 0.25]); b = mk('b', [0.125]*4)
script = [
    (100.0, lambda: SystemClock.sched_abs(101.0, a)),
    (100.5, lambda: SystemClock.sched_abs(100.75, b)),   # becomes head while sleeping until 101.0
    (110.0, lambda: None),
]
cond = FakeCond(main._main_lock, script)
SystemClock._sched_cond = cond
SystemClock._task_queue.clear()
SystemClock._run()
for l in log: print(l)
print([x for x in cond.log][:12])
