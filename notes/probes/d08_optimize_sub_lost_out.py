import sc3
sc3.init('nrt')
from sc3.synth.synthdef import SynthDef
from sc3.synth.ugens.line import DC
from sc3.synth.ugens.inout import Out
from sc3.synth.ugens.oscillators import SinOsc

def g():
    y = SinOsc.ar(440)
    n = -(-y)
    Out.ar(0, n - n)
sd = SynthDef('t', g)
sd.dump_ugens()
print(bytes(sd.as_bytes()))
