import sys, warnings
warnings.filterwarnings('ignore')
import sc3
sc3.init('nrt')
from sc3.seq.patterns.listpatterns import *
from sc3.seq.patterns.filterpatterns import *
from sc3.seq.patterns.valuepatterns import *
from sc3.seq.patterns.funcpatterns import *
from sc3.base.stream import stream
def L(p, n=20):
    try: return list(Plen(p, n))
    except Exception as e: return ('EXC', type(e).__name__, str(e))
tests = {
 'Pseq off': Pseq([1,2,3], 2, 1),
 'Pser': Pser([1,2,3], 5, 1),
 'Pseq nested': Pseq([1, Pseq([10,20],2), 3], 2),
 'Pn': Pn(Pseq([1,2]), 3),
 'Pdrop': Pdrop(Pseq([1,2,3,4,5]), 2),
 'Pstutter': Pstutter(Pseq([1,2,3]), Pseq([2,0,1])),
 'Pclump': Pclump(Pseq([1,2,3,4,5]), 2),
 'Pclump pat': Pclump(Pseq([1,2,3,4,5,6,7]), Pseq([1,3], float('inf'))),
 'Pflatten': Pflatten(Pseq([[1,[2,3]],4,[5]]), 1),
 'Pdiff': Pdiff(Pseq([1,4,9,16])),
 'Pconst': Pconst(Pseq([1,2,3,4], float('inf')), 7),
 'Pconst exact': Pconst(Pseq([1,2,4], 1), 7),
 'Pconst short': Pconst(Pseq([1,2], 1), 7),
 'Pswitch': Pswitch([Pseq([1,2]), 100, Pseq([7,8,9])], Pseq([2,0,1,4])),
 'Pswitch1': Pswitch1([Pseq([1,2],float('inf')), 100, Pseq([7,8,9])], Pseq([2,0,1,2,0,2,2])),
 'Place': Place([1,[2,3],[4,5,6]], 3),
 'Ptuple': Ptuple([Pseq([1,2,3]), Pseq([10,20])], 2),
 'Pslide': Pslide([1,2,3,4,5], 3, 1, 0, repeats=3),
 'Pslide nowrap': Pslide([1,2,3,4,5], 3, 2, 0, False, repeats=4),
 'Pseries': Pseries(0, 2, 5),
 'Pgeom': Pgeom(1, 2, 5),
 'binop': Pseq([1,2,3]) + Pseq([10,20]),
 'rbinop': 100 - Pseq([1,2,3]),
 'unop': -Pseq([1,2,3]),
 'narop': Pseq([1,5,11]).clip(2, 6),
 'Pwrap': Pwrap(Pseries(0,1,10), 2, 5),
 'Pif': Pif(Pseq([True, False, True, True]), Pseq([1,2,3]), Pseq([10, 20])),
 'Pcollect': Pcollect(lambda x: x*2, Pseq([1,2,3])),
 'Pselect': Pselect(lambda x: x%2==0, Pseq([1,2,3,4])),
 'Preject': Preject(lambda x: x%2==0, Pseq([1,2,3,4])),
 'Pseq inf': Pseq([1,2], float('inf')),
 'Pseries in Pseq': Pseq([Pseries(0,1,3), Pgeom(1,2,3)], 2),
 'Pstutter nest': Pstutter(Pn(Pseq([1,2]),2), 2),
}
for k, p in tests.items():
    print(k, '=>', L(p))
p = Pseq([1,2,3])
s1, s2 = stream(p), stream(p)
print('interleave', [next(s1), next(s2), next(s1), next(s2), next(s1), next(s2)])
