import sys, warnings
warnings.filterwarnings('ignore')
import sc3
sc3.init('nrt')
from sc3.base.main import main
from sc3.seq.event import event, Rest
from sc3.seq.patterns.eventpatterns import Pbind, Ppar
from sc3.seq.patterns.listpatterns import Pseq
from sc3.seq.patterns.filterpatterns import Pdur
from sc3.synth.synthdef import synthdef
from sc3.synth.ugens.inout import Out
from sc3.synth.ugens.oscillators import SinOsc
from sc3.synth.ugens.envgen import EnvGen
from sc3.synth.envelope import Env
from sc3.base.stream import routine

@synthdef
def ins(freq=440, amp=0.1, gate=1, foo=3):
    Out.ar(0, SinOsc.ar(freq) * amp * EnvGen.kr(Env.asr(), gate, done_action=2))

e = event(degree=2, octave=4, amp=0.5, instrument='ins', foo=7, dur=2)
print('freq', e('freq'), 'midinote', e('midinote'), 'sustain', e('sustain'), 'delta', e('delta'))
print(event(midinote=69)('freq'), event(freq=880)('midinote'), event(db=-6)('amp'), event(velocity=64)('amp'))
p = Ppar(Pbind({'instrument':'ins', 'degree': Pseq([0,1,2]), 'dur': 0.5}),
          Pbind({'instrument':'ins', 'midinote': Pseq([60, Rest(61), 62]), 'dur': 0.75, 'legato': 0.5}))
@routine
def r():
    yield 1.0
    Pdur(1.75, p).play()
r.play()
sc = main.process(1.0)
for x in sc.list: print(x)
