import sys, warnings
warnings.filterwarnings('ignore')
import sc3
sc3.init('nrt')
from sc3.base.main import main
from sc3.synth.server import Server
from sc3.synth.node import Synth, Group, ParGroup
from sc3.synth.bus import AudioBus, ControlBus
from sc3.synth.buffer import Buffer
s = Server.default
g = Group()
x = Synth('default', ['freq', 440, 'amp', [0.1, 0.2], 'bus', ControlBus(2)], g, 'addToTail')
x.set('freq', 220, 'arr', (1, 2, 3))
x.setn('freq', [1, 2], 3, 4)
x.map('freq', ControlBus(1))
x.mapn('freq', ControlBus(3), 4, 7)
x.fill('amp', 2, 0.5)
x.run(False); x.release(2); x.move_after(g); x.move_to_head(g)
with s.bind():
    y = Synth('default', {'freq': 330}, x, 'addBefore')
    y.set('amp', 0.3)
try:
    with s.bind():
        z = Synth('default')
        raise RuntimeError('boom')
except RuntimeError:
    pass
x.free(); y.free(); g.free()
b = AudioBus(2); print('abus', b.index); b.free(); b.free()
sc = main.process()
for l in sc.list: print(l)
