import sys, warnings
warnings.filterwarnings('ignore')
import sc3
sc3.init('nrt')
from sc3.base.main import main
from sc3.synth.buffer import Buffer
from sc3.synth.server import Server
s = Server.default
b = Buffer(1024, 1, s); b2 = Buffer.new_consecutive(3, 64, 1, s)
b.free(); b.free()
Buffer.free_all(s)
sc = main.process()
for x in sc.list: print(x)
