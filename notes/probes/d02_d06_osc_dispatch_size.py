import sys, warnings
warnings.filterwarnings('ignore')
import sc3
sc3.init('nrt')
from sc3.base.responders import OscFunc, OscMessageDispatcher
from sc3.base.netaddr import NetAddr
from sc3.base import _oscmatch as om
from sc3.base.systemactions import ServerBoot
from sc3.base import _osclib as oli
from sc3.base.main import main

# 1. pattern prefix
print('rematch /foo vs /foobar:', om.osc_rematch_pattern('/foo', '/foobar'))
print('rematch /fo? vs /foobar:', om.osc_rematch_pattern('/fo?', '/foobar'))
print('rematch /a/* vs /a/b/c:', om.osc_rematch_pattern('/a/*', '/a/b/c'))
print('rematch /a[!b]c vs /abc:', om.osc_rematch_pattern('/a[!b]c', '/abc'))
print('rematch /{foo,bar}x vs /barx:', om.osc_rematch_pattern('/{foo,bar}x', '/barx'))

# 2. one-shot skip
log = []
d = OscMessageDispatcher()
d.register = lambda: setattr(d, 'registered', True)
d.unregister = lambda: setattr(d, 'registered', False)
fs = [OscFunc((lambda i: lambda *a: log.append(i))(i), '/x', dispatcher=d) for i in range(4)]
fs[0].one_shot(); fs[1].one_shot()
d(['/x'], 0.0, NetAddr('127.0.0.1', 1), 57120)
print('fired:', log)
log.clear()
d(['/x'], 0.0, NetAddr('127.0.0.1', 1), 57120)
print('fired 2nd:', log)

# 3. ServerAction.remove
calls=[]
f = lambda s: calls.append('f')
from sc3.base.systemactions import ServerAction
class SA(ServerAction):
    _servers = dict()
SA.add('all', f); SA.remove('all', f); SA.run('srv')
print('serveraction after remove:', calls)

# 4. size prediction
n = NetAddr('127.0.0.1', 57110)
for msg in (['/a', b'12345'], ['/a', 'ééé'], ['/a', '[', 1, ']'], ['/a', 1.5, 'abc', None, True]):
    real = len(main._osc_interface._build_msg(0, list(msg)).dgram)
    print(msg, 'pred', n._calc_msg_dgram_size(msg), 'real', real)
for msg in (['/a', []], ['/a', [0.0, ['/b']]]):
    try:
        print(msg, 'pred', n._calc_msg_dgram_size(msg))
    except Exception as e:
        print(msg, 'pred raises', type(e).__name__, e, 'real', len(main._osc_interface._build_msg(0, list(msg)).dgram))
# clump
els = [['/a']] * 20000
cl = n._clump_bundle(els, 65504-36)
sizes = [n._calc_bndl_dgram_size(c) for c in cl]
print('clumps', len(cl), 'max real size', max(sizes))
