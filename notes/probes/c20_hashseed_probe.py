import sys, warnings, hashlib, random
warnings.filterwarnings('ignore')
import sc3
sc3.init('nrt', 'ERROR')
from sc3.synth.synthdef import SynthDef
from sc3.synth.ugens.inout import Out, In
from sc3.synth.ugens.oscillators import SinOsc, LFSaw
from sc3.synth.ugens.line import Line
from sc3.synth.ugens.pan import Pan2
def mk(seed):
    def g(freq=440, amp=0.1):
        r = random.Random(seed)
        pool = [SinOsc.ar(freq), LFSaw.kr(3), Line.kr(0, 1, 2), amp, 2, 0.5]
        for i in range(25):
            a, b = r.choice(pool), r.choice(pool)
            op = r.choice(['+', '+', '+', '-', '*', 'neg', 'madd'])
            try:
                if op == '+': v = a + b
                elif op == '-': v = a - b
                elif op == '*': v = a * b
                elif op == 'neg': v = -a
                else: v = a.madd(b, r.choice(pool)) if hasattr(a, 'madd') else a * b
            except Exception: continue
            pool.append(v)
        outs = [x for x in pool[6:] if hasattr(x, 'rate')][-4:]
        for o in outs:
            if o.rate == 'audio': Out.ar(0, Pan2.ar(o, 0))
            else: Out.kr(0, o)
    return g
h = hashlib.sha256()
for s in range(40):
    try:
        h.update(bytes(SynthDef(f'd{s}', mk(s)).as_bytes()))
    except Exception as e:
        h.update(repr(type(e)).encode())
print(h.hexdigest()[:16])
