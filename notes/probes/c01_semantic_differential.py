import sys, warnings, random
from fractions import Fraction as F
warnings.filterwarnings('ignore')
import sc3
sc3.init('nrt', 'ERROR')
from sc3.synth.synthdef import SynthDef
from sc3.synth.ugens.inout import Out
from sc3.synth.ugens.oscillators import SinOsc, LFSaw
from sc3.synth.ugens.line import Line
import scgf
DUMP = len(sys.argv) > 3
CONSTS = [0, 1, -1, 2, 0.5, -2, 1.0, 0.0, -1.0]
def run(seed):
    r = random.Random(seed)
    atomval = {}
    expected = []   # list of (bus const, value)
    def g():
        pool = []
        for i in range(4):
            k = 1000 + i
            cls, rate = r.choice([(SinOsc, 'ar'), (LFSaw, 'kr'), (Line, 'kr'), (SinOsc, 'kr')])
            u = getattr(cls, rate)(k)
            atomval[k] = F(r.randrange(1, 1000), r.randrange(1, 1000))
            pool.append((u, atomval[k]))
        for c in CONSTS: pool.append((c, F(c)))
        for i in range(r.randrange(3, 30)):
            (a, va), (b, vb), (c, vc) = r.choice(pool), r.choice(pool), r.choice(pool)
            op = r.choice(['+', '+', '+', '-', '-', '*', '*', 'neg', 'madd', '/'])
            try:
                if op == '+': v, vv = a + b, va + vb
                elif op == '-': v, vv = a - b, va - vb
                elif op == '*': v, vv = a * b, va * vb
                elif op == '/':
                    if vb == 0: continue
                    v, vv = a / b, va / vb
                elif op == 'neg': v, vv = -a, -va
                else:
                    if not hasattr(a, 'madd'): continue
                    v, vv = a.madd(b, c), va * vb + vc
            except ZeroDivisionError: continue
            if isinstance(v, (int, float)) and (F(v) != vv or F(v).denominator > 64): continue
            pool.append((v, vv))
            if DUMP: print(len(pool)-1, op, [[id(p[0]) for p in pool].index(id(x)) if not isinstance(x,(int,float)) else x for x in (a,b,c)], type(v).__name__, v if not hasattr(v,'rate') else '')
        n = 0
        for (o, vo) in reversed(pool):
            if hasattr(o, 'rate') and n < 3:
                bus = 100 + n
                if o.rate == 'audio': Out.ar(bus, o)
                else: Out.kr(bus, o)
                expected.append((bus, vo)); n += 1
                if DUMP: print('OUT', bus, o)
    sd = SynthDef('x', g)
    if DUMP: sd.dump_ugens(); print(expected)
    d = scgf.parse(sd.as_bytes())[0]
    vals = []
    def inval(spec):
        u, k = spec
        return F(d['consts'][k]) if u < 0 else vals[u][k]
    outs = {}
    binops = {0: lambda a,b:a+b, 1: lambda a,b:a-b, 2: lambda a,b:a*b, 4: lambda a,b:a/b}
    for i, u in enumerate(d['ugens']):
        for (ui, k) in u['ins']:
            assert ui < i, ('forward ref', i, ui)
        ins = [inval(s) for s in u['ins']]
        c = u['cls']
        if c in ('SinOsc', 'LFSaw', 'Line'): vals.append([atomval[int(ins[0])]])
        elif c == 'BinaryOpUGen': vals.append([binops[u['sp']](*ins)])
        elif c == 'UnaryOpUGen': assert u['sp'] == 0; vals.append([-ins[0]])
        elif c == 'MulAdd': vals.append([ins[0]*ins[1]+ins[2]])
        elif c in ('Sum3', 'Sum4'): vals.append([sum(ins)])
        elif c == 'Out': outs[int(ins[0])] = ins[1]; vals.append([])
        elif c == 'DC': vals.append(ins)
        else: raise Exception(c)
        # rate check for op units
        if c in ('BinaryOpUGen','UnaryOpUGen','MulAdd','Sum3','Sum4'):
            rates = [0 if ui < 0 else d['ugens'][ui]['rate'] for (ui,k) in u['ins']]
            assert u['rate'] == max(rates), ('rate', c, u['rate'], rates)
    for bus, v in expected:
        assert bus in outs, ('missing out', bus)
        assert outs[bus] == v, ('value', bus, outs[bus], v)
    return len(d['ugens'])
bad = 0
for s in range(int(sys.argv[1]), int(sys.argv[2])):
    try: run(s)
    except Exception as e:
        bad += 1
        if bad <= 8: print('seed', s, type(e).__name__, e)
print('bad', bad)
