import struct
def parse(b):
    b = bytes(b); p = 0
    def rd(fmt):
        nonlocal p
        n = struct.calcsize(fmt); v = struct.unpack_from(fmt, b, p); p += n; return v[0] if len(v)==1 else v
    def pstr():
        nonlocal p
        n = b[p]; p += 1; s = b[p:p+n].decode('ascii'); p += n; return s
    assert b[:4] == b'SCgf'; p = 4
    ver = rd('>i'); ndefs = rd('>h'); assert ver == 2
    defs = []
    for _ in range(ndefs):
        d = {'name': pstr()}
        nc = rd('>i'); d['consts'] = [rd('>f') for _ in range(nc)]
        np_ = rd('>i'); d['params'] = [rd('>f') for _ in range(np_)]
        nn = rd('>i'); d['pnames'] = [(pstr(), rd('>i')) for _ in range(nn)]
        nu = rd('>i'); us = []
        for _ in range(nu):
            u = {'cls': pstr(), 'rate': rd('b'), 'nin': rd('>i'), 'nout': rd('>i'), 'sp': rd('>h')}
            u['ins'] = [(rd('>i'), rd('>i')) for _ in range(u['nin'])]
            u['outs'] = [rd('b') for _ in range(u['nout'])]
            us.append(u)
        d['ugens'] = us
        nv = rd('>h'); d['variants'] = [(pstr(), [rd('>f') for _ in range(np_)]) for _ in range(nv)]
        defs.append(d)
    assert p == len(b), (p, len(b))
    return defs
