import sys, warnings
warnings.filterwarnings('ignore')
import sc3
sc3.init('nrt')
from sc3.base.main import main
from sc3.seq.event import event, Rest
from sc3.seq.patterns.eventpatterns import Pbind, Ppar, Pchain
from sc3.seq.patterns.listpatterns import Pseq
from sc3.seq.patterns.filterpatterns import Pdur, Pdelta, Pconst
from sc3.base.stream import stream
p1 = Pbind({'degree': Pseq([0,1,2,3]), 'dur': 0.5})
for name, p in [('Pdur(Pbind)', Pdur(1.25, p1)), ('Pdur(Ppar)', Pdur(1.75, Ppar(p1, Pbind({'midinote': Pseq([60]), 'dur': 0.75})))),
                ('Pdelta', Pdelta(0.5, p1)), ('Ppar', Ppar(p1, Pbind({'midinote': Pseq([60]), 'dur': 0.75})))]:
    s = stream(p)
    out = []
    try:
        for i in range(10): out.append(dict(s.next({})))
    except Exception as e:
        out.append(('EXC', type(e).__name__, str(e)))
    print(name, out)
