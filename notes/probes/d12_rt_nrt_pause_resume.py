import sys, warnings, time
warnings.filterwarnings('ignore')
mode = sys.argv[1]
import sc3
sc3.init(mode)
from sc3.base.main import main
from sc3.base.stream import Routine, routine
from sc3.base.clock import SystemClock, TempoClock
log = []
t0 = [None]
@routine
def a():
    for i in range(6):
        log.append(('a', i, round(SystemClock.seconds - t0[0], 6)))
        yield 0.1
@routine
def ctl():
    t0[0] = SystemClock.seconds
    a.play()
    yield 0.15
    a.pause()
    log.append(('pause', round(SystemClock.seconds - t0[0], 6)))
    yield 0.02
    a.resume()
    log.append(('resume', round(SystemClock.seconds - t0[0], 6)))
    yield 1.0
    if mode == 'rt': main.resume()
ctl.play()
if mode == 'rt':
    main.wait()
else:
    main.process()
for l in log: print(l)
