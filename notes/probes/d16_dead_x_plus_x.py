import warnings, traceback
warnings.filterwarnings('ignore')
import sc3
sc3.init('nrt', 'ERROR')
from sc3.synth.synthdef import SynthDef
from sc3.synth.ugens.inout import Out
from sc3.synth.ugens.oscillators import SinOsc
def g():
    x = SinOsc.kr(5)
    y = x + x      # dead, pure
    Out.kr(0, x)
try:
    sd = SynthDef('x', g); sd.dump_ugens()
except Exception:
    traceback.print_exc()
