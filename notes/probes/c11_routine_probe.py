import sys, warnings
warnings.filterwarnings('ignore')
import sc3
sc3.init('nrt')
from sc3.base.main import main
from sc3.base.stream import Routine, routine, StopStream, PausedStream, YieldAndReset, AlwaysYield, Condition, FlowVar, RoutineException
from sc3.base.clock import SystemClock
def st(r): return r.state.name
def tryn(r, *a):
    try: return ('ok', r.next(*a))
    except PausedStream: return 'Paused'
    except StopStream: return 'Stop'
    except Exception as e: return ('exc', type(e).__name__)
# 1 nested exception restores current_tt
@routine
def inner():
    yield 1
    raise ValueError('x')
@routine
def outer():
    yield inner.next()
    try:
        inner.next()
    except ValueError:
        yield ('caught', main.current_tt is outer)
    yield 3
print(tryn(outer), tryn(outer), st(inner), tryn(inner), main.current_tt is main.main_tt, tryn(outer), tryn(outer), st(outer))
# 2 self ops
@routine
def selfop():
    res = []
    for op in (selfop.stop, selfop.pause, selfop.reset):
        try: op(); res.append('allowed')
        except RoutineException: res.append('refused')
    yield res
print(tryn(selfop), st(selfop))
# 3 YieldAndReset / AlwaysYield
@routine
def yr():
    yield 1
    raise YieldAndReset(99)
print(tryn(yr), tryn(yr), st(yr), tryn(yr), tryn(yr))
@routine
def ay():
    yield 1
    raise AlwaysYield(7)
print(tryn(ay), tryn(ay), tryn(ay), st(ay), ay.reset(), st(ay), tryn(ay))
# 4 pause / resume / stop
@routine
def pr():
    yield 1; yield 2; yield 3
print(tryn(pr), pr.pause(), st(pr), tryn(pr), pr.resume(), st(pr), tryn(pr), pr.stop(), tryn(pr), pr.reset(), tryn(pr))
# 5 condition
cond = Condition(); log = []
def waiter(name):
    def f():
        log.append((name, 'start', SystemClock.seconds))
        yield from cond.wait()
        log.append((name, 'resumed', SystemClock.seconds))
    return Routine(f)
w1, w2 = waiter('w1'), waiter('w2')
@routine
def ctl():
    w1.play(); w2.play()
    yield 1
    cond.signal()   # test False: nothing
    yield 1
    cond.test = True; cond.signal()
    yield 1
    cond.signal()
ctl.play()
main.process()
print(log)
