import warnings; warnings.filterwarnings('ignore')
import sc3; sc3.init('nrt')
from sc3.base import builtins as bi
print('wrap(6, .5, 2.5)=', bi.wrap(6, 0.5, 2.5), ' fold(4, .5, 2.5)=', bi.fold(4, 0.5, 2.5), ' round(7,1.5)=', bi.round(7, 1.5), ' roundup(7,2.5)=', bi.roundup(7, 2.5), ' trunc(7,2.5)=', bi.trunc(7, 2.5))
print('float x:', bi.wrap(6.0, 0.5, 2.5), bi.fold(4.0, 0.5, 2.5), bi.round(7.0, 1.5), bi.roundup(7.0, 2.5), bi.trunc(7.0, 2.5))
print('octcps(cpsoct(440))', bi.octcps(bi.cpsoct(440.0)), 'midicps(cpsmidi(300))', bi.midicps(bi.cpsmidi(300.0)), bi.dbamp(bi.ampdb(0.3)), bi.midiratio(bi.ratiomidi(1.7)))
