import sys, warnings
warnings.filterwarnings('ignore')
sys.path.insert(0,'/repo')
from sc3.synth._engine import ContiguousBlockAllocator as CBA, NodeIDAllocator
import sc3
sc3.init('nrt')
for off in (0, 8):
    a = CBA(8, 0, off)
    xs = [a.alloc(2) for _ in range(4)]
    print('off',off,'allocs',xs, a.alloc(1))
    a.free(xs[1]); a.free(xs[0])
    print(' after free B then A: alloc(4) ->', a.alloc(4))
    a = CBA(8, 0, off)
    xs = [a.alloc(2) for _ in range(4)]
    a.free(xs[0]); a.free(xs[1])
    print(' after free A then B: alloc(4) ->', a.alloc(4))
n = NodeIDAllocator(1, 1000)
print(n.alloc(), n.alloc(), hex(n._mask))
n._temp = 0x03FFFFFF
print(n.alloc(), n.alloc())
