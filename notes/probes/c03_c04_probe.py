import sys, warnings
warnings.filterwarnings('ignore')
import sc3
sc3.init('nrt')
from sc3.synth.synthdef import SynthDef
from sc3.synth.ugens.line import DC
from sc3.synth.ugens.inout import Out
from sc3.synth.ugens.oscillators import SinOsc
import scgf
seen = {}
def f(a:'ir'=1, b=(2,3), c:'tr'=4, d:'ar'=5, e=6, g:'ir'=(7,8), h=9):
    for k, v in dict(a=a,b=b,c=c,d=d,e=e,g=g,h=h).items():
        vs = v if isinstance(v, list) else [v]
        seen[k] = [(type(x.source_ugen).__name__, x.source_ugen._special_index, x._output_index) for x in vs]
    Out.ar(0, SinOsc.ar(e) * a + d)
sd = SynthDef('t', f, rates=[None, 0.5, None, None, [0.1], None, 'kr'], variants={'v': {'b': [20, 30], 'h': 99}})
d = scgf.parse(sd.as_bytes())[0]
print(d['params']); print(d['pnames']); print(seen)
for u in d['ugens']: print(u)
print(d['variants'])
# MCE probe
def g():
    x = SinOsc.ar([100, 200, 300], [0, 0.5])
    y = SinOsc.ar([[1, 2], 3])
    print(x); print(y)
    z = x * [1, 2]
    print(z)
    Out.ar(0, [0, x[0], [0, x[1]]])
sd = SynthDef('m', g)
for u in scgf.parse(sd.as_bytes())[0]['ugens']: print(u['cls'], u['rate'], u['sp'], u['ins'])
