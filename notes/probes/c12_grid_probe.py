import sys, warnings, math
warnings.filterwarnings('ignore')
import sc3
sc3.init('nrt')
from fractions import Fraction as F
from sc3.base.clock import TempoClock
from sc3.base import builtins as bi
t = TempoClock(2.0)
bad = 0; n = 0
import random
rnd = random.Random(1)
for _ in range(20000):
    q = rnd.choice([0.25, 0.5, 1, 1.5, 2, 3, 4, 4.0])
    ph = rnd.randrange(-63, 64) / 16 
    if not (-q < ph < q): continue
    ref = rnd.randrange(-400, 400) / 16
    t._base_bar_beat = rnd.choice([0.0, 1.5, 3.0])
    r = t.next_time_on_grid(q, ph, ref)
    # brute force least b >= ref with (b - base - ph) % q == 0
    base = t._base_bar_beat
    k = math.ceil((F(ref) - F(base) - F(ph)) / F(q))
    exp = k * F(q) + F(base) + F(ph)
    n += 1
    if F(r) != exp:
        bad += 1
        if bad < 6: print('MISMATCH', q, ph, ref, base, r, float(exp))
print('ntog cases', n, 'bad', bad)
# int quant/int ref path of roundup (type(x) is int)
print(bi.roundup(7, 4), bi.roundup(-7, 4), bi.roundup(8, 4), bi.roundup(7.5, 4), bi.round(-7, 4), bi.trunc(-7, 4), bi.mod(-7, 4), bi.mod(-7.5, 4), bi.wrap(-7, 0, 3), bi.wrap(-7.0, 0, 3), bi.fold(-7, 0, 3), bi.fold(7.5, 0, 3))
print(bi.roundup(7, 0.5), bi.round(7, 0.5), bi.trunc(7, 0.5))
print(bi.clip(5, 0.5, 2.5), bi.clip(bi.clip(5, 0.5, 2.5), 0.5, 2.5), bi.clip(-5, 0.5, 2.5))
