/-
C13 — assembling the machine lemmas: for every pattern the stream `stm.embed(p)` shows exactly
the sequence `denE · p` denotes, and the approximations `denE k p` form a chain.
-/
import Sc3Verif.C13.PatInd
import Sc3Verif.C13.MachMap1
import Sc3Verif.C13.MachJoin
import Sc3Verif.C13.MachSwitch
import Sc3Verif.C13.SchedEq
namespace Sc3Verif.C13

/-- The stream embedded for `p` shows the denoted sequence, and the denotation is a chain. -/
def Good (p : Pat) : Prop := Obs (initE p) = Lim (fun k => denE k p) ∧ Chain (fun k => denE k p)

def GoodS (p : Pat) : Prop := Obs (initS p) = Lim (fun k => denS k p) ∧ Chain (fun k => denS k p)

theorem Chain.map1 {c : Nat → PL} (hc : Chain c) (F : PL → PL) (hF : ∀ a a', a ⊑ a' → F a ⊑ F a') :
    Chain (fun k => F (c k)) := fun k => hF _ _ (hc k)

theorem Chain.map2 {ca cb : Nat → PL} (ha : Chain ca) (hb : Chain cb) (F : PL → PL → PL)
    (hF : ∀ a a' b b', a ⊑ a' → b ⊑ b' → F a b ⊑ F a' b') :
    Chain (fun k => F (ca k) (cb k)) := fun k => hF _ _ _ _ (ha k) (hb k)

theorem Chain.const (x : PL) : Chain (fun _ => x) := fun _ => PL.le_refl _

/-! ### Plain values -/

theorem run_constE (v : Val) (n : Nat) : run (n + 2) (.constE v) = ⟨[v], .done⟩ := by
  have h : step (.constE v) = .yield v .nil := by rw [step]
  rw [run_yield h, run_nil_succ]; rfl

theorem obs_constE (v : Val) : Obs (.constE v) = Lim (fun _ => ⟨[v], .done⟩) := by
  funext x; apply propext; constructor
  · rintro ⟨n, hn⟩
    refine ⟨0, PL.le_trans hn (PL.le_trans (run_mono (Nat.le_add_right n 2) _) ?_)⟩
    show run (n + 2) (.constE v) ⊑ ⟨[v], .done⟩
    rw [run_constE]; exact PL.le_refl _
  · rintro ⟨_, hk⟩
    refine ⟨2, ?_⟩
    show x ⊑ run (0 + 2) (.constE v)
    rw [run_constE]; exact hk

theorem run_constS (v : Val) (n : Nat) : run n (.constS v) = ⟨List.replicate n v, .more⟩ := by
  induction n with
  | zero => rfl
  | succ n ih =>
    have h : step (.constS v) = .yield v (.constS v) := by rw [step]
    rw [run_yield h, ih]; simp [PL.cons, List.replicate_succ]

theorem obs_constS (v : Val) : Obs (.constS v) = Lim (fun k => ⟨List.replicate k v, .more⟩) := by
  funext x; apply propext
  constructor <;> rintro ⟨n, hn⟩ <;> exact ⟨n, by simpa [run_constS] using hn⟩

theorem chain_constS (v : Val) : Chain (fun k => (⟨List.replicate k v, .more⟩ : PL)) := by
  intro k
  simp only [PL.le]
  exact ⟨[v], by simp [List.replicate_succ']⟩

theorem good_const (v : Val) : Good (.const v) :=
  ⟨by simpa [initE, denE] using obs_constE v, Chain.const _⟩

theorem goodS_of_good {p : Pat} (h : Good p) : GoodS p := by
  cases p
  case const v => exact ⟨by simpa [initS, sOf, denS, sOfD] using obs_constS v,
    by simpa [denS, sOfD] using chain_constS v⟩
  all_goals exact h

/-! ### Monotonicity of the sequence functions of the spec -/

theorem PL.zipWith_mono (f) {a a' b b' : PL} (ha : a ⊑ a') (hb : b ⊑ b') :
    PL.zipWith f a b ⊑ PL.zipWith f a' b' := by
  rw [← map2F_none_eq, ← map2F_none_eq]; exact map2F_mono f none ha hb

theorem PL.join_mono {a a' : PL} (ha : a ⊑ a') : a.join ⊑ a'.join := by
  rw [← joinF_nil_eq, ← joinF_nil_eq]; exact joinF_mono [] ha

theorem diffD_mono {a a' : PL} (ha : a ⊑ a') : diffD a ⊑ diffD a' := by
  rw [← diffLoop_none, ← diffLoop_none]; exact diffLoop_mono none ha

theorem clumpD_mono {a a' b b' : PL} (ha : a ⊑ a') (hb : b ⊑ b') : clumpD a b ⊑ clumpD a' b' := by
  rw [← clumpF_n_eq, ← clumpF_n_eq]; exact clumpF_mono .n ha hb

theorem pifD_mono {c c' a a' b b' : PL} (hc : c ⊑ c') (ha : a ⊑ a') (hb : b ⊑ b') :
    pifD c a b ⊑ pifD c' a' b' := by
  rw [← pifF_c_eq, ← pifF_c_eq]; exact pifF_mono .c hc ha hb

/-! ### One clause per class -/

theorem good_collect (f : Fn) {p : Pat} (h : Good p) : Good (.collect f p) := by
  obtain ⟨ho, hc⟩ := goodS_of_good h
  exact ⟨obs_map1 (.fn f) _ _ ho, hc.map1 _ (fun _ _ => mapL_mono _)⟩

theorem good_unop (o : UnOp) {p : Pat} (h : Good p) : Good (.unop o p) := by
  obtain ⟨ho, hc⟩ := goodS_of_good h
  exact ⟨obs_map1 (.un o) _ _ ho, hc.map1 _ (fun _ _ => mapL_mono _)⟩

theorem good_select (f : Fn) {p : Pat} (h : Good p) : Good (.select f p) := by
  obtain ⟨ho, hc⟩ := goodS_of_good h
  exact ⟨obs_filt f true _ _ ho, hc.map1 _ (fun _ _ => filterL_mono _ _)⟩

theorem good_reject (f : Fn) {p : Pat} (h : Good p) : Good (.reject f p) := by
  obtain ⟨ho, hc⟩ := goodS_of_good h
  exact ⟨obs_filt f false _ _ ho, hc.map1 _ (fun _ _ => filterL_mono _ _)⟩

theorem good_drop (n : Nat) {p : Pat} (h : Good p) : Good (.drop p n) := by
  obtain ⟨ho, hc⟩ := goodS_of_good h
  exact ⟨obs_drop n _ _ ho, hc.map1 _ (fun _ _ => PL.drop_mono n)⟩

theorem good_len (n : Nat) {p : Pat} (h : Good p) : Good (.len p n) := by
  obtain ⟨ho, hc⟩ := goodS_of_good h
  exact ⟨obs_len n _ _ ho, hc.map1 _ (fun _ _ => PL.take_mono n)⟩

theorem good_diff {p : Pat} (h : Good p) : Good (.diff p) := by
  obtain ⟨ho, hc⟩ := goodS_of_good h
  exact ⟨obs_diff _ _ ho, hc.map1 _ (fun _ _ => diffD_mono)⟩

theorem good_pconst (sum : Val) (tol : Rat) {p : Pat} (h : Good p) : Good (.pconst p sum tol) := by
  obtain ⟨ho, hc⟩ := goodS_of_good h
  exact ⟨obs_csum _ sum tol _ ho, hc.map1 _ (fun _ _ => constSumL_mono sum tol _)⟩

theorem good_series (start : Val) (len : Rep) {p : Pat} (h : Good p) : Good (.series start p len) := by
  obtain ⟨ho, hc⟩ := goodS_of_good h
  exact ⟨obs_scan .add start len _ _ ho, hc.map1 _ (fun _ _ => scanL_mono .add start len)⟩

theorem good_geom (start : Val) (len : Rep) {p : Pat} (h : Good p) : Good (.geom start p len) := by
  obtain ⟨ho, hc⟩ := goodS_of_good h
  exact ⟨obs_scan .mul start len _ _ ho, hc.map1 _ (fun _ _ => scanL_mono .mul start len)⟩

theorem good_binop (o : BinOp) {a b : Pat} (ha : Good a) (hb : Good b) : Good (.binop o a b) := by
  obtain ⟨hoa, hca⟩ := goodS_of_good ha
  obtain ⟨hob, hcb⟩ := goodS_of_good hb
  exact ⟨obs_map2 (.bin o) _ _ _ _ hca hcb hoa hob,
    hca.map2 hcb _ (fun _ _ _ _ => PL.zipWith_mono _)⟩

theorem good_clump {a b : Pat} (ha : Good a) (hb : Good b) : Good (.clump a b) := by
  obtain ⟨hoa, hca⟩ := goodS_of_good ha
  obtain ⟨hob, hcb⟩ := goodS_of_good hb
  exact ⟨obs_clump _ _ _ _ hca hcb hoa hob, hca.map2 hcb _ (fun _ _ _ _ => clumpD_mono)⟩

theorem good_stutter {a b : Pat} (ha : Good a) (hb : Good b) : Good (.stutter a b) := by
  obtain ⟨hoa, hca⟩ := goodS_of_good ha
  obtain ⟨hob, hcb⟩ := goodS_of_good hb
  exact ⟨obs_join _ _ (obs_map2 .stutRow _ _ _ _ hca hcb hoa hob),
    (hca.map2 hcb _ (fun _ _ _ _ => PL.zipWith_mono _)).map1 _ (fun _ _ => PL.join_mono)⟩

theorem good_flatten {a b : Pat} (ha : Good a) (hb : Good b) : Good (.flatten a b) := by
  obtain ⟨hoa, hca⟩ := goodS_of_good ha
  obtain ⟨hob, hcb⟩ := goodS_of_good hb
  exact ⟨obs_join _ _ (obs_map2 .flatRow _ _ _ _ hcb hca hob hoa),
    (hcb.map2 hca _ (fun _ _ _ _ => PL.zipWith_mono _)).map1 _ (fun _ _ => PL.join_mono)⟩

theorem good_pif {c a b : Pat} (hc : Good c) (ha : Good a) (hb : Good b) : Good (.pif c a b) := by
  obtain ⟨hoc, hcc⟩ := goodS_of_good hc
  obtain ⟨hoa, hca⟩ := goodS_of_good ha
  obtain ⟨hob, hcb⟩ := goodS_of_good hb
  exact ⟨obs_pif _ _ _ _ _ _ hcc hca hcb hoc hoa hob,
    fun k => pifD_mono (hcc k) (hca k) (hcb k)⟩

theorem zipRows_two (k : Nat) (x y : PL) :
    zipRows k [x, y] = PL.zipWith Op2.cons.eval x (PL.zipWith Op2.cons.eval y ⟨List.replicate k (.list []), .more⟩) := by
  simp [zipRows]

/-- Two operands collected into rows `[x, y]` (pulled in that order). -/
theorem obs_rows2 {x y : Pat} (hx : Good x) (hy : Good y) :
    Obs (.map2 .cons (initS x) (.map2 .cons (initS y) (.constS (.list [])) none) none) =
      Lim (fun k => zipRows k [denS k x, denS k y]) ∧
    Chain (fun k => zipRows k [denS k x, denS k y]) := by
  obtain ⟨hox, hcx⟩ := goodS_of_good hx
  obtain ⟨hoy, hcy⟩ := goodS_of_good hy
  have hc0 := chain_constS (.list [])
  have h1 := obs_map2 .cons (initS y) (.constS (.list [])) _ _ hcy hc0 hoy (obs_constS _)
  have hc1 : Chain (fun k => PL.zipWith Op2.cons.eval (denS k y) ⟨List.replicate k (.list []), .more⟩) :=
    hcy.map2 hc0 _ (fun _ _ _ _ => PL.zipWith_mono _)
  have h2 := obs_map2 .cons (initS x) _ _ _ hcx hc1 hox h1
  have hc2 := hcx.map2 hc1 _ (fun _ _ _ _ => PL.zipWith_mono Op2.cons.eval)
  simp only [zipRows_two]
  exact ⟨h2, hc2⟩

theorem good_narop (o : NarOp) {a lo hi : Pat} (ha : Good a) (hlo : Good lo) (hhi : Good hi) :
    Good (.narop o a lo hi) := by
  obtain ⟨hoa, hca⟩ := goodS_of_good ha
  obtain ⟨hor, hcr⟩ := obs_rows2 hlo hhi
  exact ⟨obs_map2 (.nar o) _ _ _ _ hca hcr hoa hor,
    hca.map2 hcr _ (fun _ _ _ _ => PL.zipWith_mono _)⟩

theorem good_wrap {p lo hi : Pat} (hp : Good p) (hlo : Good lo) (hhi : Good hi) :
    Good (.wrap p lo hi) := by
  obtain ⟨hol, hcl⟩ := goodS_of_good hlo
  obtain ⟨hor, hcr⟩ := obs_rows2 hhi hp
  exact ⟨obs_map2 .wrapLo _ _ _ _ hcl hcr hol hor,
    hcl.map2 hcr _ (fun _ _ _ _ => PL.zipWith_mono _)⟩

/-! ### Pswitch -/

theorem denEL_eq_map (k : Nat) (l : List Pat) : denEL k l = l.map (denE k) := by
  induction l with
  | nil => simp [denEL]
  | cons p t ih => simp [denEL, ih]

theorem denSL_eq_map (k : Nat) (l : List Pat) : denSL k l = l.map (denS k) := by
  induction l with
  | nil => simp [denSL]
  | cons p t ih => simp [denSL, ih, denS]

theorem pyModGet?_map {α β} (f : α → β) (l : List α) (i : Int) :
    pyModGet? (l.map f) i = (pyModGet? l i).map f := by
  unfold pyModGet?
  cases l with
  | nil => simp
  | cons a t =>
    simp only [List.map_cons, List.isEmpty_cons, Bool.false_eq_true, if_false, List.length_cons,
      List.length_map]
    rw [← List.map_cons, List.getElem?_map]

theorem switchL_eq_bind (k : Nat) (l : List Pat) (sw : Status) (ws : List Val) :
    switchL l (denE k) sw ws =
      bindL (fun iv => iv.idx?.bind fun i => pyModGet? (denEL k l) i) sw ws := by
  induction ws with
  | nil => simp [switchL, bindL]
  | cons iv ws ih =>
    simp only [switchL, bindL, switchPick, denEL_eq_map, pyModGet?_map]
    cases iv.idx? with
    | none => simp
    | some i =>
      simp only [Option.bind_some]
      cases pyModGet? l i with
      | none => simp
      | some p => simp [ih, denEL_eq_map, pyModGet?_map]

theorem switchF_eq_bind (k : Nat) (l : List Pat) (x : PL) :
    switchF l (denE k) x = x.bind (fun iv => iv.idx?.bind fun i => pyModGet? (denEL k l) i) := by
  simp [switchF, PL.bind, switchL_eq_bind]

theorem good_switch {l : List Pat} {w : Pat} (hl : ∀ p ∈ l, Good p) (hw : Good w) :
    Good (.switch l w) := by
  obtain ⟨how, hcw⟩ := goodS_of_good hw
  constructor
  · have hobs := obs_switch l (initS w) _ hcw how (fun k p => denE k p)
      (fun p hp => (hl p hp).2) (fun p hp => (hl p hp).1)
    simpa [initE, denE, switchF_eq_bind, denS, initS] using hobs
  · intro k
    have := switchF_mono l (denE k) (denE (k + 1)) (fun p hp => (hl p hp).2 k) (hcw k)
    simpa [denE, switchF_eq_bind, denS] using this

/-! ### Embedding schedules -/

theorem lim_eq_of_interleave (c1 c2 : Nat → PL) (h12 : ∀ k, ∃ K, c1 k ⊑ c2 K) (h21 : ∀ k, ∃ K, c2 k ⊑ c1 K) :
    Lim c1 = Lim c2 := by
  funext x; apply propext; constructor
  · rintro ⟨k, hk⟩; obtain ⟨K, hK⟩ := h12 k; exact ⟨K, PL.le_trans hk hK⟩
  · rintro ⟨k, hk⟩; obtain ⟨K, hK⟩ := h21 k; exact ⟨K, PL.le_trans hk hK⟩

theorem schedF_mono_both (d : SchedD) (D : Nat → Item → PL) (hD : ∀ j, Chain (fun k => D k (d.item j)))
    {k K m m' : Nat} (hk : k ≤ K) (hm : m ≤ m') (i : Nat) :
    schedF d (D k) m i ⊑ schedF d (D K) m' i :=
  PL.le_trans (schedF_mono_g d _ _ m i (fun j _ _ => (hD (i + j)).le hk)) (schedF_mono_m_le d _ hm i)

theorem good_of_sched (p : Pat) (d : SchedD) (hinit : initE p = .sched d 0 .nil)
    (D : Nat → Item → PL) (hD : ∀ j, Chain (fun k => D k (d.item j)))
    (H : ∀ j c, (d.item j).start = some c → Obs c = Lim (fun k => D k (d.item j)))
    (M : Nat → Nat) (hM : ∀ k, M k ≤ M (k + 1))
    (hden : ∀ k, denE k p = schedF d (D k) (M k) 0)
    (hsub : ∀ k, ∃ K, k ≤ K ∧ schedF d (D K) k 0 ⊑ schedF d (D K) (M K) 0) : Good p := by
  constructor
  · rw [hinit, obs_sched d 0 D hD H]
    have : (fun k => denE k p) = fun k => schedF d (D k) (M k) 0 := funext hden
    rw [this]
    apply lim_eq_of_interleave
    · intro k
      obtain ⟨K, hK, hle⟩ := hsub k
      exact ⟨K, PL.le_trans (schedF_mono_both d D hD hK (Nat.le_refl _) 0) hle⟩
    · intro k
      exact ⟨max k (M k), schedF_mono_both d D hD (Nat.le_max_left _ _) (Nat.le_max_right _ _) 0⟩
  · intro k
    show denE k p ⊑ denE (k + 1) p
    rw [hden, hden]
    exact schedF_mono_both d D hD (Nat.le_succ k) (hM k) 0

theorem good_of_passes (p : Pat) (d : SchedD) (hinit : initE p = .sched d 0 .nil)
    (D : Nat → Item → PL) (hD : ∀ j, Chain (fun k => D k (d.item j)))
    (H : ∀ j c, (d.item j).start = some c → Obs c = Lim (fun k => D k (d.item j)))
    (P : Nat → Nat → Item) (n : Nat) (hn : 0 < n) (r : Rep)
    (hitem : ∀ j t, t < n → d.item (j * n + t) = if r.allows j then P j t else .stop)
    (hns : ∀ j t, t < n → P j t ≠ .stop)
    (hden : ∀ k, denE k p =
      PL.concat ((List.range (r.count k)).flatMap (passPL (D k) P n)) (PL.nil r.final)) : Good p := by
  refine good_of_sched p d hinit D hD H (fun k => r.items n k) ?_ ?_ ?_
  · intro k
    cases r with
    | fin q => exact Nat.le_refl _
    | inf => exact Nat.mul_le_mul_right _ (Nat.le_succ k)
  · intro k
    rw [hden k]
    have := sched_passes_total d (D k) P n hn r hitem hns k 0
    cases r <;> simpa using this.symm
  · intro k
    cases r with
    | fin q =>
      refine ⟨max k (q * n + 1), Nat.le_max_left _ _, ?_⟩
      refine PL.le_trans (schedF_mono_m_le d _ (Nat.le_max_left k (q * n + 1)) 0) ?_
      have h1 := sched_passes_total d (D (max k (q * n + 1))) P n hn (.fin q) hitem hns k
        (max k (q * n + 1) - (q * n + 1))
      have h2 := sched_passes_total d (D (max k (q * n + 1))) P n hn (.fin q) hitem hns k 0
      simp only [Rep.items, Nat.add_zero] at h1 h2 ⊢
      rw [show q * n + 1 + (max k (q * n + 1) - (q * n + 1)) = max k (q * n + 1) by omega] at h1
      rw [h1, h2]; exact PL.le_refl _
    | inf =>
      exact ⟨k, Nat.le_refl _, schedF_mono_m_le d _ (Nat.le_mul_of_pos_right k hn) 0⟩

end Sc3Verif.C13
