/-
C13 — the one-operand mapping stream (Punop, Pcollect, Ptuple's `tuple(...)`) and the filtering
stream (Pselect / Preject) realise `PL.map` / `PL.filter` of their operand, step for step.
-/
import Sc3Verif.C13.Order
namespace Sc3Verif.C13

theorem step_map1 (f : Fn1) (s : St) :
    step (.map1 f s) =
      match step s with
      | .yield v s' =>
        match f.eval v with
        | some w => .yield w (.map1 f s')
        | none => .err
      | .tau s' => .tau (.map1 f s')
      | .done => .done
      | .err => .err := by
  rw [step]
  cases step s <;> simp
  split <;> simp [*]

theorem PL.map_cons (f : Val → Option Val) (v : Val) (x : PL) :
    (x.cons v).map f = match f v with
      | some w => (x.map f).cons w
      | none => ⟨[], .err⟩ := by
  simp only [PL.map, PL.cons, mapL]
  cases f v <;> simp

theorem run_map1 (f : Fn1) (n : Nat) (s : St) :
    run n (.map1 f s) = (run n s).map f.eval := by
  induction n generalizing s with
  | zero => simp [run, PL.map, mapL]
  | succ n ih =>
    rw [run, run, step_map1]
    cases hs : step s with
    | yield v s' =>
      simp only [PL.map_cons]
      cases f.eval v with
      | some w => simp [ih]
      | none => simp
    | tau s' => simp [ih]
    | done => simp [PL.map, mapL]
    | err => simp [PL.map, mapL]

theorem mapL_mono (f : Val → Option Val) {x y : PL} (h : x ⊑ y) : x.map f ⊑ y.map f := by
  obtain ⟨xv, xs⟩ := x
  induction xv generalizing y with
  | nil =>
    cases xs with
    | more => simp [PL.map, mapL]; exact PL.more_le _
    | done => have := PL.eq_of_le_of_closed h (by simp); subst this; exact PL.le_refl _
    | err => have := PL.eq_of_le_of_closed h (by simp); subst this; exact PL.le_refl _
  | cons v t ih =>
    have h' : (PL.cons v ⟨t, xs⟩) ⊑ y := h
    obtain ⟨y', rfl, hy⟩ := PL.le_cons_inv h'
    have e : (⟨v :: t, xs⟩ : PL) = PL.cons v ⟨t, xs⟩ := rfl
    rw [e, PL.map_cons, PL.map_cons]
    cases f v with
    | some w => exact PL.cons_le_cons w (ih hy)
    | none => exact PL.le_refl _

theorem obs_map1 (f : Fn1) (s : St) (c : Nat → PL) (h : Obs s = Lim c) :
    Obs (.map1 f s) = Lim (fun k => (c k).map f.eval) :=
  obs_glue1 (fun a => a.map f.eval) (fun _ _ => mapL_mono _) _ s
    (fun n => PL.le_of_eq (run_map1 f n s))
    (fun na => ⟨na, PL.le_of_eq (run_map1 f na s).symm⟩) c h

/-! ### Pselect / Preject -/

/-- What the filter does with one value. -/
def filtKeep (f : Val → Option Val) (keep : Bool) (v : Val) : Option Bool :=
  match f v with
  | some (.bool r) => some (r == keep)
  | some _ => some false
  | none => none

theorem PL.filter_cons (f : Val → Option Val) (keep : Bool) (v : Val) (x : PL) :
    (x.cons v).filter f keep = match filtKeep f keep v with
      | some true => (x.filter f keep).cons v
      | some false => x.filter f keep
      | none => ⟨[], .err⟩ := by
  simp only [PL.filter, PL.cons, filterL, filtKeep]
  split <;> simp_all
  rename_i r _; cases r <;> cases keep <;> simp

theorem step_filt (f : Fn) (keep : Bool) (s : St) :
    step (.filt f keep s) =
      match step s with
      | .yield v s' =>
        match filtKeep f.eval keep v with
        | some true => .yield v (.filt f keep s')
        | some false => .tau (.filt f keep s')
        | none => .err
      | .tau s' => .tau (.filt f keep s')
      | .done => .done
      | .err => .err := by
  rw [step]
  cases step s <;> simp
  simp only [filtKeep]
  split <;> simp_all
  rename_i r _; cases r <;> cases keep <;> simp

theorem run_filt (f : Fn) (keep : Bool) (n : Nat) (s : St) :
    run n (.filt f keep s) = (run n s).filter f.eval keep := by
  induction n generalizing s with
  | zero => simp [run, PL.filter, filterL]
  | succ n ih =>
    rw [run, run, step_filt]
    cases hs : step s with
    | yield v s' =>
      simp only [PL.filter_cons]
      cases filtKeep f.eval keep v with
      | some b => cases b <;> simp [ih]
      | none => simp
    | tau s' => simp [ih]
    | done => simp [PL.filter, filterL]
    | err => simp [PL.filter, filterL]

theorem filterL_mono (f : Val → Option Val) (keep : Bool) {x y : PL} (h : x ⊑ y) :
    x.filter f keep ⊑ y.filter f keep := by
  obtain ⟨xv, xs⟩ := x
  induction xv generalizing y with
  | nil =>
    cases xs with
    | more => simp [PL.filter, filterL]; exact PL.more_le _
    | done => have := PL.eq_of_le_of_closed h (by simp); subst this; exact PL.le_refl _
    | err => have := PL.eq_of_le_of_closed h (by simp); subst this; exact PL.le_refl _
  | cons v t ih =>
    have h' : (PL.cons v ⟨t, xs⟩) ⊑ y := h
    obtain ⟨y', rfl, hy⟩ := PL.le_cons_inv h'
    have e : (⟨v :: t, xs⟩ : PL) = PL.cons v ⟨t, xs⟩ := rfl
    rw [e, PL.filter_cons, PL.filter_cons]
    cases filtKeep f keep v with
    | some b =>
      cases b
      · exact ih hy
      · exact PL.cons_le_cons v (ih hy)
    | none => exact PL.le_refl _

theorem obs_filt (f : Fn) (keep : Bool) (s : St) (c : Nat → PL) (h : Obs s = Lim c) :
    Obs (.filt f keep s) = Lim (fun k => (c k).filter f.eval keep) :=
  obs_glue1 (fun a => a.filter f.eval keep) (fun _ _ => filterL_mono _ _) _ s
    (fun n => PL.le_of_eq (run_filt f keep n s))
    (fun na => ⟨na, PL.le_of_eq (run_filt f keep na s).symm⟩) c h

end Sc3Verif.C13
