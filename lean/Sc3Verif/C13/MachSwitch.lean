/-
C13 — Pswitch: every index value embeds the item it selects.
-/
import Sc3Verif.C13.MachSched
namespace Sc3Verif.C13

/-- The item an index value selects (`lst[indx % size]`); `none` = the expression raises. -/
def switchPick (l : List Pat) (iv : Val) : Option Pat := iv.idx?.bind fun i => pyModGet? l i

/-- Items selected by the index values one after the other; `g` = what an item's stream shows. -/
def switchL (l : List Pat) (g : Pat → PL) (sw : Status) : List Val → PL
  | [] => ⟨[], sw⟩
  | iv :: ws =>
    match switchPick l iv with
    | some p => (g p).append (switchL l g sw ws)
    | none => ⟨[], .err⟩

def switchF (l : List Pat) (g : Pat → PL) (w : PL) : PL := switchL l g w.st w.vals

theorem switchF_nil (l) (g : Pat → PL) (s : Status) : switchF l g ⟨[], s⟩ = ⟨[], s⟩ := by
  simp [switchF, switchL]

theorem switchF_cons (l) (g : Pat → PL) (iv : Val) (w : PL) :
    switchF l g (w.cons iv) =
      match switchPick l iv with
      | some p => (g p).append (switchF l g w)
      | none => ⟨[], .err⟩ := by
  simp only [switchF, PL.cons_vals, PL.cons_st, switchL]

theorem step_switchT (l : List Pat) (w cur : St) : step (.switch l w cur true) =
    match step cur with
    | .yield v c => .yield v (.switch l w c true)
    | .tau c => .tau (.switch l w c true)
    | .done => .tau (.switch l w .nil false)
    | .err => .err := by
  rw [step]; cases step cur <;> simp

theorem step_switchF (l : List Pat) (w cur : St) : step (.switch l w cur false) =
    match step w with
    | .yield iv w' =>
      match switchPick l iv with
      | some p => .tau (.switch l w' (initE p) true)
      | none => .err
    | .tau w' => .tau (.switch l w' cur false)
    | .done => .done
    | .err => .err := by
  rw [step]; cases step w <;> simp
  simp only [switchPick]
  cases Val.idx? _ <;> simp
  split <;> simp [*]

/-- What the running item still shows (`r = false`: no item is running). -/
def curPart (r : Bool) (nc : Nat) (cur : St) : PL := if r then run nc cur else ⟨[], .done⟩

theorem run_switch_A (l : List Pat) (N : Nat) (n : Nat) (w cur : St) (r : Bool) (nc nw : Nat)
    (hc : n ≤ nc) (hw : n ≤ nw) (hN : n ≤ N) :
    run n (.switch l w cur r) ⊑
      (curPart r nc cur).append (switchF l (fun p => run N (initE p)) (run nw w)) := by
  induction n generalizing w cur r nc nw with
  | zero => exact PL.more_le _
  | succ n ih =>
    cases r with
    | true =>
      obtain ⟨nc', rfl⟩ : ∃ k, nc = k + 1 := ⟨nc - 1, by omega⟩
      have hl := step_switchT l w cur
      simp only [curPart, if_true]
      cases hs : step cur with
      | yield v c =>
        rw [hs] at hl; rw [run_yield hl, run_yield hs, PL.append_cons]
        have := ih w c true nc' nw (by omega) (by omega) (by omega)
        simp only [curPart, if_true] at this
        exact PL.cons_le_cons v this
      | tau c =>
        rw [hs] at hl; rw [run_tau hl, run_tau hs]
        have := ih w c true nc' nw (by omega) (by omega) (by omega)
        simpa [curPart] using this
      | done =>
        rw [hs] at hl; rw [run_tau hl, run_done hs, PL.append_nil_done]
        have := ih w .nil false n nw (by omega) (by omega) (by omega)
        simpa [curPart, PL.append_nil_done] using this
      | err => rw [hs] at hl; rw [run_err hl, run_err hs, PL.append_nil_err]; exact PL.le_refl _
    | false =>
      obtain ⟨nw', rfl⟩ : ∃ k, nw = k + 1 := ⟨nw - 1, by omega⟩
      have hl := step_switchF l w cur
      simp only [curPart, Bool.false_eq_true, if_false, PL.append_nil_done]
      cases hs : step w with
      | yield iv w' =>
        rw [hs] at hl; simp only at hl
        rw [run_yield hs, switchF_cons]
        cases hp : switchPick l iv with
        | some p =>
          rw [hp] at hl; rw [run_tau hl]
          have := ih w' (initE p) true N nw' (by omega) (by omega) (by omega)
          simpa [curPart] using this
        | none => rw [hp] at hl; rw [run_err hl]; exact PL.le_refl _
      | tau w' =>
        rw [hs] at hl; rw [run_tau hl, run_tau hs]
        have := ih w' cur false n nw' (by omega) (by omega) (by omega)
        simpa [curPart, PL.append_nil_done] using this
      | done => rw [hs] at hl; rw [run_done hl, run_done hs, switchF_nil]; exact PL.le_refl _
      | err => rw [hs] at hl; rw [run_err hl, run_err hs, switchF_nil]; exact PL.le_refl _

theorem run_switch_B_cur (l : List Pat) (w : St) (Y : PL)
    (hY : ∃ n, Y ⊑ run n (.switch l w .nil false)) :
    ∀ (nc : Nat) (cur : St), ∃ n, (run nc cur).append Y ⊑ run n (.switch l w cur true) := by
  intro nc
  induction nc with
  | zero => intro cur; exact ⟨0, by rw [run_zero, PL.append_nil_more]; exact PL.more_le _⟩
  | succ nc ih =>
    intro cur
    have hl := step_switchT l w cur
    cases hs : step cur with
    | yield v c =>
      rw [hs] at hl
      obtain ⟨n, hn⟩ := ih c
      exact ⟨n + 1, by rw [run_yield hl, run_yield hs, PL.append_cons]; exact PL.cons_le_cons v hn⟩
    | tau c =>
      rw [hs] at hl
      obtain ⟨n, hn⟩ := ih c
      exact ⟨n + 1, by rw [run_tau hl, run_tau hs]; exact hn⟩
    | err => rw [hs] at hl; exact ⟨1, by rw [run_err hl, run_err hs, PL.append_nil_err]; exact PL.le_refl _⟩
    | done =>
      rw [hs] at hl
      obtain ⟨n, hn⟩ := hY
      exact ⟨n + 1, by rw [run_tau hl, run_done hs, PL.append_nil_done]; exact hn⟩

theorem run_switch_B (l : List Pat) (N : Nat) (nw : Nat) : ∀ (w cur : St),
    ∃ n, switchF l (fun p => run N (initE p)) (run nw w) ⊑ run n (.switch l w cur false) := by
  induction nw with
  | zero => intro w cur; exact ⟨0, by rw [run_zero, switchF_nil]; exact PL.more_le _⟩
  | succ nw ih =>
    intro w cur
    have hl := step_switchF l w cur
    cases hs : step w with
    | yield iv w' =>
      rw [hs] at hl; simp only at hl
      cases hp : switchPick l iv with
      | some p =>
        rw [hp] at hl
        obtain ⟨n, hn⟩ := run_switch_B_cur l w' _ (ih w' .nil) N (initE p)
        exact ⟨n + 1, by rw [run_tau hl, run_yield hs, switchF_cons, hp]; exact hn⟩
      | none =>
        rw [hp] at hl
        exact ⟨1, by rw [run_err hl, run_yield hs, switchF_cons, hp]; exact PL.le_refl _⟩
    | tau w' =>
      rw [hs] at hl
      obtain ⟨n, hn⟩ := ih w' cur
      exact ⟨n + 1, by rw [run_tau hl, run_tau hs]; exact hn⟩
    | done => rw [hs] at hl; exact ⟨1, by rw [run_done hl, run_done hs, switchF_nil]; exact PL.le_refl _⟩
    | err => rw [hs] at hl; exact ⟨1, by rw [run_err hl, run_err hs, switchF_nil]; exact PL.le_refl _⟩

theorem pyModGet?_mem {α} {l : List α} {i : Int} {x : α} (h : pyModGet? l i = some x) : x ∈ l := by
  unfold pyModGet? at h
  split at h
  · simp at h
  · exact List.mem_of_getElem? h

theorem switchPick_mem {l : List Pat} {iv : Val} {p : Pat} (h : switchPick l iv = some p) : p ∈ l := by
  unfold switchPick at h
  cases hi : iv.idx? with
  | none => simp [hi] at h
  | some i => simp [hi] at h; exact pyModGet?_mem h

theorem switchF_mono (l : List Pat) (g g' : Pat → PL) (hg : ∀ p ∈ l, g p ⊑ g' p) {w w' : PL}
    (hw : w ⊑ w') : switchF l g w ⊑ switchF l g' w' := by
  refine PL.le_induction (P := fun w w' => switchF l g w ⊑ switchF l g' w') ?_ ?_ ?_ w w' hw
  · intro y; rw [switchF_nil]; exact PL.more_le _
  · intro s _; rw [switchF_nil, switchF_nil]; exact PL.le_refl _
  · intro iv x y _ ih
    rw [switchF_cons, switchF_cons]
    cases hp : switchPick l iv with
    | some p => exact PL.append_mono (hg p (switchPick_mem hp)) ih
    | none => exact PL.le_refl _

/-- Observations of Pswitch from those of the index stream and of each item. -/
theorem obs_switch (l : List Pat) (w : St) (cw : Nat → PL) (hcw : Chain cw) (hw : Obs w = Lim cw)
    (D : Nat → Pat → PL) (hD : ∀ p ∈ l, Chain (fun k => D k p))
    (H : ∀ p ∈ l, Obs (initE p) = Lim (fun k => D k p)) :
    Obs (.switch l w .nil false) = Lim (fun k => switchF l (D k) (cw k)) := by
  funext x; apply propext; constructor
  · rintro ⟨n, hn⟩
    have hA := run_switch_A l n n w .nil false n n (Nat.le_refl _) (Nat.le_refl _) (Nat.le_refl _)
    simp only [curPart, Bool.false_eq_true, if_false, PL.append_nil_done] at hA
    have h1 : Obs w (run n w) := ⟨n, PL.le_refl _⟩
    rw [hw] at h1; obtain ⟨k1, hk1⟩ := h1
    have hk : ∀ l' : List Pat, (∀ p ∈ l', p ∈ l) → ∃ k, ∀ p ∈ l', run n (initE p) ⊑ D k p := by
      intro l'
      induction l' with
      | nil => intro _; exact ⟨0, fun p hp => absurd hp (by simp)⟩
      | cons q t ih =>
        intro hsub
        obtain ⟨k, hk⟩ := ih (fun p hp => hsub p (List.mem_cons_of_mem _ hp))
        have h2 : Obs (initE q) (run n (initE q)) := ⟨n, PL.le_refl _⟩
        rw [H q (hsub q (by simp))] at h2; obtain ⟨k', hk'⟩ := h2
        refine ⟨max k k', fun p hp => ?_⟩
        rcases List.mem_cons.mp hp with rfl | hp
        · exact PL.le_trans hk' ((hD _ (hsub _ (by simp))).le (Nat.le_max_right _ _))
        · exact PL.le_trans (hk p hp) ((hD _ (hsub _ (List.mem_cons_of_mem _ hp))).le (Nat.le_max_left _ _))
    obtain ⟨k2, hk2⟩ := hk l (fun _ h => h)
    refine ⟨max k1 k2, PL.le_trans hn (PL.le_trans hA (switchF_mono l _ _ ?_ ?_))⟩
    · intro p hp; exact PL.le_trans (hk2 p hp) ((hD _ hp).le (Nat.le_max_right _ _))
    · exact PL.le_trans hk1 (hcw.le (Nat.le_max_left _ _))
  · rintro ⟨k, hk⟩
    have h1 : Lim cw (cw k) := ⟨k, PL.le_refl _⟩
    rw [← hw] at h1; obtain ⟨nw, hnw⟩ := h1
    have hN : ∀ l' : List Pat, (∀ p ∈ l', p ∈ l) → ∃ N, ∀ p ∈ l', D k p ⊑ run N (initE p) := by
      intro l'
      induction l' with
      | nil => intro _; exact ⟨0, fun p hp => absurd hp (by simp)⟩
      | cons q t ih =>
        intro hsub
        obtain ⟨N, hN⟩ := ih (fun p hp => hsub p (List.mem_cons_of_mem _ hp))
        have h2 : Lim (fun k => D k q) (D k q) := ⟨k, PL.le_refl _⟩
        rw [← H q (hsub q (by simp))] at h2; obtain ⟨N', hN'⟩ := h2
        refine ⟨max N N', fun p hp => ?_⟩
        rcases List.mem_cons.mp hp with rfl | hp
        · exact PL.le_trans hN' (run_mono (Nat.le_max_right _ _) _)
        · exact PL.le_trans (hN p hp) (run_mono (Nat.le_max_left _ _) _)
    obtain ⟨N, hN⟩ := hN l (fun _ h => h)
    obtain ⟨n, hn⟩ := run_switch_B l N nw w .nil
    exact ⟨n, PL.le_trans hk (PL.le_trans (switchF_mono l _ _ hN hnw) hn)⟩

end Sc3Verif.C13
