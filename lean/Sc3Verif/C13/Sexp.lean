/-
C13 — reader/printer for the line protocol of the driver (core Lean only).
Terms are s-expressions: `(seq ((const (i 1)) (const (f 3/8))) inf 0)`.
-/
import Sc3Verif.C13.Model
namespace Sc3Verif.C13

inductive Sx where
  | atom (s : String)
  | node (l : List Sx)
deriving Repr, Inhabited

def tokenize (s : String) : List String := Id.run do
  let mut out : Array String := #[]
  let mut cur := ""
  for c in s.toList do
    if c == '(' || c == ')' then
      if cur != "" then out := out.push cur; cur := ""
      out := out.push (String.singleton c)
    else if c == ' ' || c == '\n' || c == '\t' || c == '\r' then
      if cur != "" then out := out.push cur; cur := ""
    else cur := cur.push c
  if cur != "" then out := out.push cur
  return out.toList

/-- Parse one s-expression; fuel = number of tokens. -/
def parseSx : Nat → List String → Option (Sx × List String)
  | 0, _ => none
  | _, [] => none
  | f + 1, "(" :: ts => parseList f ts []
  | _, ")" :: _ => none
  | _, t :: ts => some (.atom t, ts)
where
  parseList : Nat → List String → List Sx → Option (Sx × List String)
    | 0, _, _ => none
    | _, [], _ => none
    | _, ")" :: ts, acc => some (.node acc.reverse, ts)
    | f + 1, ts, acc =>
      match parseSx f ts with
      | some (x, rest) => parseList f rest (x :: acc)
      | none => none

def readSx (s : String) : Option Sx :=
  let ts := tokenize s
  match parseSx (2 * ts.length + 2) ts with
  | some (x, []) => some x
  | _ => none

def parseRat (s : String) : Option Rat :=
  match s.splitOn "/" with
  | [n] => n.toInt?.map fun i => (i : Rat)
  | [n, d] => do
    let a ← n.toInt?
    let b ← d.toNat?
    if b == 0 then none else some ((a : Rat) / (b : Rat))
  | _ => none

partial def sxVal : Sx → Option Val
  | .node [.atom "i", .atom n] => n.toInt?.map Val.int
  | .node [.atom "f", .atom q] => (parseRat q).map Val.flt
  | .node [.atom "b", .atom n] => some (.bool (n == "1"))
  | .node (.atom "l" :: xs) => (xs.mapM sxVal).map Val.list
  | .node (.atom "t" :: xs) => (xs.mapM sxVal).map Val.tup
  | _ => none

def sxRep : Sx → Option Rep
  | .atom "inf" => some .inf
  | .atom n => n.toNat?.map Rep.fin
  | _ => none

def sxInt : Sx → Option Int
  | .atom n => n.toInt?
  | _ => none

def sxNat : Sx → Option Nat
  | .atom n => n.toNat?
  | _ => none

def sxBinOp : Sx → Option BinOp
  | .atom "add" => some .add | .atom "sub" => some .sub | .atom "mul" => some .mul
  | .atom "div" => some .div | .atom "mod" => some .mod | .atom "pymod" => some .pymod | .atom "lt" => some .lt
  | .atom "le" => some .le | .atom "gt" => some .gt | .atom "ge" => some .ge
  | .atom "min" => some .min | .atom "max" => some .max
  | _ => none

def sxUnOp : Sx → Option UnOp
  | .atom "neg" => some .neg | .atom "abs" => some .abs | .atom "pos" => some .pos
  | _ => none

def sxNarOp : Sx → Option NarOp
  | .atom "clip" => some .clip | .atom "wrap" => some .wrap
  | _ => none

partial def sxFn : Sx → Option Fn
  | .atom "id" => some .id
  | .node [.atom "un", o, f] => do some (.un (← sxUnOp o) (← sxFn f))
  | .node [.atom "binR", o, f, c] => do some (.binR (← sxBinOp o) (← sxFn f) (← sxVal c))
  | .node [.atom "binL", o, c, f] => do some (.binL (← sxBinOp o) (← sxVal c) (← sxFn f))
  | .node [.atom "isInt", f] => do some (.isInt (← sxFn f))
  | _ => none

partial def sxPat : Sx → Option Pat
  | .node [.atom "const", v] => (sxVal v).map Pat.const
  | .node [.atom "seq", .node l, r, off] => do some (.seq (← l.mapM sxPat) (← sxRep r) (← sxInt off))
  | .node [.atom "ser", .node l, r, off] => do some (.ser (← l.mapM sxPat) (← sxRep r) (← sxInt off))
  | .node [.atom "pn", p, r] => do some (.pn (← sxPat p) (← sxRep r))
  | .node [.atom "place", .node l, .node lens, r, off] => do
      some (.place (← l.mapM sxPat) (← lens.mapM sxNat) (← sxRep r) (← sxInt off))
  | .node [.atom "tuple", .node l, r] => do some (.tuple (← l.mapM sxPat) (← sxRep r))
  | .node [.atom "switch", .node l, w] => do some (.switch (← l.mapM sxPat) (← sxPat w))
  | .node [.atom "switch1", .node l, w] => do some (.switch1 (← l.mapM sxPat) (← sxPat w))
  | .node [.atom "slide", .node l, len, st, start, .atom wrap, r] => do
      some (.slide (← l.mapM sxPat) (← sxPat len) (← sxPat st) (← sxInt start) (wrap == "1") (← sxRep r))
  | .node [.atom "series", v, st, r] => do some (.series (← sxVal v) (← sxPat st) (← sxRep r))
  | .node [.atom "geom", v, st, r] => do some (.geom (← sxVal v) (← sxPat st) (← sxRep r))
  | .node [.atom "stutter", p, n] => do some (.stutter (← sxPat p) (← sxPat n))
  | .node [.atom "clump", p, n] => do some (.clump (← sxPat p) (← sxPat n))
  | .node [.atom "flatten", p, n] => do some (.flatten (← sxPat p) (← sxPat n))
  | .node [.atom "diff", p] => do some (.diff (← sxPat p))
  | .node [.atom "pconst", p, v, .atom tol] => do some (.pconst (← sxPat p) (← sxVal v) (← parseRat tol))
  | .node [.atom "drop", p, n] => do some (.drop (← sxPat p) (← sxNat n))
  | .node [.atom "len", p, n] => do some (.len (← sxPat p) (← sxNat n))
  | .node [.atom "collect", f, p] => do some (.collect (← sxFn f) (← sxPat p))
  | .node [.atom "select", f, p] => do some (.select (← sxFn f) (← sxPat p))
  | .node [.atom "reject", f, p] => do some (.reject (← sxFn f) (← sxPat p))
  | .node [.atom "pif", c, a, b] => do some (.pif (← sxPat c) (← sxPat a) (← sxPat b))
  | .node [.atom "wrap", p, lo, hi] => do some (.wrap (← sxPat p) (← sxPat lo) (← sxPat hi))
  | .node [.atom "unop", o, a] => do some (.unop (← sxUnOp o) (← sxPat a))
  | .node [.atom "binop", o, a, b] => do some (.binop (← sxBinOp o) (← sxPat a) (← sxPat b))
  | .node [.atom "narop", o, a, lo, hi] => do
      some (.narop (← sxNarOp o) (← sxPat a) (← sxPat lo) (← sxPat hi))
  | _ => none

partial def fmtVal : Val → String
  | .int i => s!"i{i}"
  | .flt q => s!"f{q.num}/{q.den}"
  | .bool b => if b then "bT" else "bF"
  | .list l => "[" ++ ",".intercalate (l.map fmtVal) ++ "]"
  | .tup l => "(" ++ ",".intercalate (l.map fmtVal) ++ ")"

def fmtStatus : Status → String
  | .more => "MORE" | .done => "STOP" | .err => "ERR"

def fmtPL (x : PL) : String :=
  " ".intercalate (x.vals.map fmtVal ++ [fmtStatus x.st])

end Sc3Verif.C13
