/-
C13 — every well-formed pattern is `Good`.
-/
import Sc3Verif.C13.MainSched
namespace Sc3Verif.C13

mutual
/-- What the constructors of the real classes guarantee: list patterns are built from non-empty
    lists (`ListPattern.__init__` raises otherwise). -/
def Pat.WF : Pat → Prop
  | .const _ => True
  | .seq l _ _ => l ≠ [] ∧ WFL l
  | .ser l _ _ => WFL l
  | .pn p _ => p.WF
  | .place l lens _ off => pyRot (segments 0 lens) off ≠ [] ∧ WFL l
  | .tuple l _ => WFL l
  | .switch l w => WFL l ∧ w.WF
  | .switch1 l w => WFL l ∧ w.WF
  | .slide l len step _ _ _ => WFL l ∧ len.WF ∧ step.WF
  | .series _ step _ => step.WF
  | .geom _ grow _ => grow.WF
  | .stutter p n => p.WF ∧ n.WF
  | .clump p n => p.WF ∧ n.WF
  | .flatten p n => p.WF ∧ n.WF
  | .diff p => p.WF
  | .pconst p _ _ => p.WF
  | .drop p _ => p.WF
  | .len p _ => p.WF
  | .collect _ p => p.WF
  | .select _ p => p.WF
  | .reject _ p => p.WF
  | .pif c a b => c.WF ∧ a.WF ∧ b.WF
  | .wrap p lo hi => p.WF ∧ lo.WF ∧ hi.WF
  | .unop _ a => a.WF
  | .binop _ a b => a.WF ∧ b.WF
  | .narop _ a lo hi => a.WF ∧ lo.WF ∧ hi.WF
def WFL : List Pat → Prop
  | [] => True
  | p :: t => p.WF ∧ WFL t
end

theorem WFL_mem {l : List Pat} (h : WFL l) : ∀ p ∈ l, p.WF := by
  induction l with
  | nil => intro p hp; cases hp
  | cons a t ih =>
    intro p hp
    simp only [WFL] at h
    rcases List.mem_cons.mp hp with rfl | hp
    · exact h.1
    · exact ih h.2 p hp

theorem good_of_wf : ∀ p : Pat, p.WF → Good p := by
  intro p
  induction p using Pat.ind with
  | const v => intro _; exact good_const v
  | seq l r off ih => intro h; simp only [Pat.WF] at h; exact good_seq r off h.1 (fun p hp => ih p hp (WFL_mem h.2 p hp))
  | ser l r off ih => intro h; simp only [Pat.WF] at h; exact good_ser r off (fun p hp => ih p hp (WFL_mem h p hp))
  | pn p r ih => intro h; simp only [Pat.WF] at h; exact good_pn r (ih h)
  | place l lens r off ih =>
    intro h; simp only [Pat.WF] at h
    exact good_place r off h.1 (fun p hp => ih p hp (WFL_mem h.2 p hp))
  | tuple l r ih => intro h; simp only [Pat.WF] at h; exact good_tuple r (fun p hp => ih p hp (WFL_mem h p hp))
  | switch l w ih1 ih2 =>
    intro h; simp only [Pat.WF] at h
    exact good_switch (fun p hp => ih1 p hp (WFL_mem h.1 p hp)) (ih2 h.2)
  | switch1 l w ih1 ih2 =>
    intro h; simp only [Pat.WF] at h
    exact good_switch1 (fun p hp => ih1 p hp (WFL_mem h.1 p hp)) (ih2 h.2)
  | slide l len step start wrap r ih1 ih2 ih3 =>
    intro h; simp only [Pat.WF] at h
    exact good_slide start wrap r (fun p hp => ih1 p hp (WFL_mem h.1 p hp)) (ih2 h.2.1) (ih3 h.2.2)
  | series start step len ih => intro h; simp only [Pat.WF] at h; exact good_series start len (ih h)
  | geom start grow len ih => intro h; simp only [Pat.WF] at h; exact good_geom start len (ih h)
  | stutter p n ih1 ih2 => intro h; simp only [Pat.WF] at h; exact good_stutter (ih1 h.1) (ih2 h.2)
  | clump p n ih1 ih2 => intro h; simp only [Pat.WF] at h; exact good_clump (ih1 h.1) (ih2 h.2)
  | flatten p n ih1 ih2 => intro h; simp only [Pat.WF] at h; exact good_flatten (ih1 h.1) (ih2 h.2)
  | diff p ih => intro h; simp only [Pat.WF] at h; exact good_diff (ih h)
  | pconst p sum tol ih => intro h; simp only [Pat.WF] at h; exact good_pconst sum tol (ih h)
  | drop p n ih => intro h; simp only [Pat.WF] at h; exact good_drop n (ih h)
  | len p n ih => intro h; simp only [Pat.WF] at h; exact good_len n (ih h)
  | collect f p ih => intro h; simp only [Pat.WF] at h; exact good_collect f (ih h)
  | select f p ih => intro h; simp only [Pat.WF] at h; exact good_select f (ih h)
  | reject f p ih => intro h; simp only [Pat.WF] at h; exact good_reject f (ih h)
  | pif c a b ih1 ih2 ih3 =>
    intro h; simp only [Pat.WF] at h; exact good_pif (ih1 h.1) (ih2 h.2.1) (ih3 h.2.2)
  | wrap p lo hi ih1 ih2 ih3 =>
    intro h; simp only [Pat.WF] at h; exact good_wrap (ih1 h.1) (ih2 h.2.1) (ih3 h.2.2)
  | unop o a ih => intro h; simp only [Pat.WF] at h; exact good_unop o (ih h)
  | binop o a b ih1 ih2 => intro h; simp only [Pat.WF] at h; exact good_binop o (ih1 h.1) (ih2 h.2)
  | narop o a lo hi ih1 ih2 ih3 =>
    intro h; simp only [Pat.WF] at h; exact good_narop o (ih1 h.1) (ih2 h.2.1) (ih3 h.2.2)

end Sc3Verif.C13
