/-
C13 — approximation order on finite observations, limits of chains, observations of a stream.
-/
import Sc3Verif.C13.Spec
namespace Sc3Verif.C13

/-- `x ⊑ y`: `y` says everything `x` says (and maybe more, if `x` is open-ended). -/
def PL.le (x y : PL) : Prop :=
  match x.st with
  | .more => x.vals <+: y.vals
  | _ => x = y

scoped infix:50 " ⊑ " => PL.le

theorem PL.le_refl (x : PL) : x ⊑ x := by
  unfold PL.le; cases x.st <;> simp

theorem PL.le_trans {x y z : PL} (h1 : x ⊑ y) (h2 : y ⊑ z) : x ⊑ z := by
  unfold PL.le at *
  cases hx : x.st <;> simp only [hx] at h1 ⊢
  · cases hy : y.st <;> simp only [hy] at h2
    · exact List.IsPrefix.trans h1 h2
    · subst h2; exact h1
    · subst h2; exact h1
  · subst h1; simpa [hx] using h2
  · subst h1; simpa [hx] using h2

theorem PL.more_le (y : PL) : (⟨[], .more⟩ : PL) ⊑ y := by
  simp [PL.le]

theorem PL.cons_le_cons {x y : PL} (v : Val) (h : x ⊑ y) : x.cons v ⊑ y.cons v := by
  unfold PL.le at *
  cases hx : x.st <;> simp only [PL.cons, hx] at h ⊢
  · simpa using h
  · subst h; simp [hx]
  · subst h; simp [hx]

theorem PL.le_of_eq {x y : PL} (h : x = y) : x ⊑ y := h ▸ PL.le_refl x

/-- A closed observation is only below itself. -/
theorem PL.eq_of_le_of_closed {x y : PL} (h : x ⊑ y) (hc : x.st ≠ .more) : x = y := by
  unfold PL.le at h
  cases hx : x.st <;> simp only [hx] at h
  · exact absurd hx hc
  · exact h
  · exact h

theorem PL.le_cons_inv {x y : PL} {v : Val} (h : x.cons v ⊑ y) :
    ∃ y', y = y'.cons v ∧ x ⊑ y' := by
  unfold PL.le at h
  cases hx : x.st <;> simp only [PL.cons, hx] at h
  · obtain ⟨t, ht⟩ := h
    cases hy : y.vals with
    | nil => simp [hy] at ht
    | cons w ws =>
      rw [hy] at ht
      simp only [List.cons_append, List.cons.injEq] at ht
      refine ⟨⟨ws, y.st⟩, ?_, ?_⟩
      · cases y; simp_all [PL.cons]
      · simp [PL.le, hx]; exact ⟨t, ht.2⟩
  · exact ⟨x, by rw [← h]; simp [PL.cons, hx], PL.le_refl x⟩
  · exact ⟨x, by rw [← h]; simp [PL.cons, hx], PL.le_refl x⟩

/-- A chain of approximations. -/
def Chain (c : Nat → PL) : Prop := ∀ k, c k ⊑ c (k + 1)

theorem Chain.le {c : Nat → PL} (h : Chain c) {i j : Nat} (hij : i ≤ j) : c i ⊑ c j := by
  induction hij with
  | refl => exact PL.le_refl _
  | step _ ih => exact PL.le_trans ih (h _)

/-- The sequence a chain converges to, given by the set of its finite approximations. -/
def Lim (c : Nat → PL) (x : PL) : Prop := ∃ k, x ⊑ c k

theorem run_succ_le (n : Nat) (s : St) : run n s ⊑ run (n + 1) s := by
  induction n generalizing s with
  | zero => exact PL.more_le _
  | succ n ih =>
    rw [run, run]
    cases step s with
    | yield v s' => exact PL.cons_le_cons v (ih s')
    | tau s' => exact ih s'
    | done => exact PL.le_refl _
    | err => exact PL.le_refl _

theorem run_chain (s : St) : Chain (fun n => run n s) := fun n => run_succ_le n s

theorem run_mono {n m : Nat} (h : n ≤ m) (s : St) : run n s ⊑ run m s :=
  (run_chain s).le h

/-- Everything a stream can be observed to do. -/
def Obs (s : St) : PL → Prop := Lim (fun n => run n s)

theorem run_zero (s : St) : run 0 s = ⟨[], .more⟩ := rfl

theorem run_yield {s s' : St} {v : Val} (h : step s = .yield v s') (n : Nat) :
    run (n + 1) s = (run n s').cons v := by simp [run, h]

theorem run_tau {s s' : St} (h : step s = .tau s') (n : Nat) : run (n + 1) s = run n s' := by
  simp [run, h]

theorem run_done {s : St} (h : step s = .done) (n : Nat) : run (n + 1) s = ⟨[], .done⟩ := by
  simp [run, h]

theorem run_err {s : St} (h : step s = .err) (n : Nat) : run (n + 1) s = ⟨[], .err⟩ := by
  simp [run, h]

/-! ### Glue: from the two simulation lemmas of a machine to its observations -/

theorem obs_glue1 (F : PL → PL) (hF : ∀ a a', a ⊑ a' → F a ⊑ F a') (s sa : St)
    (A : ∀ n, run n s ⊑ F (run n sa)) (B : ∀ na, ∃ n, F (run na sa) ⊑ run n s)
    (ca : Nat → PL) (ha : Obs sa = Lim ca) :
    Obs s = Lim (fun k => F (ca k)) := by
  funext x; apply propext; constructor
  · rintro ⟨n, hn⟩
    have h1 : Obs sa (run n sa) := ⟨n, PL.le_refl _⟩
    rw [ha] at h1; obtain ⟨k, hk⟩ := h1
    exact ⟨k, PL.le_trans hn (PL.le_trans (A n) (hF _ _ hk))⟩
  · rintro ⟨k, hk⟩
    have h1 : Lim ca (ca k) := ⟨k, PL.le_refl _⟩
    rw [← ha] at h1; obtain ⟨na, hna⟩ := h1
    obtain ⟨n, hn⟩ := B na
    exact ⟨n, PL.le_trans hk (PL.le_trans (hF _ _ hna) hn)⟩

theorem obs_glue2 (F : PL → PL → PL)
    (hF : ∀ a a' b b', a ⊑ a' → b ⊑ b' → F a b ⊑ F a' b') (s sa sb : St)
    (A : ∀ n, run n s ⊑ F (run n sa) (run n sb))
    (B : ∀ na nb, ∃ n, F (run na sa) (run nb sb) ⊑ run n s)
    (ca cb : Nat → PL) (hca : Chain ca) (hcb : Chain cb)
    (ha : Obs sa = Lim ca) (hb : Obs sb = Lim cb) :
    Obs s = Lim (fun k => F (ca k) (cb k)) := by
  funext x; apply propext; constructor
  · rintro ⟨n, hn⟩
    have h1 : Obs sa (run n sa) := ⟨n, PL.le_refl _⟩
    have h2 : Obs sb (run n sb) := ⟨n, PL.le_refl _⟩
    rw [ha] at h1; rw [hb] at h2
    obtain ⟨k1, hk1⟩ := h1; obtain ⟨k2, hk2⟩ := h2
    refine ⟨max k1 k2, PL.le_trans hn (PL.le_trans (A n) (hF _ _ _ _ ?_ ?_))⟩
    · exact PL.le_trans hk1 (hca.le (Nat.le_max_left _ _))
    · exact PL.le_trans hk2 (hcb.le (Nat.le_max_right _ _))
  · rintro ⟨k, hk⟩
    have h1 : Lim ca (ca k) := ⟨k, PL.le_refl _⟩
    have h2 : Lim cb (cb k) := ⟨k, PL.le_refl _⟩
    rw [← ha] at h1; rw [← hb] at h2
    obtain ⟨na, hna⟩ := h1; obtain ⟨nb, hnb⟩ := h2
    obtain ⟨n, hn⟩ := B na nb
    exact ⟨n, PL.le_trans hk (PL.le_trans (hF _ _ _ _ hna hnb) hn)⟩

end Sc3Verif.C13
