/-
C13 — Pif's stream (condition, then the chosen branch).
-/
import Sc3Verif.C13.MachClump
namespace Sc3Verif.C13

def pifLoop (sc sa sb : Status) : PifPh → List Val → List Val → List Val → PL
  | .c, [], _, _ => ⟨[], sc⟩
  | .c, t :: cs, as, bs =>
    if t.truthy then pifLoop sc sa sb .t cs as bs else pifLoop sc sa sb .f cs as bs
  | .t, _, [], _ => ⟨[], sa⟩
  | .t, cs, v :: as, bs => (pifLoop sc sa sb .c cs as bs).cons v
  | .f, _, _, [] => ⟨[], sb⟩
  | .f, cs, as, v :: bs => (pifLoop sc sa sb .c cs as bs).cons v
termination_by ph cs as bs => 2 * (cs.length + as.length + bs.length) + (match ph with | .c => 1 | _ => 0)
decreasing_by all_goals simp <;> omega

def pifF (ph : PifPh) (c a b : PL) : PL := pifLoop c.st a.st b.st ph c.vals a.vals b.vals

theorem pifF_c_nil (s : Status) (a b : PL) : pifF .c ⟨[], s⟩ a b = ⟨[], s⟩ := by simp [pifF, pifLoop]
theorem pifF_c_cons (t : Val) (c a b : PL) :
    pifF .c (c.cons t) a b = pifF (if t.truthy then .t else .f) c a b := by
  simp only [pifF, PL.cons_vals, PL.cons_st, pifLoop]; split <;> rfl
theorem pifF_t_nil (s : Status) (c b : PL) : pifF .t c ⟨[], s⟩ b = ⟨[], s⟩ := by simp [pifF, pifLoop]
theorem pifF_t_cons (v : Val) (c a b : PL) : pifF .t c (a.cons v) b = (pifF .c c a b).cons v := by
  simp [pifF, pifLoop]
theorem pifF_f_nil (s : Status) (c a : PL) : pifF .f c a ⟨[], s⟩ = ⟨[], s⟩ := by simp [pifF, pifLoop]
theorem pifF_f_cons (v : Val) (c a b : PL) : pifF .f c a (b.cons v) = (pifF .c c a b).cons v := by
  simp [pifF, pifLoop]

theorem step_pifC (c a b : St) : step (.pif c a b .c) =
    match step c with
    | .yield t c' => .tau (.pif c' a b (if t.truthy then .t else .f))
    | .tau c' => .tau (.pif c' a b .c)
    | .done => .done
    | .err => .err := by
  rw [step]; cases step c <;> simp

theorem step_pifT (c a b : St) : step (.pif c a b .t) =
    match step a with
    | .yield v a' => .yield v (.pif c a' b .c)
    | .tau a' => .tau (.pif c a' b .t)
    | .done => .done
    | .err => .err := by
  rw [step]; cases step a <;> simp

theorem step_pifF (c a b : St) : step (.pif c a b .f) =
    match step b with
    | .yield v b' => .yield v (.pif c a b' .c)
    | .tau b' => .tau (.pif c a b' .f)
    | .done => .done
    | .err => .err := by
  rw [step]; cases step b <;> simp

theorem run_pif_A (n : Nat) (c a b : St) (ph : PifPh) (nc na nb : Nat)
    (hc : n ≤ nc) (ha : n ≤ na) (hb : n ≤ nb) :
    run n (.pif c a b ph) ⊑ pifF ph (run nc c) (run na a) (run nb b) := by
  induction n generalizing c a b ph nc na nb with
  | zero => exact PL.more_le _
  | succ n ih =>
    match ph with
    | .c =>
      obtain ⟨nc', rfl⟩ : ∃ k, nc = k + 1 := ⟨nc - 1, by omega⟩
      have hl := step_pifC c a b
      cases hs : step c with
      | yield t c' =>
        rw [hs] at hl; rw [run_tau hl, run_yield hs, pifF_c_cons]
        exact ih c' a b _ nc' na nb (by omega) (by omega) (by omega)
      | tau c' =>
        rw [hs] at hl; rw [run_tau hl, run_tau hs]
        exact ih c' a b _ nc' na nb (by omega) (by omega) (by omega)
      | done => rw [hs] at hl; rw [run_done hl, run_done hs, pifF_c_nil]; exact PL.le_refl _
      | err => rw [hs] at hl; rw [run_err hl, run_err hs, pifF_c_nil]; exact PL.le_refl _
    | .t =>
      obtain ⟨na', rfl⟩ : ∃ k, na = k + 1 := ⟨na - 1, by omega⟩
      have hl := step_pifT c a b
      cases hs : step a with
      | yield v a' =>
        rw [hs] at hl; rw [run_yield hl, run_yield hs, pifF_t_cons]
        exact PL.cons_le_cons v (ih c a' b _ nc na' nb (by omega) (by omega) (by omega))
      | tau a' =>
        rw [hs] at hl; rw [run_tau hl, run_tau hs]
        exact ih c a' b _ nc na' nb (by omega) (by omega) (by omega)
      | done => rw [hs] at hl; rw [run_done hl, run_done hs, pifF_t_nil]; exact PL.le_refl _
      | err => rw [hs] at hl; rw [run_err hl, run_err hs, pifF_t_nil]; exact PL.le_refl _
    | .f =>
      obtain ⟨nb', rfl⟩ : ∃ k, nb = k + 1 := ⟨nb - 1, by omega⟩
      have hl := step_pifF c a b
      cases hs : step b with
      | yield v b' =>
        rw [hs] at hl; rw [run_yield hl, run_yield hs, pifF_f_cons]
        exact PL.cons_le_cons v (ih c a b' _ nc na nb' (by omega) (by omega) (by omega))
      | tau b' =>
        rw [hs] at hl; rw [run_tau hl, run_tau hs]
        exact ih c a b' _ nc na nb' (by omega) (by omega) (by omega)
      | done => rw [hs] at hl; rw [run_done hl, run_done hs, pifF_f_nil]; exact PL.le_refl _
      | err => rw [hs] at hl; rw [run_err hl, run_err hs, pifF_f_nil]; exact PL.le_refl _

theorem run_pif_B (m : Nat) : ∀ (c a b : St) (ph : PifPh) (nc na nb : Nat), nc + na + nb ≤ m →
    ∃ n, pifF ph (run nc c) (run na a) (run nb b) ⊑ run n (.pif c a b ph) := by
  induction m with
  | zero =>
    intro c a b ph nc na nb h
    have h1 : nc = 0 := by omega
    have h2 : na = 0 := by omega
    have h3 : nb = 0 := by omega
    subst h1 h2 h3
    refine ⟨0, ?_⟩
    cases ph <;> simp [run_zero, pifF_c_nil, pifF_t_nil, pifF_f_nil] <;> exact PL.le_refl _
  | succ m ih =>
    intro c a b ph nc na nb h
    match ph with
    | .c =>
      cases nc with
      | zero => exact ⟨0, by rw [run_zero (s := c), pifF_c_nil]; exact PL.more_le _⟩
      | succ nc =>
        have hl := step_pifC c a b
        cases hs : step c with
        | yield t c' =>
          rw [hs] at hl
          obtain ⟨n, hn⟩ := ih c' a b (if t.truthy then .t else .f) nc na nb (by omega)
          exact ⟨n + 1, by rw [run_tau hl, run_yield hs, pifF_c_cons]; exact hn⟩
        | tau c' =>
          rw [hs] at hl
          obtain ⟨n, hn⟩ := ih c' a b .c nc na nb (by omega)
          exact ⟨n + 1, by rw [run_tau hl, run_tau hs]; exact hn⟩
        | done => rw [hs] at hl; exact ⟨1, by rw [run_done hl, run_done hs, pifF_c_nil]; exact PL.le_refl _⟩
        | err => rw [hs] at hl; exact ⟨1, by rw [run_err hl, run_err hs, pifF_c_nil]; exact PL.le_refl _⟩
    | .t =>
      cases na with
      | zero => exact ⟨0, by rw [run_zero (s := a), pifF_t_nil]; exact PL.more_le _⟩
      | succ na =>
        have hl := step_pifT c a b
        cases hs : step a with
        | yield v a' =>
          rw [hs] at hl
          obtain ⟨n, hn⟩ := ih c a' b .c nc na nb (by omega)
          exact ⟨n + 1, by rw [run_yield hl, run_yield hs, pifF_t_cons]; exact PL.cons_le_cons v hn⟩
        | tau a' =>
          rw [hs] at hl
          obtain ⟨n, hn⟩ := ih c a' b .t nc na nb (by omega)
          exact ⟨n + 1, by rw [run_tau hl, run_tau hs]; exact hn⟩
        | done => rw [hs] at hl; exact ⟨1, by rw [run_done hl, run_done hs, pifF_t_nil]; exact PL.le_refl _⟩
        | err => rw [hs] at hl; exact ⟨1, by rw [run_err hl, run_err hs, pifF_t_nil]; exact PL.le_refl _⟩
    | .f =>
      cases nb with
      | zero => exact ⟨0, by rw [run_zero (s := b), pifF_f_nil]; exact PL.more_le _⟩
      | succ nb =>
        have hl := step_pifF c a b
        cases hs : step b with
        | yield v b' =>
          rw [hs] at hl
          obtain ⟨n, hn⟩ := ih c a b' .c nc na nb (by omega)
          exact ⟨n + 1, by rw [run_yield hl, run_yield hs, pifF_f_cons]; exact PL.cons_le_cons v hn⟩
        | tau b' =>
          rw [hs] at hl
          obtain ⟨n, hn⟩ := ih c a b' .f nc na nb (by omega)
          exact ⟨n + 1, by rw [run_tau hl, run_tau hs]; exact hn⟩
        | done => rw [hs] at hl; exact ⟨1, by rw [run_done hl, run_done hs, pifF_f_nil]; exact PL.le_refl _⟩
        | err => rw [hs] at hl; exact ⟨1, by rw [run_err hl, run_err hs, pifF_f_nil]; exact PL.le_refl _⟩

theorem pifLoop_mono_c (sc sa sb : Status) (ph : PifPh) (cs as bs : List Val) :
    ∀ c' : PL, (⟨cs, sc⟩ : PL) ⊑ c' →
      pifLoop sc sa sb ph cs as bs ⊑ pifLoop c'.st sa sb ph c'.vals as bs := by
  fun_induction pifLoop sc sa sb ph cs as bs
  all_goals intro c' h
  case case1 =>
    rcases PL.nil_le_cases h with rfl | rfl
    · exact PL.more_le _
    · simp [pifLoop]; exact PL.le_refl _
  case case2 ht ih =>
    have h' : (PL.cons _ ⟨_, sc⟩) ⊑ c' := h
    obtain ⟨c'', rfl, hc⟩ := PL.le_cons_inv h'
    simp only [PL.cons_vals, PL.cons_st, pifLoop, ht, if_true]; exact ih c'' hc
  case case3 ht ih =>
    have h' : (PL.cons _ ⟨_, sc⟩) ⊑ c' := h
    obtain ⟨c'', rfl, hc⟩ := PL.le_cons_inv h'
    simp only [PL.cons_vals, PL.cons_st, pifLoop, ht]; exact ih c'' hc
  case case4 => simp [pifLoop]; exact PL.le_refl _
  case case5 ih => simp only [pifLoop]; exact PL.cons_le_cons _ (ih c' h)
  case case6 => simp [pifLoop]; exact PL.le_refl _
  case case7 ih => simp only [pifLoop]; exact PL.cons_le_cons _ (ih c' h)

theorem pifLoop_mono_a (sc sa sb : Status) (ph : PifPh) (cs as bs : List Val) :
    ∀ a' : PL, (⟨as, sa⟩ : PL) ⊑ a' →
      pifLoop sc sa sb ph cs as bs ⊑ pifLoop sc a'.st sb ph cs a'.vals bs := by
  fun_induction pifLoop sc sa sb ph cs as bs
  all_goals intro a' h
  case case1 => simp [pifLoop]; exact PL.le_refl _
  case case2 ht ih => simp only [pifLoop, ht, if_true]; exact ih a' h
  case case3 ht ih => simp only [pifLoop, ht]; exact ih a' h
  case case4 =>
    rcases PL.nil_le_cases h with rfl | rfl
    · exact PL.more_le _
    · simp [pifLoop]; exact PL.le_refl _
  case case5 ih =>
    have h' : (PL.cons _ ⟨_, sa⟩) ⊑ a' := h
    obtain ⟨a'', rfl, ha⟩ := PL.le_cons_inv h'
    simp only [PL.cons_vals, PL.cons_st, pifLoop]; exact PL.cons_le_cons _ (ih a'' ha)
  case case6 => simp [pifLoop]; exact PL.le_refl _
  case case7 ih => simp only [pifLoop]; exact PL.cons_le_cons _ (ih a' h)

theorem pifLoop_mono_b (sc sa sb : Status) (ph : PifPh) (cs as bs : List Val) :
    ∀ b' : PL, (⟨bs, sb⟩ : PL) ⊑ b' →
      pifLoop sc sa sb ph cs as bs ⊑ pifLoop sc sa b'.st ph cs as b'.vals := by
  fun_induction pifLoop sc sa sb ph cs as bs
  all_goals intro b' h
  case case1 => simp [pifLoop]; exact PL.le_refl _
  case case2 ht ih => simp only [pifLoop, ht, if_true]; exact ih b' h
  case case3 ht ih => simp only [pifLoop, ht]; exact ih b' h
  case case4 => simp [pifLoop]; exact PL.le_refl _
  case case5 ih => simp only [pifLoop]; exact PL.cons_le_cons _ (ih b' h)
  case case6 =>
    rcases PL.nil_le_cases h with rfl | rfl
    · exact PL.more_le _
    · simp [pifLoop]; exact PL.le_refl _
  case case7 ih =>
    have h' : (PL.cons _ ⟨_, sb⟩) ⊑ b' := h
    obtain ⟨b'', rfl, hb⟩ := PL.le_cons_inv h'
    simp only [PL.cons_vals, PL.cons_st, pifLoop]; exact PL.cons_le_cons _ (ih b'' hb)

theorem pifF_mono (ph : PifPh) {c c' a a' b b' : PL} (hc : c ⊑ c') (ha : a ⊑ a') (hb : b ⊑ b') :
    pifF ph c a b ⊑ pifF ph c' a' b' :=
  PL.le_trans (pifLoop_mono_c c.st a.st b.st ph c.vals a.vals b.vals c' hc)
    (PL.le_trans (pifLoop_mono_a c'.st a.st b.st ph c'.vals a.vals b.vals a' ha)
      (pifLoop_mono_b c'.st a'.st b.st ph c'.vals a'.vals b.vals b' hb))

theorem pifLoop_c_eq (sc sa sb : Status) (cs as bs : List Val) :
    pifLoop sc sa sb .c cs as bs = pifL sc sa sb cs as bs := by
  induction cs generalizing as bs with
  | nil => simp [pifLoop, pifL]
  | cons t cs ih =>
    by_cases ht : t.truthy = true
    · cases as with
      | nil => simp [pifLoop, pifL, ht]
      | cons v as => simp [pifLoop, pifL, ht, ih]
    · cases bs with
      | nil => simp [pifLoop, pifL, ht]
      | cons v bs => simp [pifLoop, pifL, ht, ih]

theorem pifF_c_eq (c a b : PL) : pifF .c c a b = pifD c a b := by
  simp [pifF, pifD, pifLoop_c_eq]

theorem obs_glue3 (F : PL → PL → PL → PL)
    (hF : ∀ a a' b b' c c', a ⊑ a' → b ⊑ b' → c ⊑ c' → F a b c ⊑ F a' b' c') (s sa sb sc : St)
    (A : ∀ n, run n s ⊑ F (run n sa) (run n sb) (run n sc))
    (B : ∀ na nb nc, ∃ n, F (run na sa) (run nb sb) (run nc sc) ⊑ run n s)
    (ca cb cc : Nat → PL) (hca : Chain ca) (hcb : Chain cb) (hcc : Chain cc)
    (ha : Obs sa = Lim ca) (hb : Obs sb = Lim cb) (hc : Obs sc = Lim cc) :
    Obs s = Lim (fun k => F (ca k) (cb k) (cc k)) := by
  funext x; apply propext; constructor
  · rintro ⟨n, hn⟩
    have h1 : Obs sa (run n sa) := ⟨n, PL.le_refl _⟩
    have h2 : Obs sb (run n sb) := ⟨n, PL.le_refl _⟩
    have h3 : Obs sc (run n sc) := ⟨n, PL.le_refl _⟩
    rw [ha] at h1; rw [hb] at h2; rw [hc] at h3
    obtain ⟨k1, hk1⟩ := h1; obtain ⟨k2, hk2⟩ := h2; obtain ⟨k3, hk3⟩ := h3
    refine ⟨max k1 (max k2 k3), PL.le_trans hn (PL.le_trans (A n) (hF _ _ _ _ _ _ ?_ ?_ ?_))⟩
    · exact PL.le_trans hk1 (hca.le (by omega))
    · exact PL.le_trans hk2 (hcb.le (by omega))
    · exact PL.le_trans hk3 (hcc.le (by omega))
  · rintro ⟨k, hk⟩
    have h1 : Lim ca (ca k) := ⟨k, PL.le_refl _⟩
    have h2 : Lim cb (cb k) := ⟨k, PL.le_refl _⟩
    have h3 : Lim cc (cc k) := ⟨k, PL.le_refl _⟩
    rw [← ha] at h1; rw [← hb] at h2; rw [← hc] at h3
    obtain ⟨na, hna⟩ := h1; obtain ⟨nb, hnb⟩ := h2; obtain ⟨nc, hnc⟩ := h3
    obtain ⟨n, hn⟩ := B na nb nc
    exact ⟨n, PL.le_trans hk (PL.le_trans (hF _ _ _ _ _ _ hna hnb hnc) hn)⟩

theorem obs_pif (c a b : St) (cc ca cb : Nat → PL) (hcc : Chain cc) (hca : Chain ca) (hcb : Chain cb)
    (hc : Obs c = Lim cc) (ha : Obs a = Lim ca) (hb : Obs b = Lim cb) :
    Obs (.pif c a b .c) = Lim (fun k => pifD (cc k) (ca k) (cb k)) := by
  have := obs_glue3 (fun x y z => pifF .c x y z)
    (fun _ _ _ _ _ _ h1 h2 h3 => pifF_mono .c h1 h2 h3) (.pif c a b .c) c a b
    (fun n => run_pif_A n c a b .c n n n (Nat.le_refl _) (Nat.le_refl _) (Nat.le_refl _))
    (fun nc na nb => run_pif_B (nc + na + nb) c a b .c nc na nb (Nat.le_refl _))
    cc ca cb hcc hca hcb hc ha hb
  simpa [pifF_c_eq] using this

end Sc3Verif.C13
