/-
C13 — the denotational specification: what sequence each pattern class MEANS.

A (possibly infinite, possibly never-answering) sequence is given by its finite
approximations `PL = (values known so far, status)`: `done` = the sequence ends here,
`err` = an exception is raised here, `more` = nothing is claimed about what follows.
`denE k p` is the approximation of depth `k` of the sequence `stm.embed(p)` yields:
`k` only bounds how often an endless repetition is unrolled and how many values an
endless constant shows; the sequence meant is the limit over all `k` (the approximations
form a chain, `den_mono`).  One clause per class, built from list combinators
(`append`, `concat`, `repeat`, `take`, `drop`, `zipWith`, `join`, `filter`, `bind` …).
Core Lean only (the driver evaluates it).
-/
import Sc3Verif.C13.Model
namespace Sc3Verif.C13

/-! ### Combinators on approximations -/

def PL.nil (s : Status) : PL := ⟨[], s⟩

/-- `a` followed by `b`: `b` is reached only if `a` is known to end. -/
def PL.append (a b : PL) : PL :=
  match a.st with
  | .done => ⟨a.vals ++ b.vals, b.st⟩
  | s => ⟨a.vals, s⟩

/-- `x₀ ++ x₁ ++ … ++ fin`. -/
def PL.concat (xs : List PL) (fin : PL) : PL := xs.foldr PL.append fin

def Rep.count (k : Nat) : Rep → Nat
  | .fin n => n
  | .inf => k

def Rep.final : Rep → Status
  | .fin _ => .done
  | .inf => .more

/-- `x` repeated `r` times (an endless repetition is unrolled `k` times). -/
def PL.repeat (r : Rep) (k : Nat) (x : PL) : PL :=
  PL.concat (List.replicate (r.count k) x) (PL.nil r.final)

/-- The first `n` values, then stop (nothing more is pulled). -/
def PL.take (n : Nat) (a : PL) : PL :=
  if n ≤ a.vals.length then ⟨a.vals.take n, .done⟩ else a

/-- Display helper: the first `n` values, `more` if cut. -/
def PL.cut (n : Nat) (a : PL) : PL :=
  if n < a.vals.length then ⟨a.vals.take n, .more⟩ else a

def PL.drop (n : Nat) (a : PL) : PL := ⟨a.vals.drop n, a.st⟩

def PL.tail (a : PL) : PL := ⟨a.vals.tail, a.st⟩

/-- Element-wise combination; the first operand is pulled first, the result ends with the
    operand that ends first; a failing `f` raises. -/
def zipWithL (f : Val → Val → Option Val) (sa sb : Status) : List Val → List Val → PL
  | [], _ => ⟨[], sa⟩
  | _ :: _, [] => ⟨[], sb⟩
  | x :: xs, y :: ys =>
    match f x y with
    | some w => (zipWithL f sa sb xs ys).cons w
    | none => ⟨[], .err⟩

def PL.zipWith (f : Val → Val → Option Val) (a b : PL) : PL := zipWithL f a.st b.st a.vals b.vals

def mapL (f : Val → Option Val) (s : Status) : List Val → PL
  | [] => ⟨[], s⟩
  | x :: xs =>
    match f x with
    | some w => (mapL f s xs).cons w
    | none => ⟨[], .err⟩

def PL.map (f : Val → Option Val) (a : PL) : PL := mapL f a.st a.vals

/-- Keep the values on which `f` is exactly `keep` (`is True` / `is False`). -/
def filterL (f : Val → Option Val) (keep : Bool) (s : Status) : List Val → PL
  | [] => ⟨[], s⟩
  | x :: xs =>
    match f x with
    | some (.bool r) => if r == keep then (filterL f keep s xs).cons x else filterL f keep s xs
    | some _ => filterL f keep s xs
    | none => ⟨[], .err⟩

def PL.filter (f : Val → Option Val) (keep : Bool) (a : PL) : PL := filterL f keep a.st a.vals

/-- Splice a sequence of lists. -/
def PL.join (a : PL) : PL := ⟨a.vals.flatMap Val.items, a.st⟩

/-- Each value selects a sequence that is spliced in. -/
def bindL (f : Val → Option PL) (s : Status) : List Val → PL
  | [] => ⟨[], s⟩
  | x :: xs =>
    match f x with
    | some p => p.append (bindL f s xs)
    | none => ⟨[], .err⟩

def PL.bind (a : PL) (f : Val → Option PL) : PL := bindL f a.st a.vals

/-- Rows `[x₀ᵢ, x₁ᵢ, …]` of the operands (pulled left to right, ends with the first that ends). -/
def zipRows (k : Nat) : List PL → PL
  | [] => ⟨List.replicate k (.list []), .more⟩
  | a :: t => PL.zipWith Op2.cons.eval a (zipRows k t)

/-! ### Class-specific sequence functions -/

/-- Pstutter: value `vᵢ` repeated `|nᵢ|` times. -/
def stutterD (a b : PL) : PL := (PL.zipWith Op2.stutRow.eval a b).join

/-- Pflatten: `nᵢ` levels of list `vᵢ` removed (`n` is pulled first). -/
def flattenD (a b : PL) : PL := (PL.zipWith Op2.flatRow.eval b a).join

/-- Pclump: consecutive groups of `nᵢ` values; a last incomplete non-empty group is kept. -/
def clumpL (sa sb : Status) : List Val → List Val → PL
  | _, [] => ⟨[], sb⟩
  | as, n :: ns =>
    match n.toInt? with
    | none => ⟨[], .err⟩
    | some c =>
      if c.toNat ≤ as.length then (clumpL sa sb (as.drop c.toNat) ns).cons (.list (as.take c.toNat))
      else match sa with
        | .done => if as.isEmpty then ⟨[], .done⟩ else ⟨[.list as], .done⟩
        | s => ⟨[], s⟩

def clumpD (a b : PL) : PL := clumpL a.st b.st a.vals b.vals

/-- Pdiff: differences of consecutive values. -/
def diffD (a : PL) : PL := PL.zipWith BinOp.sub.eval a.tail a

/-- Pconst: values pass while their running sum stays below `sum` (within `tol`); the value that
    reaches it — or the end of the source — is replaced by what is missing to `sum`. -/
def constSumL (sum : Val) (tol : Rat) (s : Status) : Val → List Val → PL
  | acc, [] =>
    match s with
    | .done => match BinOp.sub.eval sum acc with
      | some w => ⟨[w], .done⟩
      | none => ⟨[], .err⟩
    | s => ⟨[], s⟩
  | acc, v :: vs =>
    match BinOp.add.eval acc v, sum.num? with
    | some nx, some sm =>
      match nx.num? with
      | some nxn =>
        if sm.rat ≤ roundupNum nxn tol then
          match BinOp.sub.eval sum acc with
          | some w => ⟨[w], .done⟩
          | none => ⟨[], .err⟩
        else (constSumL sum tol s nx vs).cons v
      | none => ⟨[], .err⟩
    | _, _ => ⟨[], .err⟩

def constSumD (sum : Val) (tol : Rat) (a : PL) : PL := constSumL sum tol a.st (.int 0) a.vals

/-- Pif: each condition value picks the next value of the true- or the false-sequence. -/
def pifL (sc sa sb : Status) : List Val → List Val → List Val → PL
  | [], _, _ => ⟨[], sc⟩
  | t :: cs, as, bs =>
    if t.truthy then
      match as with
      | [] => ⟨[], sa⟩
      | v :: as' => (pifL sc sa sb cs as' bs).cons v
    else
      match bs with
      | [] => ⟨[], sb⟩
      | v :: bs' => (pifL sc sa sb cs as bs').cons v

def pifD (c a b : PL) : PL := pifL c.st a.st b.st c.vals a.vals b.vals

/-- Pseries / Pgeom: `start, start∘s₀, start∘s₀∘s₁, …` for at most `len` values. -/
def scanL (o : BinOp) (s : Status) : Val → Rep → List Val → PL
  | cur, r, svs =>
    if r.allows 0 then
      match svs with
      | [] => ⟨[], s⟩
      | sv :: t =>
        match o.eval cur sv with
        | some nx => (scanL o s nx r.pred t).cons cur
        | none => ⟨[], .err⟩
    else ⟨[], .done⟩

def scanD (o : BinOp) (start : Val) (len : Rep) (a : PL) : PL := scanL o a.st start len a.vals

/-- Pswitch1: index `wⱼ` picks the next value of the `wⱼ`-th of the parallel sequences. -/
def switch1L (s : Status) : List PL → List Val → PL
  | _, [] => ⟨[], s⟩
  | subs, iv :: ws =>
    match iv.idx? with
    | none => ⟨[], .err⟩
    | some i =>
      if subs.isEmpty then ⟨[], .err⟩ else
      let j := (Int.fmod i subs.length).toNat
      match subs[j]? with
      | some ⟨v :: rest, st⟩ => (switch1L s (subs.set j ⟨rest, st⟩) ws).cons v
      | some ⟨[], st⟩ => ⟨[], st⟩
      | none => ⟨[], .err⟩

def switch1D (subs : List PL) (w : PL) : PL := switch1L w.st subs w.vals

/-- One Pslide segment: items `pos, pos+1, …, pos+n-1` (indices wrap, or without wrapping the
    whole pattern ends at the end of the list), followed by `rest`. -/
def slideSeg (its : List PL) (wrap : Bool) (pos : Int) (rest : PL) : Nat → Nat → PL
  | 0, _ => rest
  | n + 1, j =>
    match slideLook its wrap pos j with
    | .item x => x.append (slideSeg its wrap pos rest n (j + 1))
    | .raise => ⟨[], .err⟩
    | .stopAll => ⟨[], .done⟩

/-- Pslide: `r` segments; segment lengths from `ls`, start moved by the steps `ss`. -/
def slideL (its : List PL) (wrap : Bool) (sl sst : Status) : Rep → Int → List Val → List Val → PL
  | r, pos, ls, ss =>
    if r.allows 0 then
      match ls with
      | [] => ⟨[], sl⟩
      | lv :: ls' =>
        match lv.idx? with
        | none => ⟨[], .err⟩
        | some n =>
          slideSeg its wrap pos
            (match ss with
             | [] => ⟨[], sst⟩
             | sv :: ss' =>
               match sv.idx? with
               | none => ⟨[], .err⟩
               | some d => slideL its wrap sl sst r.pred (pos + d) ls' ss') n.toNat 0
    else ⟨[], .done⟩

def slideD (its : List PL) (wrap : Bool) (r : Rep) (start : Int) (len step : PL) : PL :=
  slideL its wrap len.st step.st r start len.vals step.vals

/-- The `i`-th item of a Pser: `lst[(i + off) % size]`. -/
def serItems (xs : List PL) (off : Int) (n : Nat) : List PL :=
  (List.range n).map fun (i : Nat) =>
    match pyModGet? xs ((i : Int) + off) with
    | some x => x
    | none => ⟨[], .err⟩

/-- Pass `j` of a Place: every top-level item, sub-lists indexed by `j`. -/
def placePass (xs : List PL) (segs : List (Nat × Nat)) (j : Nat) : List PL :=
  segs.map fun (s, n) =>
    if n == 0 then ⟨[], .err⟩ else
    match xs[s + j % n]? with
    | some x => x
    | none => ⟨[], .err⟩

/-- `stm.stream` of a plain value is endless; of a pattern it is its embedding. -/
def sOfD (k : Nat) (p : Pat) (e : PL) : PL :=
  match p with
  | .const v => ⟨List.replicate k v, .more⟩
  | _ => e

/-! ### The denotation -/

mutual
/-- The sequence `stm.embed(p)` yields (approximation of depth `k`). -/
def denE (k : Nat) : Pat → PL
  | .const v => ⟨[v], .done⟩
  | .seq l r off => PL.repeat r k (PL.concat (pyRot (denEL k l) off) (PL.nil .done))
  | .ser l r off => PL.concat (serItems (denEL k l) off (r.count k)) (PL.nil r.final)
  | .pn p r => PL.repeat r k (denE k p)
  | .place l lens r off =>
      PL.concat ((List.range (r.count k)).flatMap (placePass (denEL k l) (pyRot (segments 0 lens) off)))
        (PL.nil r.final)
  | .tuple l r => PL.repeat r k ((zipRows k (denSL k l)).map Fn1.toTup.eval)
  | .switch l w =>
      (sOfD k w (denE k w)).bind fun iv => iv.idx?.bind fun i => pyModGet? (denEL k l) i
  | .switch1 l w => switch1D (denSL k l) (sOfD k w (denE k w))
  | .slide l len step start wrap r =>
      slideD (denEL k l) wrap r start (sOfD k len (denE k len)) (sOfD k step (denE k step))
  | .series start step len => scanD .add start len (sOfD k step (denE k step))
  | .geom start grow len => scanD .mul start len (sOfD k grow (denE k grow))
  | .stutter p n => stutterD (sOfD k p (denE k p)) (sOfD k n (denE k n))
  | .clump p n => clumpD (sOfD k p (denE k p)) (sOfD k n (denE k n))
  | .flatten p n => flattenD (sOfD k p (denE k p)) (sOfD k n (denE k n))
  | .diff p => diffD (sOfD k p (denE k p))
  | .pconst p sum tol => constSumD sum tol (sOfD k p (denE k p))
  | .drop p n => (sOfD k p (denE k p)).drop n
  | .len p n => (sOfD k p (denE k p)).take n
  | .collect f p => (sOfD k p (denE k p)).map f.eval
  | .select f p => (sOfD k p (denE k p)).filter f.eval true
  | .reject f p => (sOfD k p (denE k p)).filter f.eval false
  | .pif c a b => pifD (sOfD k c (denE k c)) (sOfD k a (denE k a)) (sOfD k b (denE k b))
  | .wrap p lo hi =>
      PL.zipWith Op2.wrapLo.eval (sOfD k lo (denE k lo))
        (zipRows k [sOfD k hi (denE k hi), sOfD k p (denE k p)])
  | .unop o a => (sOfD k a (denE k a)).map o.eval
  | .binop o a b => PL.zipWith o.eval (sOfD k a (denE k a)) (sOfD k b (denE k b))
  | .narop o a lo hi =>
      PL.zipWith (Op2.nar o).eval (sOfD k a (denE k a))
        (zipRows k [sOfD k lo (denE k lo), sOfD k hi (denE k hi)])
def denEL (k : Nat) : List Pat → List PL
  | [] => []
  | p :: t => denE k p :: denEL k t
def denSL (k : Nat) : List Pat → List PL
  | [] => []
  | p :: t => sOfD k p (denE k p) :: denSL k t
end

/-- The sequence of `stm.stream(p)`. -/
def denS (k : Nat) (p : Pat) : PL := sOfD k p (denE k p)

end Sc3Verif.C13
