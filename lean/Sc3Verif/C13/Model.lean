/-
C13 — executable operational model of sc3 pattern streams (core Lean only).

`Pat` is the AST of the pattern classes of `sc3/seq/patterns/{list,filter,value,func}patterns.py`
and the operator patterns of `sc3/seq/pattern.py`.  A *stream* is a value of `St`: the state of
the generator created by `__embed__` (control point + local variables + states of the
sub-streams it owns).  `initE p` is `stm.embed(p)`, `initS p` is `stm.stream(p)` (they differ only
for plain values: embedded once vs. an endless `ValueStream`).  Both are pure functions of the
pattern: a stream never shares state with its blueprint or with another stream.

`step` is ONE small step of a stream: it yields a value, makes a silent move (`tau`: a
sub-stream moved, a loop went round without yielding), stops (`StopStream`) or raises (`err`).
Silent moves make `step` total although `next()` of the real code may loop for ever
(e.g. `Pselect` that never matches).  `StopStream` propagation is as in the code: a stop of
an operand stream ends the enclosing pattern where the code catches it that way (Pbinop,
Pstutter, …), and only ends the current item where the code embeds with `yield from`
(Pseq, Pn, Pswitch, Pslide).
-/
import Sc3Verif.C13.Value
namespace Sc3Verif.C13

/-- `repeats` / `length` arguments: an int or `float('inf')`. -/
inductive Rep where
  | fin (n : Nat)
  | inf
deriving Repr, Inhabited, BEq, DecidableEq

def Rep.allows : Rep → Nat → Bool
  | .fin n, i => i < n
  | .inf, _ => true

def Rep.pred : Rep → Rep
  | .fin n => .fin (n - 1)
  | .inf => .inf

inductive Pat where
  | const (v : Val)
  | seq (l : List Pat) (r : Rep) (off : Int)
  | ser (l : List Pat) (r : Rep) (off : Int)
  | pn (p : Pat) (r : Rep)
  /-- `Place`: `l` is the concatenation of the top-level items (a plain item is a sub-list
      of size 1), `lens` their sizes. -/
  | place (l : List Pat) (lens : List Nat) (r : Rep) (off : Int)
  | tuple (l : List Pat) (r : Rep)
  | switch (l : List Pat) (w : Pat)
  | switch1 (l : List Pat) (w : Pat)
  | slide (l : List Pat) (len step : Pat) (start : Int) (wrap : Bool) (r : Rep)
  | series (start : Val) (step : Pat) (len : Rep)
  | geom (start : Val) (grow : Pat) (len : Rep)
  | stutter (p n : Pat)
  | clump (p n : Pat)
  | flatten (p n : Pat)
  | diff (p : Pat)
  | pconst (p : Pat) (sum : Val) (tol : Rat)
  | drop (p : Pat) (n : Nat)
  | len (p : Pat) (n : Nat)
  | collect (f : Fn) (p : Pat)
  | select (f : Fn) (p : Pat)
  | reject (f : Fn) (p : Pat)
  | pif (c a b : Pat)
  | wrap (p lo hi : Pat)
  | unop (o : UnOp) (a : Pat)
  | binop (o : BinOp) (a b : Pat)
  | narop (o : NarOp) (a lo hi : Pat)
deriving Repr, Inhabited

/-! ### Python list helpers -/

/-- `lst[off:]`. -/
def pyFrom (l : List α) (off : Int) : List α :=
  if off ≥ 0 then l.drop off.toNat else l.drop ((l.length : Int) + off).toNat

/-- `lst[:off]`. -/
def pyTo (l : List α) (off : Int) : List α :=
  if off ≥ 0 then l.take off.toNat else l.take ((l.length : Int) + off).toNat

/-- `lst[off:] + lst[:off]`. -/
def pyRot (l : List α) (off : Int) : List α := pyFrom l off ++ pyTo l off

/-- `lst[i]` for a Python index (negative counts from the end); `none` = IndexError. -/
def pyGet? (l : List α) (i : Int) : Option α :=
  if i ≥ 0 then l[i.toNat]? else
  if -i ≤ l.length then l[((l.length : Int) + i).toNat]? else none

/-- `lst[i % len(lst)]`; `none` = ZeroDivisionError for the empty list. -/
def pyModGet? (l : List α) (i : Int) : Option α :=
  if l.isEmpty then none else l[(Int.fmod i l.length).toNat]?

/-- Result of looking up item `pos + j` of a Pslide segment. -/
inductive Look (α : Type) where
  | item (x : α)
  | raise                   -- IndexError
  | stopAll                 -- without wrapping: past the end, the whole pattern returns

/-- `lst[bi.mod(pos + j, size)]` when wrapping; otherwise `lst[pos + j]` if `pos + j < size`
    (a negative index counts from the end as in Python) and the end of the pattern if not. -/
def slideLook {α : Type} (l : List α) (wrap : Bool) (pos : Int) (j : Nat) : Look α :=
  if wrap then
    match l[(scModInt (pos + j) l.length).toNat]? with
    | some x => .item x
    | none => .raise
  else if pos + j < l.length then
    match pyGet? l (pos + j) with
    | some x => .item x
    | none => .raise
  else .stopAll

/-- Start offsets and sizes of the top-level items of a `Place` list. -/
def segments : Nat → List Nat → List (Nat × Nat)
  | _, [] => []
  | s, n :: ns => (s, n) :: segments (s + n) ns

/-! ### Embedding schedules (Pseq, Pser, Pn, Place, Ptuple repeats) -/

/-- What the `i`-th `yield from stm.embed(item)` of the generator embeds. -/
inductive Item where
  | stop                    -- the loops are over: the generator returns
  | raise                   -- the item expression raises
  | emb (p : Pat)
  | tup (l : List Pat)      -- one pass of Ptuple's inner loop
deriving Repr, Inhabited

inductive SchedD where
  | seq (l : List Pat) (r : Rep) (off : Int)
  | ser (l : List Pat) (r : Rep) (off : Int)
  | rep (p : Pat) (r : Rep)
  | place (l : List Pat) (lens : List Nat) (r : Rep) (off : Int)
  | tup (l : List Pat) (r : Rep)
deriving Repr, Inhabited

def SchedD.item : SchedD → Nat → Item
  | .seq l r off, i =>
    if l.isEmpty then .stop else
    if r.allows (i / l.length) then
      match (pyRot l off)[i % l.length]? with
      | some p => .emb p
      | none => .stop
    else .stop
  | .ser l r off, i =>
    if r.allows i then
      match pyModGet? l ((i : Int) + off) with
      | some p => .emb p
      | none => .raise
    else .stop
  | .rep p r, i => if r.allows i then .emb p else .stop
  | .tup l r, i => if r.allows i then .tup l else .stop
  | .place l lens r off, i =>
    let segs := pyRot (segments 0 lens) off
    if segs.isEmpty then .stop else
    let j := i / segs.length
    if r.allows j then
      match segs[i % segs.length]? with
      | some (s, n) =>
        if n == 0 then .raise else
        match l[s + j % n]? with
        | some p => .emb p
        | none => .raise
      | none => .stop
    else .stop

/-! ### Stream states -/

/-- Functions applied by the one-operand mapping stream. -/
inductive Fn1 where
  | fn (f : Fn)
  | un (o : UnOp)
  | toTup                   -- `tuple(tpl)` of Ptuple
deriving Repr, Inhabited

def Fn1.eval : Fn1 → Val → Option Val
  | .fn f, x => f.eval x
  | .un o, x => o.eval x
  | .toTup, .list l => some (.tup l)
  | .toTup, _ => none

/-- The items a row contributes when it is spliced (a non-list counts as one item). -/
def Val.items : Val → List Val
  | .list l => l
  | v => [v]

/-- `abs(n)` usable by `range`. -/
def countOf (v : Val) : Option Nat := v.idx?.map Int.natAbs

/-- `utl.flatten([value], n)` for a list `value` (`n` compared numerically with the depth). -/
def flattenLevels (n : Rat) : Nat → Rat → List Val → List Val
  | 0, _, l => l
  | fuel + 1, depth, l =>
    l.flatMap fun item =>
      if depth < n then
        match item with
        | .list sub => flattenLevels n fuel (depth + 1) sub
        | x => [x]
      else [item]

def valDepth : Nat → Val → Nat
  | 0, _ => 0
  | f + 1, .list l => 1 + (l.map (valDepth f)).foldl max 0
  | _, _ => 0

/-- Functions applied by the two-operand mapping stream (first operand is pulled first). -/
inductive Op2 where
  | bin (o : BinOp)
  | cons                    -- `tpl.append` / argument collection: `a, [b…] ↦ [a, b…]`
  | nar (o : NarOp)         -- `a, [lo, hi] ↦ o(a, lo, hi)`
  | wrapLo                  -- Pwrap pulls lo, hi, value: `lo, [hi, v] ↦ wrap(v, lo, hi)`
  | stutRow                 -- Pstutter: `value, n ↦ [value] * abs(n)`
  | flatRow                 -- Pflatten: `n, value ↦ flatten([value], n)` (a non-list is itself)
deriving Repr, Inhabited

def Op2.eval : Op2 → Val → Val → Option Val
  | .bin o, a, b => o.eval a b
  | .cons, a, .list l => some (.list (a :: l))
  | .cons, _, _ => none
  | .nar o, a, .list [lo, hi] => o.eval a lo hi
  | .nar _, _, _ => none
  | .wrapLo, lo, .list [hi, v] => NarOp.wrap.eval v lo hi
  | .wrapLo, _, _ => none
  | .stutRow, v, n => (countOf n).map fun c => .list (List.replicate c v)
  | .flatRow, n, .list l =>
    n.num?.map fun q => .list (flattenLevels q.rat (valDepth 64 (.list l) + 1) 0 [.list l])
  | .flatRow, _, x => some (.list [x])

inductive ClumpPh where
  | n                                   -- `lst = []; n = n_stream.next()`
  | c (acc : List Val) (k : Nat)        -- collecting, `k` values to go
deriving Repr, Inhabited

inductive PifPh where
  | c | t | f
deriving Repr, Inhabited

inductive SlidePh where
  | l                       -- `lval = len_stream.next()`
  | e (lv j : Nat)          -- inside `for j in range(lval)`, item `j` not yet embedded
  | r (lv j : Nat)          -- embedded item `j` is running (in `cur`)
  | s                       -- `pos += step_stream.next()`
deriving Repr, Inhabited

inductive St where
  | nil                                             -- exhausted
  | constE (v : Val)                                -- `ValueStream.__embed__`: yields once
  | constS (v : Val)                                -- `ValueStream.next`: for ever
  | sched (d : SchedD) (i : Nat) (cur : St)         -- `cur` runs; item `i` is embedded next
  | map1 (f : Fn1) (s : St)
  | map2 (o : Op2) (a b : St) (ph : Option Val)
  | filt (f : Fn) (keep : Bool) (s : St)
  | join (s : St) (pend : List Val)                 -- `for item in row: yield item` over a stream of rows
  | clump (a b : St) (ph : ClumpPh)
  | diff (s : St) (prev : Option Val)
  | csum (s : St) (sum : Val) (tol : Rat) (acc : Val)
  | drop (s : St) (k : Nat)
  | len (s : St) (k : Nat)
  | switch (l : List Pat) (w : St) (cur : St) (run : Bool)
  | switch1 (subs : List St) (w : St) (ph : Option Nat)
  | slide (l : List Pat) (ls ss : St) (pos : Int) (wrap : Bool) (r : Rep) (cur : St) (ph : SlidePh)
  | scan (o : BinOp) (cur : Val) (k : Rep) (s : St)
  | pif (c a b : St) (ph : PifPh)
deriving Repr, Inhabited

/-- `stm.stream(p)` given the embedding `e = stm.embed(p)`: a plain value becomes an endless
    `ValueStream`, a pattern's stream runs its `__embed__` generator. -/
def sOf (p : Pat) (e : St) : St :=
  match p with
  | .const v => .constS v
  | _ => e

mutual
/-- `stm.embed(p)`: the generator of `p.__embed__()`. -/
def initE : Pat → St
  | .const v => .constE v
  | .seq l r off => .sched (.seq l r off) 0 .nil
  | .ser l r off => .sched (.ser l r off) 0 .nil
  | .pn p r => .sched (.rep p r) 0 .nil
  | .place l lens r off => .sched (.place l lens r off) 0 .nil
  | .tuple l r => .sched (.tup l r) 0 .nil
  | .switch l w => .switch l (sOf w (initE w)) .nil false
  | .switch1 l w => .switch1 (initSL l) (sOf w (initE w)) none
  | .slide l len step start wrap r =>
      .slide l (sOf len (initE len)) (sOf step (initE step)) start wrap r .nil .l
  | .series start step len => .scan .add start len (sOf step (initE step))
  | .geom start grow len => .scan .mul start len (sOf grow (initE grow))
  | .stutter p n => .join (.map2 .stutRow (sOf p (initE p)) (sOf n (initE n)) none) []
  | .clump p n => .clump (sOf p (initE p)) (sOf n (initE n)) .n
  | .flatten p n => .join (.map2 .flatRow (sOf n (initE n)) (sOf p (initE p)) none) []
  | .diff p => .diff (sOf p (initE p)) none
  | .pconst p sum tol => .csum (sOf p (initE p)) sum tol (.int 0)
  | .drop p n => .drop (sOf p (initE p)) n
  | .len p n => .len (sOf p (initE p)) n
  | .collect f p => .map1 (.fn f) (sOf p (initE p))
  | .select f p => .filt f true (sOf p (initE p))
  | .reject f p => .filt f false (sOf p (initE p))
  | .pif c a b => .pif (sOf c (initE c)) (sOf a (initE a)) (sOf b (initE b)) .c
  | .wrap p lo hi =>
      .map2 .wrapLo (sOf lo (initE lo))
        (.map2 .cons (sOf hi (initE hi)) (.map2 .cons (sOf p (initE p)) (.constS (.list [])) none) none) none
  | .unop o a => .map1 (.un o) (sOf a (initE a))
  | .binop o a b => .map2 (.bin o) (sOf a (initE a)) (sOf b (initE b)) none
  | .narop o a lo hi =>
      .map2 (.nar o) (sOf a (initE a))
        (.map2 .cons (sOf lo (initE lo)) (.map2 .cons (sOf hi (initE hi)) (.constS (.list [])) none) none) none
/-- `[stm.stream(i) for i in lst]`. -/
def initSL : List Pat → List St
  | [] => []
  | p :: t => sOf p (initE p) :: initSL t
/-- Ptuple's `tpl = []; for i in stream_lst: tpl.append(i.next())` over fresh streams. -/
def tupleArgs : List Pat → St
  | [] => .constS (.list [])
  | p :: t => .map2 .cons (sOf p (initE p)) (tupleArgs t) none
end

/-- `stm.stream(p)`. -/
def initS (p : Pat) : St := sOf p (initE p)

/-- One pass of Ptuple's inner `while True` loop (ends with the first operand that stops). -/
def tupleOnce (l : List Pat) : St := .map1 .toTup (tupleArgs l)

/-- The stream an embedding schedule starts for one item. -/
def Item.start : Item → Option St
  | .emb p => some (initE p)
  | .tup l => some (tupleOnce l)
  | _ => none

/-! ### One small step -/

inductive Step where
  | yield (v : Val) (s : St)
  | tau (s : St)
  | done
  | err
deriving Repr, Inhabited

/-- An embedding schedule whose running item is over: embed item `i` or finish. -/
def schedLoad (d : SchedD) (i : Nat) : Step :=
  match d.item i with
  | .stop => .done
  | .raise => .err
  | it =>
    match it.start with
    | some c => .tau (.sched d (i + 1) c)
    | none => .err

mutual
def step : St → Step
  | .nil => .done
  | .constE v => .yield v .nil
  | .constS v => .yield v (.constS v)
  | .sched d i cur =>
    match step cur with
    | .yield v c => .yield v (.sched d i c)
    | .tau c => .tau (.sched d i c)
    | .err => .err
    | .done => schedLoad d i
  | .map1 f s =>
    match step s with
    | .yield v s' =>
      match f.eval v with
      | some w => .yield w (.map1 f s')
      | none => .err
    | .tau s' => .tau (.map1 f s')
    | .done => .done
    | .err => .err
  | .map2 o a b none =>
    match step a with
    | .yield v a' => .tau (.map2 o a' b (some v))
    | .tau a' => .tau (.map2 o a' b none)
    | .done => .done
    | .err => .err
  | .map2 o a b (some x) =>
    match step b with
    | .yield y b' =>
      match o.eval x y with
      | some w => .yield w (.map2 o a b' none)
      | none => .err
    | .tau b' => .tau (.map2 o a b' (some x))
    | .done => .done
    | .err => .err
  | .filt f keep s =>
    match step s with
    | .yield v s' =>
      match f.eval v with
      | some (.bool r) => if r == keep then .yield v (.filt f keep s') else .tau (.filt f keep s')
      | some _ => .tau (.filt f keep s')
      | none => .err
    | .tau s' => .tau (.filt f keep s')
    | .done => .done
    | .err => .err
  | .join s (x :: xs) => .yield x (.join s xs)
  | .join s [] =>
    match step s with
    | .yield row s' => .tau (.join s' row.items)
    | .tau s' => .tau (.join s' [])
    | .done => .done
    | .err => .err
  | .clump a b .n =>
    match step b with
    | .yield n b' =>
      match n.toInt? with
      | some k => .tau (.clump a b' (.c [] k.toNat))
      | none => .err
    | .tau b' => .tau (.clump a b' .n)
    | .done => .done
    | .err => .err
  | .clump a b (.c acc 0) => .yield (.list acc) (.clump a b .n)
  | .clump a b (.c acc (k + 1)) =>
    match step a with
    | .yield v a' => .tau (.clump a' b (.c (acc ++ [v]) k))
    | .tau a' => .tau (.clump a' b (.c acc (k + 1)))
    | .done => if acc.isEmpty then .done else .yield (.list acc) .nil
    | .err => .err
  | .diff s none =>
    match step s with
    | .yield v s' => .tau (.diff s' (some v))
    | .tau s' => .tau (.diff s' none)
    | .done => .done
    | .err => .err
  | .diff s (some prev) =>
    match step s with
    | .yield v s' =>
      match BinOp.sub.eval v prev with
      | some w => .yield w (.diff s' (some v))
      | none => .err
    | .tau s' => .tau (.diff s' (some prev))
    | .done => .done
    | .err => .err
  | .csum s sum tol acc =>
    match step s with
    | .yield v s' =>
      match BinOp.add.eval acc v, sum.num? with
      | some nx, some sm =>
        match nx.num? with
        | some nxn =>
          if sm.rat ≤ roundupNum nxn tol then
            match BinOp.sub.eval sum acc with
            | some w => .yield w .nil
            | none => .err
          else .yield v (.csum s' sum tol nx)
        | none => .err
      | _, _ => .err
    | .tau s' => .tau (.csum s' sum tol acc)
    | .done =>
      match BinOp.sub.eval sum acc with
      | some w => .yield w .nil
      | none => .err
    | .err => .err
  | .drop s 0 =>
    match step s with
    | .yield v s' => .yield v (.drop s' 0)
    | .tau s' => .tau (.drop s' 0)
    | .done => .done
    | .err => .err
  | .drop s (k + 1) =>
    match step s with
    | .yield _ s' => .tau (.drop s' k)
    | .tau s' => .tau (.drop s' (k + 1))
    | .done => .done
    | .err => .err
  | .len _ 0 => .done
  | .len s (k + 1) =>
    match step s with
    | .yield v s' => .yield v (.len s' k)
    | .tau s' => .tau (.len s' (k + 1))
    | .done => .done
    | .err => .err
  | .switch l w cur true =>
    match step cur with
    | .yield v c => .yield v (.switch l w c true)
    | .tau c => .tau (.switch l w c true)
    | .done => .tau (.switch l w .nil false)
    | .err => .err
  | .switch l w cur false =>
    match step w with
    | .yield iv w' =>
      match iv.idx? with
      | some i =>
        match pyModGet? l i with
        | some p => .tau (.switch l w' (initE p) true)
        | none => .err
      | none => .err
    | .tau w' => .tau (.switch l w' cur false)
    | .done => .done
    | .err => .err
  | .switch1 subs w none =>
    match step w with
    | .yield iv w' =>
      match iv.idx? with
      | some i =>
        if subs.isEmpty then .err else .tau (.switch1 subs w' (some (Int.fmod i subs.length).toNat))
      | none => .err
    | .tau w' => .tau (.switch1 subs w' none)
    | .done => .done
    | .err => .err
  | .switch1 subs w (some k) => stepAt subs w k subs k
  | .slide l ls ss pos wrap r cur .l =>
    if r.allows 0 then
      match step ls with
      | .yield lv ls' =>
        match lv.idx? with
        | some n => .tau (.slide l ls' ss pos wrap r cur (.e n.toNat 0))
        | none => .err
      | .tau ls' => .tau (.slide l ls' ss pos wrap r cur .l)
      | .done => .done
      | .err => .err
    else .done
  | .slide l ls ss pos wrap r cur (.e lv j) =>
    if j < lv then
      match slideLook l wrap pos j with
      | .item p => .tau (.slide l ls ss pos wrap r (initE p) (.r lv j))
      | .raise => .err
      | .stopAll => .done
    else .tau (.slide l ls ss pos wrap r cur .s)
  | .slide l ls ss pos wrap r cur (.r lv j) =>
    match step cur with
    | .yield v c => .yield v (.slide l ls ss pos wrap r c (.r lv j))
    | .tau c => .tau (.slide l ls ss pos wrap r c (.r lv j))
    | .done => .tau (.slide l ls ss pos wrap r .nil (.e lv (j + 1)))
    | .err => .err
  | .slide l ls ss pos wrap r cur .s =>
    match step ss with
    | .yield sv ss' =>
      match sv.idx? with
      | some d => .tau (.slide l ls ss' (pos + d) wrap r.pred cur .l)
      | none => .err
    | .tau ss' => .tau (.slide l ls ss' pos wrap r cur .s)
    | .done => .done
    | .err => .err
  | .scan o cur k s =>
    if k.allows 0 then
      match step s with
      | .yield sv s' =>
        match o.eval cur sv with
        | some nx => .yield cur (.scan o nx k.pred s')
        | none => .err
      | .tau s' => .tau (.scan o cur k s')
      | .done => .done
      | .err => .err
    else .done
  | .pif c a b .c =>
    match step c with
    | .yield t c' => .tau (.pif c' a b (if t.truthy then .t else .f))
    | .tau c' => .tau (.pif c' a b .c)
    | .done => .done
    | .err => .err
  | .pif c a b .t =>
    match step a with
    | .yield v a' => .yield v (.pif c a' b .c)
    | .tau a' => .tau (.pif c a' b .t)
    | .done => .done
    | .err => .err
  | .pif c a b .f =>
    match step b with
    | .yield v b' => .yield v (.pif c a b' .c)
    | .tau b' => .tau (.pif c a b' .f)
    | .done => .done
    | .err => .err
/-- Pswitch1: step the `k`-th stream of `subs` (walking the list), keep the others. -/
def stepAt (all : List St) (w : St) (k0 : Nat) : List St → Nat → Step
  | [], _ => .err
  | s :: _, 0 =>
    match step s with
    | .yield v s' => .yield v (.switch1 (all.set k0 s') w none)
    | .tau s' => .tau (.switch1 (all.set k0 s') w (some k0))
    | .done => .done
    | .err => .err
  | _ :: t, k + 1 => stepAt all w k0 t k
end

/-- (Also makes Lean generate the equation lemmas of `step` here, once.) -/
theorem step_nil : step .nil = .done := by rw [step]

/-! ### Running a stream -/

inductive Status where
  | more     -- nothing known about what follows (fuel ran out)
  | done     -- the stream stopped (`StopStream`)
  | err      -- the stream raised
deriving Repr, Inhabited, BEq, DecidableEq

/-- A finite observation of a stream: the values seen so far and how the observation ended. -/
structure PL where
  vals : List Val
  st : Status
deriving Repr, Inhabited

def PL.cons (v : Val) (x : PL) : PL := ⟨v :: x.vals, x.st⟩

/-- What `n` small steps of a stream show. -/
def run : Nat → St → PL
  | 0, _ => ⟨[], .more⟩
  | n + 1, s =>
    match step s with
    | .yield v s' => (run n s').cons v
    | .tau s' => run n s'
    | .done => ⟨[], .done⟩
    | .err => ⟨[], .err⟩

/-- `stream.next()` with a fuel bound on silent steps (used by the driver): `none` = fuel ran out. -/
def next : Nat → St → Option Step
  | 0, _ => none
  | f + 1, s =>
    match step s with
    | .tau s' => next f s'
    | r => some r

end Sc3Verif.C13
