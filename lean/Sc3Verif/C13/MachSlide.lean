/-
C13 — Pslide's stream.
-/
import Sc3Verif.C13.MachSwitch1
namespace Sc3Verif.C13

def Look.map {α β : Type} (g : α → β) : Look α → Look β
  | .item x => .item (g x)
  | .raise => .raise
  | .stopAll => .stopAll

theorem pyGet?_map {α β} (g : α → β) (l : List α) (i : Int) : pyGet? (l.map g) i = (pyGet? l i).map g := by
  unfold pyGet?
  simp only [List.length_map]
  split
  · simp
  · split <;> simp

theorem slideLook_map {α β : Type} (g : α → β) (l : List α) (wrap : Bool) (pos : Int) (j : Nat) :
    slideLook (l.map g) wrap pos j = (slideLook l wrap pos j).map g := by
  unfold slideLook
  simp only [List.length_map, pyGet?_map, List.getElem?_map]
  split
  · cases l[(scModInt (pos + ↑j) ↑l.length).toNat]? <;> rfl
  · split
    · cases pyGet? l (pos + ↑j) <;> rfl
    · rfl

/-- What follows a segment: the step is pulled, then the next segment starts. -/
def slideAfter (its : List PL) (wrap : Bool) (sl sst : Status) (r : Rep) (pos : Int)
    (ls ss : List Val) : PL :=
  match ss with
  | [] => ⟨[], sst⟩
  | sv :: ss' =>
    match sv.idx? with
    | none => ⟨[], .err⟩
    | some d => slideL its wrap sl sst r.pred (pos + d) ls ss'

theorem slideL_nil (its wrap sl sst) (r : Rep) (pos : Int) (ss : List Val) :
    slideL its wrap sl sst r pos [] ss = if r.allows 0 then ⟨[], sl⟩ else ⟨[], .done⟩ := by
  rw [slideL]

theorem slideL_cons (its wrap sl sst) (r : Rep) (pos : Int) (lv : Val) (ls ss : List Val) :
    slideL its wrap sl sst r pos (lv :: ls) ss =
      if r.allows 0 then
        match lv.idx? with
        | none => ⟨[], .err⟩
        | some n => slideSeg its wrap pos (slideAfter its wrap sl sst r pos ls ss) n.toNat 0
      else ⟨[], .done⟩ := by
  rw [slideL.eq_def]
  simp only
  by_cases hr : r.allows 0 = true
  · simp only [hr, if_true]
    cases lv.idx? with
    | none => rfl
    | some n =>
      simp only [slideAfter]
      congr 1
  · simp [hr]

theorem slideSeg_zero (its wrap pos rest j) : slideSeg its wrap pos rest 0 j = rest := by rw [slideSeg]

theorem slideSeg_succ (its : List PL) (wrap : Bool) (pos : Int) (rest : PL) (n j : Nat) :
    slideSeg its wrap pos rest (n + 1) j =
      match slideLook its wrap pos j with
      | .item x => x.append (slideSeg its wrap pos rest n (j + 1))
      | .raise => ⟨[], .err⟩
      | .stopAll => ⟨[], .done⟩ := by
  rw [slideSeg]
  cases slideLook its wrap pos j <;> rfl

/-! ### The machine -/

theorem step_slideL (l : List Pat) (ls ss : St) (pos : Int) (wrap : Bool) (r : Rep) (cur : St) :
    step (.slide l ls ss pos wrap r cur .l) =
      if r.allows 0 then
        match step ls with
        | .yield lv ls' =>
          match lv.idx? with
          | some n => .tau (.slide l ls' ss pos wrap r cur (.e n.toNat 0))
          | none => .err
        | .tau ls' => .tau (.slide l ls' ss pos wrap r cur .l)
        | .done => .done
        | .err => .err
      else .done := by
  rw [step]; split
  · cases step ls <;> simp
    split <;> simp [*]
  · rfl

theorem step_slideE (l : List Pat) (ls ss : St) (pos : Int) (wrap : Bool) (r : Rep) (cur : St) (lv j : Nat) :
    step (.slide l ls ss pos wrap r cur (.e lv j)) =
      if j < lv then
        match slideLook l wrap pos j with
        | .item p => .tau (.slide l ls ss pos wrap r (initE p) (.r lv j))
        | .raise => .err
        | .stopAll => .done
      else .tau (.slide l ls ss pos wrap r cur .s) := by
  rw [step]; split
  · cases slideLook l wrap pos j <;> rfl
  · rfl

theorem step_slideR (l : List Pat) (ls ss : St) (pos : Int) (wrap : Bool) (r : Rep) (cur : St) (lv j : Nat) :
    step (.slide l ls ss pos wrap r cur (.r lv j)) =
      match step cur with
      | .yield v c => .yield v (.slide l ls ss pos wrap r c (.r lv j))
      | .tau c => .tau (.slide l ls ss pos wrap r c (.r lv j))
      | .done => .tau (.slide l ls ss pos wrap r .nil (.e lv (j + 1)))
      | .err => .err := by
  rw [step]; cases step cur <;> simp

theorem step_slideS (l : List Pat) (ls ss : St) (pos : Int) (wrap : Bool) (r : Rep) (cur : St) :
    step (.slide l ls ss pos wrap r cur .s) =
      match step ss with
      | .yield sv ss' =>
        match sv.idx? with
        | some d => .tau (.slide l ls ss' (pos + d) wrap r.pred cur .l)
        | none => .err
      | .tau ss' => .tau (.slide l ls ss' pos wrap r cur .s)
      | .done => .done
      | .err => .err := by
  rw [step]; cases step ss <;> simp
  split <;> simp [*]

/-- Pslide's loop by phases, on what the running item, the length stream and the step stream show. -/
def slF (its : List PL) (wrap : Bool) (r : Rep) (pos : Int) (ph : SlidePh) (cur lsP ssP : PL) : PL :=
  match ph with
  | .l => slideL its wrap lsP.st ssP.st r pos lsP.vals ssP.vals
  | .e lv j => slideSeg its wrap pos (slideAfter its wrap lsP.st ssP.st r pos lsP.vals ssP.vals) (lv - j) j
  | .r lv j =>
    cur.append (slideSeg its wrap pos (slideAfter its wrap lsP.st ssP.st r pos lsP.vals ssP.vals)
      (lv - (j + 1)) (j + 1))
  | .s => slideAfter its wrap lsP.st ssP.st r pos lsP.vals ssP.vals

theorem run_slide_A (l : List Pat) (wrap : Bool) (N : Nat) (n : Nat) :
    ∀ (ls ss cur : St) (pos : Int) (r : Rep) (ph : SlidePh) (nc nl ns : Nat),
    n ≤ nc → n ≤ nl → n ≤ ns → n ≤ N →
    run n (.slide l ls ss pos wrap r cur ph) ⊑
      slF (l.map fun p => run N (initE p)) wrap r pos ph (run nc cur) (run nl ls) (run ns ss) := by
  induction n with
  | zero => intros; exact PL.more_le _
  | succ n ih =>
    intro ls ss cur pos r ph nc nl ns hc hl hs hN
    match ph with
    | .l =>
      obtain ⟨nl', rfl⟩ : ∃ k, nl = k + 1 := ⟨nl - 1, by omega⟩
      have hst := step_slideL l ls ss pos wrap r cur
      simp only [slF]
      by_cases hr : r.allows 0 = true
      · simp only [hr, if_true] at hst
        cases hs' : step ls with
        | yield lv ls' =>
          rw [hs'] at hst; simp only at hst
          rw [run_yield hs']; simp only [PL.cons_vals, PL.cons_st, slideL_cons, hr, if_true]
          cases hi : lv.idx? with
          | none => rw [hi] at hst; rw [run_err hst]; exact PL.le_refl _
          | some k =>
            rw [hi] at hst; rw [run_tau hst]
            have := ih ls' ss cur pos r (.e k.toNat 0) nc nl' ns (by omega) (by omega) (by omega) (by omega)
            simpa [slF] using this
        | tau ls' =>
          rw [hs'] at hst; rw [run_tau hst, run_tau hs']
          have := ih ls' ss cur pos r .l nc nl' ns (by omega) (by omega) (by omega) (by omega)
          simpa [slF] using this
        | done => rw [hs'] at hst; rw [run_done hst, run_done hs']; simp [slideL_nil, hr]; exact PL.le_refl _
        | err => rw [hs'] at hst; rw [run_err hst, run_err hs']; simp [slideL_nil, hr]; exact PL.le_refl _
      · simp only [hr] at hst
        rw [run_done (by simpa using hst)]
        cases (run (nl' + 1) ls).vals <;> simp [slideL_nil, slideL_cons, hr] <;> exact PL.le_refl _
    | .e lv j =>
      have hst := step_slideE l ls ss pos wrap r cur lv j
      simp only [slF]
      by_cases hj : j < lv
      · simp only [hj, if_true] at hst
        obtain ⟨m, hm⟩ : ∃ m, lv - j = m + 1 := ⟨lv - j - 1, by omega⟩
        rw [hm, slideSeg_succ, slideLook_map]
        cases hlk : slideLook l wrap pos j with
        | item p =>
          rw [hlk] at hst; rw [run_tau hst]
          have := ih ls ss (initE p) pos r (.r lv j) N nl ns (by omega) (by omega) (by omega) (by omega)
          simp only [slF] at this
          rw [show lv - (j + 1) = m by omega] at this
          simpa [Look.map] using this
        | raise => rw [hlk] at hst; rw [run_err hst]; exact PL.le_refl _
        | stopAll => rw [hlk] at hst; rw [run_done hst]; exact PL.le_refl _
      · simp only [hj] at hst
        rw [run_tau (by simpa using hst), show lv - j = 0 by omega, slideSeg_zero]
        have := ih ls ss cur pos r .s nc nl ns (by omega) (by omega) (by omega) (by omega)
        simpa [slF] using this
    | .r lv j =>
      obtain ⟨nc', rfl⟩ : ∃ k, nc = k + 1 := ⟨nc - 1, by omega⟩
      have hst := step_slideR l ls ss pos wrap r cur lv j
      simp only [slF]
      cases hs' : step cur with
      | yield v c =>
        rw [hs'] at hst; rw [run_yield hst, run_yield hs', PL.append_cons]
        have := ih ls ss c pos r (.r lv j) nc' nl ns (by omega) (by omega) (by omega) (by omega)
        exact PL.cons_le_cons v (by simpa [slF] using this)
      | tau c =>
        rw [hs'] at hst; rw [run_tau hst, run_tau hs']
        have := ih ls ss c pos r (.r lv j) nc' nl ns (by omega) (by omega) (by omega) (by omega)
        simpa [slF] using this
      | done =>
        rw [hs'] at hst; rw [run_tau hst, run_done hs', PL.append_nil_done]
        have := ih ls ss .nil pos r (.e lv (j + 1)) nc' nl ns (by omega) (by omega) (by omega) (by omega)
        simpa [slF] using this
      | err => rw [hs'] at hst; rw [run_err hst, run_err hs', PL.append_nil_err]; exact PL.le_refl _
    | .s =>
      obtain ⟨ns', rfl⟩ : ∃ k, ns = k + 1 := ⟨ns - 1, by omega⟩
      have hst := step_slideS l ls ss pos wrap r cur
      simp only [slF]
      cases hs' : step ss with
      | yield sv ss' =>
        rw [hs'] at hst; simp only at hst
        rw [run_yield hs']; simp only [PL.cons_vals, PL.cons_st, slideAfter]
        cases hi : sv.idx? with
        | none => rw [hi] at hst; rw [run_err hst]; exact PL.le_refl _
        | some d =>
          rw [hi] at hst; rw [run_tau hst]
          have := ih ls ss' cur (pos + d) r.pred .l nc nl ns' (by omega) (by omega) (by omega) (by omega)
          simpa [slF] using this
      | tau ss' =>
        rw [hs'] at hst; rw [run_tau hst, run_tau hs']
        have := ih ls ss' cur pos r .s nc nl ns' (by omega) (by omega) (by omega) (by omega)
        simpa [slF] using this
      | done => rw [hs'] at hst; rw [run_done hst, run_done hs']; simp [slideAfter]; exact PL.le_refl _
      | err => rw [hs'] at hst; rw [run_err hst, run_err hs']; simp [slideAfter]; exact PL.le_refl _

/-! ### Lemma B -/

theorem run_slide_B_cur (l : List Pat) (ls ss : St) (pos : Int) (wrap : Bool) (r : Rep) (lv j : Nat) (Y : PL)
    (hY : ∃ n, Y ⊑ run n (.slide l ls ss pos wrap r .nil (.e lv (j + 1)))) :
    ∀ (nc : Nat) (cur : St), ∃ n, (run nc cur).append Y ⊑ run n (.slide l ls ss pos wrap r cur (.r lv j)) := by
  intro nc
  induction nc with
  | zero => intro cur; exact ⟨0, by rw [run_zero, PL.append_nil_more]; exact PL.more_le _⟩
  | succ nc ih =>
    intro cur
    have hst := step_slideR l ls ss pos wrap r cur lv j
    cases hs : step cur with
    | yield v c =>
      rw [hs] at hst
      obtain ⟨n, hn⟩ := ih c
      exact ⟨n + 1, by rw [run_yield hst, run_yield hs, PL.append_cons]; exact PL.cons_le_cons v hn⟩
    | tau c =>
      rw [hs] at hst
      obtain ⟨n, hn⟩ := ih c
      exact ⟨n + 1, by rw [run_tau hst, run_tau hs]; exact hn⟩
    | err => rw [hs] at hst; exact ⟨1, by rw [run_err hst, run_err hs, PL.append_nil_err]; exact PL.le_refl _⟩
    | done =>
      rw [hs] at hst
      obtain ⟨n, hn⟩ := hY
      exact ⟨n + 1, by rw [run_tau hst, run_done hs, PL.append_nil_done]; exact hn⟩

/-- Phase `.e` from phase `.s` (same streams), by induction on the items still to embed. -/
theorem run_slide_B_e (l : List Pat) (wrap : Bool) (N : Nat) (ls ss : St) (pos : Int) (r : Rep) (lsP ssP : PL)
    (hS : ∀ cur, ∃ n, slF (l.map fun p => run N (initE p)) wrap r pos .s ⟨[], .more⟩ lsP ssP ⊑
      run n (.slide l ls ss pos wrap r cur .s))
    (k : Nat) : ∀ (lv j : Nat) (cur : St), lv - j = k →
      ∃ n, slF (l.map fun p => run N (initE p)) wrap r pos (.e lv j) ⟨[], .more⟩ lsP ssP ⊑
        run n (.slide l ls ss pos wrap r cur (.e lv j)) := by
  induction k with
  | zero =>
    intro lv j cur hk
    have hst := step_slideE l ls ss pos wrap r cur lv j
    have hj : ¬ j < lv := by omega
    simp only [hj] at hst
    obtain ⟨n, hn⟩ := hS cur
    refine ⟨n + 1, ?_⟩
    rw [run_tau (by simpa using hst)]
    simp only [slF, hk, slideSeg_zero] at hn ⊢
    exact hn
  | succ k ih =>
    intro lv j cur hk
    have hst := step_slideE l ls ss pos wrap r cur lv j
    have hj : j < lv := by omega
    simp only [hj, if_true] at hst
    simp only [slF, hk, slideSeg_succ, slideLook_map]
    cases hlk : slideLook l wrap pos j with
    | item p =>
      rw [hlk] at hst
      obtain ⟨n, hn⟩ := run_slide_B_cur l ls ss pos wrap r lv j _ (ih lv (j + 1) .nil (by omega)) N (initE p)
      refine ⟨n + 1, ?_⟩
      rw [run_tau hst]
      simp only [slF, show lv - (j + 1) = k by omega] at hn
      simpa [Look.map] using hn
    | raise => rw [hlk] at hst; exact ⟨1, by rw [run_err hst]; exact PL.le_refl _⟩
    | stopAll => rw [hlk] at hst; exact ⟨1, by rw [run_done hst]; exact PL.le_refl _⟩

theorem run_slide_B (l : List Pat) (wrap : Bool) (N : Nat) (m : Nat) :
    (∀ (ls ss cur : St) (pos : Int) (r : Rep) (nl ns : Nat), nl + ns ≤ m →
      ∃ n, slF (l.map fun p => run N (initE p)) wrap r pos .l ⟨[], .more⟩ (run nl ls) (run ns ss) ⊑
        run n (.slide l ls ss pos wrap r cur .l)) ∧
    (∀ (ls ss cur : St) (pos : Int) (r : Rep) (nl ns : Nat), nl + ns ≤ m →
      ∃ n, slF (l.map fun p => run N (initE p)) wrap r pos .s ⟨[], .more⟩ (run nl ls) (run ns ss) ⊑
        run n (.slide l ls ss pos wrap r cur .s)) := by
  induction m with
  | zero =>
    constructor
    · intro ls ss cur pos r nl ns h
      have h1 : nl = 0 := by omega
      subst h1
      have hst := step_slideL l ls ss pos wrap r cur
      by_cases hr : r.allows 0 = true
      · exact ⟨0, by simp [slF, run_zero, slideL_nil, hr]; exact PL.more_le _⟩
      · simp only [hr] at hst
        exact ⟨1, by rw [run_done (by simpa using hst)]; simp [slF, run_zero, slideL_nil, hr]; exact PL.le_refl _⟩
    · intro ls ss cur pos r nl ns h
      have h2 : ns = 0 := by omega
      subst h2
      exact ⟨0, by simp [slF, run_zero, slideAfter]; exact PL.le_refl _⟩
  | succ m ih =>
    obtain ⟨ihL, ihS⟩ := ih
    have hS' : ∀ (ls ss cur : St) (pos : Int) (r : Rep) (nl ns : Nat), nl + ns ≤ m + 1 →
        ∃ n, slF (l.map fun p => run N (initE p)) wrap r pos .s ⟨[], .more⟩ (run nl ls) (run ns ss) ⊑
          run n (.slide l ls ss pos wrap r cur .s) := by
      intro ls ss cur pos r nl ns h
      cases ns with
      | zero => exact ⟨0, by simp [slF, run_zero, slideAfter]; exact PL.le_refl _⟩
      | succ ns =>
        have hst := step_slideS l ls ss pos wrap r cur
        cases hs : step ss with
        | yield sv ss' =>
          rw [hs] at hst; simp only at hst
          cases hi : sv.idx? with
          | none =>
            rw [hi] at hst
            exact ⟨1, by rw [run_err hst, run_yield hs]; simp [slF, slideAfter, hi]; exact PL.le_refl _⟩
          | some d =>
            rw [hi] at hst
            obtain ⟨n, hn⟩ := ihL ls ss' cur (pos + d) r.pred nl ns (by omega)
            exact ⟨n + 1, by rw [run_tau hst, run_yield hs]; simpa [slF, slideAfter, hi] using hn⟩
        | tau ss' =>
          rw [hs] at hst
          obtain ⟨n, hn⟩ := ihS ls ss' cur pos r nl ns (by omega)
          exact ⟨n + 1, by rw [run_tau hst, run_tau hs]; exact hn⟩
        | done =>
          rw [hs] at hst
          exact ⟨1, by rw [run_done hst, run_done hs]; simp [slF, slideAfter]; exact PL.le_refl _⟩
        | err =>
          rw [hs] at hst
          exact ⟨1, by rw [run_err hst, run_err hs]; simp [slF, slideAfter]; exact PL.le_refl _⟩
    refine ⟨?_, hS'⟩
    intro ls ss cur pos r nl ns h
    have hst := step_slideL l ls ss pos wrap r cur
    by_cases hr : r.allows 0 = true
    · simp only [hr, if_true] at hst
      cases nl with
      | zero => exact ⟨0, by simp [slF, run_zero, slideL_nil, hr]; exact PL.more_le _⟩
      | succ nl =>
        cases hs : step ls with
        | yield lv ls' =>
          rw [hs] at hst; simp only at hst
          cases hi : lv.idx? with
          | none =>
            rw [hi] at hst
            exact ⟨1, by rw [run_err hst, run_yield hs]; simp [slF, slideL_cons, hr, hi]; exact PL.le_refl _⟩
          | some k =>
            rw [hi] at hst
            obtain ⟨n, hn⟩ := run_slide_B_e l wrap N ls' ss pos r (run nl ls') (run ns ss)
              (fun c => ihS ls' ss c pos r nl ns (by omega)) _ k.toNat 0 cur rfl
            exact ⟨n + 1, by
              rw [run_tau hst, run_yield hs]
              simpa [slF, slideL_cons, hr, hi] using hn⟩
        | tau ls' =>
          rw [hs] at hst
          obtain ⟨n, hn⟩ := ihL ls' ss cur pos r nl ns (by omega)
          exact ⟨n + 1, by rw [run_tau hst, run_tau hs]; exact hn⟩
        | done =>
          rw [hs] at hst
          exact ⟨1, by rw [run_done hst, run_done hs]; simp [slF, slideL_nil, hr]; exact PL.le_refl _⟩
        | err =>
          rw [hs] at hst
          exact ⟨1, by rw [run_err hst, run_err hs]; simp [slF, slideL_nil, hr]; exact PL.le_refl _⟩
    · simp only [hr] at hst
      refine ⟨1, ?_⟩
      rw [run_done (by simpa using hst)]
      simp only [slF]
      cases (run nl ls).vals <;> simp [slideL_nil, slideL_cons, hr] <;> exact PL.le_refl _

/-! ### Monotonicity -/

theorem LE2.get {xs ys : List PL} (h : LE2 xs ys) (k : Nat) :
    (xs[k]? = none ∧ ys[k]? = none) ∨ (∃ x y, xs[k]? = some x ∧ ys[k]? = some y ∧ x ⊑ y) :=
  forall₂_get h k

theorem pyGet?_LE2 {xs ys : List PL} (h : LE2 xs ys) (i : Int) :
    (pyGet? xs i = none ∧ pyGet? ys i = none) ∨ (∃ x y, pyGet? xs i = some x ∧ pyGet? ys i = some y ∧ x ⊑ y) := by
  unfold pyGet?
  rw [h.length_eq]
  split
  · exact h.get _
  · split
    · exact h.get _
    · exact Or.inl ⟨rfl, rfl⟩

/-- Related item lists give related lookups. -/
theorem slideLook_LE2 {xs ys : List PL} (h : LE2 xs ys) (wrap : Bool) (pos : Int) (j : Nat) :
    (slideLook xs wrap pos j = .raise ∧ slideLook ys wrap pos j = .raise) ∨
    (slideLook xs wrap pos j = .stopAll ∧ slideLook ys wrap pos j = .stopAll) ∨
    (∃ x y, slideLook xs wrap pos j = .item x ∧ slideLook ys wrap pos j = .item y ∧ x ⊑ y) := by
  unfold slideLook
  rw [h.length_eq]
  split
  · rcases h.get (scModInt (pos + ↑j) ↑ys.length).toNat with ⟨h1, h2⟩ | ⟨x, y, h1, h2, hxy⟩
    · simp [h1, h2]
    · simp only [h1, h2]; exact Or.inr (Or.inr ⟨x, y, rfl, rfl, hxy⟩)
  · split
    · rcases pyGet?_LE2 h (pos + ↑j) with ⟨h1, h2⟩ | ⟨x, y, h1, h2, hxy⟩
      · simp [h1, h2]
      · simp only [h1, h2]; exact Or.inr (Or.inr ⟨x, y, rfl, rfl, hxy⟩)
    · exact Or.inr (Or.inl ⟨rfl, rfl⟩)

theorem slideSeg_mono {its its' : List PL} (h : LE2 its its') (wrap : Bool) (pos : Int) {rest rest' : PL}
    (hr : rest ⊑ rest') (n : Nat) : ∀ j, slideSeg its wrap pos rest n j ⊑ slideSeg its' wrap pos rest' n j := by
  induction n with
  | zero => intro j; rw [slideSeg_zero, slideSeg_zero]; exact hr
  | succ n ih =>
    intro j
    rw [slideSeg_succ, slideSeg_succ]
    rcases slideLook_LE2 h wrap pos j with ⟨h1, h2⟩ | ⟨h1, h2⟩ | ⟨x, y, h1, h2, hxy⟩
    · rw [h1, h2]; exact PL.le_refl _
    · rw [h1, h2]; exact PL.le_refl _
    · rw [h1, h2]; exact PL.append_mono hxy (ih (j + 1))

theorem slideL_mono {its its' : List PL} (h : LE2 its its') (wrap : Bool) (ls : List Val) :
    ∀ (sl sst : Status) (r : Rep) (pos : Int) (ss : List Val) (lsP' ssP' : PL),
    (⟨ls, sl⟩ : PL) ⊑ lsP' → (⟨ss, sst⟩ : PL) ⊑ ssP' →
    slideL its wrap sl sst r pos ls ss ⊑ slideL its' wrap lsP'.st ssP'.st r pos lsP'.vals ssP'.vals := by
  induction ls with
  | nil =>
    intro sl sst r pos ss lsP' ssP' hl _
    rw [slideL_nil]
    by_cases hr : r.allows 0 = true
    · simp only [hr, if_true]
      rcases PL.nil_le_cases hl with rfl | rfl
      · exact PL.more_le _
      · simp [slideL_nil, hr]; exact PL.le_refl _
    · simp only [hr]
      cases lsP'.vals <;> simp [slideL_nil, slideL_cons, hr] <;> exact PL.le_refl _
  | cons lv ls1 ih =>
    intro sl sst r pos ss lsP' ssP' hl hs
    have hl' : (PL.cons lv ⟨ls1, sl⟩) ⊑ lsP' := hl
    obtain ⟨lsP1, rfl, hl1⟩ := PL.le_cons_inv hl'
    simp only [PL.cons_vals, PL.cons_st, slideL_cons]
    split
    · cases lv.idx? with
      | none => exact PL.le_refl _
      | some n =>
        simp only
        apply slideSeg_mono h
        -- what follows the segment
        cases ss with
        | nil =>
          simp only [slideAfter]
          rcases PL.nil_le_cases hs with rfl | rfl
          · exact PL.more_le _
          · exact PL.le_refl _
        | cons sv ss1 =>
          have hs' : (PL.cons sv ⟨ss1, sst⟩) ⊑ ssP' := hs
          obtain ⟨ssP1, rfl, hs1⟩ := PL.le_cons_inv hs'
          simp only [slideAfter, PL.cons_vals, PL.cons_st]
          cases sv.idx? with
          | none => exact PL.le_refl _
          | some d => exact ih sl sst r.pred (pos + d) ss1 lsP1 ssP1 hl1 hs1
    · exact PL.le_refl _

theorem slideD_mono {its its' : List PL} (h : LE2 its its') (wrap : Bool) (r : Rep) (start : Int)
    {lsP lsP' ssP ssP' : PL} (hl : lsP ⊑ lsP') (hs : ssP ⊑ ssP') :
    slideD its wrap r start lsP ssP ⊑ slideD its' wrap r start lsP' ssP' :=
  slideL_mono h wrap lsP.vals lsP.st ssP.st r start ssP.vals lsP' ssP' hl hs

/-- Observations of Pslide from those of its length and step streams and of each item. -/
theorem obs_slide (l : List Pat) (wrap : Bool) (r : Rep) (start : Int) (ls ss : St)
    (cl cs : Nat → PL) (hcl : Chain cl) (hcs : Chain cs) (hl : Obs ls = Lim cl) (hs : Obs ss = Lim cs)
    (D : Nat → Pat → PL) (hD : ∀ p ∈ l, Chain (fun k => D k p))
    (H : ∀ p ∈ l, Obs (initE p) = Lim (fun k => D k p)) :
    Obs (.slide l ls ss start wrap r .nil .l) =
      Lim (fun k => slideD (l.map (D k)) wrap r start (cl k) (cs k)) := by
  funext x; apply propext; constructor
  · rintro ⟨n, hn⟩
    have hA := run_slide_A l wrap n n ls ss .nil start r .l n n n (Nat.le_refl _) (Nat.le_refl _)
      (Nat.le_refl _) (Nat.le_refl _)
    have h1 : Obs ls (run n ls) := ⟨n, PL.le_refl _⟩
    have h2 : Obs ss (run n ss) := ⟨n, PL.le_refl _⟩
    rw [hl] at h1; rw [hs] at h2
    obtain ⟨k1, hk1⟩ := h1; obtain ⟨k2, hk2⟩ := h2
    have hk : ∀ l' : List Pat, (∀ p ∈ l', p ∈ l) → ∃ k, ∀ p ∈ l', run n (initE p) ⊑ D k p := by
      intro l'
      induction l' with
      | nil => intro _; exact ⟨0, fun p hp => absurd hp (by simp)⟩
      | cons q t ih =>
        intro hsub
        obtain ⟨k, hk⟩ := ih (fun p hp => hsub p (List.mem_cons_of_mem _ hp))
        have h3 : Obs (initE q) (run n (initE q)) := ⟨n, PL.le_refl _⟩
        rw [H q (hsub q (by simp))] at h3; obtain ⟨k', hk'⟩ := h3
        refine ⟨max k k', fun p hp => ?_⟩
        rcases List.mem_cons.mp hp with rfl | hp
        · exact PL.le_trans hk' ((hD _ (hsub _ (by simp))).le (Nat.le_max_right _ _))
        · exact PL.le_trans (hk p hp) ((hD _ (hsub _ (List.mem_cons_of_mem _ hp))).le (Nat.le_max_left _ _))
    obtain ⟨k3, hk3⟩ := hk l (fun _ h => h)
    refine ⟨max k1 (max k2 k3), PL.le_trans hn (PL.le_trans hA ?_)⟩
    simp only [slF]
    apply slideD_mono
    · apply forall₂_map_of_mem
      intro p hp; exact PL.le_trans (hk3 p hp) ((hD p hp).le (by omega))
    · exact PL.le_trans hk1 (hcl.le (by omega))
    · exact PL.le_trans hk2 (hcs.le (by omega))
  · rintro ⟨k, hk⟩
    have h1 : Lim cl (cl k) := ⟨k, PL.le_refl _⟩
    have h2 : Lim cs (cs k) := ⟨k, PL.le_refl _⟩
    rw [← hl] at h1; rw [← hs] at h2
    obtain ⟨nl, hnl⟩ := h1; obtain ⟨ns, hns⟩ := h2
    have hN : ∀ l' : List Pat, (∀ p ∈ l', p ∈ l) → ∃ N, ∀ p ∈ l', D k p ⊑ run N (initE p) := by
      intro l'
      induction l' with
      | nil => intro _; exact ⟨0, fun p hp => absurd hp (by simp)⟩
      | cons q t ih =>
        intro hsub
        obtain ⟨N, hN⟩ := ih (fun p hp => hsub p (List.mem_cons_of_mem _ hp))
        have h3 : Lim (fun k => D k q) (D k q) := ⟨k, PL.le_refl _⟩
        rw [← H q (hsub q (by simp))] at h3; obtain ⟨N', hN'⟩ := h3
        refine ⟨max N N', fun p hp => ?_⟩
        rcases List.mem_cons.mp hp with rfl | hp
        · exact PL.le_trans hN' (run_mono (Nat.le_max_right _ _) _)
        · exact PL.le_trans (hN p hp) (run_mono (Nat.le_max_left _ _) _)
    obtain ⟨N, hN⟩ := hN l (fun _ h => h)
    obtain ⟨n, hn⟩ := (run_slide_B l wrap N (nl + ns)).1 ls ss .nil start r nl ns (Nat.le_refl _)
    refine ⟨n, PL.le_trans hk (PL.le_trans ?_ hn)⟩
    simp only [slF]
    apply slideD_mono
    · apply forall₂_map_of_mem; intro p hp; exact hN p hp
    · exact hnl
    · exact hns

end Sc3Verif.C13
