/-
C13 — the classes that embed item after item: Pn, Ptuple, Pseq, Pser, Place.
-/
import Sc3Verif.C13.Main
import Sc3Verif.C13.MachSlide
namespace Sc3Verif.C13

/-- What an item of a schedule denotes. -/
def denItem (k : Nat) : Item → PL
  | .emb p => denE k p
  | .tup l => (zipRows k (denSL k l)).map Fn1.toTup.eval
  | _ => ⟨[], .err⟩

/-- The item's own stream shows what the item denotes. -/
def ItemGood : Item → Prop
  | .emb p => Good p
  | .tup l => Obs (tupleOnce l) = Lim (fun k => denItem k (.tup l)) ∧ Chain (fun k => denItem k (.tup l))
  | _ => True

theorem itemGood_chain {it : Item} (h : ItemGood it) : Chain (fun k => denItem k it) := by
  cases it with
  | stop => exact Chain.const _
  | raise => exact Chain.const _
  | emb p => exact h.2
  | tup l => exact h.2

theorem itemGood_obs {it : Item} (h : ItemGood it) {c : St} (hc : it.start = some c) :
    Obs c = Lim (fun k => denItem k it) := by
  cases it with
  | stop => simp [Item.start] at hc
  | raise => simp [Item.start] at hc
  | emb p => simp only [Item.start, Option.some.injEq] at hc; subst hc; exact h.1
  | tup l => simp only [Item.start, Option.some.injEq] at hc; subst hc; exact h.1

theorem flatMap_singleton_const {α} (x : α) (c : Nat) :
    (List.range c).flatMap (fun _ => [x]) = List.replicate c x := by
  induction c with
  | zero => rfl
  | succ c ih => rw [List.range_succ, List.flatMap_append, ih]; simp [List.replicate_succ']

theorem good_of_single (p : Pat) (d : SchedD) (hinit : initE p = .sched d 0 .nil) (r : Rep) (it : Item)
    (hit : it ≠ .stop) (hgood : ItemGood it)
    (hitem : ∀ j, d.item j = if r.allows j then it else .stop)
    (hden : ∀ k, denE k p = PL.repeat r k (itemPL (denItem k) it)) : Good p := by
  have hIG : ∀ j, ItemGood (d.item j) := by
    intro j; rw [hitem]; split
    · exact hgood
    · trivial
  refine good_of_passes p d hinit denItem (fun j => itemGood_chain (hIG j))
    (fun j c hc => itemGood_obs (hIG j) hc) (fun _ _ => it) 1 (by omega) r ?_ (fun _ _ _ => hit) ?_
  · intro j t ht
    have : t = 0 := by omega
    subst this; simpa using hitem j
  · intro k
    rw [hden k, PL.repeat]
    congr 1
    have : passPL (denItem k) (fun _ _ => it) 1 = fun _ => [itemPL (denItem k) it] := by
      funext j; simp [passPL]
    rw [this, flatMap_singleton_const]

theorem good_pn (r : Rep) {p : Pat} (h : Good p) : Good (.pn p r) := by
  refine good_of_single (.pn p r) (.rep p r) rfl r (.emb p) (by simp) h (fun j => rfl) ?_
  intro k; simp [denE, itemPL, denItem]

/-! ### Ptuple -/

theorem obs_tupleArgs (l : List Pat) (hl : ∀ p ∈ l, Good p) :
    Obs (tupleArgs l) = Lim (fun k => zipRows k (denSL k l)) ∧ Chain (fun k => zipRows k (denSL k l)) := by
  induction l with
  | nil =>
    simp only [tupleArgs, denSL, zipRows]
    exact ⟨obs_constS _, chain_constS _⟩
  | cons p t ih =>
    obtain ⟨hot, hct⟩ := ih (fun q hq => hl q (List.mem_cons_of_mem _ hq))
    obtain ⟨hop, hcp⟩ := goodS_of_good (hl p (by simp))
    simp only [tupleArgs, denSL, zipRows]
    exact ⟨obs_map2 .cons _ _ _ _ hcp hct hop hot, hcp.map2 hct _ (fun _ _ _ _ => PL.zipWith_mono _)⟩

theorem itemGood_tup (l : List Pat) (hl : ∀ p ∈ l, Good p) : ItemGood (.tup l) := by
  obtain ⟨ho, hc⟩ := obs_tupleArgs l hl
  exact ⟨obs_map1 .toTup _ _ ho, hc.map1 _ (fun _ _ => mapL_mono _)⟩

theorem good_tuple (r : Rep) {l : List Pat} (hl : ∀ p ∈ l, Good p) : Good (.tuple l r) := by
  refine good_of_single (.tuple l r) (.tup l r) rfl r (.tup l) (by simp) (itemGood_tup l hl)
    (fun j => rfl) ?_
  intro k; simp [denE, itemPL, denItem]

/-! ### Pser -/

/-- The `j`-th item of a Pser. -/
def serItem (l : List Pat) (off : Int) (j : Nat) : Item :=
  match pyModGet? l ((j : Int) + off) with
  | some p => .emb p
  | none => .raise

theorem serItem_good {l : List Pat} (hl : ∀ p ∈ l, Good p) (off : Int) (j : Nat) :
    ItemGood (serItem l off j) := by
  unfold serItem
  cases h : pyModGet? l ((j : Int) + off) with
  | none => trivial
  | some p => exact hl p (pyModGet?_mem h)

theorem flatMap_singleton_map {α β} (f : α → β) (l : List α) : l.flatMap (fun a => [f a]) = l.map f := by
  induction l with
  | nil => rfl
  | cons a t ih => simp [ih]

theorem good_ser (r : Rep) (off : Int) {l : List Pat} (hl : ∀ p ∈ l, Good p) : Good (.ser l r off) := by
  have hitem : ∀ j, (SchedD.ser l r off).item j = if r.allows j then serItem l off j else .stop := by
    intro j; simp only [SchedD.item, serItem]; split <;> rfl
  have hIG : ∀ j, ItemGood ((SchedD.ser l r off).item j) := by
    intro j; rw [hitem]; split
    · exact serItem_good hl off j
    · trivial
  refine good_of_passes (.ser l r off) (.ser l r off) rfl denItem (fun j => itemGood_chain (hIG j))
    (fun j c hc => itemGood_obs (hIG j) hc) (fun j _ => serItem l off j) 1 (by omega) r ?_ ?_ ?_
  · intro j t ht
    have : t = 0 := by omega
    subst this; simpa using hitem j
  · intro j t _; unfold serItem; split <;> simp
  · intro k
    simp only [denE]
    congr 1
    have : passPL (denItem k) (fun j _ => serItem l off j) 1 = fun j => [itemPL (denItem k) (serItem l off j)] := by
      funext j; simp [passPL]
    rw [this, flatMap_singleton_map, serItems]
    apply List.map_congr_left
    intro j _
    simp only [serItem, denEL_eq_map, pyModGet?_map]
    cases pyModGet? l ((j : Int) + off) <;> simp [itemPL, denItem]

/-! ### Pseq -/

theorem pyRot_length {α} (l : List α) (off : Int) : (pyRot l off).length = l.length := by
  unfold pyRot pyFrom pyTo
  split <;> simp <;> omega

theorem pyRot_map {α β} (f : α → β) (l : List α) (off : Int) : pyRot (l.map f) off = (pyRot l off).map f := by
  unfold pyRot pyFrom pyTo
  split <;> simp [List.map_drop, List.map_take]

theorem range_map_getElem? {α β} (L : List α) (F : Option α → β) :
    (List.range L.length).map (fun t => F (L[t]?)) = L.map (fun x => F (some x)) := by
  apply List.ext_getElem
  · simp
  · intro i h1 h2
    simp at h1
    simp [List.getElem?_eq_getElem h1]

theorem mul_add_div_mod (j n t : Nat) (ht : t < n) : (j * n + t) / n = j ∧ (j * n + t) % n = t := by
  have hn : 0 < n := by omega
  constructor
  · rw [Nat.mul_comm, Nat.mul_add_div hn, Nat.div_eq_of_lt ht]; omega
  · rw [Nat.mul_comm, Nat.mul_add_mod, Nat.mod_eq_of_lt ht]

theorem concat_replicate_concat (xs : List PL) (c : Nat) (fin : PL) :
    PL.concat (List.replicate c (PL.concat xs ⟨[], .done⟩)) fin =
      PL.concat ((List.range c).flatMap (fun _ => xs)) fin := by
  induction c with
  | zero => rfl
  | succ c ih =>
    rw [List.replicate_succ, PL.concat_cons, ih, PL.concat_done_append, List.range_succ_eq_map,
      List.flatMap_cons, PL.concat_append]
    simp [List.flatMap_map]

/-- Position `t` of a pass of a Pseq (`L` = the rotated list). -/
def seqItem (L : List Pat) (t : Nat) : Item :=
  match L[t]? with
  | some p => .emb p
  | none => .raise

theorem mem_pyRot {α} {l : List α} {off : Int} {x : α} (h : x ∈ pyRot l off) : x ∈ l := by
  unfold pyRot pyFrom pyTo at h
  split at h <;> simp at h <;> rcases h with h | h
  all_goals first | exact List.mem_of_mem_drop h | exact List.mem_of_mem_take h

theorem good_seq (r : Rep) (off : Int) {l : List Pat} (hne : l ≠ []) (hl : ∀ p ∈ l, Good p) :
    Good (.seq l r off) := by
  have hn : 0 < l.length := List.length_pos_iff.mpr hne
  have hemp : l.isEmpty = false := by cases l <;> simp_all
  have hitem : ∀ j t, t < l.length → (SchedD.seq l r off).item (j * l.length + t) =
      if r.allows j then seqItem (pyRot l off) t else .stop := by
    intro j t ht
    obtain ⟨h1, h2⟩ := mul_add_div_mod j l.length t ht
    simp only [SchedD.item, hemp, h1, h2, seqItem]
    have : t < (pyRot l off).length := by rw [pyRot_length]; exact ht
    simp [List.getElem?_eq_getElem this]
  have hIGi : ∀ t, ItemGood (seqItem (pyRot l off) t) := by
    intro t; unfold seqItem
    cases h : (pyRot l off)[t]? with
    | none => trivial
    | some p => exact hl p (mem_pyRot (List.mem_of_getElem? h))
  have hIG : ∀ i, ItemGood ((SchedD.seq l r off).item i) := by
    intro i
    have hi := hitem (i / l.length) (i % l.length) (Nat.mod_lt _ hn)
    rw [Nat.div_add_mod' i l.length] at hi
    rw [hi]; split
    · exact hIGi _
    · trivial
  refine good_of_passes (.seq l r off) (.seq l r off) rfl denItem (fun j => itemGood_chain (hIG j))
    (fun j c hc => itemGood_obs (hIG j) hc) (fun _ t => seqItem (pyRot l off) t) l.length hn r hitem ?_ ?_
  · intro j t _; unfold seqItem; split <;> simp
  · intro k
    simp only [denE, PL.repeat, PL.nil]
    rw [concat_replicate_concat]
    congr 2
    funext j
    simp only [passPL, denEL_eq_map, pyRot_map]
    have := range_map_getElem? (pyRot l off) (fun o => itemPL (denItem k) (match o with | some p => .emb p | none => .raise))
    rw [pyRot_length] at this
    simp only [seqItem]
    rw [this]
    apply List.map_congr_left
    intro p _; simp [itemPL, denItem]

/-! ### Place -/

/-- Position `t` of pass `j` of a Place (`segs` = the rotated top-level items). -/
def placeItemOf (l : List Pat) (j : Nat) : Option (Nat × Nat) → Item
  | some (s, n) =>
    if n == 0 then .raise else
    match l[s + j % n]? with
    | some p => .emb p
    | none => .raise
  | none => .raise

theorem placeItemOf_good {l : List Pat} (hl : ∀ p ∈ l, Good p) (j : Nat) (o : Option (Nat × Nat)) :
    ItemGood (placeItemOf l j o) := by
  unfold placeItemOf
  cases o with
  | none => trivial
  | some sn =>
    obtain ⟨s, n⟩ := sn
    simp only
    split
    · trivial
    · cases h : l[s + j % n]? with
      | none => trivial
      | some p => exact hl p (List.mem_of_getElem? h)

theorem placeItemOf_ne_stop (l : List Pat) (j : Nat) (o : Option (Nat × Nat)) : placeItemOf l j o ≠ .stop := by
  unfold placeItemOf
  cases o with
  | none => simp
  | some sn =>
    obtain ⟨s, n⟩ := sn
    simp only
    split
    · simp
    · split <;> simp

theorem good_place (r : Rep) (off : Int) {l : List Pat} {lens : List Nat}
    (hne : pyRot (segments 0 lens) off ≠ []) (hl : ∀ p ∈ l, Good p) : Good (.place l lens r off) := by
  generalize hsegs : pyRot (segments 0 lens) off = segs at hne
  have hn : 0 < segs.length := List.length_pos_iff.mpr hne
  have hemp : segs.isEmpty = false := by cases segs <;> simp_all
  have hitem : ∀ j t, t < segs.length → (SchedD.place l lens r off).item (j * segs.length + t) =
      if r.allows j then placeItemOf l j (segs[t]?) else .stop := by
    intro j t ht
    obtain ⟨h1, h2⟩ := mul_add_div_mod j segs.length t ht
    simp only [SchedD.item, hsegs, hemp, h1, h2, placeItemOf]
    simp only [List.getElem?_eq_getElem ht]
    by_cases ha : r.allows j = true
    · simp only [ha, if_true]
      by_cases hz : (segs[t].snd == 0) = true
      · simp [hz]
      · simp only [hz]
        cases l[segs[t].fst + j % segs[t].snd]? <;> simp
    · simp [ha]
  have hIG : ∀ i, ItemGood ((SchedD.place l lens r off).item i) := by
    intro i
    have hi := hitem (i / segs.length) (i % segs.length) (Nat.mod_lt _ hn)
    rw [Nat.div_add_mod' i segs.length] at hi
    rw [hi]; split
    · exact placeItemOf_good hl _ _
    · trivial
  refine good_of_passes (.place l lens r off) (.place l lens r off) rfl denItem
    (fun j => itemGood_chain (hIG j)) (fun j c hc => itemGood_obs (hIG j) hc)
    (fun j t => placeItemOf l j (segs[t]?)) segs.length hn r hitem
    (fun j t _ => placeItemOf_ne_stop l j _) ?_
  · intro k
    simp only [denE, hsegs]
    congr 2
    funext j
    simp only [passPL, placePass]
    rw [range_map_getElem? segs (fun o => itemPL (denItem k) (placeItemOf l j o))]
    apply List.map_congr_left
    intro sn _
    obtain ⟨s, n⟩ := sn
    simp only [placeItemOf, denEL_eq_map]
    split
    · simp [itemPL]
    · rw [List.getElem?_map]
      cases l[s + j % n]? <;> simp [itemPL, denItem]

/-! ### Pswitch1, Pslide -/

theorem good_switch1 {l : List Pat} {w : Pat} (hl : ∀ p ∈ l, Good p) (hw : Good w) :
    Good (.switch1 l w) := by
  obtain ⟨how, hcw⟩ := goodS_of_good hw
  constructor
  · have := obs_switch1 l (fun k p => denS k p) (fun p hp => (goodS_of_good (hl p hp)).2)
      (fun p hp => (goodS_of_good (hl p hp)).1) (initS w) _ hcw how
    have e : ∀ k, l.map (fun p => denS k p) = l.map (denS k) := fun _ => rfl
    simp only [initE, denE, denSL_eq_map]
    exact this
  · intro k
    show denE k (.switch1 l w) ⊑ denE (k + 1) (.switch1 l w)
    simp only [denE, denSL_eq_map]
    exact switch1D_mono (forall₂_map_of_mem l _ _ (fun p hp => (goodS_of_good (hl p hp)).2 k)) (hcw k)

theorem good_slide {l : List Pat} {len step : Pat} (start : Int) (wrap : Bool) (r : Rep)
    (hl : ∀ p ∈ l, Good p) (hlen : Good len) (hstep : Good step) :
    Good (.slide l len step start wrap r) := by
  obtain ⟨hol, hcl⟩ := goodS_of_good hlen
  obtain ⟨hos, hcs⟩ := goodS_of_good hstep
  constructor
  · have := obs_slide l wrap r start (initS len) (initS step) _ _ hcl hcs hol hos (fun k p => denE k p)
      (fun p hp => (hl p hp).2) (fun p hp => (hl p hp).1)
    simpa [initE, denE, denEL_eq_map, denS, initS] using this
  · intro k
    show denE k (.slide l len step start wrap r) ⊑ denE (k + 1) (.slide l len step start wrap r)
    simp only [denE, denEL_eq_map]
    exact slideD_mono (forall₂_map_of_mem l _ _ (fun p hp => (hl p hp).2 k)) wrap r start (hcl k) (hcs k)

end Sc3Verif.C13
