/-
C13 — embedding schedules as concatenations: `schedF` over a stretch of items that does not
stop is the concatenation of what the items show.
-/
import Sc3Verif.C13.MachSched
namespace Sc3Verif.C13

/-- What an item contributes (an item expression that raises contributes the exception). -/
def itemPL (g : Item → PL) : Item → PL
  | .raise => ⟨[], .err⟩
  | .stop => ⟨[], .done⟩
  | it => g it

theorem schedF_step (d : SchedD) (g : Item → PL) (m i : Nat) (h : d.item i ≠ .stop) :
    schedF d g (m + 1) i = (itemPL g (d.item i)).append (schedF d g m (i + 1)) := by
  rw [schedF_succ]
  cases hi : d.item i with
  | stop => exact absurd hi h
  | raise => simp [itemPL, PL.append_nil_err]
  | emb p => simp [itemPL]
  | tup l => simp [itemPL]

theorem schedF_stop (d : SchedD) (g : Item → PL) (m i : Nat) (h : d.item i = .stop) :
    schedF d g (m + 1) i = ⟨[], .done⟩ := by
  rw [schedF_succ, h]

theorem PL.concat_cons (x : PL) (xs : List PL) (fin : PL) :
    PL.concat (x :: xs) fin = x.append (PL.concat xs fin) := rfl

theorem PL.concat_nil (fin : PL) : PL.concat [] fin = fin := rfl

theorem PL.concat_append (xs ys : List PL) (fin : PL) :
    PL.concat (xs ++ ys) fin = PL.concat xs (PL.concat ys fin) := by
  simp [PL.concat, List.foldr_append]

theorem schedF_eq_concat (d : SchedD) (g : Item → PL) (t : Nat) : ∀ (m i : Nat),
    (∀ j, j < t → d.item (i + j) ≠ .stop) →
    schedF d g (t + m) i =
      PL.concat ((List.range t).map fun j => itemPL g (d.item (i + j))) (schedF d g m (i + t)) := by
  induction t with
  | zero => intro m i _; simp [PL.concat_nil]
  | succ t ih =>
    intro m i h
    have h0 := h 0 (by omega)
    rw [show t + 1 + m = (t + m) + 1 by omega, schedF_step d g _ i (by simpa using h0)]
    rw [ih m (i + 1) (fun j hj => by have := h (j + 1) (by omega); simpa [Nat.add_assoc, Nat.add_comm 1 j] using this)]
    rw [List.range_succ_eq_map, List.map_cons, PL.concat_cons]
    simp only [List.map_map, Nat.add_zero]
    congr 2
    · apply List.map_congr_left
      intro j _
      simp [Function.comp, Nat.add_assoc, Nat.add_comm 1 j]
    · simp [Nat.add_assoc, Nat.add_comm 1 t]

/-- `X` repeated, where `X` is itself a concatenation that ends. -/
theorem PL.concat_done_append (xs : List PL) (Y : PL) :
    (PL.concat xs ⟨[], .done⟩).append Y = PL.concat xs Y := by
  induction xs with
  | nil => simp [PL.concat_nil, PL.append_nil_done]
  | cons x xs ih =>
    rw [PL.concat_cons, PL.concat_cons, ← ih]
    -- associativity of append
    obtain ⟨xv, xs'⟩ := x
    cases xs' <;> simp [PL.append]
    cases (PL.concat xs ⟨[], .done⟩).st <;> simp

/-! ### Schedules made of passes of `n` items -/

/-- What pass `j` shows: its `n` items one after the other. -/
def passPL (g : Item → PL) (P : Nat → Nat → Item) (n j : Nat) : List PL :=
  (List.range n).map fun t => itemPL g (P j t)

theorem sched_passes (d : SchedD) (g : Item → PL) (P : Nat → Nat → Item) (n : Nat) (r : Rep)
    (hitem : ∀ j t, t < n → d.item (j * n + t) = if r.allows j then P j t else .stop)
    (hns : ∀ j t, t < n → P j t ≠ .stop) (q : Nat) : ∀ (j0 m : Nat),
    (∀ j, j < q → r.allows (j0 + j) = true) →
    schedF d g (q * n + m) (j0 * n) =
      PL.concat ((List.range q).flatMap fun j => passPL g P n (j0 + j)) (schedF d g m ((j0 + q) * n)) := by
  induction q with
  | zero => intro j0 m _; simp [PL.concat_nil]
  | succ q ih =>
    intro j0 m hall
    have h0 : r.allows j0 = true := by simpa using hall 0 (by omega)
    rw [show (q + 1) * n + m = n + (q * n + m) by rw [Nat.add_mul]; omega]
    rw [schedF_eq_concat d g n (q * n + m) (j0 * n) (fun t ht => by
      rw [hitem j0 t ht, h0]; simpa using hns j0 t ht)]
    rw [show j0 * n + n = (j0 + 1) * n by rw [Nat.add_mul]; omega]
    rw [ih (j0 + 1) m (fun j hj => by
      have := hall (j + 1) (by omega); simpa [Nat.add_assoc, Nat.add_comm 1 j] using this)]
    rw [List.range_succ_eq_map, List.flatMap_cons, PL.concat_append]
    congr 1
    · simp only [passPL, Nat.add_zero]
      apply List.map_congr_left
      intro t ht
      rw [hitem j0 t (by simpa using ht), h0]; rfl
    · congr 1
      · simp only [List.flatMap_map]
        congr 1
        funext j
        simp [Nat.add_assoc, Nat.add_comm 1 j]
      · simp [Nat.add_assoc, Nat.add_comm 1 q]

/-- How many items have to be looked at for depth `k`. -/
def Rep.items (n k : Nat) : Rep → Nat
  | .fin q => q * n + 1
  | .inf => k * n

theorem Rep.allows_fin (q j : Nat) : (Rep.fin q).allows j = decide (j < q) := rfl

/-- A schedule of passes shows the concatenation of its passes. -/
theorem sched_passes_total (d : SchedD) (g : Item → PL) (P : Nat → Nat → Item) (n : Nat) (hn : 0 < n)
    (r : Rep)
    (hitem : ∀ j t, t < n → d.item (j * n + t) = if r.allows j then P j t else .stop)
    (hns : ∀ j t, t < n → P j t ≠ .stop) (k m : Nat) :
    schedF d g (r.items n k + (match r with | .fin _ => m | .inf => 0)) 0 =
      PL.concat ((List.range (r.count k)).flatMap (passPL g P n)) (PL.nil r.final) := by
  cases r with
  | fin q =>
    have := sched_passes d g P n (.fin q) hitem hns q 0 (1 + m) (fun j hj => by simp [Rep.allows, hj])
    simp only [Nat.zero_mul, Nat.zero_add] at this
    rw [show Rep.items n k (.fin q) + m = q * n + (1 + m) by simp [Rep.items]; omega, this]
    simp only [Rep.count, Rep.final, PL.nil]
    congr 1
    rw [show 1 + m = m + 1 by omega]
    apply schedF_stop
    have := hitem q 0 hn
    simpa [Rep.allows] using this
  | inf =>
    have := sched_passes d g P n .inf hitem hns k 0 0 (fun j _ => rfl)
    simp only [Nat.zero_mul, Nat.zero_add, Nat.add_zero] at this
    simp only [Rep.items, Nat.add_zero, this, Rep.count, Rep.final, PL.nil]
    rfl

end Sc3Verif.C13
