/-
C13 line-protocol driver:  `lake env lean --run Sc3Verif/C13/Driver.lean < ops`
  reset            new case                                   -> `reset`
  pat <sexpr>      set the pattern                            -> `ok` | `parse-error`
  new              `stm.stream(pattern)`                      -> stream id
  next <id>        one `next()` on that stream (machine)      -> value | STOP | ERR | TIMEOUT
  den <k> <n>      first `n` values of the denotation at depth `k`
-/
import Sc3Verif.C13.Sexp
import Sc3Verif.C13.Spec
import Sc3Verif.C13.Session
open Sc3Verif.C13

structure DSt where
  pat : Option Pat := none
  streams : Array (Option St) := #[]     -- `none` = stopped or raised

def fuel : Nat := 200000

partial def loop (h out : IO.FS.Stream) (d : DSt) : IO Unit := do
  let line ← h.getLine
  if line.isEmpty then return ()
  let l := line.trimAscii.toString
  if l == "reset" then
    out.putStrLn "reset"; loop h out {}
  else if l.startsWith "pat " then
    match (readSx (l.drop 4).toString).bind sxPat with
    | some p => out.putStrLn "ok"; loop h out { d with pat := some p }
    | none => out.putStrLn "parse-error"; loop h out d
  else if l == "new" then
    match d.pat with
    | some p =>
      out.putStrLn s!"{d.streams.size}"
      loop h out { d with streams := d.streams.push (some (initS p)) }
    | none => out.putStrLn "no-pattern"; loop h out d
  else if l.startsWith "next " then
    match (l.drop 5).toString.toNat? with
    | some i =>
      match d.streams[i]? with
      | some slot =>
        let (seen, slot') := slotNext fuel slot
        out.putStrLn (match seen with
          | .val v => fmtVal v | .stop => "STOP" | .raised => "ERR" | .hang => "TIMEOUT")
        loop h out { d with streams := d.streams.set! i slot' }
      | none => out.putStrLn "bad-id"; loop h out d
    | none => out.putStrLn "bad-op"; loop h out d
  else if l.startsWith "den " then
    match (l.drop 4).toString.splitOn " ", d.pat with
    | [k, n], some p =>
      match k.toNat?, n.toNat? with
      | some k, some n => out.putStrLn (fmtPL ((denS k p).cut n)); loop h out d
      | _, _ => out.putStrLn "bad-op"; loop h out d
    | _, _ => out.putStrLn "bad-op"; loop h out d
  else
    out.putStrLn "bad-op"; loop h out d

def main : IO Unit := do
  loop (← IO.getStdin) (← IO.getStdout) {}
