/-
C13 — the splicing stream (`for item in row: yield item`), used by Pstutter and Pflatten.
-/
import Sc3Verif.C13.MachMap2
namespace Sc3Verif.C13

/-- Pending items first, then the rows of the operand spliced. -/
def joinF (pend : List Val) (x : PL) : PL := ⟨pend ++ x.vals.flatMap Val.items, x.st⟩

theorem joinF_nil_eq (x : PL) : joinF [] x = x.join := by simp [joinF, PL.join]

theorem joinF_cons (p : Val) (ps : List Val) (x : PL) : joinF (p :: ps) x = (joinF ps x).cons p := by
  simp [joinF, PL.cons]

theorem joinF_nil_cons (row : Val) (x : PL) : joinF [] (x.cons row) = joinF row.items x := by
  simp [joinF]

theorem step_joinC (s : St) (x : Val) (xs : List Val) :
    step (.join s (x :: xs)) = .yield x (.join s xs) := by rw [step]

theorem step_joinN (s : St) : step (.join s []) =
    match step s with
    | .yield row s' => .tau (.join s' row.items)
    | .tau s' => .tau (.join s' [])
    | .done => .done
    | .err => .err := by
  rw [step]; cases step s <;> simp

theorem run_join_A (n : Nat) (s : St) (pend : List Val) (ns : Nat) (h : n ≤ ns) :
    run n (.join s pend) ⊑ joinF pend (run ns s) := by
  induction n generalizing s pend ns with
  | zero => exact PL.more_le _
  | succ n ih =>
    cases pend with
    | cons p ps =>
      rw [run_yield (step_joinC s p ps), joinF_cons]
      exact PL.cons_le_cons p (ih s ps ns (by omega))
    | nil =>
      obtain ⟨ns', rfl⟩ : ∃ k, ns = k + 1 := ⟨ns - 1, by omega⟩
      have hl := step_joinN s
      cases hs : step s with
      | yield row s' =>
        rw [hs] at hl; rw [run_tau hl, run_yield hs, joinF_nil_cons]
        exact ih s' row.items ns' (by omega)
      | tau s' => rw [hs] at hl; rw [run_tau hl, run_tau hs]; exact ih s' [] ns' (by omega)
      | done => rw [hs] at hl; rw [run_done hl, run_done hs]; simp [joinF]; exact PL.le_refl _
      | err => rw [hs] at hl; rw [run_err hl, run_err hs]; simp [joinF]; exact PL.le_refl _

theorem run_join_B (ns : Nat) (s : St) (pend : List Val) :
    ∃ n, joinF pend (run ns s) ⊑ run n (.join s pend) := by
  induction ns generalizing s pend with
  | zero =>
    induction pend with
    | nil => exact ⟨0, by simp [joinF, run_zero]; exact PL.le_refl _⟩
    | cons p ps ih =>
      obtain ⟨n, hn⟩ := ih
      exact ⟨n + 1, by rw [run_yield (step_joinC s p ps), joinF_cons]; exact PL.cons_le_cons p hn⟩
  | succ ns ih =>
    induction pend with
    | cons p ps ihp =>
      obtain ⟨n, hn⟩ := ihp
      exact ⟨n + 1, by rw [run_yield (step_joinC s p ps), joinF_cons]; exact PL.cons_le_cons p hn⟩
    | nil =>
      have hl := step_joinN s
      cases hs : step s with
      | yield row s' =>
        rw [hs] at hl
        obtain ⟨n, hn⟩ := ih s' row.items
        exact ⟨n + 1, by rw [run_tau hl, run_yield hs, joinF_nil_cons]; exact hn⟩
      | tau s' =>
        rw [hs] at hl
        obtain ⟨n, hn⟩ := ih s' []
        exact ⟨n + 1, by rw [run_tau hl, run_tau hs]; exact hn⟩
      | done => rw [hs] at hl; exact ⟨1, by rw [run_done hl, run_done hs]; simp [joinF]; exact PL.le_refl _⟩
      | err => rw [hs] at hl; exact ⟨1, by rw [run_err hl, run_err hs]; simp [joinF]; exact PL.le_refl _⟩

theorem joinF_mono (pend : List Val) {x y : PL} (h : x ⊑ y) : joinF pend x ⊑ joinF pend y := by
  revert pend
  refine PL.le_induction (P := fun x y => ∀ pend, joinF pend x ⊑ joinF pend y) ?_ ?_ ?_ x y h
  · intro y pend
    simp [joinF, PL.le]
  · intro s _ pend; exact PL.le_refl _
  · intro v x y _ ih pend
    induction pend with
    | nil => rw [joinF_nil_cons, joinF_nil_cons]; exact ih _
    | cons p ps ihp => rw [joinF_cons, joinF_cons]; exact PL.cons_le_cons p ihp

theorem obs_join (s : St) (c : Nat → PL) (h : Obs s = Lim c) :
    Obs (.join s []) = Lim (fun k => (c k).join) := by
  have := obs_glue1 (fun a => joinF [] a) (fun _ _ => joinF_mono []) (.join s []) s
    (fun n => run_join_A n s [] n (Nat.le_refl _)) (fun na => run_join_B na s []) c h
  simpa [joinF_nil_eq] using this

end Sc3Verif.C13
