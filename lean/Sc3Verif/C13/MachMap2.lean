/-
C13 — the two-operand mapping stream (Pbinop, and the building block of Pnarop, Pwrap, Ptuple):
pulls the first operand, then the second, applies the function, ends with the first that ends.
-/
import Sc3Verif.C13.MachOne
namespace Sc3Verif.C13

/-- The loop of the stream, phase = the value of the first operand if already pulled. -/
def map2Loop (f : Val → Val → Option Val) (sa sb : Status) : Option Val → List Val → List Val → PL
  | none, [], _ => ⟨[], sa⟩
  | none, x :: as, bs => map2Loop f sa sb (some x) as bs
  | some _, _, [] => ⟨[], sb⟩
  | some x, as, y :: bs =>
    match f x y with
    | some w => (map2Loop f sa sb none as bs).cons w
    | none => ⟨[], .err⟩
termination_by ph as bs => 2 * as.length + 2 * bs.length + (if ph.isSome then 0 else 1)
decreasing_by all_goals simp <;> omega

/-- `map2Loop` on observations. -/
def map2F (f : Val → Val → Option Val) (ph : Option Val) (a b : PL) : PL :=
  map2Loop f a.st b.st ph a.vals b.vals

theorem map2F_none_nil (f) (s : Status) (b : PL) : map2F f none ⟨[], s⟩ b = ⟨[], s⟩ := by
  simp [map2F, map2Loop]

theorem map2F_none_cons (f) (v : Val) (a b : PL) :
    map2F f none (a.cons v) b = map2F f (some v) a b := by
  simp [map2F, map2Loop]

theorem map2F_some_nil (f) (x : Val) (a : PL) (s : Status) : map2F f (some x) a ⟨[], s⟩ = ⟨[], s⟩ := by
  simp [map2F, map2Loop]

theorem map2F_some_cons (f) (x y : Val) (a b : PL) :
    map2F f (some x) a (b.cons y) =
      match f x y with
      | some w => (map2F f none a b).cons w
      | none => ⟨[], .err⟩ := by
  simp only [map2F, PL.cons_vals, PL.cons_st, map2Loop]

theorem step_map2N (o : Op2) (a b : St) : step (.map2 o a b none) =
    match step a with
    | .yield v a' => .tau (.map2 o a' b (some v))
    | .tau a' => .tau (.map2 o a' b none)
    | .done => .done
    | .err => .err := by
  rw [step]; cases step a <;> simp

theorem step_map2S (o : Op2) (a b : St) (x : Val) : step (.map2 o a b (some x)) =
    match step b with
    | .yield y b' =>
      match o.eval x y with
      | some w => .yield w (.map2 o a b' none)
      | none => .err
    | .tau b' => .tau (.map2 o a b' (some x))
    | .done => .done
    | .err => .err := by
  rw [step]; cases step b <;> simp
  split <;> simp [*]

theorem run_pos_done {s : St} (h : step s = .done) {n : Nat} (hn : 0 < n) : run n s = ⟨[], .done⟩ := by
  cases n with
  | zero => omega
  | succ n => exact run_done h n

theorem run_map2_A (o : Op2) (n : Nat) (a b : St) (ph : Option Val) (na nb : Nat)
    (ha : n ≤ na) (hb : n ≤ nb) :
    run n (.map2 o a b ph) ⊑ map2F o.eval ph (run na a) (run nb b) := by
  induction n generalizing a b ph na nb with
  | zero => exact PL.more_le _
  | succ n ih =>
    cases ph with
    | none =>
      obtain ⟨na', rfl⟩ : ∃ k, na = k + 1 := ⟨na - 1, by omega⟩
      have hl := step_map2N o a b
      cases hs : step a with
      | yield v a' =>
        rw [hs] at hl; rw [run_tau hl, run_yield hs, map2F_none_cons]
        exact ih a' b (some v) na' nb (by omega) (by omega)
      | tau a' =>
        rw [hs] at hl; rw [run_tau hl, run_tau hs]
        exact ih a' b none na' nb (by omega) (by omega)
      | done => rw [hs] at hl; rw [run_done hl, run_done hs, map2F_none_nil]; exact PL.le_refl _
      | err => rw [hs] at hl; rw [run_err hl, run_err hs, map2F_none_nil]; exact PL.le_refl _
    | some x =>
      obtain ⟨nb', rfl⟩ : ∃ k, nb = k + 1 := ⟨nb - 1, by omega⟩
      have hl := step_map2S o a b x
      cases hs : step b with
      | yield y b' =>
        rw [hs] at hl; simp only at hl
        rw [run_yield hs, map2F_some_cons]
        cases hw : o.eval x y with
        | some w =>
          rw [hw] at hl; rw [run_yield hl]
          exact PL.cons_le_cons w (ih a b' none na nb' (by omega) (by omega))
        | none => rw [hw] at hl; rw [run_err hl]; exact PL.le_refl _
      | tau b' =>
        rw [hs] at hl; rw [run_tau hl, run_tau hs]
        exact ih a b' (some x) na nb' (by omega) (by omega)
      | done => rw [hs] at hl; rw [run_done hl, run_done hs, map2F_some_nil]; exact PL.le_refl _
      | err => rw [hs] at hl; rw [run_err hl, run_err hs, map2F_some_nil]; exact PL.le_refl _

theorem run_map2_B (o : Op2) (m : Nat) : ∀ (a b : St) (ph : Option Val) (na nb : Nat),
    na + nb ≤ m → ∃ n, map2F o.eval ph (run na a) (run nb b) ⊑ run n (.map2 o a b ph) := by
  induction m with
  | zero =>
    intro a b ph na nb h
    have h1 : na = 0 := by omega
    have h2 : nb = 0 := by omega
    subst h1 h2
    refine ⟨0, ?_⟩
    cases ph <;> simp [run_zero, map2F_none_nil, map2F_some_nil] <;> exact PL.le_refl _
  | succ m ih =>
    intro a b ph na nb h
    cases ph with
    | none =>
      cases na with
      | zero => exact ⟨0, by rw [run_zero, map2F_none_nil]; exact PL.more_le _⟩
      | succ na =>
        have hl := step_map2N o a b
        cases hs : step a with
        | yield v a' =>
          rw [hs] at hl
          obtain ⟨n, hn⟩ := ih a' b (some v) na nb (by omega)
          exact ⟨n + 1, by rw [run_tau hl, run_yield hs, map2F_none_cons]; exact hn⟩
        | tau a' =>
          rw [hs] at hl
          obtain ⟨n, hn⟩ := ih a' b none na nb (by omega)
          exact ⟨n + 1, by rw [run_tau hl, run_tau hs]; exact hn⟩
        | done =>
          rw [hs] at hl
          exact ⟨1, by rw [run_done hl, run_done hs, map2F_none_nil]; exact PL.le_refl _⟩
        | err =>
          rw [hs] at hl
          exact ⟨1, by rw [run_err hl, run_err hs, map2F_none_nil]; exact PL.le_refl _⟩
    | some x =>
      cases nb with
      | zero => exact ⟨0, by rw [run_zero (s := b), map2F_some_nil]; exact PL.more_le _⟩
      | succ nb =>
        have hl := step_map2S o a b x
        cases hs : step b with
        | yield y b' =>
          rw [hs] at hl; simp only at hl
          cases hw : o.eval x y with
          | some w =>
            rw [hw] at hl
            obtain ⟨n, hn⟩ := ih a b' none na nb (by omega)
            exact ⟨n + 1, by
              rw [run_yield hl, run_yield hs, map2F_some_cons, hw]; exact PL.cons_le_cons w hn⟩
          | none =>
            rw [hw] at hl
            exact ⟨1, by rw [run_err hl, run_yield hs, map2F_some_cons, hw]; exact PL.le_refl _⟩
        | tau b' =>
          rw [hs] at hl
          obtain ⟨n, hn⟩ := ih a b' (some x) na nb (by omega)
          exact ⟨n + 1, by rw [run_tau hl, run_tau hs]; exact hn⟩
        | done =>
          rw [hs] at hl
          exact ⟨1, by rw [run_done hl, run_done hs, map2F_some_nil]; exact PL.le_refl _⟩
        | err =>
          rw [hs] at hl
          exact ⟨1, by rw [run_err hl, run_err hs, map2F_some_nil]; exact PL.le_refl _⟩

theorem PL.eta_cases (b : PL) : (∃ s, b = ⟨[], s⟩) ∨ (∃ y b', b = PL.cons y b') := by
  obtain ⟨l, s⟩ := b
  cases l with
  | nil => exact Or.inl ⟨s, rfl⟩
  | cons y t => exact Or.inr ⟨y, ⟨t, s⟩, rfl⟩

theorem map2F_mono_left (f) {a a' : PL} (h : a ⊑ a') :
    ∀ ph b, map2F f ph a b ⊑ map2F f ph a' b := by
  refine PL.le_induction (P := fun a a' => ∀ ph b, map2F f ph a b ⊑ map2F f ph a' b) ?_ ?_ ?_ a a' h
  · intro a' ph b
    cases ph with
    | none => rw [map2F_none_nil]; exact PL.more_le _
    | some x =>
      rcases PL.eta_cases b with ⟨s, rfl⟩ | ⟨y, b', rfl⟩
      · rw [map2F_some_nil, map2F_some_nil]; exact PL.le_refl _
      · rw [map2F_some_cons, map2F_some_cons]
        cases f x y with
        | some w => rw [map2F_none_nil]; exact PL.cons_le_cons w (PL.more_le _)
        | none => exact PL.le_refl _
  · intro s _ ph b; exact PL.le_refl _
  · intro v a a' _ ih ph b
    cases ph with
    | none => rw [map2F_none_cons, map2F_none_cons]; exact ih _ _
    | some x =>
      rcases PL.eta_cases b with ⟨s, rfl⟩ | ⟨y, b', rfl⟩
      · rw [map2F_some_nil, map2F_some_nil]; exact PL.le_refl _
      · rw [map2F_some_cons, map2F_some_cons]
        cases f x y with
        | some w => rw [map2F_none_cons, map2F_none_cons]; exact PL.cons_le_cons w (ih _ _)
        | none => exact PL.le_refl _

theorem map2F_mono_right (f) {b b' : PL} (h : b ⊑ b') :
    ∀ ph a, map2F f ph a b ⊑ map2F f ph a b' := by
  refine PL.le_induction (P := fun b b' => ∀ ph a, map2F f ph a b ⊑ map2F f ph a b') ?_ ?_ ?_ b b' h
  · intro b' ph a
    cases ph with
    | some x => rw [map2F_some_nil]; exact PL.more_le _
    | none =>
      rcases PL.eta_cases a with ⟨s, rfl⟩ | ⟨y, a', rfl⟩
      · rw [map2F_none_nil, map2F_none_nil]; exact PL.le_refl _
      · rw [map2F_none_cons, map2F_none_cons, map2F_some_nil]; exact PL.more_le _
  · intro s _ ph a; exact PL.le_refl _
  · intro v b b' _ ih ph a
    cases ph with
    | some x =>
      rw [map2F_some_cons, map2F_some_cons]
      cases f x v with
      | some w => exact PL.cons_le_cons w (ih _ _)
      | none => exact PL.le_refl _
    | none =>
      rcases PL.eta_cases a with ⟨s, rfl⟩ | ⟨y, a', rfl⟩
      · rw [map2F_none_nil, map2F_none_nil]; exact PL.le_refl _
      · rw [map2F_none_cons, map2F_none_cons, map2F_some_cons, map2F_some_cons]
        cases f y v with
        | some w => exact PL.cons_le_cons w (ih _ _)
        | none => exact PL.le_refl _

theorem map2F_mono (f) (ph : Option Val) {a a' b b' : PL} (ha : a ⊑ a') (hb : b ⊑ b') :
    map2F f ph a b ⊑ map2F f ph a' b' :=
  PL.le_trans (map2F_mono_left f ha ph b) (map2F_mono_right f hb ph a')

theorem map2Loop_none_eq_zip (f) (sa sb : Status) (as bs : List Val) :
    map2Loop f sa sb none as bs = zipWithL f sa sb as bs := by
  induction as generalizing bs with
  | nil => simp [map2Loop, zipWithL]
  | cons x as ih =>
    cases bs with
    | nil => simp [map2Loop, zipWithL]
    | cons y bs =>
      simp only [map2Loop, zipWithL]
      cases f x y with
      | some w => simp [ih]
      | none => rfl

theorem map2F_none_eq (f) (a b : PL) : map2F f none a b = PL.zipWith f a b := by
  simp [map2F, PL.zipWith, map2Loop_none_eq_zip]

/-- The two-operand stream shows exactly `zipWith` of what its operands show. -/
theorem obs_map2 (o : Op2) (a b : St) (ca cb : Nat → PL) (hca : Chain ca) (hcb : Chain cb)
    (ha : Obs a = Lim ca) (hb : Obs b = Lim cb) :
    Obs (.map2 o a b none) = Lim (fun k => PL.zipWith o.eval (ca k) (cb k)) := by
  have := obs_glue2 (fun x y => map2F o.eval none x y)
    (fun _ _ _ _ h1 h2 => map2F_mono o.eval none h1 h2) (.map2 o a b none) a b
    (fun n => run_map2_A o n a b none n n (Nat.le_refl _) (Nat.le_refl _))
    (fun na nb => run_map2_B o (na + nb) a b none na nb (Nat.le_refl _)) ca cb hca hcb ha hb
  simpa [map2F_none_eq] using this

end Sc3Verif.C13
