/-
C13 — values and the operator kernels used by patterns (core Lean only).

Python `int` → `Val.int`, Python `float` → `Val.flt` (exact `Rat`; the harness only uses
dyadic values on which binary64 arithmetic is exact), `bool`, `list`, `tuple`.
`none` results model a raised exception (TypeError / ZeroDivisionError / IndexError).
-/
namespace Sc3Verif.C13

inductive Val where
  | int (i : Int)
  | flt (q : Rat)
  | bool (b : Bool)
  | list (l : List Val)
  | tup (l : List Val)
deriving Repr, Inhabited, BEq

/-- Python numbers (`bool` coerces to `int` in arithmetic). -/
inductive Num where
  | i (n : Int)
  | f (q : Rat)
deriving Repr, Inhabited, BEq

def Val.num? : Val → Option Num
  | .int i => some (.i i)
  | .flt q => some (.f q)
  | .bool b => some (.i (if b then 1 else 0))
  | _ => none

def Num.val : Num → Val
  | .i n => .int n
  | .f q => .flt q

def Num.rat : Num → Rat
  | .i n => (n : Rat)
  | .f q => q

/-- int∘int stays int, anything else is float. -/
def Num.bin (fi : Int → Int → Int) (fq : Rat → Rat → Rat) : Num → Num → Num
  | .i a, .i b => .i (fi a b)
  | x, y => .f (fq x.rat y.rat)

def Num.add := Num.bin (· + ·) (· + ·)
def Num.sub := Num.bin (· - ·) (· - ·)
def Num.mul := Num.bin (· * ·) (· * ·)
def Num.lt (a b : Num) : Bool := a.rat < b.rat
def Num.le (a b : Num) : Bool := a.rat ≤ b.rat
def Num.isZero (a : Num) : Bool := a.rat == 0

/-- Python `%` (floor modulo, sign of the divisor); `none` = ZeroDivisionError. -/
def Num.pymod : Num → Num → Option Num
  | .i a, .i b => if b == 0 then none else some (.i (Int.fmod a b))
  | x, y => if y.rat == 0 then none else some (.f (x.rat - y.rat * ((x.rat / y.rat).floor : Rat)))

/-- `int(x)` of a float: truncation toward zero. -/
def Rat.truncI (q : Rat) : Int := if q < 0 then - ((-q).floor) else q.floor

def Num.toInt : Num → Int
  | .i n => n
  | .f q => Rat.truncI q

/-- Tail of `sc3.base.builtins.mod` after the "avoid the divide" prologue. -/
def scModRest (a b : Num) : Val :=
  if b.isZero then .int 0 else
  match a, b with
  | .i x, .i y => let c := Int.tmod x y; .int (if c < 0 then c + y else c)
  | _, _ => .flt (a.rat - b.rat * ((a.rat / b.rat).floor : Rat))

/-- `sc3.base.builtins.mod` (what `pattern % x` applies): SuperCollider's modulo. An operand
    that is already in range is returned unchanged (a `bool` stays a `bool`). -/
def scMod (av bv : Val) : Option Val :=
  match av.num?, bv.num? with
  | some a, some b =>
    if b.le a then
      let a1 := a.sub b
      if a1.lt b then some a1.val else some (scModRest a1 b)
    else if a.lt (.i 0) then
      let a1 := a.add b
      if (Num.i 0).le a1 then some a1.val else some (scModRest a1 b)
    else some av
  | _, _ => none

inductive BinOp where
  | add | sub | mul | div | mod | pymod | lt | le | gt | ge | min | max
deriving Repr, BEq, DecidableEq, Inhabited

/-- Usable as a list index / `range` argument: `int` or `bool`. -/
def Val.idx? : Val → Option Int
  | .int i => some i
  | .bool b => some (if b then 1 else 0)
  | _ => none

/-- `seq * n` of Python (`n` an int or bool; non-positive gives the empty sequence). -/
def repeatList (l : List Val) (n : Int) : List Val := (List.replicate n.toNat l).flatten

def BinOp.evalNum (o : BinOp) (a b : Val) (x y : Num) : Option Val :=
  match o with
  | .add => some (x.add y).val
  | .sub => some (x.sub y).val
  | .mul => some (x.mul y).val
  | .div => if y.isZero then none else some (.flt (x.rat / y.rat))
  | .mod => scMod a b
  | .pymod => (x.pymod y).map Num.val
  | .lt => some (.bool (x.lt y))
  | .le => some (.bool (x.le y))
  | .gt => some (.bool (y.lt x))
  | .ge => some (.bool (y.le x))
  | .min => some (if y.lt x then b else a)      -- builtins.min(a, b)
  | .max => some (if x.lt y then b else a)      -- builtins.max(a, b)

/-- Python's operators on the modelled values: numbers (with `bool` as `int`), `list + list`,
    `tuple + tuple`, `list * int`, `int * list`; everything else raises (`none`). Comparisons of
    two sequences are outside the modelled domain. -/
def BinOp.eval (o : BinOp) (a b : Val) : Option Val :=
  match a.num?, b.num? with
  | some x, some y => o.evalNum a b x y
  | _, _ =>
    match o, a, b with
    | .add, .list l, .list m => some (.list (l ++ m))
    | .add, .tup l, .tup m => some (.tup (l ++ m))
    | .mul, .list l, n => n.idx?.map fun k => .list (repeatList l k)
    | .mul, .tup l, n => n.idx?.map fun k => .tup (repeatList l k)
    | .mul, n, .list l => n.idx?.map fun k => .list (repeatList l k)
    | .mul, n, .tup l => n.idx?.map fun k => .tup (repeatList l k)
    | _, _, _ => none

inductive UnOp where
  | neg | abs | pos
deriving Repr, BEq, DecidableEq, Inhabited

def UnOp.eval (o : UnOp) (a : Val) : Option Val :=
  match a.num? with
  | some x =>
    match o, x with
    | .neg, .i n => some (.int (-n))
    | .neg, .f q => some (.flt (-q))
    | .abs, .i n => some (.int (Int.ofNat n.natAbs))
    | .abs, .f q => some (.flt (if q < 0 then -q else q))
    | .pos, x => some x.val
  | none => none

/-- `sc3.base.builtins.mod` on two ints (the "avoid the divide" prologue included). -/
def scModInt (a b : Int) : Int :=
  if a ≥ b then
    let a := a - b
    if a < b then a else
    if b == 0 then 0 else
    let c := Int.tmod a b
    if c < 0 then c + b else c
  else if a < 0 then
    let a := a + b
    if a ≥ 0 then a else
    if b == 0 then 0 else
    let c := Int.tmod a b
    if c < 0 then c + b else c
  else a

/-- `bi.wrap(x, lo, hi)`: the integer algorithm when all three are `int`; otherwise the general
    branch, where an in-range `x` is returned unchanged. -/
def wrapVal (xv lov hiv : Val) : Option Val :=
  match xv, lov, hiv with
  | .int xi, .int l, .int h =>
    match scMod (.int (xi - l)) (.int (h - l + 1)) with
    | some (.int m) => some (.int (m + l))
    | _ => none
  | _, _, _ =>
    match xv.num?, lov.num?, hiv.num? with
    | some x, some lo, some hi =>
      let range := hi.sub lo
      let rest (x : Num) : Val :=
        if hi.rat == lo.rat then lov else
        (x.sub (range.mul (.i ((x.sub lo).rat / range.rat).floor))).val
      if hi.le x then
        let x1 := x.sub range
        if x1.lt hi then some x1.val else some (rest x1)
      else if x.lt lo then
        let x1 := x.add range
        if lo.le x1 then some x1.val else some (rest x1)
      else some xv
    | _, _, _ => none

/-- `bi.clip(x, lo, hi)`: `T = type(x); max(min(x, T(hi)), T(lo))`. -/
def clipVal (xv : Val) (lo hi : Num) : Option Val :=
  match xv with
  | .int xi =>
    let h := hi.toInt
    let l := lo.toInt
    let m := if h < xi then h else xi
    some (.int (if l > m then l else m))
  | .flt xq =>
    let h := hi.rat
    let l := lo.rat
    let m := if h < xq then h else xq
    some (.flt (if l > m then l else m))
  | .bool xb =>
    let h := !hi.isZero
    let l := !lo.isZero
    let m := if (h == false && xb == true) then h else xb
    some (.bool (if (l == true && m == false) then l else m))
  | _ => none

inductive NarOp where
  | clip | wrap
deriving Repr, BEq, DecidableEq, Inhabited

def NarOp.eval (o : NarOp) (x lo hi : Val) : Option Val :=
  match lo.num?, hi.num? with
  | some l, some h =>
    match o with
    | .clip => clipVal x l h
    | .wrap => wrapVal x lo hi
  | _, _ => none

/-- Python truthiness. -/
def Val.truthy : Val → Bool
  | .int i => i != 0
  | .flt q => q != 0
  | .bool b => b
  | .list l => !l.isEmpty
  | .tup l => !l.isEmpty

/-- `int(v)`. -/
def Val.toInt? (v : Val) : Option Int := v.num?.map Num.toInt

/-- `sc3.base.builtins.div` on ints (true division then `int()`), exact on the harness domain. -/
def scDivInt (a b : Int) : Int :=
  if b != 0 then
    if a < 0 then Rat.truncI (((a + 1 : Int) : Rat) / (b : Rat) - 1) else Rat.truncI ((a : Rat) / (b : Rat))
  else a

/-- `bi.roundup(x, quant)` for a float `quant` (Pconst's tolerance): always a float. -/
def roundupNum (x : Num) (quant : Rat) : Rat :=
  if quant == 0 then x.rat else ((x.rat / quant).ceil : Rat) * quant

/-- The small total function language for Pcollect / Pselect / Preject. -/
inductive Fn where
  | id
  | un (o : UnOp) (f : Fn)
  | binR (o : BinOp) (f : Fn) (c : Val)      -- `o (f x) c`
  | binL (o : BinOp) (c : Val) (f : Fn)      -- `o c (f x)`
  | isInt (f : Fn)                            -- `type(f x) is int`
deriving Repr, Inhabited

def Fn.eval : Fn → Val → Option Val
  | .id, x => some x
  | .un o f, x => (f.eval x).bind o.eval
  | .binR o f c, x => (f.eval x).bind fun y => o.eval y c
  | .binL o c f, x => (f.eval x).bind fun y => o.eval c y
  | .isInt f, x => (f.eval x).map fun y => match y with | .int _ => .bool true | _ => .bool false

end Sc3Verif.C13
