/-
C13 — Pclump's stream.
-/
import Sc3Verif.C13.MachMap2
namespace Sc3Verif.C13

/-- Pclump's loop by phases (`.n`: about to pull a group size; `.c acc k`: `k` values to go). -/
def clumpLoop (sa sb : Status) : ClumpPh → List Val → List Val → PL
  | .n, _, [] => ⟨[], sb⟩
  | .n, as, n :: bs =>
    match n.toInt? with
    | none => ⟨[], .err⟩
    | some k => clumpLoop sa sb (.c [] k.toNat) as bs
  | .c acc 0, as, bs => (clumpLoop sa sb .n as bs).cons (.list acc)
  | .c acc (_ + 1), [], _ =>
    match sa with
    | .done => if acc.isEmpty then ⟨[], .done⟩ else ⟨[.list acc], .done⟩
    | s => ⟨[], s⟩
  | .c acc (k + 1), v :: as, bs => clumpLoop sa sb (.c (acc ++ [v]) k) as bs
termination_by ph as bs => 2 * (as.length + bs.length) + (match ph with | .n => 0 | .c _ _ => 1)
decreasing_by all_goals simp <;> omega

def clumpF (ph : ClumpPh) (a b : PL) : PL := clumpLoop a.st b.st ph a.vals b.vals

theorem clumpF_n_nil (a : PL) (s : Status) : clumpF .n a ⟨[], s⟩ = ⟨[], s⟩ := by
  simp [clumpF, clumpLoop]

theorem clumpF_n_cons (a b : PL) (n : Val) :
    clumpF .n a (b.cons n) =
      match n.toInt? with
      | none => ⟨[], .err⟩
      | some k => clumpF (.c [] k.toNat) a b := by
  simp only [clumpF, PL.cons_vals, PL.cons_st, clumpLoop]

theorem clumpF_c_zero (acc : List Val) (a b : PL) :
    clumpF (.c acc 0) a b = (clumpF .n a b).cons (.list acc) := by
  simp [clumpF, clumpLoop]

theorem clumpF_c_nil (acc : List Val) (k : Nat) (s : Status) (b : PL) :
    clumpF (.c acc (k + 1)) ⟨[], s⟩ b =
      match s with
      | .done => if acc.isEmpty then ⟨[], .done⟩ else ⟨[.list acc], .done⟩
      | s => ⟨[], s⟩ := by
  cases s <;> simp [clumpF, clumpLoop]

theorem clumpF_c_cons (acc : List Val) (k : Nat) (v : Val) (a b : PL) :
    clumpF (.c acc (k + 1)) (a.cons v) b = clumpF (.c (acc ++ [v]) k) a b := by
  simp [clumpF, clumpLoop]

theorem step_clumpN (a b : St) : step (.clump a b .n) =
    match step b with
    | .yield n b' =>
      match n.toInt? with
      | some k => .tau (.clump a b' (.c [] k.toNat))
      | none => .err
    | .tau b' => .tau (.clump a b' .n)
    | .done => .done
    | .err => .err := by
  rw [step]; cases step b <;> simp
  split <;> simp [*]

theorem step_clumpC0 (a b : St) (acc : List Val) :
    step (.clump a b (.c acc 0)) = .yield (.list acc) (.clump a b .n) := by rw [step]

theorem step_clumpCS (a b : St) (acc : List Val) (k : Nat) : step (.clump a b (.c acc (k + 1))) =
    match step a with
    | .yield v a' => .tau (.clump a' b (.c (acc ++ [v]) k))
    | .tau a' => .tau (.clump a' b (.c acc (k + 1)))
    | .done => if acc.isEmpty then .done else .yield (.list acc) .nil
    | .err => .err := by
  rw [step]; cases step a <;> simp

theorem run_clump_A (n : Nat) (a b : St) (ph : ClumpPh) (na nb : Nat) (ha : n ≤ na) (hb : n ≤ nb) :
    run n (.clump a b ph) ⊑ clumpF ph (run na a) (run nb b) := by
  induction n generalizing a b ph na nb with
  | zero => exact PL.more_le _
  | succ n ih =>
    match ph with
    | .n =>
      obtain ⟨nb', rfl⟩ : ∃ k, nb = k + 1 := ⟨nb - 1, by omega⟩
      have hl := step_clumpN a b
      cases hs : step b with
      | yield nv b' =>
        rw [hs] at hl; simp only at hl
        rw [run_yield hs, clumpF_n_cons]
        cases hk : nv.toInt? with
        | some k => rw [hk] at hl; rw [run_tau hl]; exact ih a b' _ na nb' (by omega) (by omega)
        | none => rw [hk] at hl; rw [run_err hl]; exact PL.le_refl _
      | tau b' => rw [hs] at hl; rw [run_tau hl, run_tau hs]; exact ih a b' _ na nb' (by omega) (by omega)
      | done => rw [hs] at hl; rw [run_done hl, run_done hs, clumpF_n_nil]; exact PL.le_refl _
      | err => rw [hs] at hl; rw [run_err hl, run_err hs, clumpF_n_nil]; exact PL.le_refl _
    | .c acc 0 =>
      rw [run_yield (step_clumpC0 a b acc), clumpF_c_zero]
      exact PL.cons_le_cons _ (ih a b .n na nb (by omega) (by omega))
    | .c acc (k + 1) =>
      obtain ⟨na', rfl⟩ : ∃ k, na = k + 1 := ⟨na - 1, by omega⟩
      have hl := step_clumpCS a b acc k
      cases hs : step a with
      | yield v a' =>
        rw [hs] at hl; rw [run_tau hl, run_yield hs, clumpF_c_cons]
        exact ih a' b _ na' nb (by omega) (by omega)
      | tau a' => rw [hs] at hl; rw [run_tau hl, run_tau hs]; exact ih a' b _ na' nb (by omega) (by omega)
      | done =>
        rw [hs] at hl; simp only at hl
        rw [run_done hs, clumpF_c_nil]
        by_cases he : acc.isEmpty = true
        · simp only [he, if_true] at hl ⊢; rw [run_done hl]; exact PL.le_refl _
        · simp only [he] at hl ⊢
          rw [run_yield (by simpa using hl)]
          cases n with
          | zero => simp [run, PL.le, PL.cons]
          | succ n => rw [run_nil_succ]; exact PL.le_refl _
      | err => rw [hs] at hl; rw [run_err hl, run_err hs, clumpF_c_nil]; exact PL.le_refl _

/-- Phase `.n` of lemma B, given lemma B for smaller budgets. -/
theorem run_clump_B_n (m : Nat)
    (ih : ∀ (a b : St) (ph : ClumpPh) (na nb : Nat), na + nb ≤ m →
      ∃ n, clumpF ph (run na a) (run nb b) ⊑ run n (.clump a b ph))
    (a b : St) (na nb : Nat) (h : na + nb ≤ m + 1) :
    ∃ n, clumpF .n (run na a) (run nb b) ⊑ run n (.clump a b .n) := by
  cases nb with
  | zero => exact ⟨0, by rw [run_zero (s := b), clumpF_n_nil]; exact PL.more_le _⟩
  | succ nb =>
    have hl := step_clumpN a b
    cases hs : step b with
    | yield nv b' =>
      rw [hs] at hl; simp only at hl
      cases hk : nv.toInt? with
      | some k =>
        rw [hk] at hl
        obtain ⟨n, hn⟩ := ih a b' (.c [] k.toNat) na nb (by omega)
        exact ⟨n + 1, by rw [run_tau hl, run_yield hs, clumpF_n_cons, hk]; exact hn⟩
      | none =>
        rw [hk] at hl
        exact ⟨1, by rw [run_err hl, run_yield hs, clumpF_n_cons, hk]; exact PL.le_refl _⟩
    | tau b' =>
      rw [hs] at hl
      obtain ⟨n, hn⟩ := ih a b' .n na nb (by omega)
      exact ⟨n + 1, by rw [run_tau hl, run_tau hs]; exact hn⟩
    | done => rw [hs] at hl; exact ⟨1, by rw [run_done hl, run_done hs, clumpF_n_nil]; exact PL.le_refl _⟩
    | err => rw [hs] at hl; exact ⟨1, by rw [run_err hl, run_err hs, clumpF_n_nil]; exact PL.le_refl _⟩

theorem run_clump_B_cs (m : Nat)
    (ih : ∀ (a b : St) (ph : ClumpPh) (na nb : Nat), na + nb ≤ m →
      ∃ n, clumpF ph (run na a) (run nb b) ⊑ run n (.clump a b ph))
    (a b : St) (acc : List Val) (k : Nat) (na nb : Nat) (h : na + nb ≤ m + 1) :
    ∃ n, clumpF (.c acc (k + 1)) (run na a) (run nb b) ⊑ run n (.clump a b (.c acc (k + 1))) := by
  cases na with
  | zero => exact ⟨0, by rw [run_zero (s := a), clumpF_c_nil]; exact PL.more_le _⟩
  | succ na =>
    have hl := step_clumpCS a b acc k
    cases hs : step a with
    | yield v a' =>
      rw [hs] at hl
      obtain ⟨n, hn⟩ := ih a' b (.c (acc ++ [v]) k) na nb (by omega)
      exact ⟨n + 1, by rw [run_tau hl, run_yield hs, clumpF_c_cons]; exact hn⟩
    | tau a' =>
      rw [hs] at hl
      obtain ⟨n, hn⟩ := ih a' b (.c acc (k + 1)) na nb (by omega)
      exact ⟨n + 1, by rw [run_tau hl, run_tau hs]; exact hn⟩
    | done =>
      rw [hs] at hl; simp only at hl
      by_cases he : acc.isEmpty = true
      · simp only [he, if_true] at hl
        exact ⟨1, by rw [run_done hl, run_done hs, clumpF_c_nil]; simp [he]; exact PL.le_refl _⟩
      · simp only [he] at hl
        have hl' : step (.clump a b (.c acc (k + 1))) = .yield (.list acc) .nil := by simpa using hl
        exact ⟨2, by
          rw [run_yield hl', run_nil_succ, run_done hs, clumpF_c_nil]
          simp [he, PL.cons]; exact PL.le_refl _⟩
    | err => rw [hs] at hl; exact ⟨1, by rw [run_err hl, run_err hs, clumpF_c_nil]; exact PL.le_refl _⟩

theorem run_clump_B (m : Nat) : ∀ (a b : St) (ph : ClumpPh) (na nb : Nat), na + nb ≤ m →
    ∃ n, clumpF ph (run na a) (run nb b) ⊑ run n (.clump a b ph) := by
  induction m with
  | zero =>
    intro a b ph na nb h
    have h1 : na = 0 := by omega
    have h2 : nb = 0 := by omega
    subst h1 h2
    match ph with
    | .n => exact ⟨0, by rw [run_zero (s := b), clumpF_n_nil]; exact PL.more_le _⟩
    | .c acc 0 =>
      exact ⟨1, by
        rw [run_yield (step_clumpC0 a b acc), clumpF_c_zero, run_zero (s := b), clumpF_n_nil]
        exact PL.cons_le_cons _ (PL.more_le _)⟩
    | .c acc (k + 1) => exact ⟨0, by rw [run_zero (s := a), clumpF_c_nil]; exact PL.more_le _⟩
  | succ m ih =>
    intro a b ph na nb h
    match ph with
    | .n => exact run_clump_B_n m ih a b na nb h
    | .c acc 0 =>
      obtain ⟨n, hn⟩ := run_clump_B_n m ih a b na nb h
      exact ⟨n + 1, by
        rw [run_yield (step_clumpC0 a b acc), clumpF_c_zero]; exact PL.cons_le_cons _ hn⟩
    | .c acc (k + 1) => exact run_clump_B_cs m ih a b acc k na nb h

theorem PL.nil_le_cases {s : Status} {y : PL} (h : (⟨[], s⟩ : PL) ⊑ y) : s = .more ∨ y = ⟨[], s⟩ := by
  cases s with
  | more => exact Or.inl rfl
  | done => exact Or.inr (PL.closed_le (by simp) h)
  | err => exact Or.inr (PL.closed_le (by simp) h)

theorem clumpLoop_mono_left (sa sb : Status) (ph : ClumpPh) (as bs : List Val) :
    ∀ a' : PL, (⟨as, sa⟩ : PL) ⊑ a' → clumpLoop sa sb ph as bs ⊑ clumpLoop a'.st sb ph a'.vals bs := by
  fun_induction clumpLoop sa sb ph as bs
  all_goals intro a' h
  case case1 => simp [clumpLoop]; exact PL.le_refl _
  case case2 hn => simp [clumpLoop, hn]; exact PL.le_refl _
  case case3 k hn ih => simp only [clumpLoop, hn]; exact ih a' h
  case case4 ih => simp only [clumpLoop]; exact PL.cons_le_cons _ (ih a' h)
  case case5 hd he =>
    subst hd; rw [PL.closed_le (by simp) h]; simp [clumpLoop, he]; exact PL.le_refl _
  case case6 hd he =>
    subst hd; rw [PL.closed_le (by simp) h]; simp [clumpLoop, he]; exact PL.le_refl _
  case case7 hd =>
    cases sa with
    | more => exact PL.more_le _
    | done => exact absurd rfl hd
    | err => rw [PL.closed_le (by simp) h]; simp [clumpLoop]; exact PL.le_refl _
  case case8 ih =>
    have h' : (PL.cons _ ⟨_, sa⟩) ⊑ a' := h
    obtain ⟨a'', rfl, ha⟩ := PL.le_cons_inv h'
    simp only [PL.cons_vals, PL.cons_st, clumpLoop]; exact ih a'' ha

theorem clumpLoop_mono_right (sa sb : Status) (ph : ClumpPh) (as bs : List Val) :
    ∀ b' : PL, (⟨bs, sb⟩ : PL) ⊑ b' → clumpLoop sa sb ph as bs ⊑ clumpLoop sa b'.st ph as b'.vals := by
  fun_induction clumpLoop sa sb ph as bs
  all_goals intro b' h
  case case1 =>
    rcases PL.nil_le_cases h with rfl | rfl
    · exact PL.more_le _
    · simp [clumpLoop]; exact PL.le_refl _
  case case2 hn =>
    have h' : (PL.cons _ ⟨_, sb⟩) ⊑ b' := h
    obtain ⟨b'', rfl, _⟩ := PL.le_cons_inv h'
    simp [clumpLoop, hn]; exact PL.le_refl _
  case case3 k hn ih =>
    have h' : (PL.cons _ ⟨_, sb⟩) ⊑ b' := h
    obtain ⟨b'', rfl, hb⟩ := PL.le_cons_inv h'
    simp only [PL.cons_vals, PL.cons_st, clumpLoop, hn]; exact ih b'' hb
  case case4 ih => simp only [clumpLoop]; exact PL.cons_le_cons _ (ih b' h)
  case case5 hd he => subst hd; simp [clumpLoop, he]; exact PL.le_refl _
  case case6 hd he => subst hd; simp [clumpLoop, he]; exact PL.le_refl _
  case case7 hd =>
    cases sa with
    | more => exact PL.more_le _
    | done => exact absurd rfl hd
    | err => simp [clumpLoop]; exact PL.le_refl _
  case case8 ih => simp only [clumpLoop]; exact ih b' h

theorem clumpF_mono (ph : ClumpPh) {a a' b b' : PL} (ha : a ⊑ a') (hb : b ⊑ b') :
    clumpF ph a b ⊑ clumpF ph a' b' :=
  PL.le_trans (clumpLoop_mono_left a.st b.st ph a.vals b.vals a' ha)
    (clumpLoop_mono_right a'.st b.st ph a'.vals b.vals b' hb)

/-- Collecting `k` more values onto `acc`: either a full group comes out, or the source ends. -/
theorem clumpLoop_c (sa sb : Status) (k : Nat) (acc as bs : List Val) :
    clumpLoop sa sb (.c acc k) as bs =
      if k ≤ as.length then (clumpLoop sa sb .n (as.drop k) bs).cons (.list (acc ++ as.take k))
      else match sa with
        | .done => if (acc ++ as).isEmpty then ⟨[], .done⟩ else ⟨[.list (acc ++ as)], .done⟩
        | s => ⟨[], s⟩ := by
  induction k generalizing acc as with
  | zero => simp [clumpLoop]
  | succ k ih =>
    cases as with
    | nil => cases sa <;> simp [clumpLoop]
    | cons v t => simp [clumpLoop, ih]

theorem clumpLoop_n_eq (sa sb : Status) (as bs : List Val) :
    clumpLoop sa sb .n as bs = clumpL sa sb as bs := by
  induction bs generalizing as with
  | nil => simp [clumpLoop, clumpL]
  | cons n bs ih =>
    simp only [clumpLoop, clumpL]
    cases n.toInt? with
    | none => rfl
    | some c =>
      simp only [clumpLoop_c, List.nil_append]
      split
      · rw [ih]
      · cases sa <;> rfl

theorem clumpF_n_eq (a b : PL) : clumpF .n a b = clumpD a b := by
  simp [clumpF, clumpD, clumpLoop_n_eq]

theorem obs_clump (a b : St) (ca cb : Nat → PL) (hca : Chain ca) (hcb : Chain cb)
    (ha : Obs a = Lim ca) (hb : Obs b = Lim cb) :
    Obs (.clump a b .n) = Lim (fun k => clumpD (ca k) (cb k)) := by
  have := obs_glue2 (fun x y => clumpF .n x y)
    (fun _ _ _ _ h1 h2 => clumpF_mono .n h1 h2) (.clump a b .n) a b
    (fun n => run_clump_A n a b .n n n (Nat.le_refl _) (Nat.le_refl _))
    (fun na nb => run_clump_B (na + nb) a b .n na nb (Nat.le_refl _)) ca cb hca hcb ha hb
  simpa [clumpF_n_eq] using this

end Sc3Verif.C13
