/-
C13 — several streams of one pattern used in any interleaving (core Lean only; the driver's
`new` / `next <id>` protocol is this session machine).
-/
import Sc3Verif.C13.Model
namespace Sc3Verif.C13

/-- What one `next()` call shows. -/
inductive Seen where
  | val (v : Val)
  | stop
  | raised
  | hang          -- fuel ran out (the real call would not return)
deriving Repr, Inhabited

/-- One `next()` on a stream slot (`none` = the stream has ended: StopStream for ever). -/
def slotNext (fuel : Nat) : Option St → Seen × Option St
  | none => (.stop, none)
  | some s =>
    match next fuel s with
    | some (.yield v s') => (.val v, some s')
    | some .done => (.stop, none)
    | some .err => (.raised, none)
    | _ => (.hang, none)

/-- `k` successive `next()` calls on one stream. -/
def soloRun (fuel : Nat) : Nat → Option St → List Seen
  | 0, _ => []
  | k + 1, s => (slotNext fuel s).1 :: soloRun fuel k (slotNext fuel s).2

/-- `next()` calls on the streams of a session in the order `ops` (stream indices); each output
    is tagged with its stream. Indices out of range are ignored. -/
def sessRun (fuel : Nat) : List (Option St) → List Nat → List (Nat × Seen)
  | _, [] => []
  | ss, i :: ops =>
    match ss[i]? with
    | some slot => (i, (slotNext fuel slot).1) :: sessRun fuel (ss.set i (slotNext fuel slot).2) ops
    | none => sessRun fuel ss ops

end Sc3Verif.C13
