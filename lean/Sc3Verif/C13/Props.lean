/-
C13 — Patterns denote the sequences their definitions say, compositionally.
Property theorems only (helpers are in the other files of this directory).
-/
import Sc3Verif.C13.MachMap1
import Sc3Verif.C13.Session
namespace Sc3Verif.C13

/-- Streams never influence one another: in ANY interleaving of `next()` calls on any number of
    streams (here: arbitrary stream states `ss`, in particular `m` fresh streams of one pattern),
    what stream `i` shows is exactly what it shows when it is used alone. -/
theorem streams_independent (fuel : Nat) (ss : List (Option St)) (ops : List Nat) (i : Nat)
    (hi : i < ss.length) :
    ((sessRun fuel ss ops).filter (fun o => o.1 == i)).map (·.2) =
      soloRun fuel (ops.count i) ss[i] := by
  induction ops generalizing ss with
  | nil => simp [sessRun, soloRun]
  | cons j ops ih =>
    rw [sessRun]
    by_cases hj : j < ss.length
    · rw [List.getElem?_eq_getElem hj]
      simp only
      by_cases hji : j = i
      · subst hji
        simp only [List.filter_cons, beq_self_eq_true, if_true, List.map_cons, List.count_cons_self,
          soloRun]
        rw [ih _ (by simpa using hi)]
        simp
      · have hne : (j == i) = false := by simpa using hji
        simp only [List.filter_cons, hne, Bool.false_eq_true, if_false]
        rw [ih _ (by simpa using hi), List.count_cons_of_ne (by simpa using hji)]
        simp [List.getElem_set_ne hji]
    · rw [List.getElem?_eq_none (by omega)]
      simp only
      have hji : j ≠ i := by omega
      rw [ih _ hi, List.count_cons_of_ne hji]

/-- Blueprint immutability: every stream made from a pattern starts from the same state, which
    is a function of the pattern alone (`initS`), so with `streams_independent` each of `m`
    streams of one pattern yields the pattern's own sequence whatever the others do. -/
theorem blueprint_immutable (fuel : Nat) (p : Pat) (m : Nat) (ops : List Nat) (i : Nat) (hi : i < m) :
    ((sessRun fuel (List.replicate m (some (initS p))) ops).filter (fun o => o.1 == i)).map (·.2) =
      soloRun fuel (ops.count i) (some (initS p)) := by
  have := streams_independent fuel (List.replicate m (some (initS p))) ops i (by simpa using hi)
  simpa using this

/-- A stream that has stopped keeps stopping (second pass after exhaustion). -/
theorem stopped_stays_stopped (fuel k : Nat) : soloRun fuel k none = List.replicate k Seen.stop := by
  induction k with
  | zero => rfl
  | succ k ih => simp [soloRun, slotNext, ih, List.replicate_succ]

end Sc3Verif.C13
