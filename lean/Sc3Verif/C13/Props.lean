/-
C13 — Patterns denote the sequences their definitions say, compositionally.
Property theorems only (helpers are in the other files of this directory).
-/
import Sc3Verif.C13.Final
import Sc3Verif.C13.Session
namespace Sc3Verif.C13

/-! ## MAIN: the stream of a pattern shows the sequence the pattern denotes

`Obs s` is the set of all finite observations of the stream state `s` (what `n` small steps show,
for every `n`), `Lim (fun k => denE k p)` the set of all finite approximations of the sequence the
spec assigns to `p`.  Equality of the two sets says: every value (and every end / exception) the
real generator produces is the one the denotation has at that position, and every value the
denotation has is eventually produced — for every pattern of the AST, arbitrarily nested, with
finite and infinite repeats (no bound anywhere; silent divergence is the empty continuation on
both sides). -/

/-- MAIN (embedding): `stm.embed(p)` yields exactly the sequence `denE · p`. -/
theorem stream_eq_den (p : Pat) (h : p.WF) : Obs (initE p) = Lim (fun k => denE k p) :=
  (good_of_wf p h).1

/-- MAIN (stream): `stm.stream(p)` yields exactly the sequence `denS · p`. -/
theorem stream_eq_den_S (p : Pat) (h : p.WF) : Obs (initS p) = Lim (fun k => denS k p) :=
  (goodS_of_good (good_of_wf p h)).1

/-- The approximations of the denotation form a chain: deeper unrolling only adds information. -/
theorem den_chain (p : Pat) (h : p.WF) : Chain (fun k => denS k p) :=
  (goodS_of_good (good_of_wf p h)).2

/-- Soundness half, explicitly: whatever the stream shows within `m` steps is part of the denoted
    sequence. -/
theorem run_le_den (p : Pat) (h : p.WF) (m : Nat) : ∃ k, run m (initS p) ⊑ denS k p := by
  have : Obs (initS p) (run m (initS p)) := ⟨m, PL.le_refl _⟩
  rw [stream_eq_den_S p h] at this; exact this

/-- Completeness half, explicitly: every approximation of the denoted sequence is eventually
    shown by the stream. -/
theorem den_le_run (p : Pat) (h : p.WF) (k : Nat) : ∃ m, denS k p ⊑ run m (initS p) := by
  have : Lim (fun k => denS k p) (denS k p) := ⟨k, PL.le_refl _⟩
  rw [← stream_eq_den_S p h] at this; exact this

theorem PL.le_vals_prefix {x y : PL} (h : x ⊑ y) : x.vals <+: y.vals := by
  unfold PL.le at h
  cases hx : x.st <;> simp only [hx] at h
  · exact h
  · subst h; exact List.prefix_refl _
  · subst h; exact List.prefix_refl _

/-- The `take n` form: whenever `m` steps of the stream and depth `k` of the denotation both
    determine the first `n` values, these are the same values. -/
theorem stream_take_eq_den (p : Pat) (h : p.WF) (n m k : Nat)
    (h1 : n ≤ (run m (initS p)).vals.length) (h2 : n ≤ (denS k p).vals.length) :
    (run m (initS p)).vals.take n = (denS k p).vals.take n := by
  obtain ⟨k', hk'⟩ := run_le_den p h m
  have hc := den_chain p h
  have ha : run m (initS p) ⊑ denS (max k k') p := PL.le_trans hk' (hc.le (Nat.le_max_right _ _))
  have hb : denS k p ⊑ denS (max k k') p := hc.le (Nat.le_max_left _ _)
  obtain ⟨t1, ht1⟩ := PL.le_vals_prefix ha
  obtain ⟨t2, ht2⟩ := PL.le_vals_prefix hb
  have e1 : (run m (initS p)).vals.take n = (denS (max k k') p).vals.take n := by
    rw [← ht1, List.take_append_of_le_length h1]
  have e2 : (denS k p).vals.take n = (denS (max k k') p).vals.take n := by
    rw [← ht2, List.take_append_of_le_length h2]
  rw [e1, e2]

/-- Ends agree: if the stream is seen to stop (or raise) after some values, the denotation is
    exactly that finite sequence with that end, and conversely. -/
theorem stream_end_iff_den_end (p : Pat) (h : p.WF) (x : PL) (hx : x.st ≠ .more) :
    (∃ m, run m (initS p) = x) ↔ (∃ k, denS k p = x) := by
  constructor
  · rintro ⟨m, rfl⟩
    obtain ⟨k, hk⟩ := run_le_den p h m
    exact ⟨k, (PL.eq_of_le_of_closed hk hx).symm⟩
  · rintro ⟨k, rfl⟩
    obtain ⟨m, hm⟩ := den_le_run p h k
    exact ⟨m, (PL.eq_of_le_of_closed hm hx).symm⟩

/-! ## `next()` as the driver runs it is an observation of the stream -/

theorem next_yield_obs {f : Nat} {s s' : St} {v : Val} (h : next f s = some (.yield v s')) :
    ∀ x, Obs s' x → Obs s (x.cons v) := by
  induction f generalizing s with
  | zero => simp [next] at h
  | succ f ih =>
    intro x hx
    rw [next] at h
    cases hs : step s with
    | tau t =>
      rw [hs] at h
      obtain ⟨n, hn⟩ := ih h x hx
      exact ⟨n + 1, by simp only; rw [run_tau hs]; exact hn⟩
    | yield w t =>
      rw [hs] at h; simp only [Option.some.injEq, Step.yield.injEq] at h
      obtain ⟨rfl, rfl⟩ := h
      obtain ⟨n, hn⟩ := hx
      exact ⟨n + 1, by simp only; rw [run_yield hs]; exact PL.cons_le_cons _ hn⟩
    | done => rw [hs] at h; simp at h
    | err => rw [hs] at h; simp at h

theorem next_done_obs {f : Nat} {s : St} (h : next f s = some .done) : Obs s ⟨[], .done⟩ := by
  induction f generalizing s with
  | zero => simp [next] at h
  | succ f ih =>
    rw [next] at h
    cases hs : step s with
    | tau t =>
      rw [hs] at h
      obtain ⟨n, hn⟩ := ih h
      exact ⟨n + 1, by simp only; rw [run_tau hs]; exact hn⟩
    | yield w t => rw [hs] at h; simp at h
    | done => exact ⟨1, by simp only; rw [run_done hs]; exact PL.le_refl _⟩
    | err => rw [hs] at h; simp at h

theorem next_err_obs {f : Nat} {s : St} (h : next f s = some .err) : Obs s ⟨[], .err⟩ := by
  induction f generalizing s with
  | zero => simp [next] at h
  | succ f ih =>
    rw [next] at h
    cases hs : step s with
    | tau t =>
      rw [hs] at h
      obtain ⟨n, hn⟩ := ih h
      exact ⟨n + 1, by simp only; rw [run_tau hs]; exact hn⟩
    | yield w t => rw [hs] at h; simp at h
    | done => rw [hs] at h; simp at h
    | err => exact ⟨1, by simp only; rw [run_err hs]; exact PL.le_refl _⟩

/-! ## Blueprints and independent streams -/

/-- Streams never influence one another: in ANY interleaving of `next()` calls on any number of
    streams (here: arbitrary stream states `ss`, in particular `m` fresh streams of one pattern),
    what stream `i` shows is exactly what it shows when it is used alone. -/
theorem streams_independent (fuel : Nat) (ss : List (Option St)) (ops : List Nat) (i : Nat)
    (hi : i < ss.length) :
    ((sessRun fuel ss ops).filter (fun o => o.1 == i)).map (·.2) =
      soloRun fuel (ops.count i) ss[i] := by
  induction ops generalizing ss with
  | nil => simp [sessRun, soloRun]
  | cons j ops ih =>
    rw [sessRun]
    by_cases hj : j < ss.length
    · rw [List.getElem?_eq_getElem hj]
      simp only
      by_cases hji : j = i
      · subst hji
        simp only [List.filter_cons, beq_self_eq_true, if_true, List.map_cons, List.count_cons_self,
          soloRun]
        rw [ih _ (by simpa using hi)]
        simp
      · have hne : (j == i) = false := by simpa using hji
        simp only [List.filter_cons, hne, Bool.false_eq_true, if_false]
        rw [ih _ (by simpa using hi), List.count_cons_of_ne (by simpa using hji)]
        simp [List.getElem_set_ne hji]
    · rw [List.getElem?_eq_none (by omega)]
      simp only
      have hji : j ≠ i := by omega
      rw [ih _ hi, List.count_cons_of_ne hji]

/-- Blueprint immutability: every stream made from a pattern starts from the same state, which
    is a function of the pattern alone (`initS`), so with `streams_independent` each of `m`
    streams of one pattern yields the pattern's own sequence whatever the others do. -/
theorem blueprint_immutable (fuel : Nat) (p : Pat) (m : Nat) (ops : List Nat) (i : Nat) (hi : i < m) :
    ((sessRun fuel (List.replicate m (some (initS p))) ops).filter (fun o => o.1 == i)).map (·.2) =
      soloRun fuel (ops.count i) (some (initS p)) := by
  have := streams_independent fuel (List.replicate m (some (initS p))) ops i (by simpa using hi)
  simpa using this

/-- A stream that has stopped keeps stopping (second pass after exhaustion). -/
theorem stopped_stays_stopped (fuel k : Nat) : soloRun fuel k none = List.replicate k Seen.stop := by
  induction k with
  | zero => rfl
  | succ k ih => simp [soloRun, slotNext, ih, List.replicate_succ]

/-! ## Non-vacuity: a concrete nested pattern with an endless repeat -/

/-- `Pstutter(Pseq([1, Pn(2.5, 2), Pseries(0, 1, inf) + 10], inf, 1), Pseq([2, 0, 1], inf))` -/
def examplePat : Pat :=
  .stutter
    (.seq [.const (.int 1), .pn (.const (.flt (5/2))) (.fin 2),
           .len (.binop .add (.series (.int 0) (.const (.int 1)) .inf) (.const (.int 10))) 2] .inf 1)
    (.seq [.const (.int 2), .const (.int 0), .const (.int 1)] .inf 0)

example : examplePat.WF := by simp [examplePat, Pat.WF, WFL]


example : denS 2 (.pn (.const (.int 1)) .inf) = ⟨[.int 1, .int 1], .more⟩ := by rfl

example : run 5 (initS (.pn (.const (.int 1)) (.fin 2))) = ⟨[.int 1, .int 1], .done⟩ := by
  simp [run, step, initS, initE, sOf, schedLoad, SchedD.item, Rep.allows, Item.start, PL.cons]

end Sc3Verif.C13
