/-
C13 — Pswitch1: every index value pulls ONE value from the parallel stream it selects.
-/
import Sc3Verif.C13.MachSwitch
namespace Sc3Verif.C13

/-- What the parallel streams show, stream `i` within `N i` steps. -/
def runsF (N : Nat → Nat) (subs : List St) : List PL := subs.mapIdx fun i s => run (N i) s

/-- Pull one value from the selected sequence `x` (the `k`-th). -/
def sw1Pull (s : Status) (subs : List PL) (ws : List Val) (k : Nat) : PL → PL
  | ⟨v :: rest, st⟩ => (switch1L s (subs.set k ⟨rest, st⟩) ws).cons v
  | ⟨[], st⟩ => ⟨[], st⟩

/-- Pswitch1's loop by phases (`some k`: stream `k` is being pulled). -/
def sw1F (s : Status) : Option Nat → List PL → List Val → PL
  | none, subs, ws => switch1L s subs ws
  | some k, subs, ws =>
    match subs[k]? with
    | some x => sw1Pull s subs ws k x
    | none => ⟨[], .err⟩

theorem sw1Pull_cons (s : Status) (subs : List PL) (ws : List Val) (k : Nat) (v : Val) (x : PL) :
    sw1Pull s subs ws k (x.cons v) = (switch1L s (subs.set k x) ws).cons v := by
  obtain ⟨l, st⟩ := x; rfl

theorem sw1Pull_nil (s : Status) (subs : List PL) (ws : List Val) (k : Nat) (st : Status) :
    sw1Pull s subs ws k ⟨[], st⟩ = ⟨[], st⟩ := rfl

theorem switch1L_nil (s : Status) (subs : List PL) : switch1L s subs [] = ⟨[], s⟩ := by
  rw [switch1L]

theorem switch1L_cons (s : Status) (subs : List PL) (iv : Val) (ws : List Val) :
    switch1L s subs (iv :: ws) =
      match iv.idx? with
      | none => ⟨[], .err⟩
      | some i =>
        if subs.isEmpty then ⟨[], .err⟩ else sw1F s (some (Int.fmod i subs.length).toNat) subs ws := by
  rw [switch1L]
  cases iv.idx? with
  | none => rfl
  | some i =>
    simp only [sw1F]
    split
    · rfl
    · split
      · rename_i h; simp [h, sw1Pull]
      · rename_i h; simp [h, sw1Pull]
      · rename_i h; simp [h]

theorem stepAt_eq (all : List St) (w : St) (k0 : Nat) : ∀ (l : List St) (k : Nat),
    stepAt all w k0 l k =
      match l[k]? with
      | none => .err
      | some s =>
        match step s with
        | .yield v s' => .yield v (.switch1 (all.set k0 s') w none)
        | .tau s' => .tau (.switch1 (all.set k0 s') w (some k0))
        | .done => .done
        | .err => .err := by
  intro l
  induction l with
  | nil => intro k; rw [stepAt]; simp
  | cons s t ih =>
    intro k
    cases k with
    | zero => rw [stepAt]; simp; cases step s <;> simp
    | succ k => rw [stepAt, ih k]; simp

theorem step_sw1N (subs : List St) (w : St) : step (.switch1 subs w none) =
    match step w with
    | .yield iv w' =>
      match iv.idx? with
      | some i =>
        if subs.isEmpty then .err else .tau (.switch1 subs w' (some (Int.fmod i subs.length).toNat))
      | none => .err
    | .tau w' => .tau (.switch1 subs w' none)
    | .done => .done
    | .err => .err := by
  rw [step]; cases step w <;> simp
  split <;> simp [*]

theorem step_sw1S (subs : List St) (w : St) (k : Nat) : step (.switch1 subs w (some k)) =
    match subs[k]? with
    | none => .err
    | some s =>
      match step s with
      | .yield v s' => .yield v (.switch1 (subs.set k s') w none)
      | .tau s' => .tau (.switch1 (subs.set k s') w (some k))
      | .done => .done
      | .err => .err := by
  rw [step, stepAt_eq]

theorem runsF_get (N : Nat → Nat) (subs : List St) (k : Nat) :
    (runsF N subs)[k]? = (subs[k]?).map (run (N k)) := by
  simp [runsF, List.getElem?_mapIdx]

theorem runsF_set (N : Nat → Nat) (subs : List St) (k : Nat) (s' : St) (m : Nat) :
    runsF (fun i => if i = k then m else N i) (subs.set k s') = (runsF N subs).set k (run m s') := by
  apply List.ext_getElem?
  intro i
  simp only [runsF, List.getElem?_mapIdx, List.getElem?_set, List.length_mapIdx]
  by_cases hik : k = i
  · subst hik; simp
  · have : i ≠ k := fun h => hik h.symm
    simp [hik, this]

theorem sw1F_some_of_get {s : Status} {k : Nat} {subs : List PL} {ws : List Val} {x : PL}
    (h : subs[k]? = some x) : sw1F s (some k) subs ws = sw1Pull s subs ws k x := by
  simp only [sw1F, h]

theorem getElem?_some_lt {α} {l : List α} {k : Nat} {x : α} (h : l[k]? = some x) : k < l.length := by
  rcases Nat.lt_or_ge k l.length with h' | h'
  · exact h'
  · rw [List.getElem?_eq_none h'] at h; cases h

theorem run_sw1_A (n : Nat) (subs : List St) (w : St) (ph : Option Nat) (N : Nat → Nat) (nw : Nat)
    (hN : ∀ i, n ≤ N i) (hw : n ≤ nw) :
    run n (.switch1 subs w ph) ⊑ sw1F (run nw w).st ph (runsF N subs) (run nw w).vals := by
  induction n generalizing subs w ph N nw with
  | zero => exact PL.more_le _
  | succ n ih =>
    cases ph with
    | none =>
      obtain ⟨nw', rfl⟩ : ∃ k, nw = k + 1 := ⟨nw - 1, by omega⟩
      have hl := step_sw1N subs w
      cases hs : step w with
      | yield iv w' =>
        rw [hs] at hl; simp only at hl
        rw [run_yield hs]; simp only [PL.cons_vals, PL.cons_st]
        rw [show sw1F (run nw' w').st none (runsF N subs) (iv :: (run nw' w').vals) =
          switch1L (run nw' w').st (runsF N subs) (iv :: (run nw' w').vals) from rfl, switch1L_cons]
        cases hi : iv.idx? with
        | none => rw [hi] at hl; rw [run_err hl]; exact PL.le_refl _
        | some i =>
          rw [hi] at hl; simp only at hl
          have hlen : (runsF N subs).length = subs.length := by simp [runsF]
          have hemp : (runsF N subs).isEmpty = subs.isEmpty := by
            cases subs <;> simp [runsF]
          simp only [hemp, hlen]
          by_cases he : subs.isEmpty = true
          · simp only [he, if_true] at hl ⊢; rw [run_err hl]; exact PL.le_refl _
          · simp only [he] at hl ⊢
            rw [run_tau (by simpa using hl)]
            exact ih subs w' _ N nw' (fun i => by have := hN i; omega) (by omega)
      | tau w' =>
        rw [hs] at hl; rw [run_tau hl, run_tau hs]
        exact ih subs w' none N nw' (fun i => by have := hN i; omega) (by omega)
      | done => rw [hs] at hl; rw [run_done hl, run_done hs]; simp [sw1F, switch1L_nil]; exact PL.le_refl _
      | err => rw [hs] at hl; rw [run_err hl, run_err hs]; simp [sw1F, switch1L_nil]; exact PL.le_refl _
    | some k =>
      have hl := step_sw1S subs w k
      cases hk : subs[k]? with
      | none =>
        rw [hk] at hl; rw [run_err hl]
        have : (runsF N subs)[k]? = none := by rw [runsF_get, hk]; rfl
        simp [sw1F, this]; exact PL.le_refl _
      | some s =>
        rw [hk] at hl; simp only at hl
        have hklt := getElem?_some_lt hk
        obtain ⟨Nk, hNk⟩ : ∃ m, N k = m + 1 := ⟨N k - 1, by have := hN k; omega⟩
        have hget : (runsF N subs)[k]? = some (run (Nk + 1) s) := by rw [runsF_get, hk, hNk]; rfl
        rw [sw1F_some_of_get hget]
        have hN' : ∀ i, n ≤ (fun i => if i = k then Nk else N i) i := by
          intro i; simp only; split
          · have := hN k; omega
          · have := hN i; omega
        cases hs : step s with
        | yield v s' =>
          rw [hs] at hl; rw [run_yield hl, run_yield hs, sw1Pull_cons]
          have := ih (subs.set k s') w none _ nw hN' (by omega)
          rw [runsF_set] at this
          exact PL.cons_le_cons v this
        | tau s' =>
          rw [hs] at hl; rw [run_tau hl, run_tau hs]
          have := ih (subs.set k s') w (some k) _ nw hN' (by omega)
          rw [runsF_set] at this
          have hget' : ((runsF N subs).set k (run Nk s'))[k]? = some (run Nk s') :=
            List.getElem?_set_self (by simpa [runsF] using hklt)
          rw [sw1F_some_of_get hget'] at this
          -- pulling from the updated list or from the original one is the same
          have hp : ∀ x, sw1Pull (run nw w).st ((runsF N subs).set k (run Nk s')) (run nw w).vals k x =
              sw1Pull (run nw w).st (runsF N subs) (run nw w).vals k x := by
            intro x; obtain ⟨l, st⟩ := x
            cases l <;> simp [sw1Pull, List.set_set]
          rw [hp] at this; exact this
        | done => rw [hs] at hl; rw [run_done hl, run_done hs]; exact PL.le_refl _
        | err => rw [hs] at hl; rw [run_err hl, run_err hs]; exact PL.le_refl _

/-- Lemma B, phase `some k`, from phase `none` at the same budget of the index stream. -/
theorem run_sw1_B_some (nw : Nat)
    (hnone : ∀ (subs : List St) (w : St) (N : Nat → Nat),
      ∃ n, sw1F (run nw w).st none (runsF N subs) (run nw w).vals ⊑ run n (.switch1 subs w none))
    (k : Nat) (m : Nat) : ∀ (subs : List St) (w : St) (N : Nat → Nat), N k = m →
      ∃ n, sw1F (run nw w).st (some k) (runsF N subs) (run nw w).vals ⊑ run n (.switch1 subs w (some k)) := by
  induction m with
  | zero =>
    intro subs w N hNk
    cases hk : subs[k]? with
    | none =>
      have : (runsF N subs)[k]? = none := by rw [runsF_get, hk]; rfl
      have hl := step_sw1S subs w k
      rw [hk] at hl
      exact ⟨1, by simp only [sw1F, this]; rw [run_err hl]; exact PL.le_refl _⟩
    | some s =>
      have hget : (runsF N subs)[k]? = some (run 0 s) := by rw [runsF_get, hk, hNk]; rfl
      exact ⟨0, by rw [sw1F_some_of_get hget, run_zero, sw1Pull_nil]; exact PL.more_le _⟩
  | succ m ih =>
    intro subs w N hNk
    have hl := step_sw1S subs w k
    cases hk : subs[k]? with
    | none =>
      have : (runsF N subs)[k]? = none := by rw [runsF_get, hk]; rfl
      rw [hk] at hl
      exact ⟨1, by simp only [sw1F, this]; rw [run_err hl]; exact PL.le_refl _⟩
    | some s =>
      rw [hk] at hl; simp only at hl
      have hklt := getElem?_some_lt hk
      have hget : (runsF N subs)[k]? = some (run (m + 1) s) := by rw [runsF_get, hk, hNk]; rfl
      rw [sw1F_some_of_get hget]
      cases hs : step s with
      | yield v s' =>
        rw [hs] at hl
        obtain ⟨n, hn⟩ := hnone (subs.set k s') w (fun i => if i = k then m else N i)
        rw [runsF_set] at hn
        exact ⟨n + 1, by rw [run_yield hl, run_yield hs, sw1Pull_cons]; exact PL.cons_le_cons v hn⟩
      | tau s' =>
        rw [hs] at hl
        obtain ⟨n, hn⟩ := ih (subs.set k s') w (fun i => if i = k then m else N i) (by simp)
        rw [runsF_set] at hn
        have hget' : ((runsF N subs).set k (run m s'))[k]? = some (run m s') :=
          List.getElem?_set_self (by simpa [runsF] using hklt)
        rw [sw1F_some_of_get hget'] at hn
        have hp : ∀ x, sw1Pull (run nw w).st ((runsF N subs).set k (run m s')) (run nw w).vals k x =
            sw1Pull (run nw w).st (runsF N subs) (run nw w).vals k x := by
          intro x; obtain ⟨l, st⟩ := x
          cases l <;> simp [sw1Pull, List.set_set]
        rw [hp] at hn
        exact ⟨n + 1, by rw [run_tau hl, run_tau hs]; exact hn⟩
      | done => rw [hs] at hl; exact ⟨1, by rw [run_done hl, run_done hs]; exact PL.le_refl _⟩
      | err => rw [hs] at hl; exact ⟨1, by rw [run_err hl, run_err hs]; exact PL.le_refl _⟩

theorem run_sw1_B (nw : Nat) : ∀ (subs : List St) (w : St) (N : Nat → Nat),
    ∃ n, sw1F (run nw w).st none (runsF N subs) (run nw w).vals ⊑ run n (.switch1 subs w none) := by
  induction nw with
  | zero => intro subs w N; exact ⟨0, by simp [run_zero, sw1F, switch1L_nil]; exact PL.le_refl _⟩
  | succ nw ih =>
    intro subs w N
    have hl := step_sw1N subs w
    cases hs : step w with
    | yield iv w' =>
      rw [hs] at hl; simp only at hl
      rw [run_yield hs]; simp only [PL.cons_vals, PL.cons_st]
      rw [show sw1F (run nw w').st none (runsF N subs) (iv :: (run nw w').vals) =
        switch1L (run nw w').st (runsF N subs) (iv :: (run nw w').vals) from rfl, switch1L_cons]
      cases hi : iv.idx? with
      | none => rw [hi] at hl; exact ⟨1, by rw [run_err hl]; exact PL.le_refl _⟩
      | some i =>
        rw [hi] at hl; simp only at hl
        have hlen : (runsF N subs).length = subs.length := by simp [runsF]
        have hemp : (runsF N subs).isEmpty = subs.isEmpty := by cases subs <;> simp [runsF]
        simp only [hemp, hlen]
        by_cases he : subs.isEmpty = true
        · simp only [he, if_true] at hl ⊢; exact ⟨1, by rw [run_err hl]; exact PL.le_refl _⟩
        · simp only [he] at hl ⊢
          obtain ⟨n, hn⟩ := run_sw1_B_some nw ih (Int.fmod i subs.length).toNat _ subs w' N rfl
          exact ⟨n + 1, by rw [run_tau (by simpa using hl)]; exact hn⟩
    | tau w' =>
      rw [hs] at hl
      obtain ⟨n, hn⟩ := ih subs w' N
      exact ⟨n + 1, by rw [run_tau hl, run_tau hs]; exact hn⟩
    | done =>
      rw [hs] at hl
      exact ⟨1, by rw [run_done hl, run_done hs]; simp [sw1F, switch1L_nil]; exact PL.le_refl _⟩
    | err =>
      rw [hs] at hl
      exact ⟨1, by rw [run_err hl, run_err hs]; simp [sw1F, switch1L_nil]; exact PL.le_refl _⟩

/-! ### Monotonicity -/

/-- Pointwise approximation of two lists of the same length. -/
inductive LE2 : List PL → List PL → Prop where
  | nil : LE2 [] []
  | cons {x y : PL} {xs ys : List PL} : x ⊑ y → LE2 xs ys → LE2 (x :: xs) (y :: ys)

theorem LE2.length_eq {xs ys : List PL} (h : LE2 xs ys) : xs.length = ys.length := by
  induction h with
  | nil => rfl
  | cons _ _ ih => simp [ih]

theorem forall₂_set {xs ys : List PL} (h : LE2 xs ys) (k : Nat) {x y : PL} (hxy : x ⊑ y) :
    LE2 (xs.set k x) (ys.set k y) := by
  induction h generalizing k with
  | nil => exact LE2.nil
  | cons hab _ ih =>
    cases k with
    | zero => exact LE2.cons hxy (by assumption)
    | succ k => exact LE2.cons hab (ih k)

theorem forall₂_get {xs ys : List PL} (h : LE2 xs ys) (k : Nat) :
    (xs[k]? = none ∧ ys[k]? = none) ∨ (∃ x y, xs[k]? = some x ∧ ys[k]? = some y ∧ x ⊑ y) := by
  induction h generalizing k with
  | nil => exact Or.inl ⟨rfl, rfl⟩
  | cons hab _ ih =>
    cases k with
    | zero => exact Or.inr ⟨_, _, rfl, rfl, hab⟩
    | succ k => simpa using ih k

theorem switch1L_mono_subs (s : Status) (ws : List Val) : ∀ (subs subs' : List PL),
    LE2 subs subs' → switch1L s subs ws ⊑ switch1L s subs' ws := by
  induction ws with
  | nil => intro subs subs' _; rw [switch1L_nil, switch1L_nil]; exact PL.le_refl _
  | cons iv ws ih =>
    intro subs subs' h
    rw [switch1L_cons, switch1L_cons]
    cases iv.idx? with
    | none => exact PL.le_refl _
    | some i =>
      have hlen := h.length_eq
      have hemp : subs.isEmpty = subs'.isEmpty := by
        cases subs <;> cases subs' <;> simp_all
      simp only [hemp, hlen]
      split
      · exact PL.le_refl _
      · rcases forall₂_get h (Int.fmod i subs'.length).toNat with ⟨h1, h2⟩ | ⟨x, y, h1, h2, hxy⟩
        · simp [sw1F, h1, h2]; exact PL.le_refl _
        · rw [sw1F_some_of_get h1, sw1F_some_of_get h2]
          rcases PL.eta_cases x with ⟨st, rfl⟩ | ⟨v, x', rfl⟩
          · rw [sw1Pull_nil]
            rcases PL.nil_le_cases hxy with rfl | rfl
            · exact PL.more_le _
            · rw [sw1Pull_nil]; exact PL.le_refl _
          · obtain ⟨y', rfl, hy⟩ := PL.le_cons_inv hxy
            rw [sw1Pull_cons, sw1Pull_cons]
            exact PL.cons_le_cons v (ih _ _ (forall₂_set h _ hy))

theorem switch1L_mono_w {w w' : PL} (h : w ⊑ w') :
    ∀ subs, switch1L w.st subs w.vals ⊑ switch1L w'.st subs w'.vals := by
  refine PL.le_induction (P := fun w w' => ∀ subs, switch1L w.st subs w.vals ⊑ switch1L w'.st subs w'.vals)
    ?_ ?_ ?_ w w' h
  · intro y subs; rw [switch1L_nil]; exact PL.more_le _
  · intro s _ subs; exact PL.le_refl _
  · intro iv x y _ ih subs
    simp only [PL.cons_vals, PL.cons_st, switch1L_cons]
    cases iv.idx? with
    | none => exact PL.le_refl _
    | some i =>
      simp only
      split
      · exact PL.le_refl _
      · simp only [sw1F]
        cases subs[(Int.fmod i subs.length).toNat]? with
        | none => exact PL.le_refl _
        | some z =>
          rcases PL.eta_cases z with ⟨st, rfl⟩ | ⟨v, z', rfl⟩
          · simp only [sw1Pull_nil]; exact PL.le_refl _
          · simp only [sw1Pull_cons]; exact PL.cons_le_cons v (ih _)

theorem switch1D_mono {subs subs' : List PL} {w w' : PL} (hs : LE2 subs subs')
    (hw : w ⊑ w') : switch1D subs w ⊑ switch1D subs' w' :=
  PL.le_trans (switch1L_mono_subs w.st w.vals subs subs' hs) (switch1L_mono_w hw subs')

theorem initSL_eq_map (l : List Pat) : initSL l = l.map initS := by
  induction l with
  | nil => simp [initSL]
  | cons p t ih => simp [initSL, ih, initS]

theorem runsF_const (n : Nat) (subs : List St) : runsF (fun _ => n) subs = subs.map (run n) := by
  apply List.ext_getElem?; intro i; simp [runsF, List.getElem?_mapIdx]

theorem forall₂_map_of_mem {α} (l : List α) (f g : α → PL) (h : ∀ a ∈ l, f a ⊑ g a) :
    LE2 (l.map f) (l.map g) := by
  induction l with
  | nil => exact LE2.nil
  | cons a t ih =>
    simp only [List.map_cons]
    exact LE2.cons (h a (by simp)) (ih (fun b hb => h b (List.mem_cons_of_mem _ hb)))

/-- Observations of Pswitch1 from those of the index stream and of the parallel streams. -/
theorem obs_switch1 (l : List Pat) (DS : Nat → Pat → PL)
    (hD : ∀ p ∈ l, Chain (fun k => DS k p)) (H : ∀ p ∈ l, Obs (initS p) = Lim (fun k => DS k p))
    (w : St) (cw : Nat → PL) (hcw : Chain cw) (hw : Obs w = Lim cw) :
    Obs (.switch1 (initSL l) w none) = Lim (fun k => switch1D (l.map (DS k)) (cw k)) := by
  funext x; apply propext; constructor
  · rintro ⟨n, hn⟩
    have hA := run_sw1_A n (initSL l) w none (fun _ => n) n (fun _ => Nat.le_refl _) (Nat.le_refl _)
    have e : runsF (fun _ => n) (initSL l) = l.map (fun p => run n (initS p)) := by
      rw [runsF_const, initSL_eq_map, List.map_map]; rfl
    rw [e] at hA
    have h1 : Obs w (run n w) := ⟨n, PL.le_refl _⟩
    rw [hw] at h1; obtain ⟨k1, hk1⟩ := h1
    have hk : ∀ l' : List Pat, (∀ p ∈ l', p ∈ l) → ∃ k, ∀ p ∈ l', run n (initS p) ⊑ DS k p := by
      intro l'
      induction l' with
      | nil => intro _; exact ⟨0, fun p hp => absurd hp (by simp)⟩
      | cons q t ih =>
        intro hsub
        obtain ⟨k, hk⟩ := ih (fun p hp => hsub p (List.mem_cons_of_mem _ hp))
        have h2 : Obs (initS q) (run n (initS q)) := ⟨n, PL.le_refl _⟩
        rw [H q (hsub q (by simp))] at h2; obtain ⟨k', hk'⟩ := h2
        refine ⟨max k k', fun p hp => ?_⟩
        rcases List.mem_cons.mp hp with rfl | hp
        · exact PL.le_trans hk' ((hD _ (hsub _ (by simp))).le (Nat.le_max_right _ _))
        · exact PL.le_trans (hk p hp) ((hD _ (hsub _ (List.mem_cons_of_mem _ hp))).le (Nat.le_max_left _ _))
    obtain ⟨k2, hk2⟩ := hk l (fun _ h => h)
    refine ⟨max k1 k2, PL.le_trans hn (PL.le_trans hA ?_)⟩
    apply switch1D_mono
    · apply forall₂_map_of_mem
      intro p hp
      exact PL.le_trans (hk2 p hp) ((hD p hp).le (Nat.le_max_right _ _))
    · exact PL.le_trans hk1 (hcw.le (Nat.le_max_left _ _))
  · rintro ⟨k, hk⟩
    have h1 : Lim cw (cw k) := ⟨k, PL.le_refl _⟩
    rw [← hw] at h1; obtain ⟨nw, hnw⟩ := h1
    have hN : ∀ l' : List Pat, (∀ p ∈ l', p ∈ l) → ∃ N, ∀ p ∈ l', DS k p ⊑ run N (initS p) := by
      intro l'
      induction l' with
      | nil => intro _; exact ⟨0, fun p hp => absurd hp (by simp)⟩
      | cons q t ih =>
        intro hsub
        obtain ⟨N, hN⟩ := ih (fun p hp => hsub p (List.mem_cons_of_mem _ hp))
        have h2 : Lim (fun k => DS k q) (DS k q) := ⟨k, PL.le_refl _⟩
        rw [← H q (hsub q (by simp))] at h2; obtain ⟨N', hN'⟩ := h2
        refine ⟨max N N', fun p hp => ?_⟩
        rcases List.mem_cons.mp hp with rfl | hp
        · exact PL.le_trans hN' (run_mono (Nat.le_max_right _ _) _)
        · exact PL.le_trans (hN p hp) (run_mono (Nat.le_max_left _ _) _)
    obtain ⟨N, hN⟩ := hN l (fun _ h => h)
    obtain ⟨n, hn⟩ := run_sw1_B nw (initSL l) w (fun _ => N)
    have e : runsF (fun _ => N) (initSL l) = l.map (fun p => run N (initS p)) := by
      rw [runsF_const, initSL_eq_map, List.map_map]; rfl
    rw [e] at hn
    refine ⟨n, PL.le_trans hk (PL.le_trans ?_ hn)⟩
    apply switch1D_mono
    · apply forall₂_map_of_mem; intro p hp; exact hN p hp
    · exact hnw

end Sc3Verif.C13
