/-
C13 — embedding schedules (Pseq, Pser, Pn, Place, Ptuple's repeats): the stream embeds item
after item (`yield from`), each one a fresh stream, until the schedule stops.
-/
import Sc3Verif.C13.MachPif
namespace Sc3Verif.C13

theorem PL.append_nil_done (y : PL) : (⟨[], .done⟩ : PL).append y = y := by
  simp [PL.append]

theorem PL.append_nil_more (y : PL) : (⟨[], .more⟩ : PL).append y = ⟨[], .more⟩ := by
  simp [PL.append]

theorem PL.append_nil_err (y : PL) : (⟨[], .err⟩ : PL).append y = ⟨[], .err⟩ := by
  simp [PL.append]

theorem PL.append_cons (v : Val) (x y : PL) : (x.cons v).append y = (x.append y).cons v := by
  simp only [PL.append, PL.cons_st, PL.cons_vals]
  cases x.st <;> simp [PL.cons]

theorem PL.append_mono {a a' b b' : PL} (ha : a ⊑ a') (hb : b ⊑ b') : a.append b ⊑ a'.append b' := by
  suffices key : ∀ b b', b ⊑ b' → a.append b ⊑ a'.append b' from key b b' hb
  refine PL.le_induction (P := fun a a' => ∀ b b', b ⊑ b' → a.append b ⊑ a'.append b') ?_ ?_ ?_ a a' ha
  · intro y b b' _; rw [PL.append_nil_more]; exact PL.more_le _
  · intro s _ b b' hb
    cases s with
    | more => rw [PL.append_nil_more]; exact PL.more_le _
    | done => rw [PL.append_nil_done, PL.append_nil_done]; exact hb
    | err => rw [PL.append_nil_err]; exact PL.le_refl _
  · intro v x y _ ih b b' hb
    rw [PL.append_cons, PL.append_cons]; exact PL.cons_le_cons v (ih b b' hb)

/-- The items `i, i+1, …` of a schedule one after the other (`m` bounds how many are looked at);
    `g` gives what an item's own stream shows. -/
def schedF (d : SchedD) (g : Item → PL) : Nat → Nat → PL
  | 0, _ => ⟨[], .more⟩
  | m + 1, i =>
    match d.item i with
    | .stop => ⟨[], .done⟩
    | .raise => ⟨[], .err⟩
    | it => (g it).append (schedF d g m (i + 1))

/-- What an item's stream shows within `N` steps. -/
def itemRun (N : Nat) (it : Item) : PL :=
  match it.start with
  | some c => run N c
  | none => ⟨[], .err⟩

theorem step_sched (d : SchedD) (i : Nat) (cur : St) : step (.sched d i cur) =
    match step cur with
    | .yield v c => .yield v (.sched d i c)
    | .tau c => .tau (.sched d i c)
    | .err => .err
    | .done => schedLoad d i := by
  rw [step]; cases step cur <;> simp

theorem schedF_succ (d : SchedD) (g : Item → PL) (m i : Nat) :
    schedF d g (m + 1) i =
      match d.item i with
      | .stop => ⟨[], .done⟩
      | .raise => ⟨[], .err⟩
      | it => (g it).append (schedF d g m (i + 1)) := by
  rw [schedF]

theorem run_sched_A (d : SchedD) (N : Nat) (n : Nat) (i : Nat) (cur : St) (nc m : Nat)
    (hc : n ≤ nc) (hN : n ≤ N) (hm : n ≤ m) :
    run n (.sched d i cur) ⊑ (run nc cur).append (schedF d (itemRun N) m i) := by
  induction n generalizing i cur nc m with
  | zero => exact PL.more_le _
  | succ n ih =>
    obtain ⟨nc', rfl⟩ : ∃ k, nc = k + 1 := ⟨nc - 1, by omega⟩
    obtain ⟨m', rfl⟩ : ∃ k, m = k + 1 := ⟨m - 1, by omega⟩
    have hl := step_sched d i cur
    cases hs : step cur with
    | yield v c =>
      rw [hs] at hl; rw [run_yield hl, run_yield hs, PL.append_cons]
      exact PL.cons_le_cons v (ih i c nc' (m' + 1) (by omega) (by omega) (by omega))
    | tau c =>
      rw [hs] at hl; rw [run_tau hl, run_tau hs]
      exact ih i c nc' (m' + 1) (by omega) (by omega) (by omega)
    | err => rw [hs] at hl; rw [run_err hl, run_err hs, PL.append_nil_err]; exact PL.le_refl _
    | done =>
      rw [hs] at hl; simp only [schedLoad] at hl
      rw [run_done hs, PL.append_nil_done, schedF_succ]
      cases hi : d.item i with
      | stop => rw [hi] at hl; rw [run_done hl]; exact PL.le_refl _
      | raise => rw [hi] at hl; rw [run_err hl]; exact PL.le_refl _
      | emb p =>
        rw [hi] at hl; simp only [Item.start] at hl
        rw [run_tau hl]
        simp only [itemRun, Item.start]
        exact ih (i + 1) (initE p) N m' (by omega) (by omega) (by omega)
      | tup l =>
        rw [hi] at hl; simp only [Item.start] at hl
        rw [run_tau hl]
        simp only [itemRun, Item.start]
        exact ih (i + 1) (tupleOnce l) N m' (by omega) (by omega) (by omega)

/-- The part of lemma B that lets the running item finish, given what happens afterwards. -/
theorem run_sched_B_cur (d : SchedD) (i : Nat) (Y : PL)
    (hY : ∀ cur, step cur = .done → ∃ n, Y ⊑ run n (.sched d i cur)) :
    ∀ (nc : Nat) (cur : St), ∃ n, (run nc cur).append Y ⊑ run n (.sched d i cur) := by
  intro nc
  induction nc with
  | zero => intro cur; exact ⟨0, by rw [run_zero, PL.append_nil_more]; exact PL.more_le _⟩
  | succ nc ih =>
    intro cur
    have hl := step_sched d i cur
    cases hs : step cur with
    | yield v c =>
      rw [hs] at hl
      obtain ⟨n, hn⟩ := ih c
      exact ⟨n + 1, by rw [run_yield hl, run_yield hs, PL.append_cons]; exact PL.cons_le_cons v hn⟩
    | tau c =>
      rw [hs] at hl
      obtain ⟨n, hn⟩ := ih c
      exact ⟨n + 1, by rw [run_tau hl, run_tau hs]; exact hn⟩
    | err => rw [hs] at hl; exact ⟨1, by rw [run_err hl, run_err hs, PL.append_nil_err]; exact PL.le_refl _⟩
    | done =>
      obtain ⟨n, hn⟩ := hY cur hs
      exact ⟨n, by rw [run_done hs, PL.append_nil_done]; exact hn⟩

theorem run_sched_B (d : SchedD) (N : Nat) (m : Nat) : ∀ (i : Nat) (cur : St) (nc : Nat),
    ∃ n, (run nc cur).append (schedF d (itemRun N) m i) ⊑ run n (.sched d i cur) := by
  induction m with
  | zero =>
    intro i cur nc
    exact run_sched_B_cur d i _ (fun _ _ => ⟨0, PL.more_le _⟩) nc cur
  | succ m ih =>
    intro i cur nc
    refine run_sched_B_cur d i _ ?_ nc cur
    intro cur hs
    have hl := step_sched d i cur
    rw [hs] at hl; simp only [schedLoad] at hl
    rw [schedF_succ]
    cases hi : d.item i with
    | stop => rw [hi] at hl; exact ⟨1, by rw [run_done hl]; exact PL.le_refl _⟩
    | raise => rw [hi] at hl; exact ⟨1, by rw [run_err hl]; exact PL.le_refl _⟩
    | emb p =>
      rw [hi] at hl; simp only [Item.start] at hl
      obtain ⟨n, hn⟩ := ih (i + 1) (initE p) N
      exact ⟨n + 1, by rw [run_tau hl]; simpa [itemRun, Item.start] using hn⟩
    | tup l =>
      rw [hi] at hl; simp only [Item.start] at hl
      obtain ⟨n, hn⟩ := ih (i + 1) (tupleOnce l) N
      exact ⟨n + 1, by rw [run_tau hl]; simpa [itemRun, Item.start] using hn⟩

/-- `schedF` only looks at `g` on the items `i, …, i+m-1`. -/
theorem schedF_mono_g (d : SchedD) (g g' : Item → PL) (m : Nat) : ∀ i,
    (∀ j, j < m → (d.item (i + j)).start.isSome → g (d.item (i + j)) ⊑ g' (d.item (i + j))) →
      schedF d g m i ⊑ schedF d g' m i := by
  induction m with
  | zero => intro i _; exact PL.le_refl _
  | succ m ih =>
    intro i h
    rw [schedF_succ, schedF_succ]
    have h0 := h 0 (by omega)
    have hrest : schedF d g m (i + 1) ⊑ schedF d g' m (i + 1) := by
      apply ih; intro j hj
      have := h (j + 1) (by omega)
      simpa [Nat.add_assoc, Nat.add_comm 1 j] using this
    simp only [Nat.add_zero] at h0
    cases hi : d.item i with
    | stop => exact PL.le_refl _
    | raise => exact PL.le_refl _
    | emb p => rw [hi] at h0; exact PL.append_mono (h0 rfl) hrest
    | tup l => rw [hi] at h0; exact PL.append_mono (h0 rfl) hrest

theorem schedF_mono_m (d : SchedD) (g : Item → PL) (m : Nat) : ∀ i, schedF d g m i ⊑ schedF d g (m + 1) i := by
  induction m with
  | zero => intro i; exact PL.more_le _
  | succ m ih =>
    intro i
    rw [schedF_succ, schedF_succ (m := m + 1)]
    cases d.item i with
    | stop => exact PL.le_refl _
    | raise => exact PL.le_refl _
    | emb p => exact PL.append_mono (PL.le_refl _) (ih (i + 1))
    | tup l => exact PL.append_mono (PL.le_refl _) (ih (i + 1))

theorem schedF_mono_m_le (d : SchedD) (g : Item → PL) {m m' : Nat} (h : m ≤ m') (i : Nat) :
    schedF d g m i ⊑ schedF d g m' i := by
  induction h with
  | refl => exact PL.le_refl _
  | step _ ih => exact PL.le_trans ih (schedF_mono_m d g _ i)

theorem PL.le_more_nil {x : PL} (h : x ⊑ ⟨[], .more⟩) : x = ⟨[], .more⟩ := by
  obtain ⟨l, s⟩ := x
  unfold PL.le at h
  cases s <;> simp_all

/-- Observations of an embedding schedule from what each item's stream shows. -/
theorem obs_sched (d : SchedD) (i : Nat) (D : Nat → Item → PL)
    (hD : ∀ j, Chain (fun k => D k (d.item j)))
    (H : ∀ j c, (d.item j).start = some c → Obs c = Lim (fun k => D k (d.item j))) :
    Obs (.sched d i .nil) = Lim (fun k => schedF d (D k) k i) := by
  funext x; apply propext; constructor
  · rintro ⟨n, hn⟩
    cases n with
    | zero => rw [PL.le_more_nil hn]; exact ⟨0, PL.more_le _⟩
    | succ n =>
      have hA := run_sched_A d (n + 1) (n + 1) i .nil (n + 1) (n + 1) (Nat.le_refl _) (Nat.le_refl _)
        (Nat.le_refl _)
      rw [run_nil_succ, PL.append_nil_done] at hA
      have hk : ∀ m, ∃ k, ∀ j, j < m → (d.item (i + j)).start.isSome →
          itemRun (n + 1) (d.item (i + j)) ⊑ D k (d.item (i + j)) := by
        intro m
        induction m with
        | zero => exact ⟨0, fun j hj => absurd hj (by omega)⟩
        | succ m ih =>
          obtain ⟨k, hk⟩ := ih
          cases hst : (d.item (i + m)).start with
          | none =>
            refine ⟨k, fun j hj hs => ?_⟩
            by_cases hjm : j = m
            · subst hjm; rw [hst] at hs; exact absurd hs (by simp)
            · exact hk j (by omega) hs
          | some c =>
            have h1 : Obs c (run (n + 1) c) := ⟨n + 1, PL.le_refl _⟩
            rw [H _ c hst] at h1
            obtain ⟨k', hk'⟩ := h1
            refine ⟨max k k', fun j hj hs => ?_⟩
            by_cases hjm : j = m
            · subst hjm
              simp only [itemRun, hst]
              exact PL.le_trans hk' ((hD _).le (Nat.le_max_right _ _))
            · exact PL.le_trans (hk j (by omega) hs) ((hD _).le (Nat.le_max_left _ _))
      obtain ⟨k, hk⟩ := hk (n + 1)
      refine ⟨max k (n + 1), PL.le_trans hn (PL.le_trans hA ?_)⟩
      refine PL.le_trans (schedF_mono_g d _ (D (max k (n + 1))) (n + 1) i ?_)
        (schedF_mono_m_le d _ (Nat.le_max_right _ _) i)
      intro j hj hs
      exact PL.le_trans (hk j hj hs) ((hD _).le (Nat.le_max_left _ _))
  · rintro ⟨k, hk⟩
    have hN : ∀ m, ∃ N, ∀ j, j < m → (d.item (i + j)).start.isSome →
        D k (d.item (i + j)) ⊑ itemRun N (d.item (i + j)) := by
      intro m
      induction m with
      | zero => exact ⟨0, fun j hj => absurd hj (by omega)⟩
      | succ m ih =>
        obtain ⟨N, hN⟩ := ih
        cases hst : (d.item (i + m)).start with
        | none =>
          refine ⟨N, fun j hj hs => ?_⟩
          by_cases hjm : j = m
          · subst hjm; rw [hst] at hs; exact absurd hs (by simp)
          · exact hN j (by omega) hs
        | some c =>
          have h1 : Lim (fun k => D k (d.item (i + m))) (D k (d.item (i + m))) := ⟨k, PL.le_refl _⟩
          rw [← H _ c hst] at h1
          obtain ⟨N', hN'⟩ := h1
          refine ⟨max N N', fun j hj hs => ?_⟩
          by_cases hjm : j = m
          · subst hjm
            simp only [itemRun, hst]
            exact PL.le_trans hN' (run_mono (Nat.le_max_right _ _) c)
          · have := hN j (by omega) hs
            cases hst' : (d.item (i + j)).start with
            | none => rw [hst'] at hs; exact absurd hs (by simp)
            | some c' =>
              simp only [itemRun, hst'] at this ⊢
              exact PL.le_trans this (run_mono (Nat.le_max_left _ _) c')
    obtain ⟨N, hN⟩ := hN k
    obtain ⟨n, hn⟩ := run_sched_B d N k i .nil 1
    rw [run_nil_succ, PL.append_nil_done] at hn
    exact ⟨n, PL.le_trans hk (PL.le_trans (schedF_mono_g d _ _ k i hN) hn)⟩

end Sc3Verif.C13
