/-
C13 — one-operand streams with a little state: Pdrop, Plen, Pdiff, Pconst, Pseries/Pgeom.
For each: `A` the stream shows no more than the sequence function of what its operand shows,
`B` it eventually shows all of it, and the sequence function is monotone.
-/
import Sc3Verif.C13.Order
namespace Sc3Verif.C13

@[simp] theorem PL.cons_vals (v : Val) (x : PL) : (x.cons v).vals = v :: x.vals := rfl
@[simp] theorem PL.cons_st (v : Val) (x : PL) : (x.cons v).st = x.st := rfl

theorem run_nil_succ (n : Nat) : run (n + 1) .nil = ⟨[], .done⟩ := by simp [run, step]

theorem PL.closed_le {l : List Val} {s : Status} {y : PL} (hs : s ≠ .more) (h : (⟨l, s⟩ : PL) ⊑ y) :
    y = ⟨l, s⟩ := (PL.eq_of_le_of_closed h hs).symm

/-- Induction principle for monotonicity proofs: compare `x ⊑ y` along the values of `x`. -/
theorem PL.le_induction {P : PL → PL → Prop}
    (hmore : ∀ y, P ⟨[], .more⟩ y)
    (hclosed : ∀ s, s ≠ .more → P ⟨[], s⟩ ⟨[], s⟩)
    (hcons : ∀ v x y, x ⊑ y → P x y → P (x.cons v) (y.cons v)) :
    ∀ x y, x ⊑ y → P x y := by
  intro x
  obtain ⟨xv, xs⟩ := x
  induction xv with
  | nil =>
    intro y h
    cases xs with
    | more => exact hmore y
    | done => rw [PL.closed_le (by simp) h]; exact hclosed _ (by simp)
    | err => rw [PL.closed_le (by simp) h]; exact hclosed _ (by simp)
  | cons v t ih =>
    intro y h
    have h' : (PL.cons v ⟨t, xs⟩) ⊑ y := h
    obtain ⟨y', rfl, hy⟩ := PL.le_cons_inv h'
    exact hcons v ⟨t, xs⟩ y' hy (ih y' hy)

/-! ### Pdrop -/

theorem step_drop0 (s : St) : step (.drop s 0) =
    match step s with
    | .yield v s' => .yield v (.drop s' 0)
    | .tau s' => .tau (.drop s' 0)
    | .done => .done
    | .err => .err := by
  rw [step]; cases step s <;> simp

theorem step_dropS (s : St) (k : Nat) : step (.drop s (k + 1)) =
    match step s with
    | .yield _ s' => .tau (.drop s' k)
    | .tau s' => .tau (.drop s' (k + 1))
    | .done => .done
    | .err => .err := by
  rw [step]; cases step s <;> simp

theorem run_drop (k n : Nat) (s : St) : run n (.drop s k) = (run n s).drop k := by
  induction n generalizing s k with
  | zero => simp [run, PL.drop]
  | succ n ih =>
    cases k with
    | zero =>
      rw [run, run, step_drop0]
      cases step s <;> simp [ih, PL.drop, PL.cons]
    | succ k =>
      rw [run, run, step_dropS]
      cases step s <;> simp [ih, PL.drop, PL.cons]

theorem PL.drop_mono (k : Nat) {x y : PL} (h : x ⊑ y) : x.drop k ⊑ y.drop k := by
  revert k
  refine PL.le_induction (P := fun x y => ∀ k, x.drop k ⊑ y.drop k) ?_ ?_ ?_ x y h
  · intro y k; simp [PL.drop]; exact PL.more_le _
  · intro s _ k; exact PL.le_refl _
  · intro v x y _ ih k
    cases k with
    | zero =>
      have := ih 0
      simp only [PL.drop, List.drop_zero] at this ⊢
      exact PL.cons_le_cons v this
    | succ k => simpa [PL.drop, PL.cons] using ih k

theorem obs_drop (k : Nat) (s : St) (c : Nat → PL) (h : Obs s = Lim c) :
    Obs (.drop s k) = Lim (fun i => (c i).drop k) :=
  obs_glue1 (fun a => a.drop k) (fun _ _ => PL.drop_mono k) _ s
    (fun n => PL.le_of_eq (run_drop k n s))
    (fun na => ⟨na, PL.le_of_eq (run_drop k na s).symm⟩) c h

/-! ### Plen -/

theorem step_len0 (s : St) : step (.len s 0) = .done := by rw [step]

theorem step_lenS (s : St) (k : Nat) : step (.len s (k + 1)) =
    match step s with
    | .yield v s' => .yield v (.len s' k)
    | .tau s' => .tau (.len s' (k + 1))
    | .done => .done
    | .err => .err := by
  rw [step]; cases step s <;> simp

theorem PL.take_zero (x : PL) : x.take 0 = ⟨[], .done⟩ := by simp [PL.take]

theorem PL.take_succ_cons (k : Nat) (v : Val) (x : PL) :
    (x.cons v).take (k + 1) = (x.take k).cons v := by
  simp only [PL.take, PL.cons_vals, List.length_cons, Nat.add_le_add_iff_right]
  split <;> simp [PL.cons]

theorem PL.take_succ_nil (k : Nat) (s : Status) : (⟨[], s⟩ : PL).take (k + 1) = ⟨[], s⟩ := by
  simp [PL.take]

theorem run_len_A (k n : Nat) (s : St) : run n (.len s k) ⊑ (run n s).take k := by
  induction n generalizing s k with
  | zero => exact PL.more_le _
  | succ n ih =>
    cases k with
    | zero => rw [run, step_len0, PL.take_zero]; exact PL.le_refl _
    | succ k =>
      rw [run, run, step_lenS]
      cases step s with
      | yield v s' => simp only [PL.take_succ_cons]; exact PL.cons_le_cons v (ih k s')
      | tau s' => exact ih (k + 1) s'
      | done => simp [PL.take_succ_nil]; exact PL.le_refl _
      | err => simp [PL.take_succ_nil]; exact PL.le_refl _

theorem run_len_B (k n : Nat) (s : St) : (run n s).take k ⊑ run (n + 1) (.len s k) := by
  induction n generalizing s k with
  | zero =>
    cases k with
    | zero => rw [run_done (step_len0 s), PL.take_zero]; exact PL.le_refl _
    | succ k => rw [run_zero, PL.take_succ_nil]; exact PL.more_le _
  | succ n ih =>
    cases k with
    | zero => rw [run_done (step_len0 s), PL.take_zero]; exact PL.le_refl _
    | succ k =>
      have hl := step_lenS s k
      cases hs : step s with
      | yield v s' =>
        rw [hs] at hl
        rw [run_yield hs, run_yield hl, PL.take_succ_cons]; exact PL.cons_le_cons v (ih k s')
      | tau s' => rw [hs] at hl; rw [run_tau hs, run_tau hl]; exact ih (k + 1) s'
      | done => rw [hs] at hl; rw [run_done hs, run_done hl, PL.take_succ_nil]; exact PL.le_refl _
      | err => rw [hs] at hl; rw [run_err hs, run_err hl, PL.take_succ_nil]; exact PL.le_refl _

theorem PL.take_mono (k : Nat) {x y : PL} (h : x ⊑ y) : x.take k ⊑ y.take k := by
  revert k
  refine PL.le_induction (P := fun x y => ∀ k, x.take k ⊑ y.take k) ?_ ?_ ?_ x y h
  · intro y k
    cases k with
    | zero => simp [PL.take_zero]; exact PL.le_refl _
    | succ k => rw [PL.take_succ_nil]; exact PL.more_le _
  · intro s _ k; exact PL.le_refl _
  · intro v x y _ ih k
    cases k with
    | zero => simp [PL.take_zero]; exact PL.le_refl _
    | succ k => rw [PL.take_succ_cons, PL.take_succ_cons]; exact PL.cons_le_cons v (ih k)

theorem obs_len (k : Nat) (s : St) (c : Nat → PL) (h : Obs s = Lim c) :
    Obs (.len s k) = Lim (fun i => (c i).take k) :=
  obs_glue1 (fun a => a.take k) (fun _ _ => PL.take_mono k) _ s
    (fun n => run_len_A k n s) (fun na => ⟨na + 1, run_len_B k na s⟩) c h

/-! ### Pdiff -/

/-- Pdiff's loop: `prev` is the previous value once there is one. -/
def diffLoop (s : Status) : Option Val → List Val → PL
  | _, [] => ⟨[], s⟩
  | none, v :: t => diffLoop s (some v) t
  | some p, v :: t =>
    match BinOp.sub.eval v p with
    | some w => (diffLoop s (some v) t).cons w
    | none => ⟨[], .err⟩

theorem step_diffN (s : St) : step (.diff s none) =
    match step s with
    | .yield v s' => .tau (.diff s' (some v))
    | .tau s' => .tau (.diff s' none)
    | .done => .done
    | .err => .err := by
  rw [step]; cases step s <;> simp

theorem step_diffS (s : St) (p : Val) : step (.diff s (some p)) =
    match step s with
    | .yield v s' =>
      match BinOp.sub.eval v p with
      | some w => .yield w (.diff s' (some v))
      | none => .err
    | .tau s' => .tau (.diff s' (some p))
    | .done => .done
    | .err => .err := by
  rw [step]; cases step s <;> simp
  split <;> simp [*]

theorem run_diff (n : Nat) (s : St) (prev : Option Val) :
    run n (.diff s prev) = diffLoop (run n s).st prev (run n s).vals := by
  induction n generalizing s prev with
  | zero => cases prev <;> simp [run, diffLoop]
  | succ n ih =>
    cases prev with
    | none =>
      have hl := step_diffN s
      cases hs : step s with
      | yield v s' => rw [hs] at hl; rw [run_yield hs, run_tau hl, ih]; simp [diffLoop]
      | tau s' => rw [hs] at hl; rw [run_tau hs, run_tau hl, ih]
      | done => rw [hs] at hl; rw [run_done hs, run_done hl]; simp [diffLoop]
      | err => rw [hs] at hl; rw [run_err hs, run_err hl]; simp [diffLoop]
    | some p =>
      have hl := step_diffS s p
      cases hs : step s with
      | yield v s' =>
        rw [hs] at hl; simp only at hl
        rw [run_yield hs]
        simp only [PL.cons_vals, PL.cons_st, diffLoop]
        cases hw : BinOp.sub.eval v p with
        | some w => rw [hw] at hl; rw [run_yield hl, ih]
        | none => rw [hw] at hl; rw [run_err hl]
      | tau s' => rw [hs] at hl; rw [run_tau hs, run_tau hl, ih]
      | done => rw [hs] at hl; rw [run_done hs, run_done hl]; simp [diffLoop]
      | err => rw [hs] at hl; rw [run_err hs, run_err hl]; simp [diffLoop]

theorem diffLoop_eq_zip (s : Status) (p : Val) (t : List Val) :
    diffLoop s (some p) t = zipWithL BinOp.sub.eval s s t (p :: t) := by
  induction t generalizing p with
  | nil => simp [diffLoop, zipWithL]
  | cons v t ih =>
    simp only [diffLoop, zipWithL]
    cases BinOp.sub.eval v p with
    | some w => simp [ih]
    | none => rfl

theorem diffLoop_none (x : PL) : diffLoop x.st none x.vals = diffD x := by
  obtain ⟨l, s⟩ := x
  cases l with
  | nil => simp [diffLoop, diffD, PL.zipWith, PL.tail, zipWithL]
  | cons v t => simp [diffLoop, diffD, PL.zipWith, PL.tail, diffLoop_eq_zip]

theorem diffLoop_mono (prev : Option Val) {x y : PL} (h : x ⊑ y) :
    diffLoop x.st prev x.vals ⊑ diffLoop y.st prev y.vals := by
  revert prev
  refine PL.le_induction (P := fun x y => ∀ prev, diffLoop x.st prev x.vals ⊑ diffLoop y.st prev y.vals)
    ?_ ?_ ?_ x y h
  · intro y prev; cases prev <;> simp [diffLoop] <;> exact PL.more_le _
  · intro s _ prev; exact PL.le_refl _
  · intro v x y _ ih prev
    cases prev with
    | none => simpa [diffLoop] using ih (some v)
    | some p =>
      simp only [PL.cons_vals, PL.cons_st, diffLoop]
      cases BinOp.sub.eval v p with
      | some w => exact PL.cons_le_cons w (ih (some v))
      | none => exact PL.le_refl _

theorem obs_diff (s : St) (c : Nat → PL) (h : Obs s = Lim c) :
    Obs (.diff s none) = Lim (fun i => diffD (c i)) := by
  have := obs_glue1 (fun a => diffLoop a.st none a.vals) (fun _ _ => diffLoop_mono none) (.diff s none) s
    (fun n => PL.le_of_eq (run_diff n s none))
    (fun na => ⟨na, PL.le_of_eq (run_diff na s none).symm⟩) c h
  simpa [diffLoop_none] using this

/-! ### Pconst -/

/-- What Pconst does with the next source value `v` at running sum `acc`. -/
inductive CsumR where
  | last (w : Val)        -- the sum is reached: yield what is missing and stop
  | pass (nx : Val)       -- pass the value on, new running sum
  | raise

def csumDecide (sum : Val) (tol : Rat) (acc v : Val) : CsumR :=
  match BinOp.add.eval acc v, sum.num? with
  | some nx, some sm =>
    match nx.num? with
    | some nxn =>
      if sm.rat ≤ roundupNum nxn tol then
        match BinOp.sub.eval sum acc with
        | some w => .last w
        | none => .raise
      else .pass nx
    | none => .raise
  | _, _ => .raise

theorem step_csum (s : St) (sum : Val) (tol : Rat) (acc : Val) :
    step (.csum s sum tol acc) =
      match step s with
      | .yield v s' =>
        match csumDecide sum tol acc v with
        | .last w => .yield w .nil
        | .pass nx => .yield v (.csum s' sum tol nx)
        | .raise => .err
      | .tau s' => .tau (.csum s' sum tol acc)
      | .done =>
        match BinOp.sub.eval sum acc with
        | some w => .yield w .nil
        | none => .err
      | .err => .err := by
  rw [step]; cases step s <;> simp
  · simp only [csumDecide]
    repeat' split
    all_goals simp_all
  · split <;> simp [*]

theorem constSumL_nil (sum : Val) (tol : Rat) (s : Status) (acc : Val) :
    constSumL sum tol s acc [] =
      match s with
      | .done => match BinOp.sub.eval sum acc with
        | some w => ⟨[w], .done⟩
        | none => ⟨[], .err⟩
      | s => ⟨[], s⟩ := by
  cases s <;> simp [constSumL]
  split <;> simp [*]

theorem constSumL_cons (sum : Val) (tol : Rat) (s : Status) (acc v : Val) (t : List Val) :
    constSumL sum tol s acc (v :: t) =
      match csumDecide sum tol acc v with
      | .last w => ⟨[w], .done⟩
      | .pass nx => (constSumL sum tol s nx t).cons v
      | .raise => ⟨[], .err⟩ := by
  rw [constSumL]
  simp only [csumDecide]
  repeat' split
  all_goals simp_all

theorem run_csum_A (n : Nat) (s : St) (sum : Val) (tol : Rat) (acc : Val) :
    run n (.csum s sum tol acc) ⊑ constSumL sum tol (run n s).st acc (run n s).vals := by
  induction n generalizing s acc with
  | zero => exact PL.more_le _
  | succ n ih =>
    have hl := step_csum s sum tol acc
    cases hs : step s with
    | yield v s' =>
      rw [hs] at hl; simp only at hl
      rw [run_yield hs]; simp only [PL.cons_vals, PL.cons_st, constSumL_cons]
      cases hd : csumDecide sum tol acc v with
      | last w =>
        rw [hd] at hl; rw [run_yield hl]
        cases n with
        | zero => simp [run, PL.le, PL.cons]
        | succ n => rw [run_nil_succ]; exact PL.le_refl _
      | pass nx => rw [hd] at hl; rw [run_yield hl]; exact PL.cons_le_cons v (ih s' nx)
      | raise => rw [hd] at hl; rw [run_err hl]; exact PL.le_refl _
    | tau s' => rw [hs] at hl; rw [run_tau hs, run_tau hl]; exact ih s' acc
    | done =>
      rw [hs] at hl; simp only at hl
      rw [run_done hs, constSumL_nil]
      cases hw : BinOp.sub.eval sum acc with
      | some w =>
        rw [hw] at hl; rw [run_yield hl]
        cases n with
        | zero => simp [run, PL.le, PL.cons]
        | succ n => rw [run_nil_succ]; exact PL.le_refl _
      | none => rw [hw] at hl; rw [run_err hl]; exact PL.le_refl _
    | err => rw [hs] at hl; rw [run_err hs, run_err hl, constSumL_nil]; exact PL.le_refl _

theorem run_csum_B (n : Nat) (s : St) (sum : Val) (tol : Rat) (acc : Val) :
    constSumL sum tol (run n s).st acc (run n s).vals ⊑ run (n + 2) (.csum s sum tol acc) := by
  induction n generalizing s acc with
  | zero => rw [run_zero, constSumL_nil]; exact PL.more_le _
  | succ n ih =>
    have hl := step_csum s sum tol acc
    cases hs : step s with
    | yield v s' =>
      rw [hs] at hl; simp only at hl
      rw [run_yield hs]; simp only [PL.cons_vals, PL.cons_st, constSumL_cons]
      cases hd : csumDecide sum tol acc v with
      | last w => rw [hd] at hl; rw [run_yield hl, run_nil_succ]; exact PL.le_refl _
      | pass nx => rw [hd] at hl; rw [run_yield hl]; exact PL.cons_le_cons v (ih s' nx)
      | raise => rw [hd] at hl; rw [run_err hl]; exact PL.le_refl _
    | tau s' => rw [hs] at hl; rw [run_tau hs, run_tau hl]; exact ih s' acc
    | done =>
      rw [hs] at hl; simp only at hl
      rw [run_done hs, constSumL_nil]
      cases hw : BinOp.sub.eval sum acc with
      | some w => rw [hw] at hl; rw [run_yield hl, run_nil_succ]; exact PL.le_refl _
      | none => rw [hw] at hl; rw [run_err hl]; exact PL.le_refl _
    | err => rw [hs] at hl; rw [run_err hs, run_err hl, constSumL_nil]; exact PL.le_refl _

theorem constSumL_mono (sum : Val) (tol : Rat) (acc : Val) {x y : PL} (h : x ⊑ y) :
    constSumL sum tol x.st acc x.vals ⊑ constSumL sum tol y.st acc y.vals := by
  revert acc
  refine PL.le_induction
    (P := fun x y => ∀ acc, constSumL sum tol x.st acc x.vals ⊑ constSumL sum tol y.st acc y.vals)
    ?_ ?_ ?_ x y h
  · intro y acc; rw [constSumL_nil]; exact PL.more_le _
  · intro s _ acc; exact PL.le_refl _
  · intro v x y _ ih acc
    simp only [PL.cons_vals, PL.cons_st, constSumL_cons]
    cases csumDecide sum tol acc v with
    | last w => exact PL.le_refl _
    | pass nx => exact PL.cons_le_cons v (ih nx)
    | raise => exact PL.le_refl _

theorem obs_csum (s : St) (sum : Val) (tol : Rat) (c : Nat → PL) (h : Obs s = Lim c) :
    Obs (.csum s sum tol (.int 0)) = Lim (fun i => constSumD sum tol (c i)) :=
  obs_glue1 (fun a => constSumD sum tol a) (fun _ _ => constSumL_mono sum tol _) _ s
    (fun n => run_csum_A n s sum tol _) (fun na => ⟨na + 2, run_csum_B na s sum tol _⟩) c h

/-! ### Pseries / Pgeom -/

theorem step_scan (o : BinOp) (cur : Val) (k : Rep) (s : St) :
    step (.scan o cur k s) =
      if k.allows 0 then
        match step s with
        | .yield sv s' =>
          match o.eval cur sv with
          | some nx => .yield cur (.scan o nx k.pred s')
          | none => .err
        | .tau s' => .tau (.scan o cur k s')
        | .done => .done
        | .err => .err
      else .done := by
  rw [step]; split
  · cases step s <;> simp
    split <;> simp [*]
  · rfl

theorem scanL_nil (o : BinOp) (s : Status) (cur : Val) (k : Rep) :
    scanL o s cur k [] = if k.allows 0 then ⟨[], s⟩ else ⟨[], .done⟩ := by
  rw [scanL]

theorem scanL_cons (o : BinOp) (s : Status) (cur : Val) (k : Rep) (sv : Val) (t : List Val) :
    scanL o s cur k (sv :: t) =
      if k.allows 0 then
        match o.eval cur sv with
        | some nx => (scanL o s nx k.pred t).cons cur
        | none => ⟨[], .err⟩
      else ⟨[], .done⟩ := by
  rw [scanL]; split
  · split <;> simp [*]
  · rfl

theorem run_scan_A (n : Nat) (o : BinOp) (cur : Val) (k : Rep) (s : St) :
    run n (.scan o cur k s) ⊑ scanL o (run n s).st cur k (run n s).vals := by
  induction n generalizing s cur k with
  | zero => exact PL.more_le _
  | succ n ih =>
    have hl := step_scan o cur k s
    by_cases hk : k.allows 0 = true
    · simp only [hk, if_true] at hl
      cases hs : step s with
      | yield sv s' =>
        rw [hs] at hl; simp only at hl
        rw [run_yield hs]; simp only [PL.cons_vals, PL.cons_st, scanL_cons, hk, if_true]
        cases he : o.eval cur sv with
        | some nx => rw [he] at hl; rw [run_yield hl]; exact PL.cons_le_cons cur (ih nx k.pred s')
        | none => rw [he] at hl; rw [run_err hl]; exact PL.le_refl _
      | tau s' => rw [hs] at hl; rw [run_tau hs, run_tau hl]; exact ih cur k s'
      | done => rw [hs] at hl; rw [run_done hs, run_done hl, scanL_nil]; simp [hk]; exact PL.le_refl _
      | err => rw [hs] at hl; rw [run_err hs, run_err hl, scanL_nil]; simp [hk]; exact PL.le_refl _
    · simp only [hk] at hl
      rw [run_done (by simpa using hl)]
      cases (run (n + 1) s).vals <;> simp [scanL_nil, scanL_cons, hk] <;> exact PL.le_refl _

theorem run_scan_B (n : Nat) (o : BinOp) (cur : Val) (k : Rep) (s : St) :
    scanL o (run n s).st cur k (run n s).vals ⊑ run (n + 1) (.scan o cur k s) := by
  induction n generalizing s cur k with
  | zero =>
    have hl := step_scan o cur k s
    by_cases hk : k.allows 0 = true
    · rw [run_zero, scanL_nil]; simp [hk]; exact PL.more_le _
    · simp only [hk] at hl
      rw [run_done (s := .scan o cur k s) (by simpa using hl), run_zero, scanL_nil]; simp [hk]; exact PL.le_refl _
  | succ n ih =>
    have hl := step_scan o cur k s
    by_cases hk : k.allows 0 = true
    · simp only [hk, if_true] at hl
      cases hs : step s with
      | yield sv s' =>
        rw [hs] at hl; simp only at hl
        rw [run_yield hs]; simp only [PL.cons_vals, PL.cons_st, scanL_cons, hk, if_true]
        cases he : o.eval cur sv with
        | some nx => rw [he] at hl; rw [run_yield hl]; exact PL.cons_le_cons cur (ih nx k.pred s')
        | none => rw [he] at hl; rw [run_err hl]; exact PL.le_refl _
      | tau s' => rw [hs] at hl; rw [run_tau hs, run_tau hl]; exact ih cur k s'
      | done => rw [hs] at hl; rw [run_done hs, run_done hl, scanL_nil]; simp [hk]; exact PL.le_refl _
      | err => rw [hs] at hl; rw [run_err hs, run_err hl, scanL_nil]; simp [hk]; exact PL.le_refl _
    · simp only [hk] at hl
      rw [run_done (s := .scan o cur k s) (by simpa using hl)]
      cases (run (n + 1) s).vals <;> simp [scanL_nil, scanL_cons, hk] <;> exact PL.le_refl _

theorem scanL_mono (o : BinOp) (cur : Val) (k : Rep) {x y : PL} (h : x ⊑ y) :
    scanL o x.st cur k x.vals ⊑ scanL o y.st cur k y.vals := by
  revert cur k
  refine PL.le_induction
    (P := fun x y => ∀ cur k, scanL o x.st cur k x.vals ⊑ scanL o y.st cur k y.vals) ?_ ?_ ?_ x y h
  · intro y cur k
    by_cases hk : k.allows 0 = true
    · rw [scanL_nil]; simp [hk]; exact PL.more_le _
    · cases y.vals <;> simp [scanL_nil, scanL_cons, hk] <;> exact PL.le_refl _
  · intro s _ cur k; exact PL.le_refl _
  · intro v x y _ ih cur k
    simp only [PL.cons_vals, PL.cons_st, scanL_cons]
    split
    · cases o.eval cur v with
      | some nx => exact PL.cons_le_cons cur (ih nx k.pred)
      | none => exact PL.le_refl _
    · exact PL.le_refl _

theorem obs_scan (o : BinOp) (start : Val) (k : Rep) (s : St) (c : Nat → PL) (h : Obs s = Lim c) :
    Obs (.scan o start k s) = Lim (fun i => scanD o start k (c i)) :=
  obs_glue1 (fun a => scanD o start k a) (fun _ _ => scanL_mono o start k) _ s
    (fun n => run_scan_A n o start k s) (fun na => ⟨na + 1, run_scan_B na o start k s⟩) c h

end Sc3Verif.C13
