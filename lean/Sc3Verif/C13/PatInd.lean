/-
C13 — structural induction over patterns (the nested `List Pat` arguments give hypotheses for
every member) and the well-formedness the constructors of the real classes enforce.
-/
import Sc3Verif.C13.Order
namespace Sc3Verif.C13

theorem Pat.ind {P : Pat → Prop}
    (const : ∀ v, P (.const v))
    (seq : ∀ l r off, (∀ p ∈ l, P p) → P (.seq l r off))
    (ser : ∀ l r off, (∀ p ∈ l, P p) → P (.ser l r off))
    (pn : ∀ p r, P p → P (.pn p r))
    (place : ∀ l lens r off, (∀ p ∈ l, P p) → P (.place l lens r off))
    (tuple : ∀ l r, (∀ p ∈ l, P p) → P (.tuple l r))
    (switch : ∀ l w, (∀ p ∈ l, P p) → P w → P (.switch l w))
    (switch1 : ∀ l w, (∀ p ∈ l, P p) → P w → P (.switch1 l w))
    (slide : ∀ l len step start wrap r, (∀ p ∈ l, P p) → P len → P step →
      P (.slide l len step start wrap r))
    (series : ∀ start step len, P step → P (.series start step len))
    (geom : ∀ start grow len, P grow → P (.geom start grow len))
    (stutter : ∀ p n, P p → P n → P (.stutter p n))
    (clump : ∀ p n, P p → P n → P (.clump p n))
    (flatten : ∀ p n, P p → P n → P (.flatten p n))
    (diff : ∀ p, P p → P (.diff p))
    (pconst : ∀ p sum tol, P p → P (.pconst p sum tol))
    (drop : ∀ p n, P p → P (.drop p n))
    (len : ∀ p n, P p → P (.len p n))
    (collect : ∀ f p, P p → P (.collect f p))
    (select : ∀ f p, P p → P (.select f p))
    (reject : ∀ f p, P p → P (.reject f p))
    (pif : ∀ c a b, P c → P a → P b → P (.pif c a b))
    (wrap : ∀ p lo hi, P p → P lo → P hi → P (.wrap p lo hi))
    (unop : ∀ o a, P a → P (.unop o a))
    (binop : ∀ o a b, P a → P b → P (.binop o a b))
    (narop : ∀ o a lo hi, P a → P lo → P hi → P (.narop o a lo hi)) :
    ∀ p, P p := by
  intro p
  induction p using Pat.rec (motive_2 := fun l => ∀ p ∈ l, P p) with
  | const v => exact const v
  | seq l r off ih => exact seq l r off ih
  | ser l r off ih => exact ser l r off ih
  | pn p r ih => exact pn p r ih
  | place l lens r off ih => exact place l lens r off ih
  | tuple l r ih => exact tuple l r ih
  | switch l w ih1 ih2 => exact switch l w ih1 ih2
  | switch1 l w ih1 ih2 => exact switch1 l w ih1 ih2
  | slide l len step start wrap r ih1 ih2 ih3 => exact slide l len step start wrap r ih1 ih2 ih3
  | series start step len ih => exact series start step len ih
  | geom start grow len ih => exact geom start grow len ih
  | stutter p n ih1 ih2 => exact stutter p n ih1 ih2
  | clump p n ih1 ih2 => exact clump p n ih1 ih2
  | flatten p n ih1 ih2 => exact flatten p n ih1 ih2
  | diff p ih => exact diff p ih
  | pconst p sum tol ih => exact pconst p sum tol ih
  | drop p n ih => exact drop p n ih
  | len p n ih => exact len p n ih
  | collect f p ih => exact collect f p ih
  | select f p ih => exact select f p ih
  | reject f p ih => exact reject f p ih
  | pif c a b ih1 ih2 ih3 => exact pif c a b ih1 ih2 ih3
  | wrap p lo hi ih1 ih2 ih3 => exact wrap p lo hi ih1 ih2 ih3
  | unop o a ih => exact unop o a ih
  | binop o a b ih1 ih2 => exact binop o a b ih1 ih2
  | narop o a lo hi ih1 ih2 ih3 => exact narop o a lo hi ih1 ih2 ih3
  | nil => rename_i hp; cases hp
  | cons a t iha iht =>
    rename_i q hq
    cases hq with
    | head => exact iha
    | tail _ h => exact iht q h

end Sc3Verif.C13
