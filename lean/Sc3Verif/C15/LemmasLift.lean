/-
C15 (a) — helper lemmas about the lifting model (Model.lean): `wrap_extend` indexing and the
wrap-around element-wise law of `list_binop` on flat sequences.
-/
import Sc3Verif.C15.Spec
import Mathlib.Tactic.Linarith
import Mathlib.Tactic.Ring
namespace Sc3Verif.C15.Lift

theorem flatten_replicate_getElem? {α : Type} (l : List α) (_hl : 0 < l.length) (k j : Nat)
    (hj : j < k * l.length) : ((List.replicate k l).flatten)[j]? = l[j % l.length]? := by
  induction k generalizing j with
  | zero => simp at hj
  | succ k ih =>
    rw [List.replicate_succ, List.flatten_cons]
    by_cases h : j < l.length
    · rw [List.getElem?_append_left h, Nat.mod_eq_of_lt h]
    · have h' : l.length ≤ j := Nat.le_of_not_lt h
      rw [List.getElem?_append_right h', ih (j - l.length) (by rw [Nat.succ_mul] at hj; omega)]
      congr 1
      rw [Nat.mod_eq_sub_mod h']

theorem flatten_replicate_length {α : Type} (l : List α) (k : Nat) :
    ((List.replicate k l).flatten).length = k * l.length := by
  induction k with
  | zero => simp
  | succ k ih => rw [List.replicate_succ, List.flatten_cons, List.length_append, ih, Nat.succ_mul]; omega

theorem wrapExtend_length {α : Type} (l : List α) (n : Nat) (hl : 0 < l.length) :
    (wrapExtend l n).length = n := by
  unfold wrapExtend
  by_cases hn : n = 0
  · simp [hn]
  · have : ¬ (l.length = 0 ∨ n = 0) := by omega
    rw [if_neg this, List.length_append, flatten_replicate_length, List.length_take]
    have := Nat.mod_lt n hl
    have := Nat.div_add_mod n l.length
    rw [Nat.min_eq_left (by omega)]
    rw [Nat.mul_comm]; omega

theorem wrapExtend_getElem? {α : Type} (l : List α) (n i : Nat) (hl : 0 < l.length) (hi : i < n) :
    (wrapExtend l n)[i]? = l[i % l.length]? := by
  unfold wrapExtend
  have : ¬ (l.length = 0 ∨ n = 0) := by omega
  rw [if_neg this]
  have hdm := Nat.div_add_mod n l.length
  have hm := Nat.mod_lt n hl
  by_cases h : i < n / l.length * l.length
  · rw [List.getElem?_append_left (by rw [flatten_replicate_length]; exact h)]
    exact flatten_replicate_getElem? l hl _ _ h
  · have h' : n / l.length * l.length ≤ i := Nat.le_of_not_lt h
    rw [List.getElem?_append_right (by rw [flatten_replicate_length]; exact h'), flatten_replicate_length]
    have hlt : i - n / l.length * l.length < n % l.length := by
      rw [Nat.mul_comm] at h' ⊢; omega
    rw [List.getElem?_take_of_lt hlt]
    congr 1
    have : i = (i - n / l.length * l.length) + l.length * (n / l.length) := by
      rw [Nat.mul_comm] at h' ⊢; omega
    conv_rhs => rw [this, Nat.add_mul_mod_self_left]
    exact (Nat.mod_eq_of_lt (by omega)).symm

theorem wrapExtend_nil {α : Type} (n : Nat) : wrapExtend ([] : List α) n = [] := by
  simp [wrapExtend]

theorem mem_wrapExtend {α : Type} {l : List α} {n : Nat} {x : α} (h : x ∈ wrapExtend l n) : x ∈ l := by
  unfold wrapExtend at h
  split_ifs at h with hc
  · simp at h
  · rcases List.mem_append.mp h with h | h
    · obtain ⟨l', hl', hx⟩ := List.mem_flatten.mp h
      rw [List.eq_of_mem_replicate hl'] at hx; exact hx
    · exact List.mem_of_mem_take h

theorem any_isSeq_map_sc (l : List Sc) : (l.map Obj.sc).any Obj.isSeq = false := by
  rw [List.any_eq_false]; intro x hx
  obtain ⟨v, _, rfl⟩ := List.mem_map.mp hx
  simp [Obj.isSeq]

theorem any_isSeq_wrapExtend_sc (l : List Sc) (n : Nat) :
    (wrapExtend (l.map Obj.sc) n).any Obj.isSeq = false := by
  rw [List.any_eq_false]; intro x hx
  have := mem_wrapExtend hx
  obtain ⟨v, _, rfl⟩ := List.mem_map.mp this
  simp [Obj.isSeq]

theorem applyBin_sc (sel : String) (n : Nat) (x y : Sc) :
    applyBin sel (n + 1) (.sc x) (.sc y) = .sc (.app sel [x, y]) := by
  simp [applyBin, Obj.hook?, numeric]


/-- the wrap-around element-wise law for flat sequences of scalars, any operator `op` -/
theorem listBinop_flat (op : Obj → Obj → Obj) (n : Nat) (as bs : List Sc) (ka kb t : SeqK) :
    ∃ L, listBinop op (n + 1) (.seq ka (as.map .sc)) (.seq kb (bs.map .sc)) t = .seq t L ∧
      L.length = (if as.length = 0 ∨ bs.length = 0 then 0 else max as.length bs.length) ∧
      ∀ i, i < L.length →
        L[i]? = (match as[i % as.length]?, bs[i % bs.length]? with
                 | some a, some b => some (op (.sc a) (.sc b)) | _, _ => none) := by
  unfold listBinop
  simp only [List.length_map]
  by_cases h : as.length ≥ bs.length
  · simp only [h, if_true, any_isSeq_map_sc, any_isSeq_wrapExtend_sc, Bool.or_self, Bool.false_eq_true, if_false]
    refine ⟨_, rfl, ?_, ?_⟩
    · rw [List.length_zipWith, List.length_map]
      by_cases hb : bs.length = 0
      · have : bs = [] := List.length_eq_zero_iff.mp hb
        subst this; simp [wrapExtend]
      · rw [wrapExtend_length _ _ (by rw [List.length_map]; omega)]
        have ha : as.length ≠ 0 := by omega
        simp [ha, hb]; omega
    · intro i hi
      rw [List.length_zipWith, List.length_map] at hi
      have hia : i < as.length := by omega
      by_cases hb : bs.length = 0
      · have : bs = [] := List.length_eq_zero_iff.mp hb
        subst this; simp [wrapExtend] at hi
      · rw [List.getElem?_zipWith, wrapExtend_getElem? _ _ _ (by rw [List.length_map]; omega) hia]
        simp only [List.length_map, List.getElem?_map, Nat.mod_eq_of_lt hia]
        cases as[i]? <;> cases bs[i % bs.length]? <;> rfl
  · simp only [h, if_false, any_isSeq_map_sc, any_isSeq_wrapExtend_sc, Bool.or_self, Bool.false_eq_true]
    have hlt : as.length < bs.length := by omega
    refine ⟨_, rfl, ?_, ?_⟩
    · rw [List.length_zipWith, List.length_map]
      by_cases ha : as.length = 0
      · have : as = [] := List.length_eq_zero_iff.mp ha
        subst this; simp [wrapExtend]
      · rw [wrapExtend_length _ _ (by rw [List.length_map]; omega)]
        have hb : bs.length ≠ 0 := by omega
        simp [ha, hb]; omega
    · intro i hi
      rw [List.length_zipWith, List.length_map] at hi
      have hib : i < bs.length := by omega
      by_cases ha : as.length = 0
      · have : as = [] := List.length_eq_zero_iff.mp ha
        subst this; simp [wrapExtend] at hi
      · rw [List.getElem?_zipWith, wrapExtend_getElem? _ _ _ (by rw [List.length_map]; omega) hib]
        simp only [List.length_map, List.getElem?_map, Nat.mod_eq_of_lt hib]
        cases as[i % as.length]? <;> cases bs[i]? <;> rfl
end Sc3Verif.C15.Lift
