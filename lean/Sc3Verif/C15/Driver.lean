/-
C15 line-protocol driver:  `lake env lean --run Sc3Verif/C15/Driver.lean < ops`

  k <name> <arg>...     numeric kernel generated from sc3/base/builtins.py (GenKernels.lean);
                        arg = `i:<int>` (Python int) or `f:<p/q>` (Python float, exact rational)
                        → `i:<n>` | `f:<p/q>` | `E:<exception>` | `?` (not an executable kernel)
  l <term>              lifting model (Model.lean): evaluate an operator expression, see `Lift.parse`
  reset                 echoed (separates cases)
-/
import Lean.Data.Json
import Sc3Verif.C15.GenKernels
import Sc3Verif.C15.GenOps
open Sc3Verif.C15
open Sc3Verif.C15.Gen
open Lean (Json)

namespace LiftIO
open Sc3Verif.C15.Lift

def scalarOf (j : Json) : Option Sc :=
  match j with
  | .arr #[.str "num", .str t] => some (.atom t)
  | .arr #[.str "sym", .str t] => some (.atom ("s:" ++ t))
  | _ => none

/-- operand description → object (see harness/impl/c15.py `LiftRunner.build`) -/
partial def build (j : Json) : Option Obj :=
  match j with
  | .arr #[.str "num", .str t] => some (.sc (.atom t))
  | .arr #[.str "sym", .str t] => some (.sc (.atom ("s:" ++ t)))
  | .arr #[.str "fn", .str tag] => some (.fn fun x => .app "call" [.atom ("s:" ++ tag), x])
  | .arr #[.str "fnc", .str tag] => some (.fn fun x => .app "neg" [.app "call" [.atom ("s:" ++ tag), x]])
  | .arr #[.str "strm", .arr items] => do
      let vs ← items.toList.mapM scalarOf
      some (.strm false fun i => vs[i]?)
  | .arr #[.str "pat", .arr items] => do
      let vs ← items.toList.mapM scalarOf
      some (.strm true fun i => vs[i]?)
  | .arr #[.str "fstrm", .str tag] =>
      some (.strm false fun i => some (.app "at" [.atom ("s:" ++ tag), .atom s!"s:i{i}"]))
  | .arr #[.str "fpat", .str tag] =>
      some (.strm true fun i => some (.app "at" [.atom ("s:" ++ tag), .atom s!"s:i{i}"]))
  | .arr #[.str "list", .arr items] => do some (.seq .list (← items.toList.mapM build))
  | .arr #[.str "tuple", .arr items] => do some (.seq .tuple (← items.toList.mapM build))
  | .arr #[.str "chan", .arr items] => do some (.seq .chan (← items.toList.mapM build))
  | .arr #[.str "opnd", v] => do some (.opnd (← scalarOf v))
  | _ => none

partial def scJson : Sc → Json
  | .atom t => .str t
  | .app sel args => .arr ((Json.str sel :: args.map scJson).toArray)

partial def observe (take : Nat) : Obj → Json
  | .sc v => scJson v
  | .opnd v => .arr #[.str "opnd", scJson v]
  | .fn f => .arr #[.str "fnval", scJson (f (.atom "s:x"))]
  | .strm p s =>
    let rec go (i : Nat) (acc : List Json) : List Json :=
      if i ≥ take then acc.reverse
      else match s i with
        | some v => go (i + 1) (scJson v :: acc)
        | none => (Json.str "stop" :: acc).reverse
    .arr ((Json.str (if p then "pat" else "strm") :: go 0 []).toArray)
  | .seq k xs =>
    let tag := match k with | .list => "list" | .tuple => "tuple" | .chan => "chan"
    .arr ((Json.str tag :: xs.map (observe take)).toArray)
  | .err e => .str ("E:" ++ e)

def seqKOf : String → SeqK
  | "tuple" => .tuple | "chan" => .chan | _ => .list

def runCase (j : Json) : String :=
  let str (k : String) : String := (j.getObjValAs? String k).toOption.getD ""
  let take := (j.getObjValAs? Nat "take").toOption.getD 8
  match j.getObjVal? "args" with
  | .ok (.arr as) =>
    match as.toList.mapM build with
    | none => "bad-operand"
    | some args =>
      let name := str "name"
      let res : Obj :=
        match str "via", args with
        | "pyop", [a, b] => pyBinary GenOps.ops name a b
        | "pyop", [a] => if a.hook?.isSome then pyMethod GenOps.ops s!"__{name}__" a [] else numeric name [a]
        | "meth", a :: rest => pyMethod GenOps.ops name a rest
        | "bi", _ =>
          (match GenOps.builtinKinds.find? (·.1 == name) with
           | some (_, kind) => pyBuiltin kind name args
           | none => .err "AttributeError")
        | "listfn", _ =>
          let t := seqKOf (str "t")
          let sel := str "sel"
          (match name, args with
           | "list_unop", [a] => listUnop (applyUn sel fuel) fuel a t
           | "list_binop", [a, b] => listBinop (applyBin sel fuel) fuel a b t
           | "list_narop", a :: rest => listNarop (applyNar sel fuel) rest fuel a t
           | _, _ => .err "TypeError")
        | _, _ => .err "bad-via"
      (observe take res).compress
  | _ => "bad-case"

end LiftIO

def parseRat (s : String) : Option Rat :=
  match s.splitOn "/" with
  | [p] => do some ((← p.toInt?) : Rat)
  | [p, q] => do
      let n ← p.toInt?
      let d ← q.toNat?
      if d = 0 then none else some ((n : Rat) / (d : Rat))
  | _ => none

def parseNum (s : String) : Option Num :=
  if s.startsWith "i:" then (s.drop 2).toString.toInt?.map Num.i
  else if s.startsWith "f:" then (parseRat (s.drop 2).toString).map Num.f
  else none

def fmtRat (q : Rat) : String :=
  if q.den = 1 then s!"{q.num}" else s!"{q.num}/{q.den}"

def fmtNum : Num → String
  | .i n => s!"i:{n}"
  | .f q => s!"f:{fmtRat q}"

def runKernel (ws : List String) : String :=
  match ws with
  | name :: args =>
    match args.mapM parseNum with
    | none => "bad-arg"
    | some as =>
      match kernel name as with
      | none => "?"
      | some (.ok v) => fmtNum v
      | some (.error e) => s!"E:{e}"
  | [] => "bad-op"

partial def loop (h : IO.FS.Stream) (out : IO.FS.Stream) : IO Unit := do
  let line ← h.getLine
  if line.isEmpty then return ()
  let l := line.trimAscii.toString
  if l == "reset" then
    out.putStrLn "reset"
  else
    match (l.splitOn " ").filter (· ≠ "") with
    | "k" :: ws => out.putStrLn (runKernel ws)
    | "l" :: _ =>
      match Json.parse (l.drop 2).toString with
      | .ok j => out.putStrLn (LiftIO.runCase j)
      | .error e => out.putStrLn s!"bad-json {e}"
    | _ => out.putStrLn "bad-op"
  loop h out

def main : IO Unit := do
  loop (← IO.getStdin) (← IO.getStdout)
