/-
C15 line-protocol driver:  `lake env lean --run Sc3Verif/C15/Driver.lean < ops`

  k <name> <arg>...     numeric kernel generated from sc3/base/builtins.py (GenKernels.lean);
                        arg = `i:<int>` (Python int) or `f:<p/q>` (Python float, exact rational)
                        → `i:<n>` | `f:<p/q>` | `E:<exception>` | `?` (not an executable kernel)
  l <term>              lifting model (Model.lean): evaluate an operator expression, see `Lift.parse`
  reset                 echoed (separates cases)
-/
import Sc3Verif.C15.GenKernels
import Sc3Verif.C15.Model
open Sc3Verif.C15
open Sc3Verif.C15.Gen

def parseRat (s : String) : Option Rat :=
  match s.splitOn "/" with
  | [p] => do some ((← p.toInt?) : Rat)
  | [p, q] => do
      let n ← p.toInt?
      let d ← q.toNat?
      if d = 0 then none else some ((n : Rat) / (d : Rat))
  | _ => none

def parseNum (s : String) : Option Num :=
  if s.startsWith "i:" then (s.drop 2).toString.toInt?.map Num.i
  else if s.startsWith "f:" then (parseRat (s.drop 2).toString).map Num.f
  else none

def fmtRat (q : Rat) : String :=
  if q.den = 1 then s!"{q.num}" else s!"{q.num}/{q.den}"

def fmtNum : Num → String
  | .i n => s!"i:{n}"
  | .f q => s!"f:{fmtRat q}"

def runKernel (ws : List String) : String :=
  match ws with
  | name :: args =>
    match args.mapM parseNum with
    | none => "bad-arg"
    | some as =>
      match kernel name as with
      | none => "?"
      | some (.ok v) => fmtNum v
      | some (.error e) => s!"E:{e}"
  | [] => "bad-op"

partial def loop (h : IO.FS.Stream) (out : IO.FS.Stream) : IO Unit := do
  let line ← h.getLine
  if line.isEmpty then return ()
  let l := line.trimAscii.toString
  if l == "reset" then
    out.putStrLn "reset"
  else
    match (l.splitOn " ").filter (· ≠ "") with
    | "k" :: ws => out.putStrLn (runKernel ws)
    | "l" :: _ => out.putStrLn (Lift.run (l.drop 2).toString)
    | _ => out.putStrLn "bad-op"
  loop h out

def main : IO Unit := do
  loop (← IO.getStdin) (← IO.getStdout)
