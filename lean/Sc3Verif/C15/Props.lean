/-
C15 — Operators lift uniformly; the numeric kernels obey their range and inverse laws.

Property theorems only.
Part (a), lifting: theorems about the executable model `Model.lean` of the `_compose_*` hooks,
`scbuiltin` dispatch, `list_*op` and Python's operator resolution (with the operator table
GENERATED from `absobject.py`); the model is tied to sc3 by the correspondence engine.
Part (b), kernels: every theorem is about the definitions GENERATED
from `sc3/base/builtins.py` by tools/py2lean.py (`GenKernels.lean`, `GenReal.lean`) — a changed
formula in the source changes the term and the proof is re-checked.  `Num` is a dynamically
typed Python number (`.i n` int, `.f q` float idealised as a rational); `wrap_D` etc. run the
variant the Python code runs for the given argument types, so the theorems quantify over all
int/float argument combinations.
-/
import Sc3Verif.C15.Lemmas
import Sc3Verif.C15.LemmasReal
import Sc3Verif.C15.LemmasLift
import Sc3Verif.C15.GenOps
namespace Sc3Verif.C15

section Lifting
open Sc3Verif.C15.Lift

/-! # Part (a): operators lift uniformly (about the model `Model.lean`, tied to sc3 by correspondence) -/

/-- `(f op g)(x) = f(x) op g(x)` for every binary selector. -/
theorem fn_lift (sel : String) (n : Nat) (f g : Sc → Sc) (x : Sc) :
    (applyBin sel (n + 1) (.fn f) (.fn g)).callAt x = some (.app sel [f x, g x]) := rfl

/-- `(f op y)(x) = f(x) op y` for a plain number `y`. -/
theorem fn_lift_scalar (sel : String) (n : Nat) (f : Sc → Sc) (y x : Sc) :
    (applyBin sel (n + 1) (.fn f) (.sc y)).callAt x = some (.app sel [f x, y]) := rfl

/-- reflected form: `(y op f)(x) = y op f(x)` — the number stays on the left. -/
theorem fn_reflected (sel : String) (n : Nat) (f : Sc → Sc) (y x : Sc) :
    (applyBin sel (n + 1) (.sc y) (.fn f)).callAt x = some (.app sel [y, f x]) := rfl

theorem fn_unop_lift (sel : String) (n : Nat) (f : Sc → Sc) (x : Sc) :
    (applyUn sel (n + 1) (.fn f)).callAt x = some (.app sel [f x]) := rfl

/-- n-ary: every function argument is evaluated at the same point, numbers pass through. -/
theorem fn_narop_lift (sel : String) (n : Nat) (f g : Sc → Sc) (y x : Sc) :
    (applyNar sel (n + 1) (.fn f) [.fn g, .sc y]).callAt x = some (.app sel [f x, g x, y]) := rfl

/-- `next (s op t) = next s op next t`, and the result ends as soon as one operand ends. -/
theorem stream_lift (sel : String) (n : Nat) (p q : Bool) (s t : Nat → Option Sc) (i : Nat) :
    (applyBin sel (n + 1) (.strm p s) (.strm q t)).nextAt i =
      some (match s i, t i with
            | some a, some b => some (.app sel [a, b])
            | _, _ => none) := rfl

theorem stream_ends_with_shorter (sel : String) (n : Nat) (p q : Bool) (s t : Nat → Option Sc) (i : Nat)
    (h : s i = none ∨ t i = none) :
    (applyBin sel (n + 1) (.strm p s) (.strm q t)).nextAt i = some none := by
  rw [stream_lift]
  rcases h with h | h <;> rw [h] <;> cases s i <;> rfl

/-- a number is promoted to the constant stream; reflected: the number stays on the left -/
theorem stream_scalar (sel : String) (n : Nat) (p : Bool) (s : Nat → Option Sc) (y : Sc) (i : Nat) :
    (applyBin sel (n + 1) (.strm p s) (.sc y)).nextAt i = some ((s i).map fun a => .app sel [a, y]) ∧
    (applyBin sel (n + 1) (.sc y) (.strm p s)).nextAt i = some ((s i).map fun a => .app sel [y, a]) := by
  constructor <;> simp [applyBin, Obj.hook?, composeBin, toStream, zipStreams, Obj.nextAt] <;> cases s i <;> rfl

/-- a pattern combined with anything streams like the streams of its operands -/
theorem pattern_lift (sel : String) (n : Nat) (s t : Nat → Option Sc) (q : Bool) (i : Nat) :
    (applyBin sel (n + 1) (.strm true s) (.strm q t)).nextAt i =
      (applyBin sel (n + 1) (.strm false s) (.strm q t)).nextAt i := rfl

/-- sequences: element-wise with wrap-around, length of the longer (empty if one is empty). -/
theorem list_lift (sel : String) (n : Nat) (as bs : List Sc) :
    ∃ L, applyBin sel (n + 2) (.seq .chan (as.map .sc)) (.seq .chan (bs.map .sc)) = .seq .chan L ∧
      L.length = zipLen as.length bs.length ∧
      ∀ i, i < L.length → L[i]? = pairAt (fun a b => .sc (.app sel [a, b])) as bs i := by
  obtain ⟨L, h1, h2, h3⟩ := listBinop_flat (applyBin sel (n + 1)) n as bs .chan .chan .chan
  refine ⟨L, ?_, h2, ?_⟩
  · simp only [applyBin, Obj.hook?, composeBin]
    exact h1
  · intro i hi
    rw [h3 i hi]
    unfold pairAt
    cases as[i % as.length]? <;> cases bs[i % bs.length]? <;> simp [applyBin_sc]

/-- the same law for the library function on plain lists / tuples, for any result type `t` -/
theorem list_binop_lift (sel : String) (n : Nat) (as bs : List Sc) (ka kb t : SeqK) :
    ∃ L, listBinop (applyBin sel (n + 1)) (n + 1) (.seq ka (as.map .sc)) (.seq kb (bs.map .sc)) t = .seq t L ∧
      L.length = zipLen as.length bs.length ∧
      ∀ i, i < L.length → L[i]? = pairAt (fun a b => .sc (.app sel [a, b])) as bs i := by
  obtain ⟨L, h1, h2, h3⟩ := listBinop_flat (applyBin sel (n + 1)) n as bs ka kb t
  refine ⟨L, h1, h2, ?_⟩
  intro i hi
  rw [h3 i hi]
  unfold pairAt
  cases as[i % as.length]? <;> cases bs[i % bs.length]? <;> simp [applyBin_sc]

/-- sequence with a number on either side: every member is combined with it, order kept;
    nested members are entered recursively with their own type as result type. -/
theorem list_scalar_lift (sel : String) (n : Nat) (xs : List Obj) (y : Sc) :
    applyBin sel (n + 2) (.seq .chan xs) (.sc y) =
      .seq .chan (xs.map fun x => listBinop (applyBin sel (n + 1)) n x (.sc y) x.kind) ∧
    applyBin sel (n + 2) (.sc y) (.seq .chan xs) =
      .seq .chan (xs.map fun x => listBinop (applyBin sel (n + 1)) n (.sc y) x x.kind) := by
  constructor <;> simp [applyBin, Obj.hook?, composeBin, listBinop]

/-- nested members of two sequences are combined by the same law one level down; the member
    result is a tuple when one of the two members is a tuple, else a list. -/
theorem list_nested_lift (op : Obj → Obj → Obj) (n : Nat) (ka kb kx ky t : SeqK) (xs ys : List Obj) :
    listBinop op (n + 2) (.seq ka [.seq kx xs]) (.seq kb [.seq ky ys]) t =
      .seq t [listBinop op (n + 1) (Obj.seq kx xs).untuple (Obj.seq ky ys).untuple
                (if kx = .tuple ∨ ky = .tuple then .tuple else .list)] := by
  cases kx <;> cases ky <;> simp [listBinop, wrapExtend, Obj.isSeq, Obj.isTuple, Obj.untuple]

/-- `Operand(a) op b = Operand(a op b)`, operands unwrapped, also reflected. -/
theorem operand_lift (sel : String) (n : Nat) (a b : Sc) :
    applyBin sel (n + 2) (.opnd a) (.sc b) = .opnd (.app sel [a, b]) ∧
    applyBin sel (n + 2) (.opnd a) (.opnd b) = .opnd (.app sel [a, b]) ∧
    applyBin sel (n + 2) (.sc a) (.opnd b) = .opnd (.app sel [a, b]) ∧
    applyUn sel (n + 1) (.opnd a) = .opnd (.app sel [a]) := by
  refine ⟨?_, ?_, ?_, ?_⟩ <;> simp [applyBin, applyUn, Obj.hook?, composeBin, numeric]

/-- `@scbuiltin.binop` (and an `operator.*` selector): the left operand's hook, else the right
    operand's reflected hook, else the numeric function. -/
theorem builtin_dispatch (name : String) (n : Nat) (a b : Obj) :
    applyBin name (n + 1) a b =
      (match a.hook?, b.hook? with
       | some _, _ => composeBin (applyBin name n) n name true a b
       | none, some _ => composeBin (applyBin name n) n name false b a
       | none, none => numeric name [a, b]) := by
  simp only [applyBin]
  cases a.hook? <;> cases b.hook? <;> rfl

theorem builtin_is_dispatch (name : String) (a b : Obj) :
    pyBuiltin "binop" name [a, b] = applyBin name fuel a b ∧
    pyBuiltin "unop" name [a] = applyUn name fuel a ∧
    pyBuiltin "narop" name [a, b] = applyNar name fuel a [b] := ⟨rfl, rfl, rfl⟩


/-! ## Reflected forms, on the operator table GENERATED from `absobject.py` -/

/-- the Python operators that have a reflected method -/
def reflectedPairs : List (String × String) :=
  [("__add__", "__radd__"), ("__sub__", "__rsub__"), ("__mul__", "__rmul__"),
   ("__truediv__", "__rtruediv__"), ("__floordiv__", "__rfloordiv__"), ("__mod__", "__rmod__"),
   ("__pow__", "__rpow__"), ("__lshift__", "__rlshift__"), ("__rshift__", "__rrshift__"),
   ("__and__", "__rand__"), ("__or__", "__ror__"), ("__xor__", "__rxor__")]

/-- Every arithmetic dunder of `AbstractObject` has its reflected twin, which forwards the SAME
    selector to `_rcompose_binop` (complete finite table, checked by evaluation). -/
theorem reflected_table_consistent :
    reflectedPairs.all (fun p =>
      match findRow GenOps.ops p.1, findRow GenOps.ops p.2 with
      | some a, some b => a.hook == "_compose_binop" && b.hook == "_rcompose_binop" && a.sel == b.sel
                          && a.passes == a.params && b.passes == b.params && a.params.length == 1
      | _, _ => false) = true := by decide

/-- The comparison dunders exist, none has a reflected twin (Python mirrors them instead). -/
theorem comparison_table_consistent :
    ["lt", "le", "eq", "ne", "gt", "ge"].all (fun op =>
      (match findRow GenOps.ops ("__" ++ op ++ "__") with
       | some a => a.hook == "_compose_binop" && a.sel == op
       | none => false) && (findRow GenOps.ops ("__r" ++ op ++ "__")).isNone
      && (mirror op).isSome) = true := by decide

/-- A plain number on the left of an operator with a reflected method: the right operand's
    `_rcompose_binop` runs the selector of its table row with the operands in the written order
    (this is what makes `3 - f`, `3 / f`, `3 % f`, `3 ** f` right). -/
theorem reflected_forms (ops : List OpRow) (op : String) (r : OpRow) (hop : dunderName op = op)
    (hr : findRow ops s!"__r{op}__" = some r) (y : Sc) (f : Sc → Sc) (x : Sc) :
    (pyBinary ops op (.sc y) (.fn f)).callAt x = some (.app r.sel [y, f x]) := by
  simp only [pyBinary, hop, Obj.hook?, hr]
  rfl

/-- A comparison with a number on the left runs the mirrored comparison of the right operand
    with the operands swapped: `3 < f` evaluates `f(x) > 3`. -/
theorem reflected_comparison (ops : List OpRow) (op m : String) (r : OpRow) (hop : dunderName op = op)
    (hno : findRow ops s!"__r{op}__" = none) (hm : mirror op = some m)
    (hr : findRow ops s!"__{m}__" = some r) (y : Sc) (f : Sc → Sc) (x : Sc) :
    (pyBinary ops op (.sc y) (.fn f)).callAt x = some (.app r.sel [f x, y]) := by
  simp only [pyBinary, hop, Obj.hook?, hno, hm, hr]
  rfl

/-- instances on the generated table -/
example (y : Sc) (f : Sc → Sc) (x : Sc) :
    (pyBinary GenOps.ops "sub" (.sc y) (.fn f)).callAt x = some (.app "sub" [y, f x]) := rfl
example (y : Sc) (f : Sc → Sc) (x : Sc) :
    (pyBinary GenOps.ops "lt" (.sc y) (.fn f)).callAt x = some (.app "gt" [f x, y]) := rfl
example (f : Sc → Sc) (x : Sc) :
    (pyMethod GenOps.ops "round" (.fn f) []).callAt x = some (.app "round" [f x, .atom "i:1"]) := rfl

end Lifting

/-! # Part (b): the numeric kernels -/

section Kernels
open Sc3Verif.C15.Gen Sc3Verif.C15.GenR

/-! ## wrap -/

/-- `wrap` lands inside its bounds: `[lo, hi]` when all three arguments are ints (the integer
    wrap is inclusive), `[lo, hi)` as soon as one of them is a float. -/
theorem wrap_in_bounds (x lo hi r : Num) (h : lo.val < hi.val) (hr : wrap_D x lo hi = .ok r) :
    lo.val ≤ r.val ∧ (if allInt [x, lo, hi] then r.val ≤ hi.val else r.val < hi.val) := by
  by_cases ha : allInt [x, lo, hi] = true
  · rw [if_pos ha]
    cases x <;> cases lo <;> cases hi <;> simp [allInt, Num.isInt] at ha
    rename_i x lo hi
    rw [wrap_D_int] at hr
    injection hr with hr; subst hr
    have hl : lo ≤ hi := by
      have : (lo : ℚ) < hi := h
      exact_mod_cast this.le
    obtain ⟨h1, h2, _⟩ := wrap_III_spec x lo hi hl
    simp only [Num.val]
    exact ⟨by exact_mod_cast h1, by exact_mod_cast h2⟩
  · have ha' : allInt [x, lo, hi] = false := by simpa using ha
    rw [if_neg ha]
    rw [wrap_D_float x lo hi ha'] at hr
    injection hr with hr; subst hr
    obtain ⟨h1, h2, _⟩ := wrap_FFF_spec x.val lo.val hi.val h
    exact ⟨h1, h2⟩

/-- The integer wrap also accepts `lo = hi`. -/
theorem wrap_int_in_bounds (x lo hi : ℤ) (h : lo ≤ hi) :
    lo ≤ wrap_III x lo hi ∧ wrap_III x lo hi ≤ hi :=
  let s := wrap_III_spec x lo hi h; ⟨s.1, s.2.1⟩

/-- `wrap` differs from its argument by a whole number of periods (`hi - lo + 1` for ints,
    `hi - lo` otherwise). -/
theorem wrap_congruent (x lo hi r : Num) (h : lo.val < hi.val) (hr : wrap_D x lo hi = .ok r) :
    ∃ k : ℤ, x.val = r.val + k * (if allInt [x, lo, hi] then hi.val - lo.val + 1 else hi.val - lo.val) := by
  by_cases ha : allInt [x, lo, hi] = true
  · rw [if_pos ha]
    cases x <;> cases lo <;> cases hi <;> simp [allInt, Num.isInt] at ha
    rename_i x lo hi
    rw [wrap_D_int] at hr
    injection hr with hr; subst hr
    have hl : lo ≤ hi := by
      have : (lo : ℚ) < hi := h
      exact_mod_cast this.le
    obtain ⟨_, _, k, hk⟩ := wrap_III_spec x lo hi hl
    refine ⟨k, ?_⟩
    simp only [Num.val]
    have : x = wrap_III x lo hi + k * (hi - lo + 1) := by linarith
    have := congrArg (Int.cast (R := ℚ)) this
    push_cast at this; linarith
  · have ha' : allInt [x, lo, hi] = false := by simpa using ha
    rw [if_neg ha]
    rw [wrap_D_float x lo hi ha'] at hr
    injection hr with hr; subst hr
    obtain ⟨_, _, k, hk⟩ := wrap_FFF_spec x.val lo.val hi.val h
    exact ⟨k, hk⟩

/-! ## fold -/

/-- `fold` lands inside `[lo, hi]` for every int/float argument combination. -/
theorem fold_in_bounds (x lo hi r : Num) (h : lo.val < hi.val) (hr : fold_D x lo hi = .ok r) :
    lo.val ≤ r.val ∧ r.val ≤ hi.val := by
  by_cases ha : allInt [x, lo, hi] = true
  · cases x <;> cases lo <;> cases hi <;> simp [allInt, Num.isInt] at ha
    rename_i x lo hi
    rw [fold_D_int] at hr
    injection hr with hr; subst hr
    have hl : lo ≤ hi := by
      have : (lo : ℚ) < hi := h
      exact_mod_cast this.le
    obtain ⟨h1, h2⟩ := fold_III_bounds x lo hi hl
    simp only [Num.val]
    exact ⟨by exact_mod_cast h1, by exact_mod_cast h2⟩
  · have ha' : allInt [x, lo, hi] = false := by simpa using ha
    rw [fold_D_float x lo hi ha'] at hr
    injection hr with hr; subst hr
    obtain ⟨h1, h2, _⟩ := fold_FFF_spec x.val lo.val hi.val h
    exact ⟨h1, h2⟩

/-- `fold` is a reflection: measured from `lo`, result and argument agree up to sign modulo
    twice the range. -/
theorem fold_reflects (x lo hi r : Num) (h : lo.val < hi.val) (hr : fold_D x lo hi = .ok r) :
    ∃ k : ℤ, (x.val - lo.val) - (r.val - lo.val) = k * (2 * (hi.val - lo.val)) ∨
             (x.val - lo.val) + (r.val - lo.val) = k * (2 * (hi.val - lo.val)) := by
  by_cases ha : allInt [x, lo, hi] = true
  · cases x <;> cases lo <;> cases hi <;> simp [allInt, Num.isInt] at ha
    rename_i x lo hi
    rw [fold_D_int] at hr
    injection hr with hr; subst hr
    have hl : lo < hi := by
      have : (lo : ℚ) < hi := h
      exact_mod_cast this
    simp only [Num.val]
    rcases fold_III_reflect x lo hi hl with ⟨k, hk⟩ | ⟨k, hk⟩
    · refine ⟨k, Or.inl ?_⟩
      have := congrArg (Int.cast (R := ℚ)) hk
      push_cast at this; linarith
    · refine ⟨k, Or.inr ?_⟩
      have := congrArg (Int.cast (R := ℚ)) hk
      push_cast at this; linarith
  · have ha' : allInt [x, lo, hi] = false := by simpa using ha
    rw [fold_D_float x lo hi ha'] at hr
    injection hr with hr; subst hr
    obtain ⟨_, _, k, hk⟩ := fold_FFF_spec x.val lo.val hi.val h
    exact ⟨k, hk⟩

/-- The integer fold also accepts `lo = hi`. -/
theorem fold_int_in_bounds (x lo hi : ℤ) (h : lo ≤ hi) :
    lo ≤ fold_III x lo hi ∧ fold_III x lo hi ≤ hi := fold_III_bounds x lo hi h

/-! ## wrap2 / fold2 : the symmetric forms -/

theorem wrap2_in_bounds (x b r : Num) (h : 0 < b.val) (hr : wrap2_D x b = .ok r) :
    -b.val ≤ r.val ∧ (if allInt [x, b] then r.val ≤ b.val else r.val < b.val) := by
  rw [wrap2_D_eq] at hr
  cases b with
  | i n =>
    have := wrap_in_bounds x (.i (-n)) (.i n) r (by simp only [Num.val] at h ⊢; push_cast; linarith) hr
    cases x <;> simpa [allInt, Num.isInt, Num.val] using this
  | f q =>
    have := wrap_in_bounds x (.f (-q)) (.f q) r (by simp only [Num.val] at h ⊢; linarith) hr
    cases x <;> simpa [allInt, Num.isInt, Num.val] using this

theorem fold2_in_bounds (x b r : Num) (h : 0 < b.val) (hr : fold2_D x b = .ok r) :
    -b.val ≤ r.val ∧ r.val ≤ b.val := by
  rw [fold2_D_eq] at hr
  cases b with
  | i n =>
    have := fold_in_bounds x (.i (-n)) (.i n) r (by simp only [Num.val] at h ⊢; push_cast; linarith) hr
    simpa [Num.val] using this
  | f q =>
    have := fold_in_bounds x (.f (-q)) (.f q) r (by simp only [Num.val] at h ⊢; linarith) hr
    simpa [Num.val] using this

/-! ## clip -/

/-- `clip` is idempotent, for every int/float argument combination and any bounds. -/
theorem clip_idem (x lo hi r : Num) (hr : clip_D x lo hi = .ok r) : clip_D r lo hi = .ok r := by
  cases x <;> cases lo <;> cases hi <;> simp only [clip_D] at hr <;>
    injection hr with hr <;> subst hr <;> simp only [clip_D] <;>
    simp only [clip_III, clip_IIF, clip_IFI, clip_IFF, clip_FII, clip_FIF, clip_FFI, clip_FFF,
      min_II_eq, max_II_eq, min_FF_eq, max_FF_eq, clip_idem_lin]

/-- `clip` returns the nearest point of `[lo, hi]` whenever the conversion of the bounds to the
    type of `x` is exact (all ints, or `x` a float). -/
theorem clip_bounds (x lo hi r : Num) (h : lo.val ≤ hi.val)
    (ht : x.isInt = false ∨ allInt [x, lo, hi] = true) (hr : clip_D x lo hi = .ok r) :
    lo.val ≤ r.val ∧ r.val ≤ hi.val ∧ (lo.val ≤ x.val → x.val ≤ hi.val → r.val = x.val) := by
  cases x <;> cases lo <;> cases hi <;> simp [allInt, Num.isInt] at ht <;>
    simp only [clip_D] at hr <;> injection hr with hr <;> subst hr <;>
    simp only [Num.val] at h ⊢ <;>
    simp only [clip_III, clip_FII, clip_FIF, clip_FFI, clip_FFF,
      min_II_eq, max_II_eq, min_FF_eq, max_FF_eq]
  · rename_i x lo hi
    have hl : lo ≤ hi := by exact_mod_cast h
    obtain ⟨h1, h2, h3⟩ := clip_lin_bounds x lo hi hl
    refine ⟨by exact_mod_cast h1, by exact_mod_cast h2, fun a b => ?_⟩
    have := h3 (by exact_mod_cast a) (by exact_mod_cast b)
    exact_mod_cast this
  all_goals exact clip_lin_bounds _ _ _ h

/-- With an int `x` and float bounds the bounds are truncated toward zero first (the C template
    `sc_clip(T x, U lo, V hi)` casts them to `T`): the result lies between the truncated bounds. -/
theorem clip_int_truncates (x : ℤ) (lo hi : ℚ) (h : Py.truncQ lo ≤ Py.truncQ hi) :
    Py.truncQ lo ≤ clip_IFF x lo hi ∧ clip_IFF x lo hi ≤ Py.truncQ hi := by
  simp only [clip_IFF, min_II_eq, max_II_eq]
  exact ⟨(clip_lin_bounds _ _ _ h).1, (clip_lin_bounds _ _ _ h).2.1⟩

/-! ## round / roundup / trunc -/

/-- `round` returns a multiple of the quantum nearest to `x`. -/
theorem round_multiple_nearest (x q r : Num) (h : 0 < q.val) (hr : round_D x q = .ok r) :
    ∃ k : ℤ, r.val = k * q.val ∧ 2 * |r.val - x.val| ≤ q.val := by
  by_cases ha : allInt [x, q] = true
  · cases x <;> cases q <;> simp [allInt, Num.isInt] at ha
    rename_i x q
    rw [round_D_int] at hr
    injection hr with hr; subst hr
    have hq : 0 < q := by simp only [Num.val] at h; exact_mod_cast h
    obtain ⟨k, e, h1, h2⟩ := round_II_spec x q hq
    have h1' : 2 * ((k : ℚ) * q - x) ≤ q := by exact_mod_cast h1
    have h2' : 2 * ((x : ℚ) - k * q) ≤ q := by exact_mod_cast h2
    simp only [Num.val]
    rw [e]; push_cast
    refine ⟨k, rfl, ?_⟩
    have : |(k : ℚ) * q - x| ≤ q / 2 := abs_le.mpr ⟨by linarith, by linarith⟩
    linarith
  · have ha' : allInt [x, q] = false := by simpa using ha
    rw [round_D_float x q ha'] at hr
    injection hr with hr; subst hr
    obtain ⟨k, e, h1, h2⟩ := round_FF_spec x.val q.val h
    simp only [val_f]
    rw [e]
    refine ⟨k, rfl, ?_⟩
    have : |(k : ℚ) * q.val - x.val| ≤ q.val / 2 := abs_le.mpr ⟨by linarith, by linarith⟩
    linarith

/-- `roundup` returns the least multiple of the quantum that is not below `x`. -/
theorem roundup_multiple_ge (x q r : Num) (h : 0 < q.val) (hr : roundup_D x q = .ok r) :
    ∃ k : ℤ, r.val = k * q.val ∧ x.val ≤ r.val ∧ r.val < x.val + q.val := by
  by_cases ha : allInt [x, q] = true
  · cases x <;> cases q <;> simp [allInt, Num.isInt] at ha
    rename_i x q
    rw [roundup_D_int] at hr
    injection hr with hr; subst hr
    have hq : 0 < q := by simp only [Num.val] at h; exact_mod_cast h
    obtain ⟨k, e, h1, h2⟩ := roundup_II_spec x q hq
    simp only [Num.val]
    rw [e]; push_cast
    exact ⟨k, rfl, by exact_mod_cast h1, by exact_mod_cast h2⟩
  · have ha' : allInt [x, q] = false := by simpa using ha
    rw [roundup_D_float x q ha'] at hr
    injection hr with hr; subst hr
    obtain ⟨k, e, h1, h2⟩ := roundup_FF_spec x.val q.val h
    simp only [val_f]
    rw [e]
    exact ⟨k, rfl, h1, h2⟩

/-- … and no smaller multiple is: any multiple `m * quant ≥ x` is `≥ roundup x quant`. -/
theorem roundup_least (x q r : Num) (h : 0 < q.val) (hr : roundup_D x q = .ok r)
    (m : ℤ) (hm : x.val ≤ m * q.val) : r.val ≤ m * q.val := by
  obtain ⟨k, e, _, h2⟩ := roundup_multiple_ge x q r h hr
  rw [e] at h2 ⊢
  have : (k : ℚ) < m + 1 := by
    by_contra hc
    have hc : (m : ℚ) + 1 ≤ k := not_lt.mp hc
    nlinarith
  have : k ≤ m := by
    have : k < m + 1 := by exact_mod_cast this
    omega
  have : (k : ℚ) ≤ m := by exact_mod_cast this
  nlinarith

/-- `trunc` returns the greatest multiple of the quantum that is not above `x`. -/
theorem trunc_multiple_le (x q r : Num) (h : 0 < q.val) (hr : trunc_D x q = .ok r) :
    ∃ k : ℤ, r.val = k * q.val ∧ r.val ≤ x.val ∧ x.val < r.val + q.val := by
  by_cases ha : allInt [x, q] = true
  · cases x <;> cases q <;> simp [allInt, Num.isInt] at ha
    rename_i x q
    rw [trunc_D_int] at hr
    injection hr with hr; subst hr
    have hq : 0 < q := by simp only [Num.val] at h; exact_mod_cast h
    obtain ⟨k, e, h1, h2⟩ := trunc_II_spec x q hq
    simp only [Num.val]
    rw [e]; push_cast
    exact ⟨k, rfl, by exact_mod_cast h1, by exact_mod_cast h2⟩
  · have ha' : allInt [x, q] = false := by simpa using ha
    rw [trunc_D_float x q ha'] at hr
    injection hr with hr; subst hr
    obtain ⟨k, e, h1, h2⟩ := trunc_FF_spec x.val q.val h
    simp only [val_f]
    rw [e]
    exact ⟨k, rfl, h1, h2⟩

/-! ## mod -/

/-- The modulo is non-negative and below a positive modulus, and congruent to the dividend. -/
theorem mod_nonneg_lt (a b r : Num) (h : 0 < b.val) (hr : mod_D a b = .ok r) :
    0 ≤ r.val ∧ r.val < b.val ∧ ∃ k : ℤ, a.val = r.val + k * b.val := by
  by_cases ha : allInt [a, b] = true
  · cases a <;> cases b <;> simp [allInt, Num.isInt] at ha
    rename_i a b
    rw [mod_D_int] at hr
    injection hr with hr; subst hr
    have hb : 0 < b := by simp only [Num.val] at h; exact_mod_cast h
    rw [mod_II_eq_emod a b hb]
    simp only [Num.val]
    refine ⟨by exact_mod_cast Int.emod_nonneg a hb.ne', by exact_mod_cast Int.emod_lt_of_pos a hb,
      a / b, ?_⟩
    have := Int.emod_add_mul_ediv a b
    have := congrArg (Int.cast (R := ℚ)) this
    push_cast at this; linarith
  · have ha' : allInt [a, b] = false := by simpa using ha
    rw [mod_D_float a b ha'] at hr
    injection hr with hr; subst hr
    exact mod_FF_spec a.val b.val h

/-! ## The law-bearing kernels never raise -/

theorem kernels_total (x y z : Num) :
    (∃ r, wrap_D x y z = .ok r) ∧ (∃ r, fold_D x y z = .ok r) ∧ (∃ r, clip_D x y z = .ok r) ∧
    (∃ r, round_D x y = .ok r) ∧ (∃ r, roundup_D x y = .ok r) ∧ (∃ r, trunc_D x y = .ok r) ∧
    (∃ r, mod_D x y = .ok r) := by
  refine ⟨?_, ?_, ?_, ?_, ?_, ?_, ?_⟩ <;> cases x <;> cases y <;> (try cases z) <;> exact ⟨_, rfl⟩

/-! ## Pitch and amplitude conversions are mutually inverse (over ℝ) -/

/-- MIDI note → frequency → MIDI note is the identity (every real note). -/
theorem cpsmidi_midicps (ninf x : ℝ) : cpsmidi_F ninf (midicps_F x) = x := by
  unfold cpsmidi_F midicps_F
  rw [pow_FF_nonneg (by norm_num)]
  have hp : (0:ℝ) < (2:ℝ) ^ ((x - 69) * (1 / 12)) := Real.rpow_pos_of_pos (by norm_num) _
  have e : 440 * (2:ℝ) ^ ((x - 69) * (1 / 12)) * (1 / 440) = (2:ℝ) ^ ((x - 69) * (1 / 12)) := by ring
  rw [e, log2_F_ne ninf hp.ne', logb2_rpow]
  ring

/-- frequency → MIDI note → frequency is the identity on positive frequencies. -/
theorem midicps_cpsmidi (ninf f : ℝ) (hf : 0 < f) : midicps_F (cpsmidi_F ninf f) = f := by
  unfold cpsmidi_F midicps_F
  have h1 : 0 < f * (1 / 440) := by positivity
  rw [pow_FF_nonneg (by norm_num), log2_F_ne ninf h1.ne']
  have e : (Real.logb 2 (f * (1 / 440)) * 12 + 69 - 69) * (1 / 12) = Real.logb 2 (f * (1 / 440)) := by ring
  rw [e, rpow2_logb h1]
  ring

/-- interval in semitones → ratio → semitones is the identity. -/
theorem ratiomidi_midiratio (ninf x : ℝ) : ratiomidi_F ninf (midiratio_F x) = x := by
  unfold ratiomidi_F midiratio_F
  rw [pow_FF_nonneg (by norm_num)]
  have hp : (0:ℝ) < (2:ℝ) ^ (x * (1 / 12)) := Real.rpow_pos_of_pos (by norm_num) _
  rw [log2_F_ne ninf hp.ne', logb2_rpow]
  ring

/-- ratio → semitones → ratio is the identity on positive ratios. -/
theorem midiratio_ratiomidi (ninf r : ℝ) (hr : 0 < r) : midiratio_F (ratiomidi_F ninf r) = r := by
  unfold ratiomidi_F midiratio_F
  rw [pow_FF_nonneg (by norm_num), log2_F_ne ninf hr.ne']
  have e : 12 * Real.logb 2 r * (1 / 12) = Real.logb 2 r := by ring
  rw [e, rpow2_logb hr]

/-- decimal octave → frequency → decimal octave is the identity. -/
theorem cpsoct_octcps (ninf x : ℝ) : cpsoct_F ninf (octcps_F x) = x := by
  unfold cpsoct_F octcps_F
  rw [pow_FF_nonneg (by norm_num)]
  have hp : (0:ℝ) < (2:ℝ) ^ (x - 19 / 4) := Real.rpow_pos_of_pos (by norm_num) _
  have e : 440 * (2:ℝ) ^ (x - 19 / 4) * (1 / 440) = (2:ℝ) ^ (x - 19 / 4) := by ring
  rw [e, log2_F_ne ninf hp.ne', logb2_rpow]
  ring

/-- frequency → decimal octave → frequency is the identity on positive frequencies
    (false for the unrepaired `cpsoct`, which added 4.75 inside the logarithm: D9). -/
theorem octcps_cpsoct (ninf f : ℝ) (hf : 0 < f) : octcps_F (cpsoct_F ninf f) = f := by
  unfold cpsoct_F octcps_F
  have h1 : 0 < f * (1 / 440) := by positivity
  rw [pow_FF_nonneg (by norm_num), log2_F_ne ninf h1.ne']
  have e : Real.logb 2 (f * (1 / 440)) + 19 / 4 - 19 / 4 = Real.logb 2 (f * (1 / 440)) := by ring
  rw [e, rpow2_logb h1]
  ring

/-- decibels → amplitude → decibels is the identity. -/
theorem ampdb_dbamp (ninf x : ℝ) : ampdb_F ninf (dbamp_F x) = x := by
  unfold ampdb_F dbamp_F
  rw [pow_FF_nonneg (by norm_num)]
  have hp : (0:ℝ) < (10:ℝ) ^ (x * (1 / 20)) := Real.rpow_pos_of_pos (by norm_num) _
  rw [log10_F_ne ninf hp.ne', logb10_rpow]
  ring

/-- amplitude → decibels → amplitude is the identity on positive amplitudes. -/
theorem dbamp_ampdb (ninf a : ℝ) (ha : 0 < a) : dbamp_F (ampdb_F ninf a) = a := by
  unfold ampdb_F dbamp_F
  rw [pow_FF_nonneg (by norm_num), log10_F_ne ninf ha.ne']
  have e : Real.logb 10 a * 20 * (1 / 20) = Real.logb 10 a := by ring
  rw [e, rpow10_logb ha]

/-! ## Non-vacuity: concrete instances computed with the generated definitions -/

example : wrap_D (.i 7) (.i 0) (.i 4) = .ok (.i 2) := by decide
example : fold_D (.i 7) (.i 0) (.i 4) = .ok (.i 1) := by decide
/-- the D15 witness: an int `x` with float bounds now runs the float code -/
example : wrap_D (.i 6) (.f (1/2)) (.f (5/2)) = .ok (.f 2) := by
  rw [wrap_D_float _ _ _ (by rfl)]
  simp only [Num.val, wrap_FFF, floor_F_eq]
  norm_num
example : fold_D (.i 4) (.f (1/2)) (.f (5/2)) = .ok (.f 1) := by
  rw [fold_D_float _ _ _ (by rfl)]
  simp only [Num.val, fold_FFF, floor_F_eq]
  norm_num
example : round_D (.i 7) (.f (3/2)) = .ok (.f (15/2)) := by
  rw [round_D_float _ _ (by rfl)]
  simp only [Num.val, round_FF, floor_F_eq]
  norm_num
example : roundup_D (.f (7/2)) (.i 2) = .ok (.f 4) := by
  rw [roundup_D_float _ _ (by rfl)]
  simp only [Num.val, roundup_FF, ceil_F_eq]
  norm_num
example : mod_D (.i (-7)) (.i 4) = .ok (.i 1) := by decide
example : clip_D (.f 5) (.f (1/2)) (.f (5/2)) = .ok (.f (5/2)) := by
  simp only [clip_D, clip_FFF, min_FF_eq, max_FF_eq]; norm_num
example : octcps_F 4.75 = 440 := by
  unfold octcps_F; rw [pow_FF_nonneg (by norm_num)]; norm_num

end Kernels

end Sc3Verif.C15
