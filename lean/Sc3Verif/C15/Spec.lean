/-
C15 — the abstract specification the lifting theorems are stated against (readable in a minute).

An operator applied to lazy or composite objects builds an object whose *evaluation* equals the
numeric operator applied to the *evaluated* operands:

  functions   (f op g)(x)        = f(x) op g(x)
  streams     next (s op t)      = next s op next t,  ending with the shorter operand
  sequences   (a op b)[i]        = a[i mod |a|] op b[i mod |b|],  |a op b| = max |a| |b|
                                   (empty if an operand is empty), recursively for nested members
  operands    Operand(a) op b    = Operand(a op b)

and a plain number on the left is handled by the right operand with the operands kept in order
(`3 - f` evaluates `3 - f(x)`).  The observers below are how "evaluation" is read off an `Obj`.
-/
import Sc3Verif.C15.Model
namespace Sc3Verif.C15.Lift

/-- value of a function object at an argument (`none`: not a function) -/
def Obj.callAt : Obj → Sc → Option Sc
  | .fn f, x => some (f x)
  | _, _ => none

/-- result of the `i`-th `next()` of a stream / pattern: `some none` = StopStream -/
def Obj.nextAt : Obj → Nat → Option (Option Sc)
  | .strm _ s, i => some (s i)
  | _, _ => none

/-- `a[i mod |a|] op b[i mod |b|]` (undefined when an operand is empty) -/
def pairAt (op : Sc → Sc → Obj) (as bs : List Sc) (i : Nat) : Option Obj :=
  match as[i % as.length]?, bs[i % bs.length]? with
  | some a, some b => some (op a b)
  | _, _ => none

/-- `|a op b|`: the longer operand, nothing if one is empty -/
def zipLen (la lb : Nat) : Nat := if la = 0 ∨ lb = 0 then 0 else max la lb

end Sc3Verif.C15.Lift
