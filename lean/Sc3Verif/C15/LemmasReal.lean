/-
C15 — helper lemmas about the ℝ variants generated from sc3/base/builtins.py (GenReal.lean).
-/
import Sc3Verif.C15.GenReal
import Mathlib.Tactic.Linarith
import Mathlib.Tactic.Ring
import Mathlib.Tactic.FieldSimp
import Mathlib.Tactic.Positivity
import Mathlib.Tactic.NormNum
namespace Sc3Verif.C15
open Sc3Verif.C15.GenR

/-- `bi.pow` with a non-negative base is the real power. -/
theorem pow_FF_nonneg {a : ℝ} (ha : 0 ≤ a) (b : ℝ) : pow_FF a b = a ^ b := by
  unfold pow_FF
  simp [ha, Real.rpow_eq_pow]

theorem pow_FF_pos {a : ℝ} (ha : 0 < a) (b : ℝ) : 0 < pow_FF a b := by
  rw [pow_FF_nonneg ha.le]; exact Real.rpow_pos_of_pos ha b

/-- `bi.log2` away from zero is the real base-2 logarithm (whatever `-inf` is taken to be). -/
theorem log2_F_ne (ninf : ℝ) {x : ℝ} (hx : x ≠ 0) : log2_F ninf x = Real.logb 2 x := by
  unfold log2_F
  simp [hx]

theorem log10_F_ne (ninf : ℝ) {x : ℝ} (hx : x ≠ 0) : log10_F ninf x = Real.logb 10 x := by
  unfold log10_F
  simp [hx]

theorem logb2_rpow (y : ℝ) : Real.logb 2 ((2 : ℝ) ^ y) = y :=
  Real.logb_rpow (by norm_num) (by norm_num)

theorem rpow2_logb {x : ℝ} (hx : 0 < x) : (2 : ℝ) ^ Real.logb 2 x = x :=
  Real.rpow_logb (by norm_num) (by norm_num) hx

theorem logb10_rpow (y : ℝ) : Real.logb 10 ((10 : ℝ) ^ y) = y :=
  Real.logb_rpow (by norm_num) (by norm_num)

theorem rpow10_logb {x : ℝ} (hx : 0 < x) : (10 : ℝ) ^ Real.logb 10 x = x :=
  Real.rpow_logb (by norm_num) (by norm_num) hx

end Sc3Verif.C15
