/-
C15 (a) — executable model of operator lifting in sc3
(`sc3/base/absobject.py`, `builtins.py: scbuiltin`, `functions.py`, `stream.py`,
`seq/pattern.py`, `utils.py: list_unop/list_binop/list_narop`, `operand.py`).

Scalars are *symbolic*: `Sc.app sel [a, b]` records that the numeric selector `sel` was applied
to the evaluated operands `a`, `b` in that order.  The model therefore says WHICH selector reaches
WHICH evaluated operands — the content of "operators lift uniformly" — and leaves the numeric
meaning of the selector to part (b) (the kernels).

Objects:
  `sc v`        a number / symbolic scalar (no hooks)
  `opnd v`      `Operand(v)`
  `fn f`        any `AbstractFunction`; `f x` is its value at the argument `x`
  `strm p s`    a `Stream` (`p = false`) or a `Pattern` (`p = true`); `s i` is the result of the
                `i`-th `next()` (`none` = `StopStream`); streams are assumed to stay ended
  `seq k xs`    a plain `list` / `tuple` (no hooks) or a `ChannelList` (`AbstractSequence` hooks)
  `err e`       an exception; `err "unmodelled"` marks operand combinations outside the model
                (e.g. a function whose value is a list)

`applyUn/applyBin/applyNar` are what calling a selector (an `operator.*` function or a
`@scbuiltin` function) on objects does: the left operand's hook, else the right operand's
reflected hook, else the numeric function — recursively for the members of sequences.
Recursion through nested sequences uses explicit fuel (any fuel above the nesting depth gives
the same result).  Core Lean only.
-/
namespace Sc3Verif.C15.Lift

inductive SeqK where
  | list | tuple | chan
deriving DecidableEq, Repr, Inhabited

inductive Sc where
  | atom (t : String)
  | app (sel : String) (args : List Sc)
deriving Inhabited

inductive Obj where
  | sc (v : Sc)
  | opnd (v : Sc)
  | fn (f : Sc → Sc)
  | strm (isPat : Bool) (s : Nat → Option Sc)
  | seq (k : SeqK) (xs : List Obj)
  | err (e : String)
deriving Inhabited

def unmodelled : Obj := .err "unmodelled"

def Obj.isSeq : Obj → Bool
  | .seq _ _ => true
  | _ => false

def Obj.isTuple : Obj → Bool
  | .seq .tuple _ => true
  | _ => false

/-- `type(item)` as far as `list_binop` uses it (only consulted when `item` is a sequence). -/
def Obj.kind : Obj → SeqK
  | .seq k _ => k
  | _ => .list

/-- `list(x)` for a tuple member (`a2 = list(a[i])`). -/
def Obj.untuple : Obj → Obj
  | .seq .tuple xs => .seq .list xs
  | o => o

/-- `utl.wrap_extend(lst, n)` = `lst * (n // l) + lst[:n % l]` (`[]` for an empty list). -/
def wrapExtend {α : Type} (l : List α) (n : Nat) : List α :=
  if l.length = 0 ∨ n = 0 then []
  else (List.replicate (n / l.length) l).flatten ++ l.take (n % l.length)

/-- `utl.list_binop(op, a, b, t)`. -/
def listBinop (op : Obj → Obj → Obj) : Nat → Obj → Obj → SeqK → Obj
  | 0, _, _, _ => .err "fuel"
  | n + 1, .seq _ as, .seq _ bs, t =>
    let as' := if as.length ≥ bs.length then as else wrapExtend as bs.length
    let bs' := if as.length ≥ bs.length then wrapExtend bs as.length else bs
    if as'.any Obj.isSeq || bs'.any Obj.isSeq then
      .seq t (List.zipWith (fun x y =>        -- `for i in range(min(len(a), len(b)))`
        listBinop op n x.untuple y.untuple (if x.isTuple || y.isTuple then .tuple else .list)) as' bs')
    else .seq t (List.zipWith op as' bs')
  | n + 1, .seq _ as, b, t => .seq t (as.map fun x => listBinop op n x b x.kind)
  | n + 1, a, .seq _ bs, t => .seq t (bs.map fun y => listBinop op n a y y.kind)
  | _ + 1, a, b, _ => op a b

/-- `utl.list_unop(op, a, t)`. -/
def listUnop (op : Obj → Obj) : Nat → Obj → SeqK → Obj
  | 0, _, _ => .err "fuel"
  | n + 1, .seq _ as, t =>
    if as.any Obj.isSeq then .seq t (as.map fun x => listUnop op n x x.kind)
    else .seq t (as.map op)
  | _ + 1, a, _ => op a

/-- `utl.list_narop(op, a, *args, t=t)`: maps over the first operand only. -/
def listNarop (op : Obj → List Obj → Obj) (args : List Obj) : Nat → Obj → SeqK → Obj
  | 0, _, _ => .err "fuel"
  | n + 1, .seq _ as, t =>
    if as.any Obj.isSeq then .seq t (as.map fun x => listNarop op args n x x.kind)
    else .seq t (as.map fun x => op x args)
  | _ + 1, a, _ => op a args

inductive Hook where
  | fn | strm | chan | opnd
deriving DecidableEq, Repr

/-- Which `_compose_*` hooks an object has (`hasattr(x, '_compose_binop')`). -/
def Obj.hook? : Obj → Option Hook
  | .fn _ => some .fn
  | .strm _ _ => some .strm
  | .seq .chan _ => some .chan
  | .opnd _ => some .opnd
  | _ => none

/-- `stm.stream(obj)`: numbers become constant streams. -/
def toStream : Obj → Option (Nat → Option Sc)
  | .strm _ s => some s
  | .sc v => some fun _ => some v
  | _ => none

/-- pointwise combination; ends as soon as one side ends -/
def zipStreams (sel : String) (s t : Nat → Option Sc) : Nat → Option Sc := fun i =>
  match s i, t i with
  | some a, some b => some (.app sel [a, b])
  | _, _ => none

/-- The numeric function itself: both operands are plain scalars. -/
def numeric (sel : String) : List Obj → Obj
  | args =>
    match args.mapM (fun o => match o with | Obj.sc v => some v | _ => none) with
    | some vs => .sc (.app sel vs)
    | none => match args.find? (fun o => match o with | Obj.err _ => true | _ => false) with
      | some e => e
      | none => unmodelled

/-- A unary selector applied to an object. -/
def applyUn (sel : String) : Nat → Obj → Obj
  | 0, _ => .err "fuel"
  | n + 1, a =>
    match a with
    | .fn f => .fn fun x => .app sel [f x]                                   -- UnopFunction
    | .strm p s => .strm p fun i => (s i).map fun v => .app sel [v]          -- UnopStream / Punop
    | .seq .chan _ => listUnop (applyUn sel n) n a .chan                      -- AbstractSequence
    | .opnd v => .opnd (.app sel [v])                                         -- Operand
    | _ => numeric sel [a]

/-- `a._compose_binop(sel, b)` (`self` on the left) and `b._rcompose_binop(sel, a)`
    (`self` on the right): `self` is the operand that has the hook. -/
def composeBin (rec : Obj → Obj → Obj) (n : Nat) (sel : String) (selfLeft : Bool) (self other : Obj) : Obj :=
  let ord : Sc → Sc → List Sc := fun s o => if selfLeft then [s, o] else [o, s]
  match self with
  | .fn f =>                                                                  -- BinopFunction
    match other with
    | .sc y => .fn fun x => .app sel (ord (f x) y)
    | .fn g => .fn fun x => .app sel (ord (f x) (g x))
    | .err e => .err e
    | _ => unmodelled
  | .strm p s =>                                                              -- BinopStream / Pbinop
    match toStream other with
    | some t => .strm p (if selfLeft then zipStreams sel s t else zipStreams sel t s)
    | none => match other with | .err e => .err e | _ => unmodelled
  | .seq .chan _ =>                                                           -- list_binop(…, type(self))
    if selfLeft then listBinop rec n self other .chan else listBinop rec n other self .chan
  | .opnd v =>                                                                -- type(self)(selector(a, b))
    let o := match other with | .opnd w => Obj.sc w | o => o
    match (if selfLeft then rec (.sc v) o else rec o (.sc v)) with
    | .sc r => .opnd r
    | .err e => .err e
    | _ => unmodelled
  | _ => .err "AttributeError"

/-- A binary selector applied to objects: left hook, else right (reflected) hook, else numeric. -/
def applyBin (sel : String) : Nat → Obj → Obj → Obj
  | 0, _, _ => .err "fuel"
  | n + 1, a, b =>
    match a.hook? with
    | some _ => composeBin (applyBin sel n) n sel true a b
    | none =>
      match b.hook? with
      | some _ => composeBin (applyBin sel n) n sel false b a
      | none => numeric sel [a, b]

/-- `a._compose_narop(sel, *args)`; there is no reflected form. -/
def applyNar (sel : String) : Nat → Obj → List Obj → Obj
  | 0, _, _ => .err "fuel"
  | n + 1, a, args =>
    match a with
    | .fn f =>                                                                -- NaropFunction
      match args.mapM (fun o => match o with
          | Obj.sc y => some (fun (_ : Sc) => y) | Obj.fn g => some g | _ => none) with
      | some gs => .fn fun x => .app sel (f x :: gs.map (· x))
      | none => unmodelled
    | .strm p s =>                                                            -- NaropStream / Pnarop
      match args.mapM toStream with
      | some ts => .strm p fun i =>
          match s i, ts.mapM (· i) with
          | some v, some vs => some (.app sel (v :: vs))
          | _, _ => none
      | none => unmodelled
    | .seq .chan _ => listNarop (applyNar sel n) args n a .chan
    | .opnd v =>
      match args.mapM (fun o => match o with | Obj.sc y => some y | _ => none) with
      | some ys => .opnd (.app sel (v :: ys))
      | none => unmodelled
    | _ => numeric sel (a :: args)

/-- enough fuel for every object the driver builds -/
def fuel : Nat := 64

/-! ### Python-level operator syntax, resolved with the table extracted from `absobject.py` -/

/-- One row per method of `AbstractObject` (generated: `GenOps.ops`):
    method name, hook, selector name, parameter names, defaults, what is passed on. -/
structure OpRow where
  method : String
  hook : String
  sel : String
  params : List String
  defaults : List String
  passes : List String
deriving Repr, Inhabited

def findRow (ops : List OpRow) (m : String) : Option OpRow := ops.find? (·.method == m)

/-- The operator whose method Python tries on the right operand of a comparison. -/
def mirror : String → Option String
  | "lt" => some "gt" | "gt" => some "lt" | "le" => some "ge" | "ge" => some "le"
  | "eq" => some "eq" | "ne" => some "ne" | _ => none

/-- `operator.and_` ↔ `__and__` … (the trailing underscore only avoids Python keywords) -/
def dunderName : String → String
  | "and_" => "and" | "or_" => "or" | "not_" => "not" | s => s

/-- `a <op> b` in Python (`op` = `add`, `sub`, `lt`, …): `a.__op__(b)` when `a` has the method,
    else `b.__rop__(a)`, else — comparisons — the mirrored method of `b`; else `TypeError`. -/
def pyBinary (ops : List OpRow) (op0 : String) (a b : Obj) : Obj :=
  let op := dunderName op0
  match a.hook? with
  | some _ =>
    match findRow ops s!"__{op}__" with
    | some r => composeBin (applyBin r.sel fuel) fuel r.sel true a b
    | none => .err "TypeError"
  | none =>
    match b.hook? with
    | none => numeric op0 [a, b]
    | some _ =>
      match findRow ops s!"__r{op}__" with
      | some r => composeBin (applyBin r.sel fuel) fuel r.sel false b a
      | none =>
        match mirror op with
        | some m =>
          match findRow ops s!"__{m}__" with
          | some r => composeBin (applyBin r.sel fuel) fuel r.sel true b a
          | none => .err "TypeError"
        | none => .err "TypeError"

/-- `a.method(args…)` for a hooked object `a`: binds defaults, forwards what the method forwards. -/
def pyMethod (ops : List OpRow) (m : String) (a : Obj) (args : List Obj) : Obj :=
  match findRow ops m with
  | none => .err "AttributeError"
  | some r =>
    if a.hook?.isNone then .err "AttributeError"
    else if args.length > r.params.length then .err "TypeError"
    else
      let nreq := r.params.length - r.defaults.length
      if args.length < nreq then .err "TypeError"
      else
        let given := args ++ ((r.defaults.drop (args.length - nreq)).map fun d => Obj.sc (.atom d))
        let env := r.params.zip given
        let passed := r.passes.map fun p =>
          match env.find? (·.1 == p) with
          | some (_, v) => v
          | none => Obj.sc (.atom p)                -- a literal in the source, already on the wire format
        match r.hook with
        | "_compose_unop" => applyUn r.sel fuel a
        | "_compose_binop" =>
          (match passed with
           | [b] => composeBin (applyBin r.sel fuel) fuel r.sel true a b
           | _ => .err "TypeError")
        | "_rcompose_binop" =>
          (match passed with
           | [b] => composeBin (applyBin r.sel fuel) fuel r.sel false a b
           | _ => .err "TypeError")
        | "_compose_narop" => applyNar r.sel fuel a passed
        | _ => .err "AttributeError"

/-- `bi.name(args…)`: the `@scbuiltin.unop/binop/narop` wrapper. -/
def pyBuiltin (kind : String) (name : String) (args : List Obj) : Obj :=
  match kind, args with
  | "unop", [a] => applyUn name fuel a
  | "binop", [a, b] => applyBin name fuel a b
  | "narop", a :: rest => applyNar name fuel a rest
  | _, _ => .err "TypeError"

end Sc3Verif.C15.Lift
