namespace Sc3Verif.C15
namespace Lift
def run (s : String) : String := "todo:" ++ s
end Lift
end Sc3Verif.C15
