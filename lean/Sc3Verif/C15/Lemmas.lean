/-
C15 — helper lemmas about the executable Int/Rat variants generated from sc3/base/builtins.py
(GenKernels.lean): what each kernel computes, per argument type pattern.
-/
import Sc3Verif.C15.GenKernels
import Mathlib.Data.Rat.Floor
import Mathlib.Algebra.Order.Floor.Ring
import Mathlib.Tactic.Linarith
import Mathlib.Tactic.Ring
import Mathlib.Tactic.FieldSimp
import Mathlib.Tactic.Positivity
import Mathlib.Tactic.NormNum
import Mathlib.Tactic.Push
namespace Sc3Verif.C15
open Sc3Verif.C15.Gen

theorem floorQ_eq (q : ℚ) : Py.floorQ q = ⌊q⌋ := rfl
theorem floor_F_eq (q : ℚ) : floor_F q = ⌊q⌋ := rfl
theorem ceilQ_eq (q : ℚ) : Py.ceilQ q = ⌈q⌉ := by
  unfold Py.ceilQ
  rw [Rat.ceil_eq_neg_floor_neg]
  show -⌊-q⌋ = ⌈q⌉
  rw [Int.floor_neg]; simp
theorem ceil_F_eq (q : ℚ) : ceil_F q = ⌈q⌉ := ceilQ_eq q

theorem truncQ_nonneg {q : ℚ} (h : 0 ≤ q) : Py.truncQ q = ⌊q⌋ := by
  unfold Py.truncQ; simp [h]; rfl
theorem truncQ_neg {q : ℚ} (h : q < 0) : Py.truncQ q = ⌈q⌉ := by
  unfold Py.truncQ; simp [not_le.mpr h]; exact ceilQ_eq q
theorem truncQ_intCast (n : ℤ) : Py.truncQ (n : ℚ) = n := by
  rcases le_or_gt 0 (n : ℚ) with h | h
  · rw [truncQ_nonneg h]; exact Int.floor_intCast n
  · rw [truncQ_neg h]; exact Int.ceil_intCast n

theorem emod_unique {a b r : ℤ} (k : ℤ) (h0 : 0 ≤ r) (h1 : r < b) (h : a = r + k * b) : a % b = r := by
  subst h
  rw [Int.add_mul_emod_self_right]
  exact Int.emod_eq_of_lt h0 h1

/-- `abs(a) % abs(b)`, negated for a negative dividend, then lifted by `b` when negative:
    the non-negative remainder (exact integer arithmetic, any size). -/
theorem absmod_fix {a b : ℤ} (hb : 0 < b) :
    (if a < 0 then
        (if -(Int.fmod (Py.absI a) (Py.absI b)) < 0 then -(Int.fmod (Py.absI a) (Py.absI b)) + b
         else -(Int.fmod (Py.absI a) (Py.absI b)))
      else
        (if Int.fmod (Py.absI a) (Py.absI b) < 0 then Int.fmod (Py.absI a) (Py.absI b) + b
         else Int.fmod (Py.absI a) (Py.absI b))) = a % b := by
  have hab : Py.absI b = b := by unfold Py.absI; rw [if_neg (by omega)]
  rw [hab]
  simp only [Int.fmod_eq_emod_of_nonneg _ hb.le]
  by_cases ha : a < 0
  · have haa : Py.absI a = -a := by unfold Py.absI; rw [if_pos ha]
    rw [if_pos ha, haa]
    have h0 := Int.emod_nonneg (-a) hb.ne'
    have h1 := Int.emod_lt_of_pos (-a) hb
    have h2 := Int.emod_add_mul_ediv (-a) b
    split_ifs with hc
    · symm; apply emod_unique (-((-a) / b) - 1) (by omega) (by omega)
      have : (-(-a / b) - 1) * b = -(b * (-a / b)) - b := by ring
      rw [this]; omega
    · have hz : (-a) % b = 0 := by omega
      symm; apply emod_unique (-((-a) / b)) (by omega) (by omega)
      have : -(-a / b) * b = -(b * (-a / b)) := by ring
      rw [this]; omega
  · have haa : Py.absI a = a := by unfold Py.absI; rw [if_neg ha]
    rw [if_neg ha, haa]
    have h0 := Int.emod_nonneg a hb.ne'
    rw [if_neg (by omega)]

theorem mod_II_eq_emod (a b : ℤ) (hb : 0 < b) : mod_II a b = a % b := by
  unfold mod_II
  have hbne : b ≠ 0 := hb.ne'
  have e1 := absmod_fix (a := a - b) hb
  have e2 := absmod_fix (a := a + b) hb
  have s1 : (a - b) % b = a % b := Int.sub_emod_right a b
  have s2 : (a + b) % b = a % b := Int.add_emod_right a b
  simp only []
  by_cases h1 : a ≥ b
  · rw [if_pos h1]
    by_cases h2 : a - b < b
    · rw [if_pos h2]; symm; apply emod_unique 1 <;> omega
    · rw [if_neg h2, if_neg hbne, e1, s1]
  · rw [if_neg h1]
    by_cases h3 : a < 0
    · rw [if_pos h3]
      by_cases h4 : a + b ≥ 0
      · rw [if_pos h4]; symm; apply emod_unique (-1) <;> omega
      · rw [if_neg h4, if_neg hbne, e2, s2]
    · rw [if_neg h3]; symm; apply emod_unique 0 <;> omega

theorem mod_II_zero (a : ℤ) : mod_II a 0 = 0 := by
  unfold mod_II
  simp only []
  split_ifs <;> omega

theorem intCast_div_floor (a b : ℤ) (hb : 0 < b) : ⌊(a : ℚ) / (b : ℚ)⌋ = a / b := by
  rw [Int.floor_eq_iff]
  have hbq : (0 : ℚ) < b := by exact_mod_cast hb
  have h1 : a / b * b ≤ a := Int.ediv_mul_le a hb.ne'
  have h2 : a < (a / b + 1) * b := Int.lt_ediv_add_one_mul_self a hb
  constructor
  · rw [le_div_iff₀ hbq]; exact_mod_cast h1
  · rw [div_lt_iff₀ hbq]; exact_mod_cast h2

theorem div_II_eq_ediv (a b : ℤ) (hb : 0 < b) : div_II a b = a / b := by
  unfold div_II
  have hbq : (0 : ℚ) < b := by exact_mod_cast hb
  have h1 : a / b * b ≤ a := Int.ediv_mul_le a hb.ne'
  have h2 : a < (a / b + 1) * b := Int.lt_ediv_add_one_mul_self a hb
  simp only [hb.ne', ne_eq, not_false_eq_true, if_true]
  split_ifs with ha
  · have hc : (((a + 1 : ℤ) : ℚ) / (b : ℚ)) - ((1 : ℤ) : ℚ) < 0 := by
      have : ((a + 1 : ℤ) : ℚ) / (b : ℚ) ≤ 0 := by
        apply div_nonpos_of_nonpos_of_nonneg _ hbq.le
        exact_mod_cast (by omega : a + 1 ≤ 0)
      push_cast at this ⊢; linarith
    show Py.truncQ _ = _
    rw [truncQ_neg hc, Int.ceil_eq_iff]
    push_cast
    constructor
    · rw [lt_sub_iff_add_lt, lt_div_iff₀ hbq]
      have : ((a / b : ℤ) : ℚ) * b < (a : ℚ) + 1 := by exact_mod_cast (by omega : a / b * b < a + 1)
      linarith
    · rw [sub_le_iff_le_add, div_le_iff₀ hbq]
      have : (a : ℚ) + 1 ≤ ((a / b : ℤ) + 1 : ℚ) * b := by exact_mod_cast (by omega : a + 1 ≤ (a / b + 1) * b)
      linarith
  · have hc : (0 : ℚ) ≤ (a : ℚ) / (b : ℚ) := by
      apply div_nonneg _ hbq.le
      exact_mod_cast (by omega : 0 ≤ a)
    show Py.truncQ _ = _
    rw [truncQ_nonneg hc]
    exact intCast_div_floor a b hb

/-! ### Integer variants -/

theorem wrap_III_spec (x lo hi : ℤ) (h : lo ≤ hi) :
    lo ≤ wrap_III x lo hi ∧ wrap_III x lo hi ≤ hi ∧ (hi - lo + 1) ∣ (x - wrap_III x lo hi) := by
  unfold wrap_III
  have hb : 0 < hi - lo + 1 := by omega
  rw [mod_II_eq_emod _ _ hb]
  have h0 := Int.emod_nonneg (x - lo) hb.ne'
  have h1 := Int.emod_lt_of_pos (x - lo) hb
  refine ⟨by omega, by omega, ?_⟩
  have : x - ((x - lo) % (hi - lo + 1) + lo) = (x - lo) - (x - lo) % (hi - lo + 1) := by ring
  rw [this]
  exact Int.dvd_self_sub_emod

theorem fold_III_bounds (x lo hi : ℤ) (h : lo ≤ hi) :
    lo ≤ fold_III x lo hi ∧ fold_III x lo hi ≤ hi := by
  unfold fold_III
  rcases eq_or_lt_of_le h with rfl | hlt
  · simp [mod_II_zero]
  · have hb : 0 < (hi - lo) + (hi - lo) := by omega
    simp only []
    rw [mod_II_eq_emod _ _ hb]
    have h0 := Int.emod_nonneg (x - lo) hb.ne'
    have h1 := Int.emod_lt_of_pos (x - lo) hb
    split_ifs with hc <;> constructor <;> omega

theorem fold_III_reflect (x lo hi : ℤ) (h : lo < hi) :
    ((2 * (hi - lo)) ∣ ((x - lo) - (fold_III x lo hi - lo)) ∨
     (2 * (hi - lo)) ∣ ((x - lo) + (fold_III x lo hi - lo))) := by
  unfold fold_III
  have hb : 0 < (hi - lo) + (hi - lo) := by omega
  simp only []
  rw [mod_II_eq_emod _ _ hb]
  have hd : ((hi - lo) + (hi - lo)) ∣ ((x - lo) - (x - lo) % ((hi - lo) + (hi - lo))) :=
    Int.dvd_self_sub_emod
  have e2 : 2 * (hi - lo) = (hi - lo) + (hi - lo) := by ring
  rw [e2]
  split_ifs with hc
  · right
    have : (x - lo) + ((hi - lo + (hi - lo) - (x - lo) % (hi - lo + (hi - lo))) + lo - lo)
        = ((x - lo) - (x - lo) % (hi - lo + (hi - lo))) + (hi - lo + (hi - lo)) := by ring
    rw [this]
    exact Int.dvd_add hd (Int.dvd_refl _)
  · left
    have : (x - lo) - ((x - lo) % (hi - lo + (hi - lo)) + lo - lo)
        = (x - lo) - (x - lo) % (hi - lo + (hi - lo)) := by ring
    rw [this]; exact hd

theorem trunc_II_spec (x q : ℤ) (hq : 0 < q) :
    ∃ k : ℤ, trunc_II x q = ((k * q : ℤ) : ℚ) ∧ k * q ≤ x ∧ x < k * q + q := by
  unfold trunc_II
  rw [if_neg hq.ne', div_II_eq_ediv _ _ hq]
  refine ⟨x / q, rfl, Int.ediv_mul_le x hq.ne', ?_⟩
  have := Int.lt_ediv_add_one_mul_self x hq
  linarith

theorem roundup_II_spec (x q : ℤ) (hq : 0 < q) :
    ∃ k : ℤ, roundup_II x q = ((k * q : ℤ) : ℚ) ∧ x ≤ k * q ∧ k * q < x + q := by
  unfold roundup_II
  rw [if_neg hq.ne', div_II_eq_ediv _ _ hq]
  refine ⟨(x + q - 1) / q, rfl, ?_, ?_⟩
  · have := Int.lt_ediv_add_one_mul_self (x + q - 1) hq
    linarith
  · have := Int.ediv_mul_le (x + q - 1) hq.ne'
    linarith

theorem round_II_spec (x q : ℤ) (hq : 0 < q) :
    ∃ k : ℤ, round_II x q = ((k * q : ℤ) : ℚ) ∧ 2 * (k * q - x) ≤ q ∧ 2 * (x - k * q) ≤ q := by
  unfold round_II
  rw [if_neg hq.ne', div_II_eq_ediv _ _ hq]
  have hf : Int.fdiv q 2 = q / 2 := Int.fdiv_eq_ediv_of_nonneg _ (by norm_num)
  rw [hf]
  refine ⟨(x + q / 2) / q, rfl, ?_, ?_⟩
  · have := Int.ediv_mul_le (x + q / 2) hq.ne'
    omega
  · have := Int.lt_ediv_add_one_mul_self (x + q / 2) hq
    have e : ((x + q / 2) / q + 1) * q = (x + q / 2) / q * q + q := by ring
    omega

/-! ### Float (rational) variants -/

/-- The remainder of `y` after taking out `⌊y / R⌋` copies of `R > 0` lies in `[0, R)`. -/
theorem floor_rem {y R : ℚ} (hR : 0 < R) : 0 ≤ y - R * (⌊y / R⌋ : ℚ) ∧ y - R * (⌊y / R⌋ : ℚ) < R := by
  have h1 : (⌊y / R⌋ : ℚ) ≤ y / R := Int.floor_le _
  have h2 : y / R < (⌊y / R⌋ : ℚ) + 1 := Int.lt_floor_add_one _
  rw [le_div_iff₀ hR] at h1
  rw [div_lt_iff₀ hR] at h2
  constructor <;> nlinarith

theorem trunc_FF_spec (x q : ℚ) (hq : 0 < q) :
    ∃ k : ℤ, trunc_FF x q = k * q ∧ (k : ℚ) * q ≤ x ∧ x < k * q + q := by
  unfold trunc_FF
  rw [if_neg hq.ne', floor_F_eq]
  obtain ⟨h1, h2⟩ := floor_rem (y := x) hq
  exact ⟨⌊x / q⌋, rfl, by linarith, by linarith⟩

theorem roundup_FF_spec (x q : ℚ) (hq : 0 < q) :
    ∃ k : ℤ, roundup_FF x q = k * q ∧ x ≤ (k : ℚ) * q ∧ (k : ℚ) * q < x + q := by
  unfold roundup_FF
  rw [if_neg hq.ne', ceil_F_eq]
  have h1 : x / q ≤ (⌈x / q⌉ : ℚ) := Int.le_ceil _
  have h2 : (⌈x / q⌉ : ℚ) < x / q + 1 := Int.ceil_lt_add_one _
  rw [div_le_iff₀ hq] at h1
  have h3 : (⌈x / q⌉ : ℚ) * q < (x / q + 1) * q := by nlinarith
  have h4 : (x / q + 1) * q = x + q := by field_simp
  exact ⟨⌈x / q⌉, rfl, h1, by linarith⟩

theorem round_FF_spec (x q : ℚ) (hq : 0 < q) :
    ∃ k : ℤ, round_FF x q = k * q ∧ 2 * ((k : ℚ) * q - x) ≤ q ∧ 2 * (x - (k : ℚ) * q) < q := by
  unfold round_FF
  rw [if_neg hq.ne', floor_F_eq]
  have h1 : (⌊x / q + 1 / 2⌋ : ℚ) ≤ x / q + 1 / 2 := Int.floor_le _
  have h2 : x / q + 1 / 2 < (⌊x / q + 1 / 2⌋ : ℚ) + 1 := Int.lt_floor_add_one _
  have e : x / q * q = x := by field_simp
  refine ⟨⌊x / q + 1 / 2⌋, rfl, ?_, ?_⟩
  · have := mul_le_mul_of_nonneg_right h1 hq.le
    nlinarith
  · have := mul_lt_mul_of_pos_right h2 hq
    nlinarith

theorem mod_FF_spec (a b : ℚ) (hb : 0 < b) :
    0 ≤ mod_FF a b ∧ mod_FF a b < b ∧ ∃ k : ℤ, a = mod_FF a b + k * b := by
  unfold mod_FF
  simp only [floor_F_eq, Int.cast_zero]
  split_ifs with h1 h2 h3 h4 h5 h6
  · exact ⟨by linarith, h2, 1, by push_cast; ring⟩
  · exact absurd h3 hb.ne'
  · obtain ⟨r1, r2⟩ := floor_rem (y := a - b) hb
    exact ⟨r1, r2, ⌊(a - b) / b⌋ + 1, by push_cast; ring⟩
  · exact ⟨h5, by linarith, -1, by push_cast; ring⟩
  · exact absurd h6 hb.ne'
  · obtain ⟨r1, r2⟩ := floor_rem (y := a + b) hb
    exact ⟨r1, r2, ⌊(a + b) / b⌋ - 1, by push_cast; ring⟩
  · exact ⟨by linarith, by linarith, 0, by simp⟩

theorem wrap_FFF_spec (x lo hi : ℚ) (h : lo < hi) :
    lo ≤ wrap_FFF x lo hi ∧ wrap_FFF x lo hi < hi ∧ ∃ k : ℤ, x = wrap_FFF x lo hi + k * (hi - lo) := by
  unfold wrap_FFF
  have hR : 0 < hi - lo := by linarith
  simp only [floor_F_eq]
  split_ifs with h1 h2 h3 h4 h5 h6
  · exact ⟨by linarith, h2, 1, by push_cast; ring⟩
  · exact absurd h3 h.ne'
  · obtain ⟨r1, r2⟩ := floor_rem (y := x - (hi - lo) - lo) hR
    exact ⟨by linarith, by linarith, ⌊(x - (hi - lo) - lo) / (hi - lo)⌋ + 1, by push_cast; ring⟩
  · exact ⟨h5, by linarith, -1, by push_cast; ring⟩
  · exact absurd h6 h.ne'
  · obtain ⟨r1, r2⟩ := floor_rem (y := x + (hi - lo) - lo) hR
    exact ⟨by linarith, by linarith, ⌊(x + (hi - lo) - lo) / (hi - lo)⌋ - 1, by push_cast; ring⟩
  · exact ⟨by linarith, by linarith, 0, by simp⟩

theorem fold_tail {x2 R lo : ℚ} (hR : 0 < R) :
    let c := x2 - (R + R) * (⌊x2 / (R + R)⌋ : ℚ)
    let r := if c ≥ R then (R + R) - c + lo else c + lo
    lo ≤ r ∧ r ≤ R + lo ∧ ∃ k : ℤ, (x2 - (r - lo) = k * (2 * R) ∨ x2 + (r - lo) = k * (2 * R)) := by
  intro c r
  obtain ⟨r1, r2⟩ := floor_rem (y := x2) (R := R + R) (by linarith)
  simp only [r, c]
  split_ifs with hc
  · refine ⟨by linarith, by linarith, ⌊x2 / (R + R)⌋ + 1, Or.inr ?_⟩
    push_cast; ring
  · refine ⟨by linarith, by linarith, ⌊x2 / (R + R)⌋, Or.inl ?_⟩
    ring

theorem fold_FFF_spec (x lo hi : ℚ) (h : lo < hi) :
    lo ≤ fold_FFF x lo hi ∧ fold_FFF x lo hi ≤ hi ∧
      ∃ k : ℤ, ((x - lo) - (fold_FFF x lo hi - lo) = k * (2 * (hi - lo)) ∨
                (x - lo) + (fold_FFF x lo hi - lo) = k * (2 * (hi - lo))) := by
  unfold fold_FFF
  have hR : 0 < hi - lo := by linarith
  have ht := fold_tail (x2 := x - lo) (lo := lo) hR
  have hhi : hi - lo + lo = hi := by ring
  simp only [floor_F_eq, hhi] at ht ⊢
  by_cases h1 : x ≥ hi
  · rw [if_pos h1]
    by_cases h2 : hi + hi - x ≥ lo
    · rw [if_pos h2]
      exact ⟨h2, by linarith, 1, Or.inr (by push_cast; ring)⟩
    · rw [if_neg h2, if_neg h.ne']
      exact ht
  · rw [if_neg h1]
    by_cases h3 : x < lo
    · rw [if_pos h3]
      by_cases h4 : lo + lo - x < hi
      · rw [if_pos h4]
        exact ⟨by linarith, by linarith, 0, Or.inr (by push_cast; ring)⟩
      · rw [if_neg h4, if_neg h.ne']
        exact ht
    · rw [if_neg h3]
      exact ⟨by linarith, by linarith, 0, Or.inl (by push_cast; ring)⟩

/-! ### Mixed int/float argument patterns run the float code on the converted values -/

set_option linter.unusedSimpArgs false

/-- normalise casts on both sides of `mixed variant = float variant on casts` -/
macro "py_cast" : tactic =>
  `(tactic| (push_cast; simp only [Int.cast_lt, Int.cast_le, Int.cast_inj, ge_iff_le, gt_iff_lt, Int.cast_eq_zero,
      Int.cast_lt_zero, Int.cast_pos, Int.cast_nonneg, Int.cast_nonpos]))

theorem wrap_IIF_eq (x lo : ℤ) (hi : ℚ) : wrap_IIF x lo hi = wrap_FFF x lo hi := by
  unfold wrap_IIF wrap_FFF; py_cast
theorem wrap_IFI_eq (x : ℤ) (lo : ℚ) (hi : ℤ) : wrap_IFI x lo hi = wrap_FFF x lo hi := by
  unfold wrap_IFI wrap_FFF; py_cast
theorem wrap_IFF_eq (x : ℤ) (lo hi : ℚ) : wrap_IFF x lo hi = wrap_FFF x lo hi := by
  unfold wrap_IFF wrap_FFF; py_cast
theorem wrap_FII_eq (x : ℚ) (lo hi : ℤ) : wrap_FII x lo hi = wrap_FFF x lo hi := by
  unfold wrap_FII wrap_FFF; py_cast
theorem wrap_FIF_eq (x : ℚ) (lo : ℤ) (hi : ℚ) : wrap_FIF x lo hi = wrap_FFF x lo hi := by
  unfold wrap_FIF wrap_FFF; py_cast
theorem wrap_FFI_eq (x lo : ℚ) (hi : ℤ) : wrap_FFI x lo hi = wrap_FFF x lo hi := by
  unfold wrap_FFI wrap_FFF; py_cast

theorem fold_IIF_eq (x lo : ℤ) (hi : ℚ) : fold_IIF x lo hi = fold_FFF x lo hi := by
  unfold fold_IIF fold_FFF; py_cast
theorem fold_IFI_eq (x : ℤ) (lo : ℚ) (hi : ℤ) : fold_IFI x lo hi = fold_FFF x lo hi := by
  unfold fold_IFI fold_FFF; py_cast
theorem fold_IFF_eq (x : ℤ) (lo hi : ℚ) : fold_IFF x lo hi = fold_FFF x lo hi := by
  unfold fold_IFF fold_FFF; py_cast
theorem fold_FII_eq (x : ℚ) (lo hi : ℤ) : fold_FII x lo hi = fold_FFF x lo hi := by
  unfold fold_FII fold_FFF; py_cast
theorem fold_FIF_eq (x : ℚ) (lo : ℤ) (hi : ℚ) : fold_FIF x lo hi = fold_FFF x lo hi := by
  unfold fold_FIF fold_FFF; py_cast
theorem fold_FFI_eq (x lo : ℚ) (hi : ℤ) : fold_FFI x lo hi = fold_FFF x lo hi := by
  unfold fold_FFI fold_FFF; py_cast

theorem round_IF_eq (x : ℤ) (q : ℚ) : round_IF x q = round_FF x q := by
  unfold round_IF round_FF; py_cast
theorem round_FI_eq (x : ℚ) (q : ℤ) : round_FI x q = round_FF x q := by
  unfold round_FI round_FF; py_cast
theorem roundup_IF_eq (x : ℤ) (q : ℚ) : roundup_IF x q = roundup_FF x q := by
  unfold roundup_IF roundup_FF; py_cast
theorem roundup_FI_eq (x : ℚ) (q : ℤ) : roundup_FI x q = roundup_FF x q := by
  unfold roundup_FI roundup_FF; py_cast
theorem trunc_IF_eq (x : ℤ) (q : ℚ) : trunc_IF x q = trunc_FF x q := by
  unfold trunc_IF trunc_FF; py_cast
theorem trunc_FI_eq (x : ℚ) (q : ℤ) : trunc_FI x q = trunc_FF x q := by
  unfold trunc_FI trunc_FF; py_cast
theorem mod_IF_eq (a : ℤ) (b : ℚ) : mod_IF a b = mod_FF a b := by
  unfold mod_IF mod_FF; py_cast
theorem mod_FI_eq (a : ℚ) (b : ℤ) : mod_FI a b = mod_FF a b := by
  unfold mod_FI mod_FF; py_cast

/-! ### clip -/

theorem min_II_eq (a b : ℤ) : min_II a b = min a b := by
  unfold min_II; split_ifs with h <;> omega
theorem max_II_eq (a b : ℤ) : max_II a b = max a b := by
  unfold max_II; split_ifs with h <;> omega
theorem min_FF_eq (a b : ℚ) : min_FF a b = min a b := by
  unfold min_FF; split_ifs with h
  · exact (min_eq_right h.le).symm
  · exact (min_eq_left (not_lt.mp h)).symm
theorem max_FF_eq (a b : ℚ) : max_FF a b = max a b := by
  unfold max_FF; split_ifs with h
  · exact (max_eq_right (le_of_lt h)).symm
  · exact (max_eq_left (not_lt.mp h)).symm

/-- clipping twice with the same bounds is clipping once (any bounds, even `lo > hi`). -/
theorem clip_idem_lin {α : Type} [LinearOrder α] (x a b : α) :
    max (min (max (min x b) a) b) a = max (min x b) a := by
  rcases le_total a b with h | h
  · have h1 : a ≤ max (min x b) a := le_max_right _ _
    have h2 : max (min x b) a ≤ b := max_le (min_le_right _ _) h
    rw [min_eq_left h2, max_eq_left h1]
  · have : min x b ≤ a := le_trans (min_le_right _ _) h
    rw [max_eq_right this, min_eq_right h, max_eq_right h]

theorem clip_lin_bounds {α : Type} [LinearOrder α] (x a b : α) (h : a ≤ b) :
    a ≤ max (min x b) a ∧ max (min x b) a ≤ b ∧ (a ≤ x → x ≤ b → max (min x b) a = x) :=
  ⟨le_max_right _ _, max_le (min_le_right _ _) h,
   fun h1 h2 => by rw [min_eq_left h2, max_eq_left h1]⟩


/-! ### The dispatchers over dynamically typed numbers -/

@[simp] theorem val_f (q : ℚ) : (Num.f q).val = q := rfl
@[simp] theorem val_i (n : ℤ) : (Num.i n).val = (n : ℚ) := rfl

/-- all arguments are Python ints -/
def allInt (l : List Num) : Bool := l.all Num.isInt

theorem wrap_D_int (x lo hi : ℤ) : wrap_D (.i x) (.i lo) (.i hi) = .ok (.i (wrap_III x lo hi)) := rfl

theorem wrap_D_float (x lo hi : Num) (h : allInt [x, lo, hi] = false) :
    wrap_D x lo hi = .ok (.f (wrap_FFF x.val lo.val hi.val)) := by
  cases x <;> cases lo <;> cases hi <;>
    simp [allInt, Num.isInt] at h <;>
    simp [wrap_D, Num.val, wrap_IIF_eq, wrap_IFI_eq, wrap_IFF_eq, wrap_FII_eq, wrap_FIF_eq, wrap_FFI_eq]

theorem fold_D_int (x lo hi : ℤ) : fold_D (.i x) (.i lo) (.i hi) = .ok (.i (fold_III x lo hi)) := rfl

theorem fold_D_float (x lo hi : Num) (h : allInt [x, lo, hi] = false) :
    fold_D x lo hi = .ok (.f (fold_FFF x.val lo.val hi.val)) := by
  cases x <;> cases lo <;> cases hi <;>
    simp [allInt, Num.isInt] at h <;>
    simp [fold_D, Num.val, fold_IIF_eq, fold_IFI_eq, fold_IFF_eq, fold_FII_eq, fold_FIF_eq, fold_FFI_eq]

theorem round_D_int (x q : ℤ) : round_D (.i x) (.i q) = .ok (.f (round_II x q)) := rfl
theorem round_D_float (x q : Num) (h : allInt [x, q] = false) :
    round_D x q = .ok (.f (round_FF x.val q.val)) := by
  cases x <;> cases q <;> simp [allInt, Num.isInt] at h <;>
    simp [round_D, Num.val, round_IF_eq, round_FI_eq]

theorem roundup_D_int (x q : ℤ) : roundup_D (.i x) (.i q) = .ok (.f (roundup_II x q)) := rfl
theorem roundup_D_float (x q : Num) (h : allInt [x, q] = false) :
    roundup_D x q = .ok (.f (roundup_FF x.val q.val)) := by
  cases x <;> cases q <;> simp [allInt, Num.isInt] at h <;>
    simp [roundup_D, Num.val, roundup_IF_eq, roundup_FI_eq]

theorem trunc_D_int (x q : ℤ) : trunc_D (.i x) (.i q) = .ok (.f (trunc_II x q)) := rfl
theorem trunc_D_float (x q : Num) (h : allInt [x, q] = false) :
    trunc_D x q = .ok (.f (trunc_FF x.val q.val)) := by
  cases x <;> cases q <;> simp [allInt, Num.isInt] at h <;>
    simp [trunc_D, Num.val, trunc_IF_eq, trunc_FI_eq]

theorem mod_D_int (a b : ℤ) : mod_D (.i a) (.i b) = .ok (.i (mod_II a b)) := rfl
theorem mod_D_float (a b : Num) (h : allInt [a, b] = false) :
    mod_D a b = .ok (.f (mod_FF a.val b.val)) := by
  cases a <;> cases b <;> simp [allInt, Num.isInt] at h <;>
    simp [mod_D, Num.val, mod_IF_eq, mod_FI_eq]

theorem wrap2_D_eq (x b : Num) : wrap2_D x b = wrap_D x (match b with | .i n => .i (-n) | .f q => .f (-q)) b := by
  cases x <;> cases b <;> rfl
theorem fold2_D_eq (x b : Num) : fold2_D x b = fold_D x (match b with | .i n => .i (-n) | .f q => .f (-q)) b := by
  cases x <;> cases b <;> rfl
theorem clip2_D_eq (x b : Num) : clip2_D x b = clip_D x (match b with | .i n => .i (-n) | .f q => .f (-q)) b := by
  cases x <;> cases b <;> rfl

end Sc3Verif.C15
