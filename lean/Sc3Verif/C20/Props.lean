/-
C20 — Definition builds are deterministic, isolated and leave no residue: property theorems.
-/
import Sc3Verif.C20.Model
import Sc3Verif.C20.Lemmas
namespace Sc3Verif.C20
open Sc3Verif.C01

/-! ### no residue, mutual exclusion (for every interleaving of every number of threads) -/

structure Inv (c : Ctx) : Prop where
  /-- lock free ⇒ no current definition and nobody is building -/
  free : c.lock = none → c.current = none ∧ ∀ t, c.pc t = .idle
  /-- lock held by `t` ⇒ `t` is the one and only builder and the global names its definition -/
  held : ∀ t, c.lock = some t → ∃ d, c.pc t = .building d ∧ c.current = some d ∧
            ∀ t', t' ≠ t → c.pc t' = .idle

theorem inv_init : Inv Ctx.init := ⟨fun _ => ⟨rfl, fun _ => rfl⟩, fun t h => by simp [Ctx.init] at h⟩

/-- releasing (normal exit or exception) by a building thread re-establishes the free state -/
theorem inv_release {c : Ctx} (h : Inv c) (t d : Nat) (hpc : c.pc t = .building d) :
    Inv { c with lock := none, current := none, pc := fun x => if x = t then .idle else c.pc x } := by
  refine ⟨fun _ => ⟨rfl, fun t' => ?_⟩, fun t' ht' => by simp at ht'⟩
  by_cases ht : t' = t
  · simp [ht]
  · simp only [if_neg ht]
    cases hl : c.lock with
    | none => exact (h.free hl).2 t'
    | some o =>
      obtain ⟨d', hb, _, hoth⟩ := h.held o hl
      by_cases hto : t' = o
      · subst hto
        by_cases hto2 : t = t'
        · exact absurd hto2.symm ht
        · have := hoth t hto2; rw [hpc] at this; exact absurd this (by simp)
      · exact hoth t' hto

theorem inv_step {c : Ctx} (h : Inv c) (m : Move) : Inv (step c m) := by
  cases m with
  | enter t d =>
    simp only [step]
    split
    · rename_i hc
      refine ⟨fun hl => by simp at hl, fun t' ht' => ?_⟩
      simp only [Option.some.injEq] at ht'
      subst ht'
      refine ⟨d, by simp, rfl, fun t'' hne => ?_⟩
      simp only [if_neg hne]
      exact (h.free hc.1).2 t''
    · exact h
  | create t u => simp only [step]; exact ⟨h.free, h.held⟩
  | finish t =>
    simp only [step]
    split
    · rename_i d hpc; exact inv_release h t d hpc
    · exact h
  | fail t =>
    simp only [step]
    split
    · rename_i d hpc; exact inv_release h t d hpc
    · exact h

theorem inv_run (ms : List Move) : Inv (run Ctx.init ms) := by
  suffices ∀ c, Inv c → Inv (run c ms) from this _ inv_init
  induction ms with
  | nil => intro c h; exact h
  | cons m ms ih => intro c h; exact ih _ (inv_step h m)

/-- After ANY history of successful and failing builds issued from any number of threads in
    any interleaving: whenever no build is in progress, the global current definition is
    cleared and the build lock is free — a failed build leaves no trace. -/
theorem ctx_clear_after_any_history (ms : List Move)
    (hidle : ∀ t, (run Ctx.init ms).pc t = .idle) :
    (run Ctx.init ms).current = none ∧ (run Ctx.init ms).lock = none := by
  have h := inv_run ms
  cases hl : (run Ctx.init ms).lock with
  | none => exact ⟨(h.free hl).1, rfl⟩
  | some t =>
    obtain ⟨d, hb, _, _⟩ := h.held t hl
    rw [hidle t] at hb; exact absurd hb (by simp)

/-- At most one thread is ever inside a build. -/
theorem mutual_exclusion (ms : List Move) (t₁ t₂ d₁ d₂ : Nat)
    (h₁ : (run Ctx.init ms).pc t₁ = .building d₁) (h₂ : (run Ctx.init ms).pc t₂ = .building d₂) :
    t₁ = t₂ := by
  have h := inv_run ms
  cases hl : (run Ctx.init ms).lock with
  | none => have := (h.free hl).2 t₁; rw [h₁] at this; exact absurd this (by simp)
  | some o =>
    obtain ⟨d, _, _, hoth⟩ := h.held o hl
    by_cases e1 : t₁ = o
    · by_cases e2 : t₂ = o
      · rw [e1, e2]
      · have := hoth t₂ e2; rw [h₂] at this; exact absurd this (by simp)
    · have := hoth t₁ e1; rw [h₁] at this; exact absurd this (by simp)

/-- A UGen created while no build is in progress belongs to no definition. -/
theorem outside_ugen_unattached (ms : List Move) (t u : Nat)
    (hidle : ∀ t, (run Ctx.init ms).pc t = .idle) :
    (step (run Ctx.init ms) (.create t u)).attached.getLast? = some (t, none, u) := by
  have := (ctx_clear_after_any_history ms hidle).1
  simp [step, this]

/-- A UGen created by the building thread attaches to that thread's own definition. -/
theorem builder_ugen_attaches_to_own_def (ms : List Move) (t d u : Nat)
    (hb : (run Ctx.init ms).pc t = .building d) :
    (step (run Ctx.init ms) (.create t u)).attached.getLast? = some (t, some d, u) := by
  have h := inv_run ms
  cases hl : (run Ctx.init ms).lock with
  | none => have := (h.free hl).2 t; rw [hb] at this; exact absurd this (by simp)
  | some o =>
    obtain ⟨d', hb', hc, hoth⟩ := h.held o hl
    by_cases e : t = o
    · subst e
      rw [hb] at hb'
      have hd : d = d' := by injection hb'
      simp [step, hc, hd]
    · have := hoth t e; rw [hb] at this; exact absurd this (by simp)

/-! ### determinism: the one place a hash-seed dependence could enter -/

/-- `_arrange` iterates `list(self._descendants)` (a Python set, iteration order depends on
    object hashes) after sorting it by `_synth_index`.  Because the indices of the units of a
    definition are pairwise distinct, the sorted sequence is the same for EVERY iteration
    order of the set. -/
theorem order_oracle_irrelevant (objs : Array Obj) (l₁ l₂ : List Nat) (hp : l₁.Perm l₂)
    (hinj : ∀ x ∈ l₁, ∀ y ∈ l₁,
      (objs[x]?.map (·.synthIndex)).getD 0 = (objs[y]?.map (·.synthIndex)).getD 0 → x = y) :
    l₁.foldl (fun acc x => insertByIdx objs x acc) [] = l₂.foldl (fun acc x => insertByIdx objs x acc) [] :=
  sort_perm_invariant objs l₁ l₂ hp hinj

/-- The compiler model is a function of the program alone (no hidden state): stated for the
    record; together with the correspondence it says two builds of one program give the same
    bytes. -/
theorem compile_is_function (evs : List Ev) (d₁ d₂ : Def)
    (h₁ : compile evs = .ok d₁) (h₂ : compile evs = .ok d₂) : d₁ = d₂ := by
  rw [h₁] at h₂; injection h₂

/-! non-vacuity -/
example : (run Ctx.init [.enter 0 7, .create 0 1, .enter 1 8, .fail 0, .enter 1 8, .create 1 2, .finish 1,
    .create 2 3]).attached = [(0, some 7, 1), (1, some 8, 2), (2, none, 3)] := by decide

end Sc3Verif.C20
