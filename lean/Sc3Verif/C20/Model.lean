/-
C20 — the build context protocol of `SynthDef._build` / `SynthDesc._read_synthdef2`
(`sc3/synth/synthdef.py`, `synthdesc.py`, `sc3/base/main.py`):

    with main._def_build_lock:
        try:    main._current_synthdef = self; …build…; main._current_synthdef = None
        except: main._current_synthdef = None; raise

as a labelled transition system over any number of threads.  Threads interleave
arbitrarily; the lock is the only synchronisation (Python's `RLock` semantics assumed:
acquire blocks while another thread holds it, `with` releases on every exit).
Core Lean only.
-/
namespace Sc3Verif.C20

inductive Pc where
  | idle                     -- not building
  | building (d : Nat)       -- inside the critical section, building definition `d`
deriving DecidableEq, Repr

structure Ctx where
  lock : Option Nat                 -- owner thread of `_def_build_lock`
  current : Option Nat              -- `main._current_synthdef`
  pc : Nat → Pc                     -- per thread
  attached : List (Nat × Option Nat × Nat)   -- log of created UGens: (thread, the def it attached to, unit id)

def Ctx.init : Ctx := { lock := none, current := none, pc := fun _ => .idle, attached := [] }

inductive Move where
  | enter (t d : Nat)        -- `with lock:` acquired, `_current_synthdef = self`
  | create (t u : Nat)       -- a UGen constructor runs in thread `t`: `_add_to_synth` reads the global
  | finish (t : Nat)         -- build completed: `_current_synthdef = None`, lock released
  | fail (t : Nat)           -- exception anywhere in the build (graph function, input checks):
                             -- `except` clears the global, `with` releases the lock
deriving DecidableEq, Repr

/-- one step; a move that is not enabled (lock held by someone else, thread not building)
    leaves the state unchanged — such a thread simply blocks / the move cannot happen -/
def step (c : Ctx) : Move → Ctx
  | .enter t d =>
    if c.lock = none ∧ c.pc t = .idle then
      { c with lock := some t, current := some d, pc := fun x => if x = t then .building d else c.pc x }
    else c
  | .create t u => { c with attached := c.attached ++ [(t, c.current, u)] }
  | .finish t =>
    match c.pc t with
    | .building _ => { c with lock := none, current := none, pc := fun x => if x = t then .idle else c.pc x }
    | .idle => c
  | .fail t =>
    match c.pc t with
    | .building _ => { c with lock := none, current := none, pc := fun x => if x = t then .idle else c.pc x }
    | .idle => c

def run (c : Ctx) (ms : List Move) : Ctx := ms.foldl step c

end Sc3Verif.C20
