/-
C20 — sorting by `_synth_index` is independent of the iteration order of the set.
-/
import Sc3Verif.C01.Model
namespace Sc3Verif.C20
open Sc3Verif.C01

def keyOf (objs : Array Obj) (x : Nat) : Int := (objs[x]?.map (·.synthIndex)).getD 0

theorem insertByIdx_perm (objs : Array Obj) (x : Nat) (l : List Nat) :
    (insertByIdx objs x l).Perm (x :: l) := by
  induction l with
  | nil => simp [insertByIdx]
  | cons y ys ih =>
    unfold insertByIdx; split
    · exact List.Perm.refl _
    · exact (List.Perm.cons y ih).trans (List.Perm.swap _ _ _)

theorem insertByIdx_sorted (objs : Array Obj) (x : Nat) (l : List Nat)
    (h : l.Pairwise (fun a b => keyOf objs a ≤ keyOf objs b)) :
    (insertByIdx objs x l).Pairwise (fun a b => keyOf objs a ≤ keyOf objs b) := by
  induction l with
  | nil => simp [insertByIdx]
  | cons y ys ih =>
    have hc := List.pairwise_cons.mp h
    unfold insertByIdx
    split
    · rename_i hlt
      refine List.pairwise_cons.mpr ⟨?_, h⟩
      intro a ha
      have hxy : keyOf objs x < keyOf objs y := hlt
      rcases List.mem_cons.mp ha with rfl | ha'
      · exact Int.le_of_lt hxy
      · have := hc.1 a ha'; omega
    · rename_i hnlt
      have hyx : keyOf objs y ≤ keyOf objs x := by
        have : ¬ keyOf objs x < keyOf objs y := hnlt
        omega
      refine List.pairwise_cons.mpr ⟨?_, ih hc.2⟩
      intro a ha
      rcases List.mem_cons.mp ((insertByIdx_perm objs x ys).subset ha) with rfl | ha'
      · exact hyx
      · exact hc.1 a ha'

theorem sortFold_spec (objs : Array Obj) (l acc : List Nat)
    (hacc : acc.Pairwise (fun a b => keyOf objs a ≤ keyOf objs b)) :
    (l.foldl (fun acc x => insertByIdx objs x acc) acc).Pairwise (fun a b => keyOf objs a ≤ keyOf objs b) ∧
    (l.foldl (fun acc x => insertByIdx objs x acc) acc).Perm (l ++ acc) := by
  induction l generalizing acc with
  | nil => exact ⟨hacc, List.Perm.refl _⟩
  | cons x xs ih =>
    simp only [List.foldl_cons]
    obtain ⟨h1, h2⟩ := ih (insertByIdx objs x acc) (insertByIdx_sorted objs x acc hacc)
    refine ⟨h1, h2.trans ?_⟩
    have := insertByIdx_perm objs x acc
    exact (List.Perm.append_left xs this).trans (by simpa using List.perm_middle)

theorem sort_perm_invariant (objs : Array Obj) (l₁ l₂ : List Nat) (hp : l₁.Perm l₂)
    (hinj : ∀ x ∈ l₁, ∀ y ∈ l₁, keyOf objs x = keyOf objs y → x = y) :
    l₁.foldl (fun acc x => insertByIdx objs x acc) [] = l₂.foldl (fun acc x => insertByIdx objs x acc) [] := by
  obtain ⟨s1, p1⟩ := sortFold_spec objs l₁ [] List.Pairwise.nil
  obtain ⟨s2, p2⟩ := sortFold_spec objs l₂ [] List.Pairwise.nil
  simp only [List.append_nil] at p1 p2
  refine List.Perm.eq_of_pairwise ?_ s1 s2 (p1.trans (hp.trans p2.symm))
  intro a b ha hb hab hba
  have ha' : a ∈ l₁ := p1.subset ha
  have hb' : b ∈ l₁ := hp.symm.subset (p2.subset hb)
  exact hinj a ha' b hb' (by omega)

end Sc3Verif.C20
