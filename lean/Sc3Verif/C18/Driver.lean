/-
C18 line-protocol driver:  `lake env lean --run Sc3Verif/C18/Driver.lean < ops`
Strings are comma separated code points, `-` = empty string / absent.
  match <pattern> <address>        osc_rematch_pattern(pattern, address) -> True | False | re.error
  rewrite <pattern>                the regular expression text after re.sub
  reset                            new responder history
  new <rid> E|P <path> <src> <port> <tmpl> <fid>      src = - | ip:port | ip:-   tmpl = - | item;item;…
                                   item = N | I<int> | Q<num>/<den> | S<hex> | P<pid>
  enable|disable|free|oneshot <rid> ; setfunc <rid> <fid> ; permanent <rid> 0|1
  cmdadd|cmdremove <aid> ; cmdperiod
  recv <now num/den> <osc offset> <port> <patFirst 0|1> <hex> <ip>:<port>
  sys reset | sys script <a> <op;op…> | sys add <a> <args> | sys remove <a> | sys removeall | sys run
  srv reset | srv add <srv> <a> <args> | srv remove <srv> <a> | srv removeserver <srv> | srv removeall
      | srv run <srv> 0|1
  not reset | not register <lst> <a> | not oneshot <lst> <a> | not unregister <lst> | not notify
  nc reset | nc register|oneshot <obj> <msg> <lst> <a> | nc unregister <obj> <msg|-> <lst|-> | nc exists <obj> <msg> <lst>
      | nc notify <obj> <msg> | nc clear
-/
import Sc3Verif.C18.Spec
open Sc3Verif.C18
open Sc3Verif.C06 (Bytes DVal)

def parseStr (s : String) : Option Str :=
  if s == "-" then some [] else (s.splitOn ",").mapM String.toNat?

def fmtStr (s : Str) : String := if s.isEmpty then "-" else ",".intercalate (s.map toString)

def hexVal (c : Char) : Option Nat :=
  if '0' ≤ c ∧ c ≤ '9' then some (c.toNat - '0'.toNat)
  else if 'a' ≤ c ∧ c ≤ 'f' then some (c.toNat - 'a'.toNat + 10)
  else none

def parseHexL : List Char → Option Bytes
  | [] => some []
  | a :: b :: rest => do
    let x ← hexVal a
    let y ← hexVal b
    let tl ← parseHexL rest
    pure (UInt8.ofNat (x * 16 + y) :: tl)
  | _ => none

def parseHex (s : String) : Option Bytes := if s == "-" then some [] else parseHexL s.toList

def hexDigit (n : Nat) : Char := if n < 10 then Char.ofNat (48 + n) else Char.ofNat (87 + n)

def toHex (b : Bytes) : String :=
  String.ofList (b.flatMap fun x => [hexDigit (x.toNat / 16), hexDigit (x.toNat % 16)])

def parseRat (s : String) : Option Rat :=
  match s.splitOn "/" with
  | [n, d] => do
    let n ← n.toInt?
    let d ← d.toNat?
    if d = 0 then none else pure (mkRat n d)
  | [n] => do pure ((← n.toInt?) : Rat)
  | _ => none

def fmtRat (q : Rat) : String := if q.den = 1 then toString q.num else s!"{q.num}/{q.den}"

def parseOptNat (s : String) : Option (Option Nat) :=
  if s == "-" then some none else s.toNat?.map some

def parseSrc (s : String) : Option (Option (Nat × Option Nat)) :=
  if s == "-" then some none
  else match s.splitOn ":" with
    | [ip, p] => do
      let ip ← ip.toNat?
      let p ← parseOptNat p
      pure (some (ip, p))
    | _ => none

def parseItem (s : String) : Option TItem :=
  let body := (s.drop 1).toString
  match s.front with
  | 'N' => some .any
  | 'I' => do some (.eq (.num ((← body.toInt?) : Rat)))
  | 'Q' => do some (.eq (.num (← parseRat body)))
  | 'S' => do some (.eq (.str (← parseHex (if body == "" then "-" else body))))
  | 'P' => do some (.pred (← body.toNat?))
  | _ => none

def parseTmpl (s : String) : Option (Option (List TItem)) :=
  if s == "-" then some none
  else if s == "[]" then some (some [])
  else (s.splitOn ";").mapM parseItem |>.map some

def isNum : DVal → Option Rat
  | .int i => some i
  | .float b => f32ToRat b
  | .double b => f64ToRat b
  | _ => none

def envPred (pid : Nat) (v : DVal) : Bool :=
  match pid with
  | 0 => true
  | 1 => false
  | 2 => match isNum v with | some q => decide (q > 0) | none => false
  | 3 => match v with | .str _ => true | _ => false
  | _ => false

def env0 : Env := ⟨envPred⟩

def isInf32 (b : Nat) : Bool := b / 8388608 % 256 == 255 && b % 8388608 == 0
def isInf64 (b : Nat) : Bool := b / 4503599627370496 % 2048 == 2047 && b % 4503599627370496 == 0

partial def fmtPlain : DVal → String
  | .int i => s!"n{i}"
  | .float b =>
    match f32ToRat b with
    | some q => "n" ++ fmtRat q
    | none => if isInf32 b then (if b / 2147483648 % 2 = 1 then "n-inf" else "ninf") else "nnan"
  | .double b =>
    match f64ToRat b with
    | some q => "n" ++ fmtRat q
    | none => if isInf64 b then (if b / 9223372036854775808 % 2 = 1 then "n-inf" else "ninf") else "nnan"
  | .str s => "s" ++ toHex s
  | .blob b => "b" ++ toHex b
  | .rgba n => s!"n{n}"
  | .midi a b c d => s!"m{a}.{b}.{c}.{d}"
  | .timetag n => s!"n{n}"
  | .bool true => "T"
  | .bool false => "F"
  | .array l => " ".intercalate (["["] ++ l.map fmtPlain ++ ["]"])

def fmtDelivery (d : Delivery) : String :=
  fmtStr d.addr ++ ";" ++ " ".intercalate (d.params.map fmtPlain) ++ ";" ++ fmtRat d.time ++ ";" ++
    s!"{d.sender.1}:{d.sender.2}" ++ ";" ++ toString d.port

def fmtDispOut (o : DispOut) : String :=
  (match o.kind with | .exact => "E:" | .pattern => "P:") ++ ",".intercalate (o.called.map toString)

def fmtMsgOut (x : Delivery × List DispOut) : String :=
  let (d, os) := x
  let raised := os.any (·.raised)
  let anyCall := os.any fun o => !o.called.isEmpty
  "[" ++ " ".intercalate (os.map fmtDispOut) ++ (if raised then " !error" else "") ++ "] " ++
    (if anyCall then fmtDelivery d else "")

def fmtOut : Out → String
  | .unit => "ok"
  | .actions l => "actions " ++ ",".intercalate (l.map toString)
  | .recv l => "recv " ++ " || ".intercalate (l.map fmtMsgOut)

def parseOp (toks : List String) : Option Op :=
  match toks with
  | ["new", rid, kind, path, src, port, tmpl, fid] => do
    let k ← if kind == "E" then some DispKind.exact else if kind == "P" then some DispKind.pattern else none
    some (.new (← rid.toNat?) k (← parseStr path) (← parseSrc src) (← parseOptNat port) (← parseTmpl tmpl)
      (← fid.toNat?))
  | ["enable", rid] => do some (.enable (← rid.toNat?))
  | ["disable", rid] => do some (.disable (← rid.toNat?))
  | ["free", rid] => do some (.free (← rid.toNat?))
  | ["oneshot", rid] => do some (.oneShot (← rid.toNat?))
  | ["setfunc", rid, fid] => do some (.setFunc (← rid.toNat?) (← fid.toNat?))
  | ["permanent", rid, v] => do some (.permanent (← rid.toNat?) (v == "1"))
  | ["cmdadd", aid] => do some (.cmdAdd (← aid.toNat?))
  | ["cmdremove", aid] => do some (.cmdRemove (← aid.toNat?))
  | ["cmdperiod"] => some .cmdPeriod
  | ["recv", now, off, port, pf, hex, snd] =>
    match snd.splitOn ":" with
    | [ip, sp] => do
      some (.recv ⟨← parseRat now, ← off.toInt?, ← port.toNat?, pf == "1"⟩ (← parseHex hex)
        (← ip.toNat?, ← sp.toNat?))
    | _ => none
  | _ => none

def parseSysOp (toks : List String) : Option SysOp :=
  match toks with
  | ["add", a, args] => do some (.add (← a.toNat?) (← args.toNat?))
  | ["remove", a] => do some (.remove (← a.toNat?))
  | ["removeall"] => some .removeAll
  | _ => none

structure DState where
  st : St := St.init
  ast : ASt := ASt.init
  sys : SysReg := []
  scripts : List (Nat × List SysOp) := []
  srv : SrvReg := []
  srvCur : Nat := 0
  srvOthers : List (Nat × SrvReg) := []
  nt : NotReg := []
  nc : NotCenter := []

def fmtRuns (l : List (Nat × Nat)) : String := " ".intercalate (l.map fun p => s!"{p.1}({p.2})")

def handle (ds : DState) (line : String) : DState × String :=
  match (line.trimAscii.toString.splitOn " ").filter (· ≠ "") with
  | ["match", p, a] =>
    match parseStr p, parseStr a with
    | some p, some a =>
      (ds, match oscMatch p a with
        | some true => "True"
        | some false => "False"
        | none => "re.error")
    | _, _ => (ds, "bad-op")
  | ["rewrite", p] =>
    match parseStr p with
    | some p => (ds, fmtStr (rewrite p))
    | none => (ds, "bad-op")
  | ["reset"] => ({ ds with st := St.init, ast := ASt.init }, "reset")
  | "sys" :: rest =>
    match rest with
    | ["reset"] => ({ ds with sys := [], scripts := [] }, "reset")
    | ["script", a, ops] =>
      match a.toNat?, (ops.splitOn ";").mapM (fun o => parseSysOp (o.splitOn ":")) with
      | some a, some l => ({ ds with scripts := (a, l) :: ds.scripts }, "ok")
      | _, _ => (ds, "bad-op")
    | ["once", k, args] =>      -- CmdPeriod.do_once: a new self-removing wrapper registered under key k
      match k.toNat?, args.toNat? with
      | some k, some args =>
        ({ ds with scripts := (k, onceBeh (fun _ => true) k) :: ds.scripts, sys := sysAdd k args ds.sys }, "ok")
      | _, _ => (ds, "bad-op")
    | ["run"] =>
      let beh := fun a => match ds.scripts.find? (·.1 == a) with | some (_, l) => l | none => []
      let (r, l) := sysRun beh ds.sys
      ({ ds with sys := r }, "run " ++ fmtRuns l)
    | toks =>
      match parseSysOp toks with
      | some op => ({ ds with sys := sysApply ds.sys op }, "ok")
      | none => (ds, "bad-op")
  | "srv" :: rest =>
    match rest with
    | ["reset"] => ({ ds with srv := [], srvCur := 0, srvOthers := [] }, "reset")
    | ["sel", k] =>          -- ServerBoot / ServerQuit / ServerTree ...: every registry is a table of its own
      match k.toNat? with
      | some k =>
        let others := (ds.srvCur, ds.srv) :: ds.srvOthers.filter (·.1 != ds.srvCur)
        let cur := match others.find? (·.1 == k) with | some (_, r) => r | none => []
        ({ ds with srv := cur, srvCur := k, srvOthers := others }, "ok")
      | none => (ds, "bad-op")
    | ["add", s, a, args] =>
      match s.toNat?, a.toNat?, args.toNat? with
      | some s, some a, some args => ({ ds with srv := srvAdd s a args ds.srv }, "ok")
      | _, _, _ => (ds, "bad-op")
    | ["remove", s, a] =>
      match s.toNat?, a.toNat? with
      | some s, some a => ({ ds with srv := srvRemove s a ds.srv }, "ok")
      | _, _ => (ds, "bad-op")
    | ["removeserver", s] =>
      match s.toNat? with
      | some s => ({ ds with srv := srvRemoveServer s ds.srv }, "ok")
      | none => (ds, "bad-op")
    | ["removeall"] => ({ ds with srv := [] }, "ok")
    | ["run", s, d] =>
      match s.toNat? with
      | some s => (ds, "run " ++ fmtRuns (srvRun ds.srv s (d == "1")))
      | none => (ds, "bad-op")
    | _ => (ds, "bad-op")
  | "nc" :: rest =>
    let opt (x : String) : Option (Option Nat) := if x == "-" then some none else x.toNat?.map some
    match rest with
    | ["reset"] => ({ ds with nc := [] }, "reset")
    | ["register", o, m, l, a] =>
      match o.toNat?, m.toNat?, l.toNat?, a.toNat? with
      | some o, some m, some l, some a => ({ ds with nc := ncRegister ds.nc o m l a false }, "ok")
      | _, _, _, _ => (ds, "bad-op")
    | ["oneshot", o, m, l, a] =>
      match o.toNat?, m.toNat?, l.toNat?, a.toNat? with
      | some o, some m, some l, some a => ({ ds with nc := ncRegister ds.nc o m l a true }, "ok")
      | _, _, _, _ => (ds, "bad-op")
    | ["unregister", o, m, l] =>
      match o.toNat?, opt m, opt l with
      | some o, some m, some l =>
        match ncUnregister ds.nc o m l with
        | some c => ({ ds with nc := c }, "ok")
        | none => (ds, "err KeyError")
      | _, _, _ => (ds, "bad-op")
    | ["exists", o, m, l] =>
      match o.toNat?, m.toNat?, l.toNat? with
      | some o, some m, some l => (ds, if ncExists ds.nc o m l then "True" else "False")
      | _, _, _ => (ds, "bad-op")
    | ["notify", o, m] =>
      match o.toNat?, m.toNat? with
      | some o, some m =>
        let (c, l) := ncNotify ds.nc o m
        ({ ds with nc := c }, "notify " ++ " ".intercalate (l.map fun p => s!"{p.1}:{p.2}"))
      | _, _ => (ds, "bad-op")
    | ["clear"] => ({ ds with nc := [] }, "ok")
    | _ => (ds, "bad-op")
  | "not" :: rest =>
    match rest with
    | ["reset"] => ({ ds with nt := [] }, "reset")
    | ["register", l, a] =>
      match l.toNat?, a.toNat? with
      | some l, some a => ({ ds with nt := notRegister l a false ds.nt }, "ok")
      | _, _ => (ds, "bad-op")
    | ["oneshot", l, a] =>
      match l.toNat?, a.toNat? with
      | some l, some a => ({ ds with nt := notRegister l a true ds.nt }, "ok")
      | _, _ => (ds, "bad-op")
    | ["unregister", l] =>
      match l.toNat? with
      | some l =>
        if ds.nt.any (·.1 == l) then ({ ds with nt := ds.nt.filter (·.1 != l) }, "ok") else (ds, "err KeyError")
      | none => (ds, "bad-op")
    | ["notify"] =>
      let (r, l) := notNotify ds.nt
      ({ ds with nt := r }, "notify " ++ " ".intercalate (l.map fun p => s!"{p.1}:{p.2}"))
    | _ => (ds, "bad-op")
  | toks =>
    match parseOp toks with
    | some op =>
      let (s', o) := step env0 ds.st op
      let (a', oa) := astep env0 ds.ast op        -- the abstract specification, run side by side
      let t := fmtOut o
      let ta := fmtOut oa
      ({ ds with st := s', ast := a' }, if t == ta then t else t ++ " SPEC-MISMATCH " ++ ta)
    | none => (ds, "bad-op")

partial def loop (h : IO.FS.Stream) (out : IO.FS.Stream) (ds : DState) : IO Unit := do
  let line ← h.getLine
  if line.isEmpty then return ()
  let (ds', o) := handle ds line
  out.putStrLn o
  loop h out ds'

def main : IO Unit := do
  loop (← IO.getStdin) (← IO.getStdout) {}
