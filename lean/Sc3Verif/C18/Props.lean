/-
C18 — Incoming messages reach exactly the responders that should fire.

Property theorems only (helper lemmas in `Lemmas.lean`, specification in `Spec.lean`).
-/
import Sc3Verif.C18.Lemmas
namespace Sc3Verif.C18

open Sc3Verif.C06 (Bytes decodePacket)

/-! ## (i) address pattern matching -/

/-- the derivative matcher decides the inductively defined language, over the WHOLE string -/
theorem fullmatch_iff_language (r : R) (s : Str) : r.fullmatch s = true ↔ Matches r s :=
  fullmatch_iff r s

/-- MAIN (matching): `osc_rematch_pattern(pattern, address)` is `True` exactly when the pattern text,
    rewritten by the `_rewrite_symbols` table and read as a regular expression, has the ENTIRE
    address in its language (repair D2: no prefix matches); it never raises (repair D-C18-2). -/
theorem match_iff_language (pattern address : Str) :
    (oscMatch pattern address = some true ↔ ∃ r, reParse (rewrite pattern) = .ok r ∧ Matches r address) ∧
    (∃ b, oscMatch pattern address = some b) := by
  have hf : useFullmatch = true := rfl
  have hc : catchesReError = true := rfl
  unfold oscMatch
  cases h : reParse (rewrite pattern) with
  | ok r =>
    simp only [hf, if_true]
    refine ⟨?_, ⟨_, rfl⟩⟩
    constructor
    · intro hm
      refine ⟨r, rfl, (fullmatch_iff r address).mp ?_⟩
      simpa using hm
    · rintro ⟨r', hr, hm⟩
      cases hr
      simp [(fullmatch_iff r address).mpr hm]
  | error e =>
    simp only [hc, if_true]
    refine ⟨?_, ⟨_, rfl⟩⟩
    constructor
    · intro hm; cases hm
    · rintro ⟨r', hr, _⟩; cases hr

/-- a malformed pattern (the regular expression parser rejects it) matches nothing -/
theorem malformed_matches_nothing (pattern address : Str) (e : ReErr)
    (h : reParse (rewrite pattern) = .error e) : oscMatch pattern address = some false := by
  have hc : catchesReError = true := rfl
  simp [oscMatch, h, hc]

/-- a pattern without special characters matches only itself: in particular no address of which it
    is a proper prefix (`/foo` does not fire a responder at `/foobar`), none that is shorter, none
    that differs in one character -/
theorem literal_matches_only_itself (pattern address : Str) (h : ∀ c ∈ pattern, plainChar c = true) :
    oscMatch pattern address = some (decide (address = pattern)) := by
  have hf : useFullmatch = true := rfl
  have h1 : ∀ c ∈ pattern, rewriteTable.all (fun p => p.1.head? != some c) = true := by
    intro c hc; have := h c hc; simp only [plainChar, Bool.and_eq_true] at this; exact this.1
  have h2 : ∀ c ∈ pattern, parserSpecial c = false := by
    intro c hc; have := h c hc; simp only [plainChar, Bool.and_eq_true] at this; simpa using this.2
  unfold oscMatch rewrite
  rw [rewriteGo_plain rewriteTable pattern h1, reParse_plain pattern h2]
  simp only [hf, if_true]
  congr 1
  by_cases he : address = pattern
  · simp [he, (fullmatch_iff _ _).mpr ((matches_seqOf_chr pattern pattern).mpr rfl)]
  · have : ¬ (seqOf (pattern.map R.chr)).fullmatch address = true := fun hm =>
      he ((matches_seqOf_chr pattern address).mp ((fullmatch_iff _ _).mp hm))
    simp [he, this]

/-! ## (iii) hostile datagrams -/

/-- a datagram the decoder rejects invokes nothing and leaves the receiver exactly as it was (so the
    next datagram is processed as if the bad one had never arrived) -/
theorem malformed_no_dispatch (env : Env) (cfg : RecvCfg) (s : St) (data : Bytes) (sender : Sender)
    (e : Sc3Verif.C06.DErr) (h : decodePacket data = .error e) :
    handleRequest env cfg s data sender = (s, []) := by
  simp [handleRequest, h]

/-- the decoder is total: every byte string is answered with messages or one of the exception
    classes (the bundle loop needs no fuel since the element size is validated, repair D1) -/
theorem decoder_total (data : Bytes) :
    (∃ ms, decodePacket data = .ok ms) ∨ (∃ e, decodePacket data = .error e) := by
  cases decodePacket data with
  | ok ms => exact Or.inl ⟨ms, rfl⟩
  | error e => exact Or.inr ⟨e, rfl⟩

/-- the D1 datagram `#bundle\0 + timetag + int32(-4)` is rejected (it used to loop forever) -/
theorem negative_element_size_rejected :
    decodePacket [0x23, 0x62, 0x75, 0x6E, 0x64, 0x6C, 0x65, 0, 0, 0, 0, 0, 0, 0, 0, 1, 0xFF, 0xFF, 0xFF, 0xFC]
      = .error .bundleParse := by
  unfold decodePacket
  simp only [Sc3Verif.C06.isBundle, Sc3Verif.C06.bundlePrefix, Sc3Verif.C06.parseBundle]
  rw [Sc3Verif.C06.parseElems]
  simp [Sc3Verif.C06.fromBE, Sc3Verif.C06.toInt32]
  rfl

/-! ## (iv) registries -/

/-- `run` executes exactly the actions registered at that moment, each once, in registration order,
    with their current arguments (actions that leave the registry alone) -/
theorem registry_runs_current (r : SysReg) (hnd : (r.map (·.1)).Nodup) :
    sysRun (fun _ => []) r = (r, r) := sysRun_plain r hnd

/-- ... and whatever the actions do to the registry while it runs, only actions registered when `run`
    started are executed, in registration order -/
theorem registry_runs_subsequence (beh : Nat → List SysOp) (r : SysReg) :
    ((sysRun beh r).2.map (·.1)).Sublist (r.map (·.1)) := sysRun_subsequence beh r

/-- re-adding keeps the position (and updates the arguments), adding a new action appends it -/
theorem registry_add_order (a args : Nat) (r : SysReg) :
    (sysAdd a args r).map (·.1) = if (r.map (·.1)).contains a then r.map (·.1) else r.map (·.1) ++ [a] :=
  sysAdd_keys a args r

theorem registry_remove_removes (r : SysReg) (a : Nat) : a ∉ (sysApply r (.remove a)).map (·.1) :=
  sys_remove_removes r a

/-- `ServerAction.remove` really removes (repair D4) -/
theorem server_action_remove_removes (r : SrvReg) (srv a : Nat) :
    a ∉ (srvLookup srv (srvRemove srv a r)).map (·.1) := srvRemove_removes r srv a

/-- `ServerAction.run(server)`: the server's actions, then the `'default'` ones for the default
    server, then the `'all'` ones — each group in registration order -/
theorem server_action_run (r : SrvReg) (srv : Nat) (isDefault : Bool) :
    srvRun r srv isDefault = srvLookup srv r ++ (if isDefault then srvLookup 0 r else []) ++ srvLookup 1 r := rfl

theorem notification_notify (r : NotReg) :
    (notNotify r).2 = r.map (fun p => (p.2.1, p.1)) ∧ (notNotify r).1 = r.filter (fun p => !p.2.2) :=
  notNotify_spec r

/-! ## Non-vacuity -/

-- '/foo' does not match '/foobar'; '/f?o*' matches '/foobar'; '/[' is malformed and matches nothing
example : oscMatch [47, 102, 111, 111] [47, 102, 111, 111, 98, 97, 114] = some false := by decide
example : oscMatch [47, 102, 63, 111, 42] [47, 102, 111, 111, 98, 97, 114] = some true := by decide
example : oscMatch [47, 91] [47, 91] = some false := by decide
example : oscMatch [47, 123, 97, 44, 98, 99, 125, 91, 33, 120, 45, 122, 93] [47, 98, 99, 113] = some true := by decide
example : ∀ c ∈ [47, 102, 111, 111], plainChar c = true := by decide

end Sc3Verif.C18
