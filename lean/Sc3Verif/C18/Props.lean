/-
C18 — Incoming messages reach exactly the responders that should fire.

Property theorems only (helper lemmas in `Lemmas.lean`, specification in `Spec.lean`).
-/
import Sc3Verif.C18.Lemmas
namespace Sc3Verif.C18

open Sc3Verif.C06 (Bytes decodePacket)

/-! ## (i) address pattern matching -/

/-- the derivative matcher decides the inductively defined language, over the WHOLE string -/
theorem fullmatch_iff_language (r : R) (s : Str) : r.fullmatch s = true ↔ Matches r s :=
  fullmatch_iff r s

/-- MAIN (matching): `osc_rematch_pattern(pattern, address)` is `True` exactly when the pattern text,
    rewritten by the `_rewrite_symbols` table and read as a regular expression, has the ENTIRE
    address in its language (repair D2: no prefix matches); it never raises (repair D-C18-2). -/
theorem match_iff_language (pattern address : Str) :
    (oscMatch pattern address = some true ↔ ∃ r, reParse (rewrite pattern) = .ok r ∧ Matches r address) ∧
    (∃ b, oscMatch pattern address = some b) := by
  have hf : useFullmatch = true := rfl
  have hc : catchesReError = true := rfl
  unfold oscMatch
  cases h : reParse (rewrite pattern) with
  | ok r =>
    simp only [hf, if_true]
    refine ⟨?_, ⟨_, rfl⟩⟩
    constructor
    · intro hm
      refine ⟨r, rfl, (fullmatch_iff r address).mp ?_⟩
      simpa using hm
    · rintro ⟨r', hr, hm⟩
      cases hr
      simp [(fullmatch_iff r address).mpr hm]
  | error e =>
    simp only [hc, if_true]
    refine ⟨?_, ⟨_, rfl⟩⟩
    constructor
    · intro hm; cases hm
    · rintro ⟨r', hr, _⟩; cases hr

/-- a malformed pattern (the regular expression parser rejects it) matches nothing -/
theorem malformed_matches_nothing (pattern address : Str) (e : ReErr)
    (h : reParse (rewrite pattern) = .error e) : oscMatch pattern address = some false := by
  have hc : catchesReError = true := rfl
  simp [oscMatch, h, hc]

/-- a pattern without special characters matches only itself: in particular no address of which it
    is a proper prefix (`/foo` does not fire a responder at `/foobar`), none that is shorter, none
    that differs in one character -/
theorem literal_matches_only_itself (pattern address : Str) (h : ∀ c ∈ pattern, plainChar c = true) :
    oscMatch pattern address = some (decide (address = pattern)) := by
  have hf : useFullmatch = true := rfl
  have h1 : ∀ c ∈ pattern, rewriteTable.all (fun p => p.1.head? != some c) = true := by
    intro c hc; have := h c hc; simp only [plainChar, Bool.and_eq_true] at this; exact this.1
  have h2 : ∀ c ∈ pattern, parserSpecial c = false := by
    intro c hc; have := h c hc; simp only [plainChar, Bool.and_eq_true] at this; simpa using this.2
  unfold oscMatch rewrite
  rw [rewriteGo_plain rewriteTable pattern h1, reParse_plain pattern h2]
  simp only [hf, if_true]
  congr 1
  by_cases he : address = pattern
  · simp [he, (fullmatch_iff _ _).mpr ((matches_seqOf_chr pattern pattern).mpr rfl)]
  · have : ¬ (seqOf (pattern.map R.chr)).fullmatch address = true := fun hm =>
      he ((matches_seqOf_chr pattern address).mp ((fullmatch_iff _ _).mp hm))
    simp [he, this]

/-- OSC 1.0 reading of wildcard patterns: for every pattern made of ordinary characters, `?` and `*`,
    the library's answer is `True` exactly when the address is in the pattern's language — `?` one
    character, `*` any sequence, everything else itself, over the WHOLE address -/
theorem wildcard_pattern_language (p : List STok) (hp : ∀ t ∈ p, t.ok = true) (address : Str) :
    oscMatch (sprint p) address = some true ↔ SMatches p address := by
  have hf : useFullmatch = true := rfl
  have hparse : reParse (rewrite (sprint p)) = .ok (seqOf (p.map STok.regex)) := by
    unfold rewrite reParse PState.init
    rw [rewrite_sprint p hp]
    have := prun_tokens p ⟨[], []⟩ [] hp
    simp only [List.nil_append] at this
    rw [this]
    simp [pfinish, Frame.close, altOf]
  unfold oscMatch
  rw [hparse]
  simp only [hf, if_true]
  rw [← matches_tokens, ← fullmatch_iff]
  simp

/-! ## (ii) dispatch -/

/-- MAIN (dispatch): for EVERY history of responder operations (creation, enable, disable, free,
    one_shot, function replacement, permanent, CmdPeriod add / remove / run) interleaved with incoming
    datagrams — well-formed or not, from any sender, on any port, in either iteration order of the
    dispatcher set — the dictionaries of wrapped callables, matcher objects and object identities of
    `responders.py` produce exactly the outputs of the abstract machine of `Spec.lean`: each message
    invokes the enabled responders whose path equals the address (exact) or is matched over its
    whole length by it (matching) and whose source / port / argument filters accept it, each once,
    in registration order, with the message, its time, sender and port; a one-shot responder is
    disabled by its first call; CmdPeriod runs the registered user actions in registration order
    and frees the non-permanent responders. -/
theorem dispatch_refines (env : Env) (ops : List Op) :
    (run env St.init ops).2 = (arun env ASt.init ops).2 := by
  have := run_refines env ops St.init inv_init
  rw [abs_init] at this
  exact this.2.2

/-- the abstract state after a history is the abstraction of the concrete one (so the theorem above
    extends to every continuation) -/
theorem dispatch_refines_state (env : Env) (ops : List Op) :
    abs (run env St.init ops).1 = (arun env ASt.init ops).1 := by
  have := run_refines env ops St.init inv_init
  rw [abs_init] at this
  exact this.2.1

/-- `dispatch_exact`: in every reachable state the exact dispatcher calls, for a delivery `d`, the
    functions of exactly the ENABLED responders created with the default constructor whose path
    EQUALS the address and whose filters accept `d` — each once, in registration order. -/
theorem dispatch_exact (env : Env) (s : St) (hs : Reachable env s) (d : Delivery) :
    (dispatchExact env s d).2 = (ahits env (abs s) .exact d).map (·.2.func.fid) ∧
    ((ahits env (abs s) .exact d).map (·.1)).Nodup ∧
    ∀ q, q ∈ ahits env (abs s) .exact d ↔
      ∃ r, lookupResp s q.1 = some r ∧ r.enabled = true ∧ r.disp = .exact ∧ q.2 = absResp r ∧
        r.path = d.addr ∧ q.2.accepts env d = true := by
  have h := reachable_inv hs
  have hd := h.d .exact
  refine ⟨(dispatchExact_refines env d h).2.2, ?_, ?_⟩
  · simp only [ahits, aenabled_abs]
    exact List.Nodup.sublist (List.Sublist.map _ List.filter_sublist) (nodup_filterMap_pairAbs hd)
  · intro q
    simp only [ahits, aenabled_abs, List.mem_filter, mem_filterMap_pairAbs hd, Bool.and_eq_true, beq_iff_eq]
    constructor
    · rintro ⟨⟨r, h1, h2, h3, h4⟩, h5, h6⟩
      exact ⟨r, h1, h2, h3, h4, by rw [h4] at h5; exact h5, h6⟩
    · rintro ⟨r, h1, h2, h3, h4, h5, h6⟩
      exact ⟨⟨r, h1, h2, h3, h4⟩, by rw [h4]; exact h5, h6⟩

/-- the same for the matching dispatcher: the address, read as a pattern, must match the WHOLE path -/
theorem dispatch_matching (env : Env) (s : St) (hs : Reachable env s) (d : Delivery) :
    (dispatchPattern env s d).2.called = (ahits env (abs s) .pattern d).map (·.2.func.fid) ∧
    (dispatchPattern env s d).2.raised = false ∧
    ∀ q, q ∈ ahits env (abs s) .pattern d ↔
      ∃ r, lookupResp s q.1 = some r ∧ r.enabled = true ∧ r.disp = .pattern ∧ q.2 = absResp r ∧
        oscMatch d.addr r.path = some true ∧ q.2.accepts env d = true := by
  have h := reachable_inv hs
  have hd := h.d .pattern
  have hp := dispatchPattern_refines env d h
  refine ⟨by rw [hp.2.2]; rfl, by rw [hp.2.2]; rfl, ?_⟩
  intro q
  have hkeys : ∀ key, key ∈ (abs s).keysP ↔ key ∈ akeys (s.disp .pattern).active := fun _ => Iff.rfl
  simp only [ahits, aenabled_abs, List.mem_flatMap, List.mem_filter, mem_filterMap_pairAbs hd, Bool.and_eq_true,
    beq_iff_eq]
  constructor
  · rintro ⟨key, ⟨_, hm⟩, ⟨r, h1, h2, h3, h4⟩, h5, h6⟩
    have : r.path = key := by rw [h4] at h5; exact h5
    exact ⟨r, h1, h2, h3, h4, by rw [this]; exact hm, h6⟩
  · rintro ⟨r, h1, h2, h3, h4, h5, h6⟩
    refine ⟨r.path, ⟨?_, h5⟩, ⟨r, h1, h2, h3, h4⟩, by rw [h4]; rfl, h6⟩
    -- the path of an enabled matching responder is a key of the dispatcher
    obtain ⟨p, hp1, hp2⟩ := List.mem_map.mp (hd.en q.1 r h1 h2 h3)
    have hin : p ∈ (s.disp .pattern).wrapped.filter (fun p => hasPath s p.1 r.path) := by
      refine List.mem_filter.mpr ⟨hp1, ?_⟩
      simp [hasPath, hp2, h1]
    have hne : lookupKey r.path (s.disp .pattern).active ≠ [] := by
      rw [hd.act r.path]
      intro e
      have := List.mem_map_of_mem (f := fun x : Nat × Entry => x.2) hin
      rw [e] at this; cases this
    show r.path ∈ akeys (s.disp .pattern).active
    cases hdec : decide (r.path ∈ akeys (s.disp .pattern).active) with
    | true => exact of_decide_eq_true hdec
    | false => exact absurd (lookupKey_of_not_mem _ _ (of_decide_eq_false hdec)) hne

/-- disabled, freed and already-fired one-shot responders are never invoked: whatever fires is enabled -/
theorem only_enabled_fire (env : Env) (s : St) (hs : Reachable env s) (k : DispKind) (d : Delivery) :
    ∀ q ∈ ahits env (abs s) k d, q.2.enabled = true := by
  have h := reachable_inv hs
  intro q hq
  cases k with
  | exact =>
    obtain ⟨r, _, h2, _, h4, _⟩ := ((dispatch_exact env s hs d).2.2 q).mp hq
    rw [h4]; exact h2
  | pattern =>
    obtain ⟨r, _, h2, _, h4, _⟩ := ((dispatch_matching env s hs d).2.2 q).mp hq
    rw [h4]; exact h2

/-- `oneshot_fires_once`: a one-shot responder that fires is disabled by that very dispatch (so, by
    `only_enabled_fire`, it is never invoked again unless re-enabled), and nothing a dispatch
    disables comes back by itself -/
theorem oneshot_fires_once (env : Env) (s : St) (hs : Reachable env s) (k : DispKind) (d : Delivery)
    (q : Nat × AResp) (hq : q ∈ ahits env (abs s) k d) (ho : q.2.func.isOnce = true) :
    (alookup (adispatch env (abs s) k d).1 q.1).map (·.enabled) = some false := by
  have hex : ∃ r, alookup (abs s) q.1 = some r := by
    cases k with
    | exact =>
      obtain ⟨r, h1, _⟩ := ((dispatch_exact env s hs d).2.2 q).mp hq
      exact ⟨absResp r, by rw [alookup_abs, h1]; rfl⟩
    | pattern =>
      obtain ⟨r, h1, _⟩ := ((dispatch_matching env s hs d).2.2 q).mp hq
      exact ⟨absResp r, by rw [alookup_abs, h1]; rfl⟩
  simp only [adispatch]
  refine (adisableAll_disables (abs s) _ q.1 ?_ hex).1
  exact List.mem_map_of_mem (List.mem_filter.mpr ⟨hq, ho⟩)

/-! ## (iii) hostile datagrams -/

/-- a datagram the decoder rejects invokes nothing and leaves the receiver exactly as it was (so the
    next datagram is processed as if the bad one had never arrived) -/
theorem malformed_no_dispatch (env : Env) (cfg : RecvCfg) (s : St) (data : Bytes) (sender : Sender)
    (e : Sc3Verif.C06.DErr) (h : decodePacket data = .error e) :
    handleRequest env cfg s data sender = (s, []) := by
  simp [handleRequest, h]

/-- the decoder is total: every byte string is answered with messages or one of the exception
    classes (the bundle loop needs no fuel since the element size is validated, repair D1) -/
theorem decoder_total (data : Bytes) :
    (∃ ms, decodePacket data = .ok ms) ∨ (∃ e, decodePacket data = .error e) := by
  cases decodePacket data with
  | ok ms => exact Or.inl ⟨ms, rfl⟩
  | error e => exact Or.inr ⟨e, rfl⟩

/-- the D1 datagram `#bundle\0 + timetag + int32(-4)` is rejected (it used to loop forever) -/
theorem negative_element_size_rejected :
    decodePacket [0x23, 0x62, 0x75, 0x6E, 0x64, 0x6C, 0x65, 0, 0, 0, 0, 0, 0, 0, 0, 1, 0xFF, 0xFF, 0xFF, 0xFC]
      = .error .bundleParse := by
  unfold decodePacket
  simp only [Sc3Verif.C06.isBundle, Sc3Verif.C06.bundlePrefix, Sc3Verif.C06.parseBundle]
  rw [Sc3Verif.C06.parseElems]
  simp [Sc3Verif.C06.fromBE, Sc3Verif.C06.toInt32]
  rfl

/-! ## (iv) registries -/

/-- `run` executes exactly the actions registered at that moment, each once, in registration order,
    with their current arguments (actions that leave the registry alone) -/
theorem registry_runs_current (r : SysReg) (hnd : (r.map (·.1)).Nodup) :
    sysRun (fun _ => []) r = (r, r) := sysRun_plain r hnd

/-- ... and whatever the actions do to the registry while it runs, only actions registered when `run`
    started are executed, in registration order -/
theorem registry_runs_subsequence (beh : Nat → List SysOp) (r : SysReg) :
    ((sysRun beh r).2.map (·.1)).Sublist (r.map (·.1)) := sysRun_subsequence beh r

/-- re-adding keeps the position (and updates the arguments), adding a new action appends it -/
theorem registry_add_order (a args : Nat) (r : SysReg) :
    (sysAdd a args r).map (·.1) = if (r.map (·.1)).contains a then r.map (·.1) else r.map (·.1) ++ [a] :=
  sysAdd_keys a args r

/-- `CmdPeriod.do_once`: with any number of pending `do_once` registrations (wrappers `once`, each a key of
    its own that removes itself), one `run` executes EVERY registered action exactly once in registration
    order with its own arguments, and afterwards exactly the `do_once` wrappers are gone — so the next
    run (by `registry_runs_current`) executes the permanent actions only -/
theorem registry_do_once (once : Nat → Bool) (r : SysReg) (hnd : (r.map (·.1)).Nodup) :
    sysRun (onceBeh once) r = (r.filter (fun q => !once q.1), r) := sysRun_once once r hnd

theorem registry_remove_removes (r : SysReg) (a : Nat) : a ∉ (sysApply r (.remove a)).map (·.1) :=
  sys_remove_removes r a

/-- `ServerAction.remove` really removes (repair D4) -/
theorem server_action_remove_removes (r : SrvReg) (srv a : Nat) :
    a ∉ (srvLookup srv (srvRemove srv a r)).map (·.1) := srvRemove_removes r srv a

/-- `ServerAction.run(server)`: the server's actions, then the `'default'` ones for the default
    server, then the `'all'` ones — each group in registration order -/
theorem server_action_run (r : SrvReg) (srv : Nat) (isDefault : Bool) :
    srvRun r srv isDefault = srvLookup srv r ++ (if isDefault then srvLookup 0 r else []) ++ srvLookup 1 r := rfl

theorem notification_notify (r : NotReg) :
    (notNotify r).2 = r.map (fun p => (p.2.1, p.1)) ∧ (notNotify r).1 = r.filter (fun p => !p.2.2) :=
  notNotify_spec r

/-- `NotificationCenter` keyed on (object, message): `notify(obj, msg)` calls the listeners registered
    for THAT pair, in registration order, each once; one-shot registrations of that pair are gone
    afterwards; every other (object, message) pair keeps its registrations -/
theorem notification_center_notify (c : NotCenter) (obj msg : Nat) (r : NotReg) (h : ncLookup c obj msg = some r) :
    (ncNotify c obj msg).2 = r.map (fun p => (p.2.1, p.1)) ∧
    ncLookup (ncNotify c obj msg).1 obj msg = some (r.filter fun p => !p.2.2) ∧
    ∀ o' m', ¬ (o' = obj ∧ m' = msg) → ncLookup (ncNotify c obj msg).1 o' m' = ncLookup c o' m' := by
  have e : ncNotify c obj msg = (ncSet c obj msg (r.filter fun p => !p.2.2), r.map (fun p => (p.2.1, p.1))) := by
    simp [ncNotify, h, notNotify]
  rw [e]
  refine ⟨rfl, by rw [ncLookup_ncSet]; simp, ?_⟩
  intro o' m' hne
  rw [ncLookup_ncSet]; simp [hne]

/-- `unregister(obj, msg, listener)` removes exactly that listener of that (object, message) pair —
    also when it was the last one: the registrations of the object's OTHER messages (and of other
    objects) stay -/
theorem notification_unregister_local (c c' : NotCenter) (obj msg lst : Nat)
    (h : ncUnregister c obj (some msg) (some lst) = some c') :
    (∃ r, ncLookup c obj msg = some r ∧ ncLookup c' obj msg = some (r.filter (·.1 != lst))) ∧
    ∀ o' m', ¬ (o' = obj ∧ m' = msg) → ncLookup c' o' m' = ncLookup c o' m' := by
  unfold ncUnregister at h
  cases hm : ncMsgs c obj with
  | none => simp [hm] at h
  | some ms =>
    simp only [hm] at h
    cases hf : ms.find? (·.1 == msg) with
    | none => simp [hf] at h
    | some p =>
      obtain ⟨m0, r⟩ := p
      simp only [hf] at h
      split at h
      · cases h
        have hl : ncLookup c obj msg = some r := by simp [ncLookup, hm, hf]
        refine ⟨⟨r, hl, by rw [ncLookup_ncSet]; simp⟩, ?_⟩
        intro o' m' hne
        rw [ncLookup_ncSet]; simp [hne]
      · cases h

/-! ## Non-vacuity -/

-- two messages of one object: removing the last listener of message 0 keeps message 1's registration
example : (ncUnregister (ncRegister (ncRegister [] 7 0 1 10 false) 7 1 2 11 false) 7 (some 0) (some 1)).bind
    (fun c => ncLookup c 7 1) = some [(2, 11, false)] := by decide
-- '/foo' does not match '/foobar'; '/f?o*' matches '/foobar'; '/[' is malformed and matches nothing
example : oscMatch [47, 102, 111, 111] [47, 102, 111, 111, 98, 97, 114] = some false := by decide
example : oscMatch [47, 102, 63, 111, 42] [47, 102, 111, 111, 98, 97, 114] = some true := by decide
example : oscMatch [47, 91] [47, 91] = some false := by decide
example : oscMatch [47, 123, 97, 44, 98, 99, 125, 91, 33, 120, 45, 122, 93] [47, 98, 99, 113] = some true := by decide
example : ∀ c ∈ [47, 102, 111, 111], plainChar c = true := by decide
-- '/f?o*' as tokens
example : ∀ t ∈ [STok.lit 47, .lit 102, .any1, .lit 111, .star], t.ok = true := by decide

end Sc3Verif.C18
