import Sc3Verif.C18.Model
