/-
C18 — helper lemmas.
-/
import Sc3Verif.C18.Spec
namespace Sc3Verif.C18

/-! ### derivatives -/

theorem matches_eps {s : Str} : Matches .eps s ↔ s = [] := by
  constructor
  · intro h; cases h; rfl
  · rintro rfl; exact .eps

theorem matches_empty {s : Str} : ¬ Matches .empty s := by
  intro h; cases h

theorem matches_alt {a b : R} {s : Str} : Matches (.alt a b) s ↔ Matches a s ∨ Matches b s := by
  constructor
  · intro h; cases h with
    | altL h => exact Or.inl h
    | altR h => exact Or.inr h
  · rintro (h | h)
    · exact .altL h
    · exact .altR h

theorem matches_cat {a b : R} {s : Str} :
    Matches (.cat a b) s ↔ ∃ s1 s2, s = s1 ++ s2 ∧ Matches a s1 ∧ Matches b s2 := by
  constructor
  · intro h; cases h with
    | cat h1 h2 => exact ⟨_, _, rfl, h1, h2⟩
  · rintro ⟨s1, s2, rfl, h1, h2⟩; exact .cat h1 h2

theorem nullable_iff (r : R) : r.nullable = true ↔ Matches r [] := by
  induction r with
  | empty => simp [R.nullable, matches_empty]
  | eps => simp [R.nullable, matches_eps]
  | chr c => simp only [R.nullable]; constructor <;> intro h <;> cases h
  | any => simp only [R.nullable]; constructor <;> intro h <;> cases h
  | cls neg items => simp only [R.nullable]; constructor <;> intro h <;> cases h
  | cat a b iha ihb =>
    simp only [R.nullable, Bool.and_eq_true, iha, ihb, matches_cat]
    constructor
    · rintro ⟨h1, h2⟩; exact ⟨[], [], rfl, h1, h2⟩
    · rintro ⟨s1, s2, h, h1, h2⟩
      have := List.append_eq_nil_iff.mp h.symm
      rw [this.1] at h1; rw [this.2] at h2
      exact ⟨h1, h2⟩
  | alt a b iha ihb => simp only [R.nullable, Bool.or_eq_true, iha, ihb, matches_alt]
  | star a _ => simp only [R.nullable, true_iff]; exact .starNil

theorem star_inv_aux {r : R} {t : Str} (h : Matches r t) :
    ∀ (a : R) (c : Nat) (s : Str), r = .star a → t = c :: s →
      ∃ s1 s2, s = s1 ++ s2 ∧ Matches a (c :: s1) ∧ Matches (.star a) s2 := by
  induction h with
  | eps => intro a c s hr; cases hr
  | chr x => intro a c s hr; cases hr
  | any x hx => intro a c s hr; cases hr
  | cls neg items x hx => intro a c s hr; cases hr
  | cat _ _ _ _ => intro a c s hr; cases hr
  | altL _ _ => intro a c s hr; cases hr
  | altR _ _ => intro a c s hr; cases hr
  | starNil => intro a c s _ hs; cases hs
  | @starCons a' t1 t2 h1 h2 _ ih2 =>
    intro a c s hr hs
    cases hr
    cases t1 with
    | nil => exact ih2 a' c s rfl (by simpa using hs)
    | cons x xs =>
      simp only [List.cons_append, List.cons.injEq] at hs
      obtain ⟨rfl, rfl⟩ := hs
      exact ⟨xs, t2, rfl, h1, h2⟩

/-- a non-empty match of `a*` starts with a non-empty match of `a` -/
theorem star_cons_inv {a : R} {c : Nat} {s : Str} (h : Matches (.star a) (c :: s)) :
    ∃ s1 s2, s = s1 ++ s2 ∧ Matches a (c :: s1) ∧ Matches (.star a) s2 :=
  star_inv_aux h a c s rfl rfl

theorem deriv_iff (r : R) (c : Nat) (s : Str) : Matches (r.deriv c) s ↔ Matches r (c :: s) := by
  induction r generalizing s with
  | empty => simp only [R.deriv]; constructor <;> intro h <;> cases h
  | eps => simp only [R.deriv]; constructor <;> intro h <;> cases h
  | chr x =>
    simp only [R.deriv]
    split
    · rename_i hx; subst hx
      rw [matches_eps]
      constructor
      · rintro rfl; exact .chr x
      · intro h; cases h; rfl
    · rename_i hx
      constructor
      · intro h; cases h
      · intro h; cases h; exact absurd rfl hx
  | any =>
    simp only [R.deriv]
    split
    · rename_i hc; subst hc
      constructor
      · intro h; cases h
      · intro h; cases h with | any _ hne => exact absurd rfl hne
    · rename_i hc
      rw [matches_eps]
      constructor
      · rintro rfl; exact .any c hc
      · intro h; cases h; rfl
  | cls neg items =>
    simp only [R.deriv]
    split
    · rename_i hc
      rw [matches_eps]
      constructor
      · rintro rfl; exact .cls neg items c hc
      · intro h; cases h; rfl
    · rename_i hc
      constructor
      · intro h; cases h
      · intro h; cases h with | cls _ _ _ h' => exact absurd h' hc
  | cat a b iha ihb =>
    have key : Matches (.cat a b) (c :: s) ↔
        (∃ s1 s2, s = s1 ++ s2 ∧ Matches a (c :: s1) ∧ Matches b s2) ∨ (Matches a [] ∧ Matches b (c :: s)) := by
      rw [matches_cat]
      constructor
      · rintro ⟨s1, s2, h, h1, h2⟩
        cases s1 with
        | nil => simp at h; subst h; exact Or.inr ⟨h1, h2⟩
        | cons x xs =>
          simp only [List.cons_append, List.cons.injEq] at h
          obtain ⟨rfl, rfl⟩ := h
          exact Or.inl ⟨xs, s2, rfl, h1, h2⟩
      · rintro (⟨s1, s2, rfl, h1, h2⟩ | ⟨h1, h2⟩)
        · exact ⟨c :: s1, s2, rfl, h1, h2⟩
        · exact ⟨[], c :: s, rfl, h1, h2⟩
    rw [key]
    simp only [R.deriv]
    split
    · rename_i hn
      rw [matches_alt, matches_cat, ihb]
      constructor
      · rintro (⟨s1, s2, rfl, h1, h2⟩ | h)
        · exact Or.inl ⟨s1, s2, rfl, (iha s1).mp h1, h2⟩
        · exact Or.inr ⟨(nullable_iff a).mp hn, h⟩
      · rintro (⟨s1, s2, rfl, h1, h2⟩ | ⟨_, h⟩)
        · exact Or.inl ⟨s1, s2, rfl, (iha s1).mpr h1, h2⟩
        · exact Or.inr h
    · rename_i hn
      rw [matches_cat]
      constructor
      · rintro ⟨s1, s2, rfl, h1, h2⟩
        exact Or.inl ⟨s1, s2, rfl, (iha s1).mp h1, h2⟩
      · rintro (⟨s1, s2, rfl, h1, h2⟩ | ⟨h1, _⟩)
        · exact ⟨s1, s2, rfl, (iha s1).mpr h1, h2⟩
        · exact absurd ((nullable_iff a).mpr h1) hn
  | alt a b iha ihb =>
    simp only [R.deriv, matches_alt, iha, ihb]
  | star a iha =>
    simp only [R.deriv]
    rw [matches_cat]
    constructor
    · rintro ⟨s1, s2, rfl, h1, h2⟩
      exact .starCons ((iha s1).mp h1) h2
    · intro h
      obtain ⟨s1, s2, rfl, h1, h2⟩ := star_cons_inv h
      exact ⟨s1, s2, rfl, (iha s1).mpr h1, h2⟩

theorem matches_mkCat (a b : R) (s : Str) : Matches (mkCat a b) s ↔ Matches (.cat a b) s := by
  unfold mkCat
  split
  · simp [matches_cat, matches_empty]
  · simp [matches_cat, matches_empty]
  · rw [matches_cat]
    constructor
    · intro h; exact ⟨[], s, rfl, .eps, h⟩
    · rintro ⟨s1, s2, rfl, h1, h2⟩; cases h1; simpa using h2
  · rw [matches_cat]
    constructor
    · intro h; exact ⟨s, [], by simp, h, .eps⟩
    · rintro ⟨s1, s2, rfl, h1, h2⟩; cases h2; simpa using h1
  · rfl

theorem matches_mkAlt (a b : R) (s : Str) : Matches (mkAlt a b) s ↔ Matches (.alt a b) s := by
  unfold mkAlt
  split
  · simp [matches_alt, matches_empty]
  · simp [matches_alt, matches_empty]
  · split
    · rename_i h; subst h; simp [matches_alt]
    · rfl

theorem simp_iff (r : R) : ∀ s, Matches r.simp s ↔ Matches r s := by
  induction r with
  | cat a b iha ihb =>
    intro s
    simp only [R.simp, matches_mkCat, matches_cat]
    constructor
    · rintro ⟨s1, s2, rfl, h1, h2⟩; exact ⟨s1, s2, rfl, (iha s1).mp h1, (ihb s2).mp h2⟩
    · rintro ⟨s1, s2, rfl, h1, h2⟩; exact ⟨s1, s2, rfl, (iha s1).mpr h1, (ihb s2).mpr h2⟩
  | alt a b iha ihb =>
    intro s
    simp only [R.simp, matches_mkAlt, matches_alt, iha, ihb]
  | _ => intro s; rfl

/-- the derivative matcher decides the language: `re.fullmatch` -/
theorem fullmatch_iff (r : R) (s : Str) : r.fullmatch s = true ↔ Matches r s := by
  induction s generalizing r with
  | nil => simp only [R.fullmatch]; exact nullable_iff r
  | cons c cs ih =>
    simp only [R.fullmatch]
    rw [ih, simp_iff, deriv_iff]

/-- `re.match`: some prefix is in the language -/
theorem prefixmatch_iff (r : R) (s : Str) :
    r.prefixmatch s = true ↔ ∃ s1 s2, s = s1 ++ s2 ∧ Matches r s1 := by
  induction s generalizing r with
  | nil =>
    simp only [R.prefixmatch, nullable_iff]
    constructor
    · intro h; exact ⟨[], [], rfl, h⟩
    · rintro ⟨s1, s2, h, hm⟩
      have := List.append_eq_nil_iff.mp h.symm
      rw [this.1] at hm; exact hm
  | cons c cs ih =>
    simp only [R.prefixmatch, Bool.or_eq_true, nullable_iff, ih]
    constructor
    · rintro (h | ⟨s1, s2, rfl, hm⟩)
      · exact ⟨[], c :: cs, rfl, h⟩
      · exact ⟨c :: s1, s2, rfl, (deriv_iff r c s1).mp ((simp_iff _ s1).mp hm)⟩
    · rintro ⟨s1, s2, h, hm⟩
      cases s1 with
      | nil => exact Or.inl hm
      | cons x xs =>
        simp only [List.cons_append, List.cons.injEq] at h
        obtain ⟨rfl, rfl⟩ := h
        exact Or.inr ⟨xs, s2, rfl, (simp_iff _ xs).mpr ((deriv_iff r c xs).mpr hm)⟩

@[simp] theorem ok_bind {ε α β} (a : α) (f : α → Except ε β) : (Except.ok a >>= f) = f a := rfl
@[simp] theorem error_bind {ε α β} (e : ε) (f : α → Except ε β) : (Except.error e >>= f) = Except.error e := rfl

/-! ### literal patterns -/

/-- characters the regular expression parser treats specially outside sets -/
def parserSpecial (c : Nat) : Bool :=
  c == 92 || c == 46 || c == 42 || c == 40 || c == 124 || c == 41 || c == 91 || c == 63 || c == 43 ||
  c == 123 || c == 125 || c == 94 || c == 36

/-- a character that no rewrite key starts with and the parser reads as itself -/
def plainChar (c : Nat) : Bool :=
  (rewriteTable.all fun p => p.1.head? != some c) && !parserSpecial c

theorem firstKey_none (tbl : List (Str × Str)) (c : Nat) (cs : Str)
    (h : tbl.all (fun p => p.1.head? != some c) = true) : firstKey tbl (c :: cs) = none := by
  induction tbl with
  | nil => rfl
  | cons p tbl ih =>
    obtain ⟨k, rep⟩ := p
    simp only [List.all_cons, Bool.and_eq_true] at h
    unfold firstKey
    cases k with
    | nil => simpa using ih h.2
    | cons k0 ks =>
      have hk : k0 ≠ c := by simpa using h.1
      simp only [stripPrefix, hk, if_false]
      exact ih h.2

theorem rewriteGo_plain (tbl : List (Str × Str)) : ∀ (s : Str),
    (∀ c ∈ s, tbl.all (fun p => p.1.head? != some c) = true) → rewriteGo tbl 0 s = s
  | [], _ => rfl
  | c :: cs, h => by
    simp only [rewriteGo, firstKey_none tbl c cs (h c List.mem_cons_self)]
    rw [rewriteGo_plain tbl cs fun x hx => h x (List.mem_cons_of_mem _ hx)]

theorem pstep_plain (stack : List Frame) (c : Nat) (h : parserSpecial c = false) :
    pstep ⟨stack, .top⟩ c = .ok ⟨pushItem (.chr c) stack, .top⟩ := by
  simp only [parserSpecial, Bool.or_eq_false_iff, beq_eq_false_iff_ne] at h
  obtain ⟨⟨⟨⟨⟨⟨⟨⟨⟨⟨⟨⟨h1, h2⟩, h3⟩, h4⟩, h5⟩, h6⟩, h7⟩, h8⟩, h9⟩, h10⟩, h11⟩, h12⟩, h13⟩ := h
  simp [pstep, h1, h2, h3, h4, h5, h6, h7, h8, h9, h10, h11, h12, h13]

theorem prun_plain : ∀ (s : Str) (f : Frame) (fs : List Frame), (∀ c ∈ s, parserSpecial c = false) →
    prun ⟨f :: fs, .top⟩ s = .ok ⟨{ f with cur := f.cur ++ s.map R.chr } :: fs, .top⟩
  | [], f, fs, _ => by simp [prun]
  | c :: cs, f, fs, h => by
    simp only [prun, pstep_plain _ c (h c List.mem_cons_self), pushItem]
    have := prun_plain cs { f with cur := f.cur ++ [R.chr c] } fs fun x hx => h x (List.mem_cons_of_mem _ hx)
    simp only [ok_bind]
    rw [this]
    simp [List.append_assoc]

theorem matches_seqOf_chr : ∀ (p a : Str), Matches (seqOf (p.map R.chr)) a ↔ a = p
  | [], a => by simp [seqOf, matches_eps]
  | [c], a => by
    simp only [List.map, seqOf]
    constructor
    · intro h; cases h; rfl
    · rintro rfl; exact .chr c
  | c :: d :: rest, a => by
    simp only [List.map, seqOf]
    rw [matches_cat]
    have ih := matches_seqOf_chr (d :: rest)
    simp only [List.map] at ih
    constructor
    · rintro ⟨s1, s2, rfl, h1, h2⟩
      cases h1
      rw [(ih s2).mp h2]
      rfl
    · rintro rfl
      exact ⟨[c], d :: rest, rfl, .chr c, (ih _).mpr rfl⟩

theorem reParse_plain (p : Str) (h : ∀ c ∈ p, parserSpecial c = false) :
    reParse p = .ok (seqOf (p.map R.chr)) := by
  unfold reParse PState.init
  have := prun_plain p ⟨[], []⟩ [] h
  simp only [List.nil_append] at this
  rw [this]
  simp [pfinish, Frame.close, altOf]

/-! ### registries -/

theorem sysAdd_keys (a args : Nat) (r : SysReg) :
    (sysAdd a args r).map (·.1) = if (r.map (·.1)).contains a then r.map (·.1) else r.map (·.1) ++ [a] := by
  induction r with
  | nil => simp [sysAdd]
  | cons p rest ih =>
    obtain ⟨b, x⟩ := p
    unfold sysAdd
    by_cases h : b = a
    · subst h; simp
    · have hne : (a == b) = false := by simp; exact fun e => h e.symm
      simp only [h, if_false, List.map_cons, ih, List.contains_cons, hne, Bool.false_or]
      split <;> simp

theorem sysAdd_lookup (a args : Nat) (r : SysReg) (b : Nat) :
    (sysAdd a args r).find? (·.1 == b) = if b = a then some (a, args) else r.find? (·.1 == b) := by
  induction r with
  | nil =>
    by_cases h : b = a
    · subst h; simp [sysAdd]
    · have : (a == b) = false := by simp; exact fun e => h e.symm
      simp [sysAdd, h, this]
  | cons p rest ih =>
    obtain ⟨c, x⟩ := p
    unfold sysAdd
    by_cases hca : c = a
    · subst hca
      by_cases h : b = c
      · subst h; simp
      · have : (c == b) = false := by simp; exact fun e => h e.symm
        simp [h, this]
    · simp only [hca, if_false, List.find?_cons]
      by_cases hcb : c = b
      · subst hcb
        have : ¬ c = a := hca
        simp [this]
      · have : (c == b) = false := by simp; exact hcb
        simp only [this, ih]

theorem find_of_mem_nodup : ∀ (r : SysReg), (r.map (·.1)).Nodup → ∀ p ∈ r, r.find? (·.1 == p.1) = some p
  | [], _, p, hp => by cases hp
  | q :: rest, hnd, p, hp => by
    simp only [List.map_cons, List.nodup_cons] at hnd
    rcases List.mem_cons.mp hp with rfl | hp
    · simp
    · have hne : q.1 ≠ p.1 := fun e => hnd.1 (e ▸ List.mem_map_of_mem hp)
      have : (q.1 == p.1) = false := by simp [hne]
      simp only [List.find?_cons, this]
      exact find_of_mem_nodup rest hnd.2 p hp

theorem sysRunKeys_plain (r : SysReg) : ∀ (ks : SysReg), (∀ p ∈ ks, r.find? (·.1 == p.1) = some p) →
    sysRunKeys (fun _ => []) r (ks.map (·.1)) = (r, ks)
  | [], _ => rfl
  | p :: ks, h => by
    have hp := h p List.mem_cons_self
    simp only [List.map_cons, sysRunKeys, hp, sysApplyAll]
    rw [sysRunKeys_plain r ks fun q hq => h q (List.mem_cons_of_mem _ hq)]

/-- with actions that leave the registry alone, `run` executes exactly the registered actions, each
    once, in registration order, with their current arguments, and changes nothing -/
theorem sysRun_plain (r : SysReg) (hnd : (r.map (·.1)).Nodup) :
    sysRun (fun _ => []) r = (r, r) := by
  unfold sysRun
  exact sysRunKeys_plain r r (find_of_mem_nodup r hnd)

/-- `remove` really removes: the action is no longer registered and a later `run` (by actions that
    do not re-add it) does not execute it -/
theorem sys_remove_removes (r : SysReg) (a : Nat) :
    a ∉ (sysApply r (.remove a)).map (·.1) := by
  simp [sysApply]

theorem sysRunKeys_only_registered (beh : Nat → List SysOp) : ∀ (ks : List Nat) (r : SysReg) (x : Nat × Nat),
    x ∈ (sysRunKeys beh r ks).2 → x.1 ∈ ks
  | [], r, x, h => by simp [sysRunKeys] at h
  | a :: ks, r, x, h => by
    simp only [sysRunKeys] at h
    split at h
    · simp only [List.mem_cons] at h
      rcases h with rfl | h
      · simp
      · exact List.mem_cons_of_mem _ (sysRunKeys_only_registered beh ks _ x h)
    · exact List.mem_cons_of_mem _ (sysRunKeys_only_registered beh ks _ x h)

/-- whatever the actions do to the registry while it runs: only actions registered when `run`
    started are executed, in registration order (a subsequence of the snapshot) -/
theorem sysRun_subsequence (beh : Nat → List SysOp) (r : SysReg) :
    ((sysRun beh r).2.map (·.1)).Sublist (r.map (·.1)) := by
  unfold sysRun
  generalize r.map (·.1) = ks
  induction ks generalizing r with
  | nil => simp [sysRunKeys]
  | cons a ks ih =>
    simp only [sysRunKeys]
    split
    · simp only [List.map_cons]
      exact List.Sublist.cons_cons _ (ih _)
    · exact List.Sublist.cons _ (ih _)

/-- `ServerAction.remove` removes (repair D4) and `run` executes the server's, then (for the default
    server) the `'default'`, then the `'all'` actions, each group in registration order -/
theorem srvRemove_removes (r : SrvReg) (srv a : Nat) :
    a ∉ (srvLookup srv (srvRemove srv a r)).map (·.1) := by
  unfold srvLookup
  induction r with
  | nil => simp [srvRemove]
  | cons p rest ih =>
    simp only [srvRemove, List.map_cons, List.find?_cons]
    by_cases h : p.1 = srv
    · simp [h]
    · have : (p.1 == srv) = false := by simp [h]
      simp only [h, if_false, this]
      exact ih

theorem srvRun_eq (r : SrvReg) (srv : Nat) (isDefault : Bool) :
    srvRun r srv isDefault = srvLookup srv r ++ (if isDefault then srvLookup 0 r else []) ++ srvLookup 1 r := rfl

/-- `NotificationCenter.notify` calls every registered listener once, in registration order, and
    one-shot registrations are gone afterwards -/
theorem notNotify_spec (r : NotReg) :
    (notNotify r).2 = r.map (fun p => (p.2.1, p.1)) ∧ (notNotify r).1 = r.filter (fun p => !p.2.2) := ⟨rfl, rfl⟩

end Sc3Verif.C18
