/-
C18 — helper lemmas.
-/
import Sc3Verif.C18.Spec
namespace Sc3Verif.C18

/-! ### derivatives -/

theorem matches_eps {s : Str} : Matches .eps s ↔ s = [] := by
  constructor
  · intro h; cases h; rfl
  · rintro rfl; exact .eps

theorem matches_empty {s : Str} : ¬ Matches .empty s := by
  intro h; cases h

theorem matches_alt {a b : R} {s : Str} : Matches (.alt a b) s ↔ Matches a s ∨ Matches b s := by
  constructor
  · intro h; cases h with
    | altL h => exact Or.inl h
    | altR h => exact Or.inr h
  · rintro (h | h)
    · exact .altL h
    · exact .altR h

theorem matches_cat {a b : R} {s : Str} :
    Matches (.cat a b) s ↔ ∃ s1 s2, s = s1 ++ s2 ∧ Matches a s1 ∧ Matches b s2 := by
  constructor
  · intro h; cases h with
    | cat h1 h2 => exact ⟨_, _, rfl, h1, h2⟩
  · rintro ⟨s1, s2, rfl, h1, h2⟩; exact .cat h1 h2

theorem nullable_iff (r : R) : r.nullable = true ↔ Matches r [] := by
  induction r with
  | empty => simp [R.nullable, matches_empty]
  | eps => simp [R.nullable, matches_eps]
  | chr c => simp only [R.nullable]; constructor <;> intro h <;> cases h
  | any => simp only [R.nullable]; constructor <;> intro h <;> cases h
  | cls neg items => simp only [R.nullable]; constructor <;> intro h <;> cases h
  | cat a b iha ihb =>
    simp only [R.nullable, Bool.and_eq_true, iha, ihb, matches_cat]
    constructor
    · rintro ⟨h1, h2⟩; exact ⟨[], [], rfl, h1, h2⟩
    · rintro ⟨s1, s2, h, h1, h2⟩
      have := List.append_eq_nil_iff.mp h.symm
      rw [this.1] at h1; rw [this.2] at h2
      exact ⟨h1, h2⟩
  | alt a b iha ihb => simp only [R.nullable, Bool.or_eq_true, iha, ihb, matches_alt]
  | star a _ => simp only [R.nullable, true_iff]; exact .starNil

theorem star_inv_aux {r : R} {t : Str} (h : Matches r t) :
    ∀ (a : R) (c : Nat) (s : Str), r = .star a → t = c :: s →
      ∃ s1 s2, s = s1 ++ s2 ∧ Matches a (c :: s1) ∧ Matches (.star a) s2 := by
  induction h with
  | eps => intro a c s hr; cases hr
  | chr x => intro a c s hr; cases hr
  | any x hx => intro a c s hr; cases hr
  | cls neg items x hx => intro a c s hr; cases hr
  | cat _ _ _ _ => intro a c s hr; cases hr
  | altL _ _ => intro a c s hr; cases hr
  | altR _ _ => intro a c s hr; cases hr
  | starNil => intro a c s _ hs; cases hs
  | @starCons a' t1 t2 h1 h2 _ ih2 =>
    intro a c s hr hs
    cases hr
    cases t1 with
    | nil => exact ih2 a' c s rfl (by simpa using hs)
    | cons x xs =>
      simp only [List.cons_append, List.cons.injEq] at hs
      obtain ⟨rfl, rfl⟩ := hs
      exact ⟨xs, t2, rfl, h1, h2⟩

/-- a non-empty match of `a*` starts with a non-empty match of `a` -/
theorem star_cons_inv {a : R} {c : Nat} {s : Str} (h : Matches (.star a) (c :: s)) :
    ∃ s1 s2, s = s1 ++ s2 ∧ Matches a (c :: s1) ∧ Matches (.star a) s2 :=
  star_inv_aux h a c s rfl rfl

theorem deriv_iff (r : R) (c : Nat) (s : Str) : Matches (r.deriv c) s ↔ Matches r (c :: s) := by
  induction r generalizing s with
  | empty => simp only [R.deriv]; constructor <;> intro h <;> cases h
  | eps => simp only [R.deriv]; constructor <;> intro h <;> cases h
  | chr x =>
    simp only [R.deriv]
    split
    · rename_i hx; subst hx
      rw [matches_eps]
      constructor
      · rintro rfl; exact .chr x
      · intro h; cases h; rfl
    · rename_i hx
      constructor
      · intro h; cases h
      · intro h; cases h; exact absurd rfl hx
  | any =>
    simp only [R.deriv]
    split
    · rename_i hc; subst hc
      constructor
      · intro h; cases h
      · intro h; cases h with | any _ hne => exact absurd rfl hne
    · rename_i hc
      rw [matches_eps]
      constructor
      · rintro rfl; exact .any c hc
      · intro h; cases h; rfl
  | cls neg items =>
    simp only [R.deriv]
    split
    · rename_i hc
      rw [matches_eps]
      constructor
      · rintro rfl; exact .cls neg items c hc
      · intro h; cases h; rfl
    · rename_i hc
      constructor
      · intro h; cases h
      · intro h; cases h with | cls _ _ _ h' => exact absurd h' hc
  | cat a b iha ihb =>
    have key : Matches (.cat a b) (c :: s) ↔
        (∃ s1 s2, s = s1 ++ s2 ∧ Matches a (c :: s1) ∧ Matches b s2) ∨ (Matches a [] ∧ Matches b (c :: s)) := by
      rw [matches_cat]
      constructor
      · rintro ⟨s1, s2, h, h1, h2⟩
        cases s1 with
        | nil => simp at h; subst h; exact Or.inr ⟨h1, h2⟩
        | cons x xs =>
          simp only [List.cons_append, List.cons.injEq] at h
          obtain ⟨rfl, rfl⟩ := h
          exact Or.inl ⟨xs, s2, rfl, h1, h2⟩
      · rintro (⟨s1, s2, rfl, h1, h2⟩ | ⟨h1, h2⟩)
        · exact ⟨c :: s1, s2, rfl, h1, h2⟩
        · exact ⟨[], c :: s, rfl, h1, h2⟩
    rw [key]
    simp only [R.deriv]
    split
    · rename_i hn
      rw [matches_alt, matches_cat, ihb]
      constructor
      · rintro (⟨s1, s2, rfl, h1, h2⟩ | h)
        · exact Or.inl ⟨s1, s2, rfl, (iha s1).mp h1, h2⟩
        · exact Or.inr ⟨(nullable_iff a).mp hn, h⟩
      · rintro (⟨s1, s2, rfl, h1, h2⟩ | ⟨_, h⟩)
        · exact Or.inl ⟨s1, s2, rfl, (iha s1).mpr h1, h2⟩
        · exact Or.inr h
    · rename_i hn
      rw [matches_cat]
      constructor
      · rintro ⟨s1, s2, rfl, h1, h2⟩
        exact Or.inl ⟨s1, s2, rfl, (iha s1).mp h1, h2⟩
      · rintro (⟨s1, s2, rfl, h1, h2⟩ | ⟨h1, _⟩)
        · exact ⟨s1, s2, rfl, (iha s1).mpr h1, h2⟩
        · exact absurd ((nullable_iff a).mpr h1) hn
  | alt a b iha ihb =>
    simp only [R.deriv, matches_alt, iha, ihb]
  | star a iha =>
    simp only [R.deriv]
    rw [matches_cat]
    constructor
    · rintro ⟨s1, s2, rfl, h1, h2⟩
      exact .starCons ((iha s1).mp h1) h2
    · intro h
      obtain ⟨s1, s2, rfl, h1, h2⟩ := star_cons_inv h
      exact ⟨s1, s2, rfl, (iha s1).mpr h1, h2⟩

theorem matches_mkCat (a b : R) (s : Str) : Matches (mkCat a b) s ↔ Matches (.cat a b) s := by
  unfold mkCat
  split
  · simp [matches_cat, matches_empty]
  · simp [matches_cat, matches_empty]
  · rw [matches_cat]
    constructor
    · intro h; exact ⟨[], s, rfl, .eps, h⟩
    · rintro ⟨s1, s2, rfl, h1, h2⟩; cases h1; simpa using h2
  · rw [matches_cat]
    constructor
    · intro h; exact ⟨s, [], by simp, h, .eps⟩
    · rintro ⟨s1, s2, rfl, h1, h2⟩; cases h2; simpa using h1
  · rfl

theorem matches_mkAlt (a b : R) (s : Str) : Matches (mkAlt a b) s ↔ Matches (.alt a b) s := by
  unfold mkAlt
  split
  · simp [matches_alt, matches_empty]
  · simp [matches_alt, matches_empty]
  · split
    · rename_i h; subst h; simp [matches_alt]
    · rfl

theorem simp_iff (r : R) : ∀ s, Matches r.simp s ↔ Matches r s := by
  induction r with
  | cat a b iha ihb =>
    intro s
    simp only [R.simp, matches_mkCat, matches_cat]
    constructor
    · rintro ⟨s1, s2, rfl, h1, h2⟩; exact ⟨s1, s2, rfl, (iha s1).mp h1, (ihb s2).mp h2⟩
    · rintro ⟨s1, s2, rfl, h1, h2⟩; exact ⟨s1, s2, rfl, (iha s1).mpr h1, (ihb s2).mpr h2⟩
  | alt a b iha ihb =>
    intro s
    simp only [R.simp, matches_mkAlt, matches_alt, iha, ihb]
  | _ => intro s; rfl

/-- the derivative matcher decides the language: `re.fullmatch` -/
theorem fullmatch_iff (r : R) (s : Str) : r.fullmatch s = true ↔ Matches r s := by
  induction s generalizing r with
  | nil => simp only [R.fullmatch]; exact nullable_iff r
  | cons c cs ih =>
    simp only [R.fullmatch]
    rw [ih, simp_iff, deriv_iff]

/-- `re.match`: some prefix is in the language -/
theorem prefixmatch_iff (r : R) (s : Str) :
    r.prefixmatch s = true ↔ ∃ s1 s2, s = s1 ++ s2 ∧ Matches r s1 := by
  induction s generalizing r with
  | nil =>
    simp only [R.prefixmatch, nullable_iff]
    constructor
    · intro h; exact ⟨[], [], rfl, h⟩
    · rintro ⟨s1, s2, h, hm⟩
      have := List.append_eq_nil_iff.mp h.symm
      rw [this.1] at hm; exact hm
  | cons c cs ih =>
    simp only [R.prefixmatch, Bool.or_eq_true, nullable_iff, ih]
    constructor
    · rintro (h | ⟨s1, s2, rfl, hm⟩)
      · exact ⟨[], c :: cs, rfl, h⟩
      · exact ⟨c :: s1, s2, rfl, (deriv_iff r c s1).mp ((simp_iff _ s1).mp hm)⟩
    · rintro ⟨s1, s2, h, hm⟩
      cases s1 with
      | nil => exact Or.inl hm
      | cons x xs =>
        simp only [List.cons_append, List.cons.injEq] at h
        obtain ⟨rfl, rfl⟩ := h
        exact Or.inr ⟨xs, s2, rfl, (simp_iff _ xs).mpr ((deriv_iff r c xs).mpr hm)⟩

@[simp] theorem ok_bind {ε α β} (a : α) (f : α → Except ε β) : (Except.ok a >>= f) = f a := rfl
@[simp] theorem error_bind {ε α β} (e : ε) (f : α → Except ε β) : (Except.error e >>= f) = Except.error e := rfl

/-! ### literal patterns -/

theorem firstKey_none (tbl : List (Str × Str)) (c : Nat) (cs : Str)
    (h : tbl.all (fun p => p.1.head? != some c) = true) : firstKey tbl (c :: cs) = none := by
  induction tbl with
  | nil => rfl
  | cons p tbl ih =>
    obtain ⟨k, rep⟩ := p
    simp only [List.all_cons, Bool.and_eq_true] at h
    unfold firstKey
    cases k with
    | nil => simpa using ih h.2
    | cons k0 ks =>
      have hk : k0 ≠ c := by simpa using h.1
      simp only [stripPrefix, hk, if_false]
      exact ih h.2

theorem rewriteGo_plain (tbl : List (Str × Str)) : ∀ (s : Str),
    (∀ c ∈ s, tbl.all (fun p => p.1.head? != some c) = true) → rewriteGo tbl 0 s = s
  | [], _ => rfl
  | c :: cs, h => by
    simp only [rewriteGo, firstKey_none tbl c cs (h c List.mem_cons_self)]
    rw [rewriteGo_plain tbl cs fun x hx => h x (List.mem_cons_of_mem _ hx)]

theorem pstep_plain (stack : List Frame) (c : Nat) (h : parserSpecial c = false) :
    pstep ⟨stack, .top⟩ c = .ok ⟨pushItem (.chr c) stack, .top⟩ := by
  simp only [parserSpecial, Bool.or_eq_false_iff, beq_eq_false_iff_ne] at h
  obtain ⟨⟨⟨⟨⟨⟨⟨⟨⟨⟨⟨⟨h1, h2⟩, h3⟩, h4⟩, h5⟩, h6⟩, h7⟩, h8⟩, h9⟩, h10⟩, h11⟩, h12⟩, h13⟩ := h
  simp [pstep, h1, h2, h3, h4, h5, h6, h7, h8, h9, h10, h11, h12, h13]

theorem prun_plain : ∀ (s : Str) (f : Frame) (fs : List Frame), (∀ c ∈ s, parserSpecial c = false) →
    prun ⟨f :: fs, .top⟩ s = .ok ⟨{ f with cur := f.cur ++ s.map R.chr } :: fs, .top⟩
  | [], f, fs, _ => by simp [prun]
  | c :: cs, f, fs, h => by
    simp only [prun, pstep_plain _ c (h c List.mem_cons_self), pushItem]
    have := prun_plain cs { f with cur := f.cur ++ [R.chr c] } fs fun x hx => h x (List.mem_cons_of_mem _ hx)
    simp only [ok_bind]
    rw [this]
    simp [List.append_assoc]

theorem matches_seqOf_chr : ∀ (p a : Str), Matches (seqOf (p.map R.chr)) a ↔ a = p
  | [], a => by simp [seqOf, matches_eps]
  | [c], a => by
    simp only [List.map, seqOf]
    constructor
    · intro h; cases h; rfl
    · rintro rfl; exact .chr c
  | c :: d :: rest, a => by
    simp only [List.map, seqOf]
    rw [matches_cat]
    have ih := matches_seqOf_chr (d :: rest)
    simp only [List.map] at ih
    constructor
    · rintro ⟨s1, s2, rfl, h1, h2⟩
      cases h1
      rw [(ih s2).mp h2]
      rfl
    · rintro rfl
      exact ⟨[c], d :: rest, rfl, .chr c, (ih _).mpr rfl⟩

theorem reParse_plain (p : Str) (h : ∀ c ∈ p, parserSpecial c = false) :
    reParse p = .ok (seqOf (p.map R.chr)) := by
  unfold reParse PState.init
  have := prun_plain p ⟨[], []⟩ [] h
  simp only [List.nil_append] at this
  rw [this]
  simp [pfinish, Frame.close, altOf]

/-! ### registries -/

theorem sysAdd_keys (a args : Nat) (r : SysReg) :
    (sysAdd a args r).map (·.1) = if (r.map (·.1)).contains a then r.map (·.1) else r.map (·.1) ++ [a] := by
  induction r with
  | nil => simp [sysAdd]
  | cons p rest ih =>
    obtain ⟨b, x⟩ := p
    unfold sysAdd
    by_cases h : b = a
    · subst h; simp
    · have hne : (a == b) = false := by simp; exact fun e => h e.symm
      simp only [h, if_false, List.map_cons, ih, List.contains_cons, hne, Bool.false_or]
      split <;> simp

theorem sysAdd_lookup (a args : Nat) (r : SysReg) (b : Nat) :
    (sysAdd a args r).find? (·.1 == b) = if b = a then some (a, args) else r.find? (·.1 == b) := by
  induction r with
  | nil =>
    by_cases h : b = a
    · subst h; simp [sysAdd]
    · have : (a == b) = false := by simp; exact fun e => h e.symm
      simp [sysAdd, h, this]
  | cons p rest ih =>
    obtain ⟨c, x⟩ := p
    unfold sysAdd
    by_cases hca : c = a
    · subst hca
      by_cases h : b = c
      · subst h; simp
      · have : (c == b) = false := by simp; exact fun e => h e.symm
        simp [h, this]
    · simp only [hca, if_false, List.find?_cons]
      by_cases hcb : c = b
      · subst hcb
        have : ¬ c = a := hca
        simp [this]
      · have : (c == b) = false := by simp; exact hcb
        simp only [this, ih]

theorem find_of_mem_nodup : ∀ (r : SysReg), (r.map (·.1)).Nodup → ∀ p ∈ r, r.find? (·.1 == p.1) = some p
  | [], _, p, hp => by cases hp
  | q :: rest, hnd, p, hp => by
    simp only [List.map_cons, List.nodup_cons] at hnd
    rcases List.mem_cons.mp hp with rfl | hp
    · simp
    · have hne : q.1 ≠ p.1 := fun e => hnd.1 (e ▸ List.mem_map_of_mem hp)
      have : (q.1 == p.1) = false := by simp [hne]
      simp only [List.find?_cons, this]
      exact find_of_mem_nodup rest hnd.2 p hp

theorem sysRunKeys_plain (r : SysReg) : ∀ (ks : SysReg), (∀ p ∈ ks, r.find? (·.1 == p.1) = some p) →
    sysRunKeys (fun _ => []) r (ks.map (·.1)) = (r, ks)
  | [], _ => rfl
  | p :: ks, h => by
    have hp := h p List.mem_cons_self
    simp only [List.map_cons, sysRunKeys, hp, sysApplyAll]
    rw [sysRunKeys_plain r ks fun q hq => h q (List.mem_cons_of_mem _ hq)]

/-- with actions that leave the registry alone, `run` executes exactly the registered actions, each
    once, in registration order, with their current arguments, and changes nothing -/
theorem sysRun_plain (r : SysReg) (hnd : (r.map (·.1)).Nodup) :
    sysRun (fun _ => []) r = (r, r) := by
  unfold sysRun
  exact sysRunKeys_plain r r (find_of_mem_nodup r hnd)

theorem find_filter_ne (r : SysReg) (a b : Nat) (h : a ≠ b) :
    (r.filter (·.1 != a)).find? (·.1 == b) = r.find? (·.1 == b) := by
  induction r with
  | nil => rfl
  | cons p rest ih =>
    by_cases hp : p.1 = a
    · have hpb : (p.1 == b) = false := by rw [hp]; simpa using h
      have hpa : (p.1 != a) = false := by simp [hp]
      rw [List.filter_cons, hpa, List.find?_cons, hpb]
      simpa using ih
    · have hpa : (p.1 != a) = true := by simpa using hp
      simp only [List.filter_cons, hpa, if_true, List.find?_cons, ih]

theorem sysRunKeys_once (once : Nat → Bool) : ∀ (ks r : SysReg), (ks.map (·.1)).Nodup →
    (∀ p ∈ ks, r.find? (·.1 == p.1) = some p) →
    sysRunKeys (onceBeh once) r (ks.map (·.1))
      = (r.filter (fun q => !(once q.1 && (ks.map (·.1)).contains q.1)), ks)
  | [], r, _, _ => by
    simp only [List.map_nil, sysRunKeys, List.contains_nil, Bool.and_false, Bool.not_false]
    congr 1
    exact (List.filter_eq_self.mpr fun _ _ => rfl).symm
  | p :: ks, r, hnd, h => by
    have hp := h p List.mem_cons_self
    rw [List.map_cons, List.nodup_cons] at hnd
    have hne : ∀ q ∈ ks, p.1 ≠ q.1 := fun q hq e => hnd.1 (e ▸ List.mem_map_of_mem hq)
    simp only [List.map_cons, sysRunKeys, hp]
    cases ho : once p.1
    · have hb : onceBeh once p.1 = [] := by simp [onceBeh, ho]
      rw [hb]; simp only [sysApplyAll]
      rw [sysRunKeys_once once ks r hnd.2 fun q hq => h q (List.mem_cons_of_mem _ hq)]
      congr 1
      apply List.filter_congr
      intro q _
      by_cases e : q.1 = p.1
      · simp [e, ho]
      · have : (q.1 == p.1) = false := by simpa using e
        simp [List.contains_cons, this]
    · have hb : onceBeh once p.1 = [.remove p.1] := by simp [onceBeh, ho]
      rw [hb]; simp only [sysApplyAll, sysApply]
      rw [sysRunKeys_once once ks _ hnd.2 fun q hq => by
        rw [find_filter_ne r p.1 q.1 (hne q hq)]; exact h q (List.mem_cons_of_mem _ hq)]
      congr 1
      rw [List.filter_filter]
      apply List.filter_congr
      intro q _
      by_cases e : q.1 = p.1
      · simp [e, ho]
      · have : (q.1 == p.1) = false := by simpa using e
        have e' : (q.1 != p.1) = true := by simpa using e
        simp [List.contains_cons, this, e']

theorem sysRun_once (once : Nat → Bool) (r : SysReg) (hnd : (r.map (·.1)).Nodup) :
    sysRun (onceBeh once) r = (r.filter (fun q => !once q.1), r) := by
  unfold sysRun
  rw [sysRunKeys_once once r r hnd (find_of_mem_nodup r hnd)]
  congr 1
  apply List.filter_congr
  intro q hq
  have : (r.map (·.1)).contains q.1 = true := by
    simp only [List.contains_eq_mem, decide_eq_true_eq]; exact List.mem_map_of_mem hq
  show (!(once q.1 && (r.map (·.1)).contains q.1)) = !once q.1
  rw [this, Bool.and_true]

/-- `remove` really removes: the action is no longer registered and a later `run` (by actions that
    do not re-add it) does not execute it -/
theorem sys_remove_removes (r : SysReg) (a : Nat) :
    a ∉ (sysApply r (.remove a)).map (·.1) := by
  simp [sysApply]

theorem sysRunKeys_only_registered (beh : Nat → List SysOp) : ∀ (ks : List Nat) (r : SysReg) (x : Nat × Nat),
    x ∈ (sysRunKeys beh r ks).2 → x.1 ∈ ks
  | [], r, x, h => by simp [sysRunKeys] at h
  | a :: ks, r, x, h => by
    simp only [sysRunKeys] at h
    split at h
    · simp only [List.mem_cons] at h
      rcases h with rfl | h
      · simp
      · exact List.mem_cons_of_mem _ (sysRunKeys_only_registered beh ks _ x h)
    · exact List.mem_cons_of_mem _ (sysRunKeys_only_registered beh ks _ x h)

/-- whatever the actions do to the registry while it runs: only actions registered when `run`
    started are executed, in registration order (a subsequence of the snapshot) -/
theorem sysRun_subsequence (beh : Nat → List SysOp) (r : SysReg) :
    ((sysRun beh r).2.map (·.1)).Sublist (r.map (·.1)) := by
  unfold sysRun
  generalize r.map (·.1) = ks
  induction ks generalizing r with
  | nil => simp [sysRunKeys]
  | cons a ks ih =>
    simp only [sysRunKeys]
    split
    · simp only [List.map_cons]
      exact List.Sublist.cons_cons _ (ih _)
    · exact List.Sublist.cons _ (ih _)

/-- `ServerAction.remove` removes (repair D4) and `run` executes the server's, then (for the default
    server) the `'default'`, then the `'all'` actions, each group in registration order -/
theorem srvRemove_removes (r : SrvReg) (srv a : Nat) :
    a ∉ (srvLookup srv (srvRemove srv a r)).map (·.1) := by
  unfold srvLookup
  induction r with
  | nil => simp [srvRemove]
  | cons p rest ih =>
    simp only [srvRemove, List.map_cons, List.find?_cons]
    by_cases h : p.1 = srv
    · simp [h]
    · have : (p.1 == srv) = false := by simp [h]
      simp only [h, if_false, this]
      exact ih

theorem srvRun_eq (r : SrvReg) (srv : Nat) (isDefault : Bool) :
    srvRun r srv isDefault = srvLookup srv r ++ (if isDefault then srvLookup 0 r else []) ++ srvLookup 1 r := rfl

/-- `NotificationCenter.notify` calls every registered listener once, in registration order, and
    one-shot registrations are gone afterwards -/
theorem notNotify_spec (r : NotReg) :
    (notNotify r).2 = r.map (fun p => (p.2.1, p.1)) ∧ (notNotify r).1 = r.filter (fun p => !p.2.2) := ⟨rfl, rfl⟩

/-! ### the ordered dict `active` -/

abbrev Active := List (Str × List Entry)

def akeys (act : Active) : List Str := act.map (·.1)
def aentries (act : Active) : List Entry := act.flatMap (·.2)

theorem lookupKey_of_not_mem (key : Str) : ∀ (act : Active), key ∉ akeys act → lookupKey key act = []
  | [], _ => rfl
  | (k, es) :: rest, h => by
    simp only [akeys, List.map_cons, List.mem_cons, not_or] at h
    have hk : ¬ k = key := fun e => h.1 e.symm
    simp only [lookupKey, hk, if_false]
    exact lookupKey_of_not_mem key rest h.2

theorem akeys_activeAppend (key : Str) (e : Entry) : ∀ (act : Active),
    akeys (activeAppend key e act) = if key ∈ akeys act then akeys act else akeys act ++ [key]
  | [] => by simp [activeAppend, akeys]
  | (k, es) :: rest => by
    unfold activeAppend
    by_cases h : k = key
    · subst h; simp [akeys]
    · have ih := akeys_activeAppend key e rest
      have hne : ¬ key = k := fun e => h e.symm
      simp only [h, if_false, akeys, List.map_cons, List.mem_cons, hne, false_or] at ih ⊢
      rw [ih]
      split <;> simp_all

theorem lookupKey_activeAppend (key : Str) (e : Entry) (key' : Str) : ∀ (act : Active),
    lookupKey key' (activeAppend key e act) = if key' = key then lookupKey key' act ++ [e] else lookupKey key' act
  | [] => by
    by_cases h : key' = key
    · subst h; simp [activeAppend, lookupKey]
    · have : ¬ key = key' := fun e => h e.symm
      simp [activeAppend, lookupKey, h, this]
  | (k, es) :: rest => by
    unfold activeAppend
    by_cases hk : k = key
    · subst hk
      by_cases h : key' = k
      · subst h; simp [lookupKey]
      · have : ¬ k = key' := fun e => h e.symm
        simp [lookupKey, h, this]
    · simp only [hk, if_false, lookupKey]
      by_cases h : k = key'
      · subst h
        have : ¬ k = key := hk
        simp [this]
      · simp only [h, if_false]
        exact lookupKey_activeAppend key e key' rest

theorem aentries_activeAppend (key : Str) (e : Entry) : ∀ (act : Active),
    (aentries (activeAppend key e act)).Perm (e :: aentries act)
  | [] => by simp [activeAppend, aentries]
  | (k, es) :: rest => by
    unfold activeAppend
    by_cases hk : k = key
    · subst hk
      simp only [if_true, aentries, List.flatMap_cons, List.append_assoc]
      have : (es ++ [e] ++ rest.flatMap (·.2)).Perm (e :: (es ++ rest.flatMap (·.2))) := by
        rw [List.append_assoc]
        exact (List.perm_middle (l₁ := es) (a := e) (l₂ := rest.flatMap (·.2)))
      simpa [List.append_assoc] using this
    · simp only [hk, if_false, aentries, List.flatMap_cons]
      have ih := aentries_activeAppend key e rest
      simp only [aentries] at ih
      exact (List.Perm.append_left es ih).trans (List.perm_middle (l₁ := es) (a := e) (l₂ := rest.flatMap (·.2)))

/-- removing the entry with identity `i` from a list in which identities are distinct -/
theorem removeFirst_eq_filter (i : Ident) : ∀ (es : List Entry), (es.map Entry.ident).Nodup →
    removeFirst i es = es.filter (fun e => e.ident != i)
  | [], _ => rfl
  | e :: es, h => by
    simp only [List.map_cons, List.nodup_cons] at h
    unfold removeFirst
    by_cases he : e.ident = i
    · subst he
      simp only [if_true, List.filter_cons, bne_self_eq_false, Bool.false_eq_true, if_false]
      symm
      rw [List.filter_eq_self]
      intro x hx
      have : x.ident ≠ e.ident := fun e' => h.1 (e' ▸ List.mem_map_of_mem hx)
      simpa using this
    · have : (e.ident != i) = true := by simpa using he
      simp only [he, if_false, List.filter_cons, this, if_true]
      rw [removeFirst_eq_filter i es h.2]

theorem replaceFirst_eq_map (i : Ident) (new : Entry) : ∀ (es : List Entry), (es.map Entry.ident).Nodup →
    replaceFirst i new es = es.map (fun e => if e.ident = i then new else e)
  | [], _ => rfl
  | e :: es, h => by
    simp only [List.map_cons, List.nodup_cons] at h
    unfold replaceFirst
    by_cases he : e.ident = i
    · subst he
      simp only [if_true, List.map_cons, List.cons.injEq, true_and]
      symm
      have : ∀ x ∈ es, (if x.ident = e.ident then new else x) = x := by
        intro x hx
        have : x.ident ≠ e.ident := fun e' => h.1 (e' ▸ List.mem_map_of_mem hx)
        simp [this]
      rw [List.map_congr_left this]
      simp
    · simp only [he, if_false, List.map_cons]
      rw [replaceFirst_eq_map i new es h.2]

theorem removeFirst_sublist (i : Ident) : ∀ (es : List Entry), (removeFirst i es).Sublist es
  | [] => List.Sublist.refl _
  | e :: es => by
    unfold removeFirst
    split
    · exact List.sublist_cons_self _ _
    · exact List.Sublist.cons_cons _ (removeFirst_sublist i es)

theorem lookupKey_activeRemove (path : Str) (i : Ident) (key : Str) : ∀ (act : Active), (akeys act).Nodup →
    lookupKey key (activeRemove path i act) =
      if key = path then removeFirst i (lookupKey key act) else lookupKey key act
  | [], _ => by simp [activeRemove, lookupKey, removeFirst]
  | (k, es) :: rest, hnd => by
    simp only [akeys, List.map_cons, List.nodup_cons] at hnd
    unfold activeRemove
    by_cases hk : k = path
    · subst hk
      simp only [if_true]
      by_cases h : key = k
      · subst h
        simp only [lookupKey, if_true]
        split
        · rename_i hemp
          rw [lookupKey_of_not_mem key rest hnd.1]
          simpa using hemp
        · simp [lookupKey]
      · have hne : ¬ k = key := fun e => h e.symm
        simp only [h, if_false, lookupKey, hne]
        split
        · rfl
        · simp [lookupKey, hne]
    · simp only [hk, if_false, lookupKey]
      by_cases h : k = key
      · subst h
        have : ¬ k = path := hk
        simp [this]
      · simp only [h, if_false]
        exact lookupKey_activeRemove path i key rest hnd.2

theorem akeys_activeRemove (path : Str) (i : Ident) : ∀ (act : Active), (akeys act).Nodup →
    akeys (activeRemove path i act) =
      if (removeFirst i (lookupKey path act)).isEmpty then (akeys act).filter (· != path) else akeys act
  | [], _ => by simp [activeRemove, akeys, lookupKey, removeFirst]
  | (k, es) :: rest, hnd => by
    simp only [akeys, List.map_cons, List.nodup_cons] at hnd
    unfold activeRemove
    by_cases hk : k = path
    · subst hk
      simp only [if_true, lookupKey]
      have hrest : (rest.map (·.1)).filter (· != k) = rest.map (·.1) := by
        rw [List.filter_eq_self]
        intro x hx
        have : x ≠ k := fun e => hnd.1 (e ▸ hx)
        simpa using this
      split
      · rename_i hemp
        simp [akeys, hemp, hrest]
      · rename_i hemp
        simp [akeys, hemp]
    · have ih := akeys_activeRemove path i rest hnd.2
      have hkp : (k != path) = true := by simpa using hk
      simp only [hk, if_false, akeys, List.map_cons, lookupKey] at ih ⊢
      rw [ih]
      split <;> simp [hkp]

theorem aentries_activeRemove_sublist (path : Str) (i : Ident) : ∀ (act : Active),
    (aentries (activeRemove path i act)).Sublist (aentries act)
  | [] => by simp [activeRemove, aentries]
  | (k, es) :: rest => by
    unfold activeRemove
    by_cases hk : k = path
    · subst hk
      simp only [if_true]
      split
      · simp only [aentries, List.flatMap_cons]
        exact List.sublist_append_right _ _
      · simp only [aentries, List.flatMap_cons]
        exact List.Sublist.append (removeFirst_sublist i es) (List.Sublist.refl _)
    · simp only [hk, if_false, aentries, List.flatMap_cons]
      exact List.Sublist.append (List.Sublist.refl _) (aentries_activeRemove_sublist path i rest)

/-! ### abstraction function and invariant -/

def absFn : Fn → AFn
  | .user fid => .user fid
  | .oneShot _ _ inner => .once (absFn inner)

/-- every one-shot closure inside `f` frees responder `rid` -/
def FnOwned (rid : Nat) : Fn → Prop
  | .user _ => True
  | .oneShot _ r inner => r = rid ∧ FnOwned rid inner

def absResp (r : Resp) : AResp :=
  ⟨r.disp, r.path, r.src, r.port, r.tmpl, absFn r.func, r.permanent, r.enabled⟩

def abs (s : St) : ASt :=
  ⟨s.resps.map (fun p => (p.1, absResp p.2)), s.exact.wrapped.map (·.1), s.pattern.wrapped.map (·.1),
   akeys s.exact.active, akeys s.pattern.active, s.cmdPeriod⟩

def hasPath (s : St) (rid : Nat) (key : Str) : Bool :=
  match lookupResp s rid with
  | some r => r.path == key
  | none => false

def Entry.mid : Entry → Nat
  | .plain _ => 0
  | .matcher mid .. => mid

structure DInv (s : St) (k : DispKind) : Prop where
  wrRids : ((s.disp k).wrapped.map (·.1)).Nodup
  wr : ∀ p ∈ (s.disp k).wrapped, ∃ r mid, lookupResp s p.1 = some r ∧ r.enabled = true ∧ r.disp = k ∧
    p.2 = .matcher mid p.1 r.src r.port r.tmpl r.func
  en : ∀ rid r, lookupResp s rid = some r → r.enabled = true → r.disp = k → rid ∈ (s.disp k).wrapped.map (·.1)
  mids : ((s.disp k).wrapped.map (fun p => p.2.mid)).Nodup
  fresh : ∀ p ∈ (s.disp k).wrapped, p.2.mid < s.nextId
  act : ∀ key, lookupKey key (s.disp k).active = ((s.disp k).wrapped.filter (fun p => hasPath s p.1 key)).map (·.2)
  keys : (akeys (s.disp k).active).Nodup
  nonempty : ∀ p ∈ (s.disp k).active, p.2 ≠ []
  reg : (s.disp k).registered = !(s.disp k).active.isEmpty

structure Inv (s : St) : Prop where
  rids : (s.resps.map (·.1)).Nodup
  own : ∀ rid r, lookupResp s rid = some r → FnOwned rid r.func
  d : ∀ k, DInv s k

theorem alookup_abs (s : St) (rid : Nat) : alookup (abs s) rid = (lookupResp s rid).map absResp := by
  simp only [alookup, abs, lookupResp, List.find?_map, Option.map_map]
  rfl

theorem inv_init : Inv St.init := by
  refine ⟨by simp [St.init], ?_, ?_⟩
  · intro rid r h; simp [lookupResp, St.init] at h
  · intro k
    cases k <;> exact ⟨by simp [St.init, St.disp, Disp.init], by simp [St.init, St.disp, Disp.init],
      by (intro rid r h; simp [lookupResp, St.init] at h), by simp [St.init, St.disp, Disp.init],
      by simp [St.init, St.disp, Disp.init], by (intro key; simp [St.init, St.disp, Disp.init, lookupKey]),
      by simp [St.init, St.disp, Disp.init, akeys], by simp [St.init, St.disp, Disp.init],
      by simp [St.init, St.disp, Disp.init]⟩

theorem abs_init : abs St.init = ASt.init := by
  simp [abs, St.init, ASt.init, Disp.init, akeys]

/-! ### state plumbing -/

theorem disp_setDisp (s : St) (k k' : DispKind) (d : Disp) :
    (s.setDisp k d).disp k' = if k' = k then d else s.disp k' := by
  cases k <;> cases k' <;> simp [St.setDisp, St.disp]

@[simp] theorem resps_setDisp (s : St) (k : DispKind) (d : Disp) : (s.setDisp k d).resps = s.resps := by
  cases k <;> rfl

@[simp] theorem nextId_setDisp (s : St) (k : DispKind) (d : Disp) : (s.setDisp k d).nextId = s.nextId := by
  cases k <;> rfl

@[simp] theorem cmd_setDisp (s : St) (k : DispKind) (d : Disp) : (s.setDisp k d).cmdPeriod = s.cmdPeriod := by
  cases k <;> rfl

theorem lookupResp_congr {s s' : St} (h : s'.resps = s.resps) (rid : Nat) :
    lookupResp s' rid = lookupResp s rid := by simp [lookupResp, h]

theorem lookupResp_setResp (s : St) (rid : Nat) (r' : Resp) (rid' : Nat) :
    lookupResp (setResp s rid r') rid' =
      if rid' = rid then (lookupResp s rid').map (fun _ => r') else lookupResp s rid' := by
  unfold lookupResp setResp
  simp only
  induction s.resps with
  | nil => simp
  | cons p rest ih =>
    simp only [List.map_cons, List.find?_cons]
    by_cases hp : p.1 = rid
    · have h1 : (p.1 == rid) = true := by simpa using hp
      simp only [h1, if_true]
      by_cases h : rid' = rid
      · subst h
        have h2 : (p.1 == rid') = true := h1
        simp [h2]
      · have h2 : (rid == rid') = false := by simpa using fun e => h e.symm
        have h3 : (p.1 == rid') = false := by rw [hp]; exact h2
        simp only [h2, h3, h, if_false]
        simpa [h] using ih
    · have h1 : (p.1 == rid) = false := by simpa using hp
      simp only [h1, Bool.false_eq_true, if_false]
      by_cases h3 : (p.1 == rid') = true
      · have : rid' ≠ rid := fun e => hp (by rw [← e]; simpa using h3)
        simp [h3, this]
      · simp only [h3, Bool.false_eq_true, if_false] at ih ⊢
        exact ih

@[simp] theorem disp_setResp (s : St) (rid : Nat) (r : Resp) (k : DispKind) :
    (setResp s rid r).disp k = s.disp k := by cases k <;> rfl

@[simp] theorem nextId_setResp (s : St) (rid : Nat) (r : Resp) : (setResp s rid r).nextId = s.nextId := rfl
@[simp] theorem cmd_setResp (s : St) (rid : Nat) (r : Resp) : (setResp s rid r).cmdPeriod = s.cmdPeriod := rfl

theorem rids_setResp (s : St) (rid : Nat) (r : Resp) : (setResp s rid r).resps.map (·.1) = s.resps.map (·.1) := by
  simp only [setResp, List.map_map]
  apply List.map_congr_left
  intro p _
  by_cases h : (p.1 == rid) = true
  · have : p.1 = rid := by simpa using h
    simp [Function.comp, h, this]
  · simp [Function.comp, h]

theorem hasPath_congr {s s' : St} {rid : Nat} (h : lookupResp s' rid = lookupResp s rid) (key : Str) :
    hasPath s' rid key = hasPath s rid key := by simp [hasPath, h]

/-- a dispatcher that an operation does not touch keeps its invariant -/
theorem DInv_frame {s s' : St} {k : DispKind} (hd : s'.disp k = s.disp k)
    (hl : ∀ p ∈ (s.disp k).wrapped, lookupResp s' p.1 = lookupResp s p.1)
    (hen : ∀ rid r', lookupResp s' rid = some r' → r'.enabled = true → r'.disp = k →
      rid ∈ (s.disp k).wrapped.map (·.1))
    (hn : s.nextId ≤ s'.nextId) (h : DInv s k) : DInv s' k := by
  refine ⟨by rw [hd]; exact h.wrRids, ?_, ?_, by rw [hd]; exact h.mids, ?_, ?_, by rw [hd]; exact h.keys,
    by rw [hd]; exact h.nonempty, by rw [hd]; exact h.reg⟩
  · intro p hp
    rw [hd] at hp
    obtain ⟨r, mid, h1, h2, h3, h4⟩ := h.wr p hp
    exact ⟨r, mid, by rw [hl p hp]; exact h1, h2, h3, h4⟩
  · intro rid r' h1 h2 h3
    rw [hd]; exact hen rid r' h1 h2 h3
  · intro p hp
    rw [hd] at hp
    exact Nat.lt_of_lt_of_le (h.fresh p hp) hn
  · intro key
    rw [hd, h.act key]
    congr 1
    apply List.filter_congr
    intro p hp
    exact (hasPath_congr (hl p hp) key).symm

/-! ### enable -/

theorem not_in_wrapped_of_disabled {s : St} {k : DispKind} (h : DInv s k) {rid : Nat} {r : Resp}
    (hr : lookupResp s rid = some r) (hen : r.enabled = false) : rid ∉ (s.disp k).wrapped.map (·.1) := by
  intro hm
  obtain ⟨p, hp, rfl⟩ := List.mem_map.mp hm
  obtain ⟨r0, _, h1, h2, _, _⟩ := h.wr p hp
  rw [hr] at h1; cases h1
  rw [hen] at h2; cases h2

theorem filter_ne_of_not_mem {rid : Nat} {wr : List (Nat × Entry)} (h : rid ∉ wr.map (·.1)) :
    wr.filter (fun p => p.1 != rid) = wr := by
  rw [List.filter_eq_self]
  intro p hp
  have : p.1 ≠ rid := fun e => h (e ▸ List.mem_map_of_mem hp)
  simpa using this

/-- the state after `enable` of a disabled responder, in explicit form -/
def enabledState (s : St) (rid : Nat) (r : Resp) : St :=
  let k := r.disp
  let D := s.disp k
  let e := wrapFunc rid r s.nextId
  let D' : Disp := ⟨activeAppend r.path e D.active, D.wrapped ++ [(rid, e)], true⟩
  let s1 : St := if r.permanent then s else { s with cmdPeriod := cmdAdd (.resp rid) s.cmdPeriod }
  setResp { (s1.setDisp k D') with nextId := s.nextId + 1 } rid { r with enabled := true }

theorem enable_eq {s : St} (h : Inv s) {rid : Nat} {r : Resp} (hr : lookupResp s rid = some r)
    (hen : r.enabled = false) : enable s rid = enabledState s rid r := by
  have hnm := not_in_wrapped_of_disabled (h.d r.disp) hr hen
  unfold enable enabledState
  simp only [hr, hen, Bool.false_eq_true, if_false, dispAdd]
  cases hp : r.permanent <;> cases hk : r.disp <;>
    simp_all [St.disp, St.setDisp, filter_ne_of_not_mem]

theorem lookupResp_enabledState (s : St) (rid : Nat) (r : Resp) (hr : lookupResp s rid = some r) (rid' : Nat) :
    lookupResp (enabledState s rid r) rid' =
      if rid' = rid then some { r with enabled := true } else lookupResp s rid' := by
  unfold enabledState
  rw [lookupResp_setResp]
  have : ∀ x, lookupResp ({ ((if r.permanent then s else { s with cmdPeriod := cmdAdd (.resp rid) s.cmdPeriod }).setDisp
      r.disp ⟨activeAppend r.path (wrapFunc rid r s.nextId) (s.disp r.disp).active,
        (s.disp r.disp).wrapped ++ [(rid, wrapFunc rid r s.nextId)], true⟩) with nextId := s.nextId + 1 } : St) x
      = lookupResp s x := by
    intro x
    apply lookupResp_congr
    cases r.permanent <;> simp
  simp only [this]
  by_cases h : rid' = rid
  · subst h; simp [hr]
  · simp [h]

theorem disp_enabledState (s : St) (rid : Nat) (r : Resp) (k : DispKind) :
    (enabledState s rid r).disp k =
      if k = r.disp then ⟨activeAppend r.path (wrapFunc rid r s.nextId) (s.disp r.disp).active,
        (s.disp r.disp).wrapped ++ [(rid, wrapFunc rid r s.nextId)], true⟩ else s.disp k := by
  unfold enabledState
  simp only [disp_setResp]
  have : ∀ (t : St) (n : Nat), ({ t with nextId := n } : St).disp k = t.disp k := by
    intro t n; cases k <;> rfl
  rw [this, disp_setDisp]
  by_cases h : k = r.disp
  · simp [h]
  · simp only [h, if_false]
    cases r.permanent <;> cases k <;> rfl

theorem nextId_enabledState (s : St) (rid : Nat) (r : Resp) : (enabledState s rid r).nextId = s.nextId + 1 := by
  simp [enabledState]

theorem cmd_enabledState (s : St) (rid : Nat) (r : Resp) :
    (enabledState s rid r).cmdPeriod = if r.permanent then s.cmdPeriod else cmdAdd (.resp rid) s.cmdPeriod := by
  unfold enabledState
  cases r.permanent <;> simp

theorem rids_enabledState (s : St) (rid : Nat) (r : Resp) :
    (enabledState s rid r).resps.map (·.1) = s.resps.map (·.1) := by
  unfold enabledState
  rw [rids_setResp]
  cases r.permanent <;> simp

theorem wrapFunc_mid (rid : Nat) (r : Resp) (n : Nat) : (wrapFunc rid r n).mid = n := rfl

theorem inv_enabledState {s : St} (h : Inv s) {rid : Nat} {r : Resp} (hr : lookupResp s rid = some r)
    (hen : r.enabled = false) : Inv (enabledState s rid r) := by
  have hL := lookupResp_enabledState s rid r hr
  have hD := disp_enabledState s rid r
  refine ⟨by rw [rids_enabledState]; exact h.rids, ?_, ?_⟩
  · intro rid' r' h1
    rw [hL] at h1
    by_cases he : rid' = rid
    · subst he
      simp only [if_true] at h1
      cases h1
      exact h.own rid' r hr
    · simp only [he, if_false] at h1
      exact h.own _ _ h1
  · intro k
    by_cases hk : k = r.disp
    · subst hk
      have hd := h.d r.disp
      have hnm := not_in_wrapped_of_disabled hd hr hen
      have hDk := hD r.disp
      simp only [if_true] at hDk
      have hold : ∀ p ∈ (s.disp r.disp).wrapped, p.1 ≠ rid := fun p hp e => hnm (e ▸ List.mem_map_of_mem hp)
      refine ⟨?_, ?_, ?_, ?_, ?_, ?_, ?_, ?_, ?_⟩
      · rw [hDk]
        simp only [List.map_append, List.map_cons, List.map_nil]
        exact List.nodup_append.mpr ⟨hd.wrRids, by simp, by
          intro a ha b hb
          simp at hb; subst hb
          exact fun e => hnm (e ▸ ha)⟩
      · intro p hp
        rw [hDk] at hp
        simp only [List.mem_append, List.mem_singleton] at hp
        rcases hp with hp | rfl
        · obtain ⟨r0, mid, h1, h2, h3, h4⟩ := hd.wr p hp
          refine ⟨r0, mid, ?_, h2, h3, h4⟩
          rw [hL]; simp [hold p hp, h1]
        · refine ⟨{ r with enabled := true }, s.nextId, by rw [hL]; simp, rfl, rfl, rfl⟩
      · intro rid' r' h1 h2 h3
        rw [hDk]
        simp only [List.map_append, List.map_cons, List.map_nil, List.mem_append, List.mem_singleton]
        rw [hL] at h1
        by_cases he : rid' = rid
        · exact Or.inr he
        · simp only [he, if_false] at h1
          exact Or.inl (hd.en rid' r' h1 h2 h3)
      · rw [hDk]
        simp only [List.map_append, List.map_cons, List.map_nil]
        refine List.nodup_append.mpr ⟨hd.mids, by simp, ?_⟩
        intro a ha b hb
        simp at hb; subst hb
        obtain ⟨p, hp, rfl⟩ := List.mem_map.mp ha
        have := hd.fresh p hp
        rw [wrapFunc_mid]; omega
      · intro p hp
        rw [hDk] at hp
        rw [nextId_enabledState]
        simp only [List.mem_append, List.mem_singleton] at hp
        rcases hp with hp | rfl
        · have := hd.fresh p hp; omega
        · rw [wrapFunc_mid]; omega
      · intro key
        rw [hDk]
        simp only [lookupKey_activeAppend, List.filter_append, List.map_append]
        have hf : (s.disp r.disp).wrapped.filter (fun p => hasPath (enabledState s rid r) p.1 key)
            = (s.disp r.disp).wrapped.filter (fun p => hasPath s p.1 key) := by
          apply List.filter_congr
          intro p hp
          apply hasPath_congr
          rw [hL]; simp [hold p hp]
        rw [hf, ← hd.act key]
        have hp : hasPath (enabledState s rid r) rid key = (r.path == key) := by
          simp [hasPath, hL]
        by_cases hkey : key = r.path
        · subst hkey; simp [hp]
        · have : (r.path == key) = false := by simpa using fun e => hkey e.symm
          simp [hkey, hp, this]
      · rw [hDk]
        simp only [akeys_activeAppend]
        split
        · exact hd.keys
        · rename_i hnin
          exact List.nodup_append.mpr ⟨hd.keys, by simp, by
            intro a ha b hb
            simp at hb; subst hb
            exact fun e => hnin (e ▸ ha)⟩
      · rw [hDk]
        intro p hp
        have : ∀ (act : Active), (∀ q ∈ act, q.2 ≠ []) → ∀ q ∈ activeAppend r.path (wrapFunc rid r s.nextId) act, q.2 ≠ [] := by
          intro act
          induction act with
          | nil => intro _ q hq; simp [activeAppend] at hq; subst hq; simp
          | cons x rest ih =>
            intro hne q hq
            unfold activeAppend at hq
            split at hq
            · rcases List.mem_cons.mp hq with rfl | hq
              · simp
              · exact hne q (List.mem_cons_of_mem _ hq)
            · rcases List.mem_cons.mp hq with rfl | hq
              · exact hne _ List.mem_cons_self
              · exact ih (fun q hq => hne q (List.mem_cons_of_mem _ hq)) q hq
        exact this _ hd.nonempty p hp
      · rw [hDk]
        have : ∀ (act : Active), (activeAppend r.path (wrapFunc rid r s.nextId) act).isEmpty = false := by
          intro act; cases act with
          | nil => simp [activeAppend]
          | cons x rest => unfold activeAppend; split <;> simp
        simp [this]
    · have hDk := hD k
      simp only [hk, if_false] at hDk
      apply DInv_frame hDk ?_ ?_ (by rw [nextId_enabledState]; omega) (h.d k)
      · intro p hp
        rw [hL]
        have : p.1 ≠ rid := by
          intro e
          obtain ⟨r0, _, h1, _, h3, _⟩ := (h.d k).wr p hp
          rw [e, hr] at h1; cases h1
          exact hk h3.symm
        simp [this]
      · intro rid' r' h1 h2 h3
        rw [hL] at h1
        by_cases he : rid' = rid
        · subst he
          simp only [if_true] at h1
          cases h1
          exact absurd h3.symm hk
        · simp only [he, if_false] at h1
          exact (h.d k).en rid' r' h1 h2 h3

/-! ### disable -/

theorem find_wrapped {wr : List (Nat × Entry)} {rid : Nat} (h : rid ∈ wr.map (·.1)) :
    ∃ e, wr.find? (·.1 == rid) = some (rid, e) ∧ (rid, e) ∈ wr := by
  induction wr with
  | nil => simp at h
  | cons p rest ih =>
    by_cases hp : p.1 = rid
    · obtain ⟨a, e⟩ := p
      simp only at hp; subst hp
      exact ⟨e, by simp, List.mem_cons_self⟩
    · have : (p.1 == rid) = false := by simpa using hp
      simp only [List.map_cons, List.mem_cons] at h
      rcases h with h | h
      · exact absurd h.symm hp
      · obtain ⟨e, h1, h2⟩ := ih h
        exact ⟨e, by simp [List.find?_cons, this, h1], List.mem_cons_of_mem _ h2⟩

theorem inj_of_nodup_map {α β} {f : α → β} {l : List α} (h : (l.map f).Nodup) {a b : α}
    (ha : a ∈ l) (hb : b ∈ l) (e : f a = f b) : a = b := by
  induction l with
  | nil => cases ha
  | cons x xs ih =>
    simp only [List.map_cons, List.nodup_cons] at h
    rcases List.mem_cons.mp ha with ha1 | ha2 <;> rcases List.mem_cons.mp hb with hb1 | hb2
    · rw [ha1, hb1]
    · rw [ha1] at e; exact absurd (e ▸ List.mem_map_of_mem hb2) h.1
    · rw [hb1] at e; exact absurd (e ▸ List.mem_map_of_mem ha2) h.1
    · exact ih h.2 ha2 hb2

theorem matcher_ident_eq_iff {e1 e2 : Entry} (h1 : ∃ m o a b c f, e1 = .matcher m o a b c f)
    (h2 : ∃ m o a b c f, e2 = .matcher m o a b c f) : e1.ident = e2.ident ↔ e1.mid = e2.mid := by
  obtain ⟨m1, o1, a1, b1, c1, f1, rfl⟩ := h1
  obtain ⟨m2, o2, a2, b2, c2, f2, rfl⟩ := h2
  simp [Entry.ident, Entry.mid]

/-- the state after `disable` of an enabled responder whose dispatcher entry is `e` -/
def disabledState (s : St) (rid : Nat) (r : Resp) (e : Entry) : St :=
  let k := r.disp
  let D := s.disp k
  let act := activeRemove r.path e.ident D.active
  let D' : Disp := ⟨act, D.wrapped.filter (·.1 != rid), !act.isEmpty⟩
  let s1 : St := if r.permanent then s else { s with cmdPeriod := cmdRemove (.resp rid) s.cmdPeriod }
  setResp (s1.setDisp k D') rid { r with enabled := false }

theorem disable_eq {s : St} (h : Inv s) {rid : Nat} {r : Resp} (hr : lookupResp s rid = some r)
    (hen : r.enabled = true) :
    ∃ e, (rid, e) ∈ (s.disp r.disp).wrapped ∧ disable s rid = disabledState s rid r e := by
  have hm := (h.d r.disp).en rid r hr hen rfl
  obtain ⟨e, hf, hmem⟩ := find_wrapped hm
  refine ⟨e, hmem, ?_⟩
  unfold disable disabledState
  simp only [hr, hen, Bool.not_true, Bool.false_eq_true, if_false, dispRemove]
  cases hp : r.permanent <;> cases hk : r.disp <;> simp_all [St.disp, St.setDisp]

theorem wr_is_matcher {s : St} {k : DispKind} (hd : DInv s k) {p : Nat × Entry} (hp : p ∈ (s.disp k).wrapped) :
    ∃ m o a b c f, p.2 = .matcher m o a b c f := by
  obtain ⟨r, mid, _, _, _, h4⟩ := hd.wr p hp
  exact ⟨mid, p.1, r.src, r.port, r.tmpl, r.func, h4⟩

theorem ident_eq_iff_rid_eq {s : St} {k : DispKind} (hd : DInv s k) {p q : Nat × Entry}
    (hp : p ∈ (s.disp k).wrapped) (hq : q ∈ (s.disp k).wrapped) : p.2.ident = q.2.ident ↔ p.1 = q.1 := by
  rw [matcher_ident_eq_iff (wr_is_matcher hd hp) (wr_is_matcher hd hq)]
  constructor
  · intro e; rw [inj_of_nodup_map hd.mids hp hq e]
  · intro e; rw [inj_of_nodup_map hd.wrRids hp hq e]

theorem idents_nodup {s : St} {k : DispKind} (hd : DInv s k) :
    ((s.disp k).wrapped.map (fun p => p.2.ident)).Nodup := by
  have : ∀ (l : List (Nat × Entry)), (∀ p ∈ l, p ∈ (s.disp k).wrapped) → (l.map (fun p => p.2.mid)).Nodup →
      (l.map (fun p => p.2.ident)).Nodup := by
    intro l
    induction l with
    | nil => intro _ _; simp
    | cons x xs ih =>
      intro hm hn
      simp only [List.map_cons, List.nodup_cons] at hn ⊢
      refine ⟨?_, ih (fun p hp => hm p (List.mem_cons_of_mem _ hp)) hn.2⟩
      intro hx
      obtain ⟨y, hy, he⟩ := List.mem_map.mp hx
      have := (matcher_ident_eq_iff (wr_is_matcher hd (hm y (List.mem_cons_of_mem _ hy)))
        (wr_is_matcher hd (hm x List.mem_cons_self))).mp he
      exact hn.1 (this ▸ List.mem_map_of_mem hy)
  exact this _ (fun p hp => hp) hd.mids

theorem lookupKey_remove {s : St} {k : DispKind} (hd : DInv s k) {rid : Nat} {r : Resp} {e : Entry}
    (hr : lookupResp s rid = some r) (hmem : (rid, e) ∈ (s.disp k).wrapped) (key : Str) :
    lookupKey key (activeRemove r.path e.ident (s.disp k).active) =
      (((s.disp k).wrapped.filter (fun p => p.1 != rid)).filter (fun p => hasPath s p.1 key)).map (·.2) := by
  rw [lookupKey_activeRemove _ _ _ _ hd.keys, hd.act key]
  have hcomm : ((s.disp k).wrapped.filter (fun p => p.1 != rid)).filter (fun p => hasPath s p.1 key)
      = ((s.disp k).wrapped.filter (fun p => hasPath s p.1 key)).filter (fun p => p.1 != rid) := by
    simp only [List.filter_filter]
    apply List.filter_congr
    intro p _
    exact Bool.and_comm _ _
  by_cases hk : key = r.path
  · subst hk
    simp only [if_true]
    have hnd : ((((s.disp k).wrapped.filter (fun p => hasPath s p.1 r.path)).map (·.2)).map Entry.ident).Nodup := by
      rw [List.map_map]
      exact List.Nodup.sublist (List.Sublist.map _ List.filter_sublist) (idents_nodup hd)
    rw [removeFirst_eq_filter _ _ hnd, hcomm, List.filter_map]
    congr 1
    apply List.filter_congr
    intro p hp
    have hpw := (List.mem_filter.mp hp).1
    have := ident_eq_iff_rid_eq hd hpw hmem
    show (p.2.ident != e.ident) = (p.1 != rid)
    by_cases h1 : p.1 = rid
    · have h2 : p.2.ident = e.ident := this.mpr h1
      rw [show (p.2.ident != e.ident) = false from by simpa using h2,
        show (p.1 != rid) = false from by simpa using h1]
    · have h2 : ¬ p.2.ident = e.ident := fun x => h1 (this.mp x)
      rw [show (p.2.ident != e.ident) = true from by simpa using h2,
        show (p.1 != rid) = true from by simpa using h1]
  · simp only [hk, if_false]
    rw [hcomm]
    congr 1
    symm
    rw [List.filter_eq_self]
    intro p hp
    have hh := (List.mem_filter.mp hp).2
    have : p.1 ≠ rid := by
      intro e1
      rw [e1] at hh
      simp only [hasPath, hr] at hh
      have hh' : r.path = key := by simpa using hh
      exact hk hh'.symm
    simpa using this

theorem activeRemove_nonempty (path : Str) (i : Ident) : ∀ (act : Active), (∀ q ∈ act, q.2 ≠ []) →
    ∀ q ∈ activeRemove path i act, q.2 ≠ []
  | [], _, q, hq => by simp [activeRemove] at hq
  | (k, es) :: rest, hne, q, hq => by
    unfold activeRemove at hq
    split at hq
    · simp only at hq
      split at hq
      · exact hne q (List.mem_cons_of_mem _ hq)
      · rename_i hemp
        rcases List.mem_cons.mp hq with rfl | hq
        · intro e; exact hemp (by simpa using e)
        · exact hne q (List.mem_cons_of_mem _ hq)
    · rcases List.mem_cons.mp hq with rfl | hq
      · exact hne _ List.mem_cons_self
      · exact activeRemove_nonempty path i rest (fun q hq => hne q (List.mem_cons_of_mem _ hq)) q hq

theorem lookupResp_disabledState (s : St) (rid : Nat) (r : Resp) (e : Entry) (hr : lookupResp s rid = some r)
    (rid' : Nat) :
    lookupResp (disabledState s rid r e) rid' =
      if rid' = rid then some { r with enabled := false } else lookupResp s rid' := by
  unfold disabledState
  rw [lookupResp_setResp]
  have : ∀ (D : Disp) x, lookupResp ((if r.permanent then s else { s with cmdPeriod := cmdRemove (.resp rid) s.cmdPeriod }).setDisp
      r.disp D) x = lookupResp s x := by
    intro D x
    apply lookupResp_congr
    cases r.permanent <;> simp
  simp only [this]
  by_cases h : rid' = rid
  · subst h; simp [hr]
  · simp [h]

theorem disp_disabledState (s : St) (rid : Nat) (r : Resp) (e : Entry) (k : DispKind) :
    (disabledState s rid r e).disp k =
      if k = r.disp then ⟨activeRemove r.path e.ident (s.disp r.disp).active,
        (s.disp r.disp).wrapped.filter (·.1 != rid),
        !(activeRemove r.path e.ident (s.disp r.disp).active).isEmpty⟩ else s.disp k := by
  unfold disabledState
  simp only [disp_setResp]
  rw [disp_setDisp]
  by_cases h : k = r.disp
  · subst h
    simp
  · simp only [h, if_false]
    cases r.permanent <;> cases k <;> rfl

theorem nextId_disabledState (s : St) (rid : Nat) (r : Resp) (e : Entry) :
    (disabledState s rid r e).nextId = s.nextId := by
  unfold disabledState
  cases r.permanent <;> simp

theorem cmd_disabledState (s : St) (rid : Nat) (r : Resp) (e : Entry) :
    (disabledState s rid r e).cmdPeriod =
      if r.permanent then s.cmdPeriod else cmdRemove (.resp rid) s.cmdPeriod := by
  unfold disabledState
  cases r.permanent <;> simp

theorem rids_disabledState (s : St) (rid : Nat) (r : Resp) (e : Entry) :
    (disabledState s rid r e).resps.map (·.1) = s.resps.map (·.1) := by
  unfold disabledState
  rw [rids_setResp]
  cases r.permanent <;> simp

theorem inv_disabledState {s : St} (h : Inv s) {rid : Nat} {r : Resp} {e : Entry}
    (hr : lookupResp s rid = some r) (hmem : (rid, e) ∈ (s.disp r.disp).wrapped) :
    Inv (disabledState s rid r e) := by
  have hL := lookupResp_disabledState s rid r e hr
  have hD := disp_disabledState s rid r e
  refine ⟨by rw [rids_disabledState]; exact h.rids, ?_, ?_⟩
  · intro rid' r' h1
    rw [hL] at h1
    by_cases he : rid' = rid
    · subst he
      simp only [if_true] at h1
      cases h1
      exact h.own rid' r hr
    · simp only [he, if_false] at h1
      exact h.own _ _ h1
  · intro k
    by_cases hk : k = r.disp
    · subst hk
      have hd := h.d r.disp
      have hDk := hD r.disp
      simp only [if_true] at hDk
      have hsub : ((s.disp r.disp).wrapped.filter (·.1 != rid)).Sublist (s.disp r.disp).wrapped :=
        List.filter_sublist
      have hmemf : ∀ p, p ∈ (s.disp r.disp).wrapped.filter (·.1 != rid) ↔ p ∈ (s.disp r.disp).wrapped ∧ p.1 ≠ rid := by
        intro p; simp [List.mem_filter]
      refine ⟨?_, ?_, ?_, ?_, ?_, ?_, ?_, ?_, ?_⟩
      · rw [hDk]; exact List.Nodup.sublist (List.Sublist.map _ hsub) hd.wrRids
      · intro p hp
        rw [hDk] at hp
        obtain ⟨hp1, hp2⟩ := (hmemf p).mp hp
        obtain ⟨r0, mid, h1, h2, h3, h4⟩ := hd.wr p hp1
        exact ⟨r0, mid, by rw [hL]; simp [hp2, h1], h2, h3, h4⟩
      · intro rid' r' h1 h2 h3
        rw [hL] at h1
        by_cases he : rid' = rid
        · subst he
          simp only [if_true] at h1
          cases h1
          cases h2
        · simp only [he, if_false] at h1
          rw [hDk]
          obtain ⟨p, hp, rfl⟩ := List.mem_map.mp (hd.en rid' r' h1 h2 h3)
          exact List.mem_map_of_mem ((hmemf p).mpr ⟨hp, he⟩)
      · rw [hDk]; exact List.Nodup.sublist (List.Sublist.map _ hsub) hd.mids
      · intro p hp
        rw [hDk] at hp
        rw [nextId_disabledState]
        exact hd.fresh p ((hmemf p).mp hp).1
      · intro key
        rw [hDk]
        simp only
        rw [lookupKey_remove hd hr hmem key]
        congr 1
        apply List.filter_congr
        intro p hp
        apply (hasPath_congr _ key).symm
        rw [hL]
        simp [((hmemf p).mp hp).2]
      · rw [hDk]
        simp only
        rw [akeys_activeRemove _ _ _ hd.keys]
        split
        · exact List.Nodup.sublist List.filter_sublist hd.keys
        · exact hd.keys
      · rw [hDk]
        exact activeRemove_nonempty _ _ _ hd.nonempty
      · rw [hDk]
    · have hDk := hD k
      simp only [hk, if_false] at hDk
      apply DInv_frame hDk ?_ ?_ (by rw [nextId_disabledState]; omega) (h.d k)
      · intro p hp
        rw [hL]
        have : p.1 ≠ rid := by
          intro e1
          obtain ⟨r0, _, h1, _, h3, _⟩ := (h.d k).wr p hp
          rw [e1, hr] at h1; cases h1
          exact hk h3.symm
        simp [this]
      · intro rid' r' h1 h2 h3
        rw [hL] at h1
        by_cases he : rid' = rid
        · subst he
          simp only [if_true] at h1
          cases h1
          cases h2
        · simp only [he, if_false] at h1
          exact (h.d k).en rid' r' h1 h2 h3

theorem abs_resps_setResp (s : St) (rid : Nat) (r' : Resp) :
    (setResp s rid r').resps.map (fun p => (p.1, absResp p.2))
      = (s.resps.map (fun p => (p.1, absResp p.2))).map (fun p => if p.1 == rid then (rid, absResp r') else p) := by
  simp only [setResp, List.map_map]
  apply List.map_congr_left
  intro p _
  by_cases h : (p.1 == rid) = true <;> simp [Function.comp, h]

theorem isEmpty_filter_map {α β} (l : List α) (p : α → Bool) (f : α → β) :
    ((l.filter p).map f).isEmpty = !l.any p := by
  induction l with
  | nil => rfl
  | cons x xs ih =>
    by_cases h : p x = true
    · simp [List.filter_cons, h]
    · simp only [List.filter_cons, h, List.any_cons, Bool.false_eq_true, if_false]
      simp only [Bool.not_eq_true] at h
      simp [h, ih]

theorem ASt.ext' {a b : ASt} (h1 : a.resps = b.resps) (h2 : ∀ k, a.ord k = b.ord k) (h3 : ∀ k, a.keys k = b.keys k)
    (h4 : a.cmd = b.cmd) : a = b := by
  cases a; cases b
  have e1 := h2 .exact; have e2 := h2 .pattern; have e3 := h3 .exact; have e4 := h3 .pattern
  simp only [ASt.ord, ASt.keys] at e1 e2 e3 e4
  simp_all

theorem ord_withDisp (a : ASt) (k k' : DispKind) (o : List Nat) (ks : List Str) :
    (a.withDisp k o ks).ord k' = if k' = k then o else a.ord k' := by
  cases k <;> cases k' <;> simp [ASt.withDisp, ASt.ord]

theorem keys_withDisp (a : ASt) (k k' : DispKind) (o : List Nat) (ks : List Str) :
    (a.withDisp k o ks).keys k' = if k' = k then ks else a.keys k' := by
  cases k <;> cases k' <;> simp [ASt.withDisp, ASt.keys]

@[simp] theorem resps_withDisp (a : ASt) (k : DispKind) (o : List Nat) (ks : List Str) :
    (a.withDisp k o ks).resps = a.resps := by cases k <;> rfl
@[simp] theorem cmd_withDisp (a : ASt) (k : DispKind) (o : List Nat) (ks : List Str) :
    (a.withDisp k o ks).cmd = a.cmd := by cases k <;> rfl
@[simp] theorem ord_aset (a : ASt) (rid : Nat) (r : AResp) (k : DispKind) : (aset a rid r).ord k = a.ord k := by
  cases k <;> rfl
@[simp] theorem keys_aset (a : ASt) (rid : Nat) (r : AResp) (k : DispKind) : (aset a rid r).keys k = a.keys k := by
  cases k <;> rfl
@[simp] theorem ord_withCmd (a : ASt) (c : List ActKey) (k : DispKind) : ({ a with cmd := c } : ASt).ord k = a.ord k := by
  cases k <;> rfl
@[simp] theorem keys_withCmd (a : ASt) (c : List ActKey) (k : DispKind) : ({ a with cmd := c } : ASt).keys k = a.keys k := by
  cases k <;> rfl

theorem abs_ord (s : St) (k : DispKind) : (abs s).ord k = (s.disp k).wrapped.map (·.1) := by cases k <;> rfl
theorem abs_keys (s : St) (k : DispKind) : (abs s).keys k = akeys (s.disp k).active := by cases k <;> rfl

theorem ahasPath_abs (s : St) (rid : Nat) (path : Str) : ahasPath (abs s) rid path = hasPath s rid path := by
  unfold ahasPath hasPath
  rw [alookup_abs]
  cases lookupResp s rid <;> rfl

theorem abs_disabledState {s : St} (h : Inv s) {rid : Nat} {r : Resp} {e : Entry}
    (hr : lookupResp s rid = some r) (hen : r.enabled = true) (hmem : (rid, e) ∈ (s.disp r.disp).wrapped) :
    abs (disabledState s rid r e) = adisable (abs s) rid := by
  have hD := disp_disabledState s rid r e
  have hd := h.d r.disp
  have hfm : ∀ (wr : List (Nat × Entry)), (wr.filter (·.1 != rid)).map (·.1) = (wr.map (·.1)).filter (· != rid) := by
    intro wr; rw [List.filter_map]; rfl
  have hkeys : akeys (activeRemove r.path e.ident (s.disp r.disp).active) =
      if (((s.disp r.disp).wrapped.map (·.1)).filter (· != rid)).any (fun x => hasPath s x r.path)
      then akeys (s.disp r.disp).active else (akeys (s.disp r.disp).active).filter (· != r.path) := by
    rw [akeys_activeRemove _ _ _ hd.keys]
    have h1 := lookupKey_remove hd hr hmem r.path
    rw [lookupKey_activeRemove _ _ _ _ hd.keys] at h1
    simp only [if_true] at h1
    rw [h1, isEmpty_filter_map, ← hfm, List.any_map]
    have : ((fun x => hasPath s x r.path) ∘ fun (x : Nat × Entry) => x.1) = fun p => hasPath s p.1 r.path := rfl
    rw [this]
    cases ((s.disp r.disp).wrapped.filter (·.1 != rid)).any (fun p => hasPath s p.1 r.path) <;> simp
  unfold adisable
  rw [alookup_abs, hr]
  simp only [Option.map_some]
  have hen' : (absResp r).enabled = true := by simp [absResp, hen]
  simp only [hen', Bool.not_true, Bool.false_eq_true, if_false]
  apply ASt.ext'
  · have hres : (disabledState s rid r e).resps = (setResp s rid { r with enabled := false }).resps := by
      unfold disabledState
      cases r.permanent <;> simp [setResp]
    show (disabledState s rid r e).resps.map _ = _
    rw [hres, abs_resps_setResp]
    simp [aset, abs, absResp]
  · intro k
    rw [abs_ord, hD k]
    simp only [ord_withCmd, ord_withDisp, ord_aset, abs_ord, absResp]
    split
    · rename_i hk; subst hk; simp [hfm]
    · rfl
  · intro k
    rw [abs_keys, hD k]
    simp only [keys_withCmd, keys_withDisp, keys_aset, abs_keys, abs_ord, absResp, ahasPath_abs]
    split
    · rename_i hk; subst hk; simp only [hkeys]
    · rfl
  · show (disabledState s rid r e).cmdPeriod = _
    rw [cmd_disabledState]
    rfl

theorem abs_enabledState {s : St} (h : Inv s) {rid : Nat} {r : Resp} (hr : lookupResp s rid = some r)
    (hen : r.enabled = false) : abs (enabledState s rid r) = aenable (abs s) rid := by
  have hD := disp_enabledState s rid r
  unfold aenable
  rw [alookup_abs, hr]
  simp only [Option.map_some]
  have hen' : (absResp r).enabled = false := by simp [absResp, hen]
  simp only [hen', Bool.false_eq_true, if_false]
  apply ASt.ext'
  · have hres : (enabledState s rid r).resps = (setResp s rid { r with enabled := true }).resps := by
      unfold enabledState
      cases r.permanent <;> simp [setResp]
    show (enabledState s rid r).resps.map _ = _
    rw [hres, abs_resps_setResp]
    simp [aset, abs, absResp]
  · intro k
    rw [abs_ord, hD k]
    simp only [ord_withCmd, ord_withDisp, ord_aset, abs_ord, absResp]
    split
    · rename_i hk; subst hk; simp
    · rfl
  · intro k
    rw [abs_keys, hD k]
    simp only [keys_withCmd, keys_withDisp, keys_aset, abs_keys, absResp]
    split
    · rename_i hk; subst hk
      simp only [akeys_activeAppend, List.contains_iff_mem]
    · rfl
  · show (enabledState s rid r).cmdPeriod = _
    rw [cmd_enabledState]
    rfl

/-- `enable` refines -/
theorem enable_refines {s : St} (h : Inv s) (rid : Nat) :
    Inv (enable s rid) ∧ abs (enable s rid) = aenable (abs s) rid := by
  cases hr : lookupResp s rid with
  | none =>
    have : enable s rid = s := by simp [enable, hr]
    rw [this]
    refine ⟨h, ?_⟩
    simp [aenable, alookup_abs, hr]
  | some r =>
    cases hen : r.enabled
    · rw [enable_eq h hr hen]
      exact ⟨inv_enabledState h hr hen, abs_enabledState h hr hen⟩
    · have : enable s rid = s := by simp [enable, hr, hen]
      rw [this]
      refine ⟨h, ?_⟩
      simp [aenable, alookup_abs, hr, absResp, hen]

/-- `disable` / `free` refine -/
theorem disable_refines {s : St} (h : Inv s) (rid : Nat) :
    Inv (disable s rid) ∧ abs (disable s rid) = adisable (abs s) rid := by
  cases hr : lookupResp s rid with
  | none =>
    have : disable s rid = s := by simp [disable, hr]
    rw [this]
    refine ⟨h, ?_⟩
    simp [adisable, alookup_abs, hr]
  | some r =>
    cases hen : r.enabled
    · have : disable s rid = s := by simp [disable, hr, hen]
      rw [this]
      refine ⟨h, ?_⟩
      simp [adisable, alookup_abs, hr, absResp, hen]
    · obtain ⟨e, hmem, heq⟩ := disable_eq h hr hen
      rw [heq]
      exact ⟨inv_disabledState h hr hmem, abs_disabledState h hr hen hmem⟩

/-! ### a more general frame lemma: responders may change fields a dispatcher does not look at -/

/-- the fields of a responder a dispatcher entry depends on -/
def SameView (r r' : Resp) : Prop :=
  r'.enabled = r.enabled ∧ r'.disp = r.disp ∧ r'.src = r.src ∧ r'.port = r.port ∧ r'.tmpl = r.tmpl ∧
  r'.func = r.func ∧ r'.path = r.path

theorem SameView.refl (r : Resp) : SameView r r := ⟨rfl, rfl, rfl, rfl, rfl, rfl, rfl⟩

theorem DInv_frame' {s s' : St} {k : DispKind} (hd : s'.disp k = s.disp k)
    (hl : ∀ p ∈ (s.disp k).wrapped, ∀ r, lookupResp s p.1 = some r →
      ∃ r', lookupResp s' p.1 = some r' ∧ SameView r r')
    (hen : ∀ rid r', lookupResp s' rid = some r' → r'.enabled = true → r'.disp = k →
      rid ∈ (s.disp k).wrapped.map (·.1))
    (hn : s.nextId ≤ s'.nextId) (h : DInv s k) : DInv s' k := by
  refine ⟨by rw [hd]; exact h.wrRids, ?_, ?_, by rw [hd]; exact h.mids, ?_, ?_, by rw [hd]; exact h.keys,
    by rw [hd]; exact h.nonempty, by rw [hd]; exact h.reg⟩
  · intro p hp
    rw [hd] at hp
    obtain ⟨r, mid, h1, h2, h3, h4⟩ := h.wr p hp
    obtain ⟨r', h1', e1, e2, e3, e4, e5, e6, _⟩ := hl p hp r h1
    exact ⟨r', mid, h1', by rw [e1]; exact h2, by rw [e2]; exact h3, by rw [e3, e4, e5, e6]; exact h4⟩
  · intro rid r' h1 h2 h3
    rw [hd]; exact hen rid r' h1 h2 h3
  · intro p hp
    rw [hd] at hp
    exact Nat.lt_of_lt_of_le (h.fresh p hp) hn
  · intro key
    rw [hd, h.act key]
    congr 1
    apply List.filter_congr
    intro p hp
    obtain ⟨r, _, h1, _⟩ := h.wr p hp
    obtain ⟨r', h1', _, _, _, _, _, _, e7⟩ := hl p hp r h1
    simp [hasPath, h1, h1', e7]

/-! ### permanent -/

def permState (s : St) (rid : Nat) (r : Resp) (v : Bool) (c : List ActKey) : St :=
  { setResp s rid { r with permanent := v } with cmdPeriod := c }

theorem permanent_refines {s : St} (h : Inv s) (rid : Nat) (v : Bool) :
    Inv (setPermanent s rid v) ∧ abs (setPermanent s rid v) = asetPermanent (abs s) rid v := by
  cases hr : lookupResp s rid with
  | none =>
    have : setPermanent s rid v = s := by simp [setPermanent, hr]
    rw [this]
    exact ⟨h, by simp [asetPermanent, alookup_abs, hr]⟩
  | some r =>
    have hL : ∀ (c : List ActKey) rid', lookupResp (permState s rid r v c) rid'
        = if rid' = rid then some { r with permanent := v } else lookupResp s rid' := by
      intro c rid'
      have : lookupResp (permState s rid r v c) rid'
          = lookupResp (setResp s rid { r with permanent := v }) rid' := lookupResp_congr rfl rid'
      rw [this, lookupResp_setResp]
      by_cases he : rid' = rid
      · subst he; simp [hr]
      · simp [he]
    have hinv : ∀ (c : List ActKey), Inv (permState s rid r v c) := by
      intro c
      refine ⟨?_, ?_, ?_⟩
      · have : (permState s rid r v c).resps = (setResp s rid { r with permanent := v }).resps := rfl
        rw [this, rids_setResp]; exact h.rids
      · intro rid' r' h1
        rw [hL] at h1
        by_cases he : rid' = rid
        · subst he; simp only [if_true] at h1; cases h1; exact h.own rid' r hr
        · simp only [he, if_false] at h1; exact h.own _ _ h1
      · intro k
        refine DInv_frame' (s := s) (s' := permState s rid r v c) (by cases k <;> rfl) ?_ ?_ (Nat.le_refl _) (h.d k)
        · intro p hp r0 h0
          rw [hL]
          by_cases he : p.1 = rid
          · rw [he, hr] at h0; cases h0
            exact ⟨{ r with permanent := v }, by simp [he], rfl, rfl, rfl, rfl, rfl, rfl, rfl⟩
          · exact ⟨r0, by simp [he, h0], SameView.refl r0⟩
        · intro rid' r' h1 h2 h3
          rw [hL] at h1
          by_cases he : rid' = rid
          · subst he; simp only [if_true] at h1; cases h1
            exact (h.d k).en rid' r hr h2 h3
          · simp only [he, if_false] at h1
            exact (h.d k).en rid' r' h1 h2 h3
    have habs : ∀ (c : List ActKey), abs (permState s rid r v c)
        = { aset (abs s) rid { absResp r with permanent := v } with cmd := c } := by
      intro c
      apply ASt.ext'
      · show (setResp s rid _).resps.map _ = _
        rw [abs_resps_setResp]
        simp [aset, abs, absResp]
      · intro k; cases k <;> rfl
      · intro k; cases k <;> rfl
      · rfl
    have hsp : setPermanent s rid v = permState s rid r v
        (if v && r.enabled then cmdRemove (.resp rid) s.cmdPeriod else cmdAdd (.resp rid) s.cmdPeriod) := by
      unfold setPermanent permState
      simp only [hr]
      split <;> rfl
    rw [hsp]
    refine ⟨hinv _, ?_⟩
    rw [habs]
    unfold asetPermanent
    rw [alookup_abs, hr]
    simp only [Option.map_some]
    have : (absResp r).enabled = r.enabled := rfl
    rw [this]
    split <;> rfl

/-! ### function replacement (`func=`, `one_shot`) -/

theorem akeys_activeReplace (path : Str) (i : Ident) (new : Entry) : ∀ (act : Active),
    akeys (activeReplace path i new act) = akeys act
  | [] => rfl
  | (k, es) :: rest => by
    unfold activeReplace
    split
    · simp [akeys]
    · simp only [akeys, List.map_cons]
      have := akeys_activeReplace path i new rest
      simp only [akeys] at this
      rw [this]

theorem lookupKey_activeReplace (path : Str) (i : Ident) (new : Entry) (key : Str) : ∀ (act : Active),
    lookupKey key (activeReplace path i new act) =
      if key = path then replaceFirst i new (lookupKey key act) else lookupKey key act
  | [] => by simp [activeReplace, lookupKey, replaceFirst]
  | (k, es) :: rest => by
    unfold activeReplace
    by_cases hk : k = path
    · subst hk
      simp only [if_true, lookupKey]
      by_cases h : k = key
      · subst h; simp
      · have : ¬ key = k := fun e => h e.symm
        simp [h, this]
    · simp only [hk, if_false, lookupKey]
      by_cases h : k = key
      · subst h
        have : ¬ k = path := hk
        simp [this]
      · simp only [h, if_false]
        exact lookupKey_activeReplace path i new key rest

theorem replaceFirst_length (i : Ident) (new : Entry) : ∀ (es : List Entry), (replaceFirst i new es).length = es.length
  | [] => rfl
  | e :: es => by
    unfold replaceFirst
    split
    · rfl
    · simp [replaceFirst_length i new es]

theorem activeReplace_nonempty (path : Str) (i : Ident) (new : Entry) : ∀ (act : Active), (∀ q ∈ act, q.2 ≠ []) →
    ∀ q ∈ activeReplace path i new act, q.2 ≠ []
  | [], _, q, hq => by simp [activeReplace] at hq
  | (k, es) :: rest, hne, q, hq => by
    unfold activeReplace at hq
    split at hq
    · rcases List.mem_cons.mp hq with rfl | hq
      · have := hne (k, es) List.mem_cons_self
        intro e
        have hl := replaceFirst_length i new es
        simp only at e
        rw [e] at hl
        exact this (List.eq_nil_of_length_eq_zero hl.symm)
      · exact hne q (List.mem_cons_of_mem _ hq)
    · rcases List.mem_cons.mp hq with rfl | hq
      · exact hne _ List.mem_cons_self
      · exact activeReplace_nonempty path i new rest (fun q hq => hne q (List.mem_cons_of_mem _ hq)) q hq

theorem activeReplace_isEmpty (path : Str) (i : Ident) (new : Entry) (act : Active) :
    (activeReplace path i new act).isEmpty = act.isEmpty := by
  cases act with
  | nil => rfl
  | cons p rest => obtain ⟨k, es⟩ := p; unfold activeReplace; split <;> rfl

def updWr (rid : Nat) (e : Entry) (p : Nat × Entry) : Nat × Entry := if p.1 == rid then (rid, e) else p

theorem updWr_fst (rid : Nat) (e : Entry) (p : Nat × Entry) : (updWr rid e p).1 = p.1 := by
  unfold updWr
  by_cases h : (p.1 == rid) = true
  · simp only [h, if_true]; exact (by simpa using h : p.1 = rid).symm
  · simp [h]

/-- the state after replacing the function of an ENABLED responder -/
def funcState (s : St) (rid : Nat) (r' : Resp) (old : Entry) : St :=
  let k := r'.disp
  let D := s.disp k
  let e := wrapFunc rid r' s.nextId
  let D' : Disp := { D with active := activeReplace r'.path old.ident e D.active,
                            wrapped := D.wrapped.map (updWr rid e) }
  { ((setResp s rid r').setDisp k D') with nextId := s.nextId + 1 }

theorem setFunc_eq_enabled {s : St} (h : Inv s) {rid : Nat} {r : Resp} (hr : lookupResp s rid = some r)
    (hen : r.enabled = true) (f : Fn) :
    ∃ old, (rid, old) ∈ (s.disp r.disp).wrapped ∧ setFunc s rid f = funcState s rid { r with func := f } old := by
  have hm := (h.d r.disp).en rid r hr hen rfl
  obtain ⟨old, hf, hmem⟩ := find_wrapped hm
  refine ⟨old, hmem, ?_⟩
  unfold setFunc funcState dispUpdate
  simp only [hr, disp_setResp, hf, nextId_setResp]
  rfl

theorem setFunc_eq_disabled {s : St} (h : Inv s) {rid : Nat} {r : Resp} (hr : lookupResp s rid = some r)
    (hen : r.enabled = false) (f : Fn) : setFunc s rid f = setResp s rid { r with func := f } := by
  have hnm := not_in_wrapped_of_disabled (h.d r.disp) hr hen
  have : (s.disp r.disp).wrapped.find? (·.1 == rid) = none := by
    rw [List.find?_eq_none]
    intro p hp
    have : p.1 ≠ rid := fun e => hnm (e ▸ List.mem_map_of_mem hp)
    simpa using this
  unfold setFunc dispUpdate
  simp only [hr, disp_setResp, this]

theorem lookupResp_funcState (s : St) (rid : Nat) (r' : Resp) (old : Entry) {r : Resp}
    (hr : lookupResp s rid = some r) (rid' : Nat) :
    lookupResp (funcState s rid r' old) rid' = if rid' = rid then some r' else lookupResp s rid' := by
  have : lookupResp (funcState s rid r' old) rid' = lookupResp (setResp s rid r') rid' := by
    apply lookupResp_congr
    unfold funcState
    simp
  rw [this, lookupResp_setResp]
  by_cases he : rid' = rid
  · subst he; simp [hr]
  · simp [he]

theorem disp_funcState (s : St) (rid : Nat) (r' : Resp) (old : Entry) (k : DispKind) :
    (funcState s rid r' old).disp k =
      if k = r'.disp then { s.disp k with
        active := activeReplace r'.path old.ident (wrapFunc rid r' s.nextId) (s.disp k).active,
        wrapped := (s.disp k).wrapped.map (updWr rid (wrapFunc rid r' s.nextId)) } else s.disp k := by
  unfold funcState
  have : ∀ (t : St) (n : Nat), ({ t with nextId := n } : St).disp k = t.disp k := by
    intro t n; cases k <;> rfl
  rw [this, disp_setDisp]
  by_cases h : k = r'.disp
  · subst h; simp
  · simp [h]

theorem map_updWr_fst (rid : Nat) (e : Entry) (wr : List (Nat × Entry)) :
    (wr.map (updWr rid e)).map (·.1) = wr.map (·.1) := by
  rw [List.map_map]
  apply List.map_congr_left
  intro p _
  exact updWr_fst rid e p

theorem filter_map_updWr (rid : Nat) (e : Entry) (P : Nat → Bool) (wr : List (Nat × Entry)) :
    (wr.map (updWr rid e)).filter (fun p => P p.1) = (wr.filter (fun p => P p.1)).map (updWr rid e) := by
  rw [List.filter_map]
  congr 1
  apply List.filter_congr
  intro p _
  simp [Function.comp, updWr_fst]

theorem nodup_replace_fresh {wr : List (Nat × Entry)} {rid n : Nat} {e : Entry} (he : e.mid = n)
    (hr : (wr.map (·.1)).Nodup) (hm : (wr.map (fun p => p.2.mid)).Nodup) (hf : ∀ p ∈ wr, p.2.mid < n) :
    ((wr.map (updWr rid e)).map (fun p => p.2.mid)).Nodup := by
  induction wr with
  | nil => simp
  | cons x xs ih =>
    simp only [List.map_cons, List.nodup_cons] at hr hm ⊢
    have ihx := ih hr.2 hm.2 (fun p hp => hf p (List.mem_cons_of_mem _ hp))
    refine ⟨?_, ihx⟩
    intro hmem
    obtain ⟨q, hq, heq⟩ := List.mem_map.mp hmem
    obtain ⟨p, hp, rfl⟩ := List.mem_map.mp hq
    by_cases hx : (x.1 == rid) = true
    · have hxr : x.1 = rid := by simpa using hx
      have hpn : p.1 ≠ rid := fun e1 => hr.1 (by rw [hxr, ← e1]; exact List.mem_map_of_mem hp)
      have hpf : (p.1 == rid) = false := by simpa using hpn
      simp only [updWr, hx, hpf, if_true, Bool.false_eq_true, if_false] at heq
      have := hf p (List.mem_cons_of_mem _ hp)
      omega
    · simp only [updWr, hx, Bool.false_eq_true, if_false] at heq
      by_cases hpq : (p.1 == rid) = true
      · simp only [hpq, if_true] at heq
        have := hf x List.mem_cons_self
        omega
      · simp only [hpq, Bool.false_eq_true, if_false] at heq
        exact hm.1 (heq ▸ List.mem_map_of_mem hp)

theorem inv_funcState {s : St} (h : Inv s) {rid : Nat} {r : Resp} {old : Entry} (f : Fn)
    (hr : lookupResp s rid = some r) (hen : r.enabled = true) (hmem : (rid, old) ∈ (s.disp r.disp).wrapped)
    (hf : FnOwned rid f) : Inv (funcState s rid { r with func := f } old) := by
  have hL := fun rid' => lookupResp_funcState s rid { r with func := f } old hr rid'
  have hD := disp_funcState s rid { r with func := f } old
  refine ⟨?_, ?_, ?_⟩
  · have : (funcState s rid { r with func := f } old).resps = (setResp s rid { r with func := f }).resps := by
      unfold funcState; simp
    rw [this, rids_setResp]; exact h.rids
  · intro rid' r' h1
    rw [hL] at h1
    by_cases he : rid' = rid
    · subst he; simp only [if_true] at h1; cases h1; exact hf
    · simp only [he, if_false] at h1; exact h.own _ _ h1
  · intro k
    by_cases hk : k = r.disp
    · subst hk
      have hd := h.d r.disp
      have hDk := hD r.disp
      simp only [if_true] at hDk
      have hwrapmid : (wrapFunc rid { r with func := f } s.nextId).mid = s.nextId := rfl
      refine ⟨?_, ?_, ?_, ?_, ?_, ?_, ?_, ?_, ?_⟩
      · rw [hDk]; simp only [map_updWr_fst]; exact hd.wrRids
      · intro p' hp'
        rw [hDk] at hp'
        obtain ⟨p, hp, rfl⟩ := List.mem_map.mp hp'
        by_cases he : (p.1 == rid) = true
        · have he' : p.1 = rid := by simpa using he
          refine ⟨{ r with func := f }, s.nextId, ?_, hen, rfl, ?_⟩
          · rw [hL]; simp [updWr, he]
          · simp [updWr, he, wrapFunc]
        · have he' : p.1 ≠ rid := by simpa using he
          obtain ⟨r0, mid, h1, h2, h3, h4⟩ := hd.wr p hp
          refine ⟨r0, mid, ?_, h2, h3, ?_⟩
          · rw [hL]; simp [updWr, he, he', h1]
          · simp [updWr, he, h4]
      · intro rid' r' h1 h2 h3
        rw [hDk]; simp only [map_updWr_fst]
        rw [hL] at h1
        by_cases he : rid' = rid
        · subst he; exact hd.en rid' r hr hen rfl
        · simp only [he, if_false] at h1; exact hd.en rid' r' h1 h2 h3
      · rw [hDk]; exact nodup_replace_fresh hwrapmid hd.wrRids hd.mids hd.fresh
      · intro p' hp'
        rw [hDk] at hp'
        obtain ⟨p, hp, rfl⟩ := List.mem_map.mp hp'
        have hn : (funcState s rid { r with func := f } old).nextId = s.nextId + 1 := by
          unfold funcState; simp
        rw [hn]
        by_cases he : (p.1 == rid) = true
        · simp only [updWr, he, if_true, hwrapmid]; omega
        · simp only [updWr, he, Bool.false_eq_true, if_false]
          have := hd.fresh p hp; omega
      · intro key
        rw [hDk]
        simp only
        have hhp : ∀ x, hasPath (funcState s rid { r with func := f } old) x key = hasPath s x key := by
          intro x
          unfold hasPath
          rw [hL]
          by_cases he : x = rid
          · subst he; simp [hr]
          · simp [he]
        have hfilter : ((s.disp r.disp).wrapped.map (updWr rid (wrapFunc rid { r with func := f } s.nextId))).filter
            (fun p => hasPath (funcState s rid { r with func := f } old) p.1 key)
            = ((s.disp r.disp).wrapped.filter (fun p => hasPath s p.1 key)).map
                (updWr rid (wrapFunc rid { r with func := f } s.nextId)) := by
          simp only [hhp]
          exact filter_map_updWr rid _ (fun x => hasPath s x key) _
        rw [hfilter, lookupKey_activeReplace, hd.act key, List.map_map]
        have hnd : ((((s.disp r.disp).wrapped.filter (fun p => hasPath s p.1 key)).map (·.2)).map Entry.ident).Nodup := by
          rw [List.map_map]
          exact List.Nodup.sublist (List.Sublist.map _ List.filter_sublist) (idents_nodup hd)
        by_cases hkey : key = r.path
        · subst hkey
          simp only [if_true]
          rw [replaceFirst_eq_map _ _ _ hnd, List.map_map]
          apply List.map_congr_left
          intro p hp
          have hpw := (List.mem_filter.mp hp).1
          have hiff := ident_eq_iff_rid_eq hd hpw hmem
          simp only [Function.comp, updWr]
          by_cases h1 : p.1 = rid
          · have h2 : p.2.ident = old.ident := hiff.mpr h1
            simp [h1, h2]
          · have h2 : ¬ p.2.ident = old.ident := fun x => h1 (hiff.mp x)
            have h3 : (p.1 == rid) = false := by simpa using h1
            simp [h2, h3]
        · simp only [hkey, if_false]
          apply List.map_congr_left
          intro p hp
          have hh := (List.mem_filter.mp hp).2
          have : p.1 ≠ rid := by
            intro e1
            rw [e1] at hh
            simp only [hasPath, hr] at hh
            have hh' : r.path = key := by simpa using hh
            exact hkey hh'.symm
          have h3 : (p.1 == rid) = false := by simpa using this
          simp [Function.comp, updWr, h3]
      · rw [hDk]; simp only [akeys_activeReplace]; exact hd.keys
      · rw [hDk]; exact activeReplace_nonempty _ _ _ _ hd.nonempty
      · rw [hDk]; simp only [activeReplace_isEmpty]; exact hd.reg
    · have hDk := hD k
      have hk' : ¬ k = ({ r with func := f } : Resp).disp := hk
      simp only [hk', if_false] at hDk
      refine DInv_frame (s := s) hDk ?_ ?_ (by unfold funcState; simp) (h.d k)
      · intro p hp
        rw [hL]
        have : p.1 ≠ rid := by
          intro e1
          obtain ⟨r0, _, h1, _, h3, _⟩ := (h.d k).wr p hp
          rw [e1, hr] at h1; cases h1
          exact hk h3.symm
        simp [this]
      · intro rid' r' h1 h2 h3
        rw [hL] at h1
        by_cases he : rid' = rid
        · subst he; simp only [if_true] at h1; cases h1; exact absurd h3.symm hk
        · simp only [he, if_false] at h1; exact (h.d k).en rid' r' h1 h2 h3

theorem abs_funcState (s : St) (rid : Nat) (r' : Resp) (old : Entry) :
    abs (funcState s rid r' old) = aset (abs s) rid (absResp r') := by
  have hD := disp_funcState s rid r' old
  apply ASt.ext'
  · have : (funcState s rid r' old).resps = (setResp s rid r').resps := by unfold funcState; simp
    show (funcState s rid r' old).resps.map _ = _
    rw [this, abs_resps_setResp]
    rfl
  · intro k
    rw [abs_ord, hD k, ord_aset, abs_ord]
    split
    · simp only [map_updWr_fst]
    · rfl
  · intro k
    rw [abs_keys, hD k, keys_aset, abs_keys]
    split
    · simp only [akeys_activeReplace]
    · rfl
  · show (funcState s rid r' old).cmdPeriod = s.cmdPeriod
    unfold funcState; simp

theorem abs_setResp (s : St) (rid : Nat) (r' : Resp) : abs (setResp s rid r') = aset (abs s) rid (absResp r') := by
  apply ASt.ext'
  · show (setResp s rid r').resps.map _ = _
    rw [abs_resps_setResp]; rfl
  · intro k; cases k <;> rfl
  · intro k; cases k <;> rfl
  · rfl

theorem inv_setResp_disabled {s : St} (h : Inv s) {rid : Nat} {r : Resp} (hr : lookupResp s rid = some r)
    (hen : r.enabled = false) (r' : Resp) (hen' : r'.enabled = false) (hown : FnOwned rid r'.func) :
    Inv (setResp s rid r') := by
  have hL : ∀ rid', lookupResp (setResp s rid r') rid' = if rid' = rid then some r' else lookupResp s rid' := by
    intro rid'
    rw [lookupResp_setResp]
    by_cases he : rid' = rid
    · subst he; simp [hr]
    · simp [he]
  refine ⟨by rw [rids_setResp]; exact h.rids, ?_, ?_⟩
  · intro rid' r0 h1
    rw [hL] at h1
    by_cases he : rid' = rid
    · subst he; simp only [if_true] at h1; cases h1; exact hown
    · simp only [he, if_false] at h1; exact h.own _ _ h1
  · intro k
    refine DInv_frame (s := s) (disp_setResp s rid r' k) ?_ ?_ (Nat.le_refl _) (h.d k)
    · intro p hp
      rw [hL]
      have : p.1 ≠ rid := by
        intro e1
        obtain ⟨r0, _, h1, h2, _, _⟩ := (h.d k).wr p hp
        rw [e1, hr] at h1; cases h1
        rw [hen] at h2; cases h2
      simp [this]
    · intro rid' r0 h1 h2 h3
      rw [hL] at h1
      by_cases he : rid' = rid
      · subst he; simp only [if_true] at h1; cases h1; rw [hen'] at h2; cases h2
      · simp only [he, if_false] at h1; exact (h.d k).en rid' r0 h1 h2 h3

/-- replacing a responder's function refines `asetFunc` -/
theorem setFunc_refines {s : St} (h : Inv s) (rid : Nat) (f : Fn) (g : AFn → AFn)
    (hf : ∀ r, lookupResp s rid = some r → FnOwned rid f ∧ absFn f = g (absFn r.func)) :
    Inv (setFunc s rid f) ∧ abs (setFunc s rid f) = asetFunc (abs s) rid g := by
  cases hr : lookupResp s rid with
  | none =>
    have : setFunc s rid f = s := by simp [setFunc, hr]
    rw [this]
    exact ⟨h, by simp [asetFunc, alookup_abs, hr]⟩
  | some r =>
    obtain ⟨hown, hg⟩ := hf r hr
    have habsr : asetFunc (abs s) rid g = aset (abs s) rid (absResp { r with func := f }) := by
      unfold asetFunc
      rw [alookup_abs, hr]
      simp only [Option.map_some]
      congr 1
      simp [absResp, hg]
    cases hen : r.enabled
    · rw [setFunc_eq_disabled h hr hen f]
      exact ⟨inv_setResp_disabled h hr hen _ hen hown, by rw [abs_setResp, habsr]⟩
    · obtain ⟨old, hmem, heq⟩ := setFunc_eq_enabled h hr hen f
      rw [heq]
      exact ⟨inv_funcState h f hr hen hmem hown, by rw [abs_funcState, habsr]⟩

theorem inv_bump {s : St} (h : Inv s) (n : Nat) (hn : s.nextId ≤ n) : Inv ({ s with nextId := n } : St) := by
  refine ⟨h.rids, fun rid r hr => h.own rid r hr, ?_⟩
  intro k
  exact DInv_frame (s := s) (by cases k <;> rfl) (fun p _ => rfl) (fun rid r' h1 h2 h3 => (h.d k).en rid r' h1 h2 h3)
    hn (h.d k)

theorem abs_bump (s : St) (n : Nat) : abs ({ s with nextId := n } : St) = abs s := rfl

theorem oneShot_refines {s : St} (h : Inv s) (rid : Nat) :
    Inv (oneShot s rid) ∧ abs (oneShot s rid) = asetFunc (abs s) rid .once := by
  cases hr : lookupResp s rid with
  | none =>
    have : oneShot s rid = s := by simp [oneShot, hr]
    rw [this]
    exact ⟨h, by simp [asetFunc, alookup_abs, hr]⟩
  | some r =>
    have heq : oneShot s rid = setFunc { s with nextId := s.nextId + 1 } rid (.oneShot s.nextId rid r.func) := by
      simp [oneShot, hr]
    rw [heq]
    have hb := inv_bump h (s.nextId + 1) (Nat.le_succ _)
    have := setFunc_refines hb rid (.oneShot s.nextId rid r.func) AFn.once (by
      intro r0 h0
      have : lookupResp ({ s with nextId := s.nextId + 1 } : St) rid = lookupResp s rid := lookupResp_congr rfl rid
      rw [this, hr] at h0; cases h0
      exact ⟨⟨rfl, h.own rid r hr⟩, rfl⟩)
    rw [abs_bump] at this
    exact this

theorem setFuncUser_refines {s : St} (h : Inv s) (rid fid : Nat) :
    Inv (setFunc s rid (.user fid)) ∧ abs (setFunc s rid (.user fid)) = asetFunc (abs s) rid (fun _ => .user fid) :=
  setFunc_refines h rid (.user fid) (fun _ => .user fid) (fun _ _ => ⟨trivial, rfl⟩)

/-! ### new, CmdPeriod -/

theorem lookupResp_none_iff (s : St) (rid : Nat) : lookupResp s rid = none ↔ rid ∉ s.resps.map (·.1) := by
  unfold lookupResp
  induction s.resps with
  | nil => simp
  | cons p rest ih =>
    by_cases h : (p.1 == rid) = true
    · have : p.1 = rid := by simpa using h
      simp [List.find?_cons, h, this]
    · have hne : ¬ p.1 = rid := by simpa using h
      have hne' : ¬ rid = p.1 := fun e => hne e.symm
      simp only [List.find?_cons, h, List.map_cons, List.mem_cons, hne', false_or]
      exact ih

def appendResp (s : St) (rid : Nat) (r : Resp) : St := { s with resps := s.resps ++ [(rid, r)] }

theorem lookupResp_appendResp (s : St) (rid : Nat) (r : Resp) (hn : lookupResp s rid = none) (rid' : Nat) :
    lookupResp (appendResp s rid r) rid' = if rid' = rid then some r else lookupResp s rid' := by
  unfold lookupResp appendResp
  simp only [List.find?_append]
  by_cases he : rid' = rid
  · subst he
    have : s.resps.find? (·.1 == rid') = none := by
      have := hn; unfold lookupResp at this
      cases hf : s.resps.find? (·.1 == rid') with
      | none => rfl
      | some x => rw [hf] at this; cases this
    simp [this]
  · have hne : (rid == rid') = false := by simpa using fun e => he e.symm
    cases hf : s.resps.find? (·.1 == rid') with
    | none => simp [he, hne]
    | some x => simp [he]

theorem inv_appendResp {s : St} (h : Inv s) {rid : Nat} (hn : lookupResp s rid = none) (r : Resp)
    (hen : r.enabled = false) (hown : FnOwned rid r.func) : Inv (appendResp s rid r) := by
  have hL := lookupResp_appendResp s rid r hn
  refine ⟨?_, ?_, ?_⟩
  · show ((s.resps ++ [(rid, r)]).map (·.1)).Nodup
    simp only [List.map_append, List.map_cons, List.map_nil]
    refine List.nodup_append.mpr ⟨h.rids, by simp, ?_⟩
    intro a ha b hb
    simp at hb; subst hb
    exact fun e => (lookupResp_none_iff s b).mp hn (e ▸ ha)
  · intro rid' r' h1
    rw [hL] at h1
    by_cases he : rid' = rid
    · subst he; simp only [if_true] at h1; cases h1; exact hown
    · simp only [he, if_false] at h1; exact h.own _ _ h1
  · intro k
    refine DInv_frame (s := s) (by cases k <;> rfl) ?_ ?_ (Nat.le_refl _) (h.d k)
    · intro p hp
      rw [hL]
      have : p.1 ≠ rid := by
        intro e1
        obtain ⟨r0, _, h1, _, _, _⟩ := (h.d k).wr p hp
        rw [e1, hn] at h1; cases h1
      simp [this]
    · intro rid' r0 h1 h2 h3
      rw [hL] at h1
      by_cases he : rid' = rid
      · subst he; simp only [if_true] at h1; cases h1; rw [hen] at h2; cases h2
      · simp only [he, if_false] at h1; exact (h.d k).en rid' r0 h1 h2 h3

theorem new_refines {s : St} (h : Inv s) (rid : Nat) (kind : DispKind) (path : Str) (src : Option (Nat × Option Nat))
    (port : Option Nat) (tmpl : Option (List TItem)) (fid : Nat) :
    Inv (newResp s rid kind path src port tmpl fid) ∧
      abs (newResp s rid kind path src port tmpl fid) = anew (abs s) rid kind path src port tmpl fid := by
  unfold newResp anew
  rw [alookup_abs]
  cases hr : lookupResp s rid with
  | some r => simp only [Option.isSome_some, if_true, Option.map_some]; exact ⟨h, trivial⟩
  | none =>
    simp only [Option.isSome_none, Bool.false_eq_true, if_false, Option.map_none]
    have hi := inv_appendResp h hr ⟨normPath path, src, port, tmpl, .user fid, false, false, kind⟩ rfl trivial
    have := enable_refines hi rid
    refine ⟨this.1, ?_⟩
    show abs (enable (appendResp s rid _) rid) = _
    rw [this.2]
    congr 1
    apply ASt.ext'
    · show (s.resps ++ [_]).map _ = _
      simp [abs, absResp, absFn]
    · intro k; cases k <;> rfl
    · intro k; cases k <;> rfl
    · rfl

theorem withCmd_refines {s : St} (h : Inv s) (c : List ActKey) :
    Inv ({ s with cmdPeriod := c } : St) ∧ abs ({ s with cmdPeriod := c } : St) = { abs s with cmd := c } := by
  refine ⟨⟨h.rids, fun rid r hr => h.own rid r hr, ?_⟩, rfl⟩
  intro k
  exact DInv_frame (s := s) (by cases k <;> rfl) (fun p _ => rfl)
    (fun rid r' h1 h2 h3 => (h.d k).en rid r' h1 h2 h3) (Nat.le_refl _) (h.d k)

theorem cmdPeriod_go_refines : ∀ (ks : List ActKey) (s : St), Inv s →
    Inv (cmdPeriodRun.go s ks).1 ∧ abs (cmdPeriodRun.go s ks).1 = (acmdPeriod.go (abs s) ks).1 ∧
      (cmdPeriodRun.go s ks).2 = (acmdPeriod.go (abs s) ks).2
  | [], s, h => ⟨h, rfl, rfl⟩
  | k :: ks, s, h => by
    unfold cmdPeriodRun.go acmdPeriod.go
    have hc : (abs s).cmd = s.cmdPeriod := rfl
    rw [hc]
    split
    · cases k with
      | resp rid =>
        simp only
        have hd := disable_refines h rid
        have ih := cmdPeriod_go_refines ks (free s rid) hd.1
        have e : abs (free s rid) = adisable (abs s) rid := hd.2
        rw [e] at ih
        exact ih
      | user aid =>
        simp only
        have ih := cmdPeriod_go_refines ks s h
        exact ⟨ih.1, ih.2.1, by rw [ih.2.2]⟩
    · exact cmdPeriod_go_refines ks s h

theorem cmdPeriod_refines {s : St} (h : Inv s) :
    Inv (cmdPeriodRun s).1 ∧ abs (cmdPeriodRun s).1 = (acmdPeriod (abs s)).1 ∧
      (cmdPeriodRun s).2 = (acmdPeriod (abs s)).2 :=
  cmdPeriod_go_refines s.cmdPeriod s h

/-! ### calling a responder's function -/

theorem alookup_aset (a : ASt) (rid : Nat) (r' : AResp) (rid' : Nat) :
    alookup (aset a rid r') rid' = if rid' = rid then (alookup a rid').map (fun _ => r') else alookup a rid' := by
  unfold alookup aset
  simp only
  induction a.resps with
  | nil => simp
  | cons p rest ih =>
    simp only [List.map_cons, List.find?_cons]
    by_cases hp : p.1 = rid
    · have h1 : (p.1 == rid) = true := by simpa using hp
      simp only [h1, if_true]
      by_cases h : rid' = rid
      · subst h
        have h2 : (p.1 == rid') = true := h1
        simp [h2]
      · have h2 : (rid == rid') = false := by simpa using fun e => h e.symm
        have h3 : (p.1 == rid') = false := by rw [hp]; exact h2
        simp only [h2, h3, h, if_false]
        simpa [h] using ih
    · have h1 : (p.1 == rid) = false := by simpa using hp
      simp only [h1, Bool.false_eq_true, if_false]
      by_cases h3 : (p.1 == rid') = true
      · have : rid' ≠ rid := fun e => hp (by rw [← e]; simpa using h3)
        simp [h3, this]
      · simp only [h3, Bool.false_eq_true, if_false] at ih ⊢
        exact ih

theorem alookup_withDisp (a : ASt) (k : DispKind) (o : List Nat) (ks : List Str) (rid : Nat) :
    alookup (a.withDisp k o ks) rid = alookup a rid := by
  unfold alookup; simp

theorem adisable_idem (a : ASt) (rid : Nat) : adisable (adisable a rid) rid = adisable a rid := by
  cases hl : alookup a rid with
  | none => simp [adisable, hl]
  | some r =>
    cases hen : r.enabled
    · simp [adisable, hl, hen]
    · have h1 : alookup (adisable a rid) rid = some { r with enabled := false } := by
        unfold adisable
        simp only [hl, hen, Bool.not_true, Bool.false_eq_true, if_false]
        have : ∀ (x : ASt) (c : List ActKey), alookup ({ x with cmd := c } : ASt) rid = alookup x rid := fun _ _ => rfl
        rw [this, alookup_withDisp, alookup_aset]
        simp [hl]
      generalize adisable a rid = a1 at h1 ⊢
      simp [adisable, h1]

theorem callFn_refines (env : Env) : ∀ (f : Fn) (s : St) (rid : Nat), Inv s → FnOwned rid f →
    Inv (callFn s f).1 ∧
    abs (callFn s f).1 = (if (absFn f).isOnce then adisable (abs s) rid else abs s) ∧
    (callFn s f).2 = [(absFn f).fid]
  | .user fid, s, rid, h, _ => ⟨h, rfl, rfl⟩
  | .oneShot oid r inner, s, rid, h, hown => by
    obtain ⟨rfl, hown'⟩ := hown
    have hd := disable_refines h r
    have ih := callFn_refines env inner (free s r) r hd.1 hown'
    simp only [callFn, absFn, AFn.isOnce, AFn.fid, if_true]
    refine ⟨ih.1, ?_, ih.2.2⟩
    rw [ih.2.1]
    have e : abs (free s r) = adisable (abs s) r := hd.2
    rw [e]
    split
    · exact adisable_idem _ _
    · rfl

/-! ### snapshots of dispatcher entries -/

/-- the entry `p.2` is the wrapped function of responder `p.1` as it is now -/
def EntryView (s : St) (p : Nat × Entry) : Prop :=
  ∃ r mid, lookupResp s p.1 = some r ∧ p.2 = .matcher mid p.1 r.src r.port r.tmpl r.func

/-- what `disable` keeps of every responder -/
theorem lookup_disable {s : St} (h : Inv s) (rid : Nat) {x : Nat} {r : Resp} (hx : lookupResp s x = some r) :
    ∃ r', lookupResp (disable s rid) x = some r' ∧ r'.src = r.src ∧ r'.port = r.port ∧ r'.tmpl = r.tmpl ∧
      r'.func = r.func ∧ r'.path = r.path ∧ r'.disp = r.disp := by
  cases hr : lookupResp s rid with
  | none =>
    have : disable s rid = s := by simp [disable, hr]
    rw [this]; exact ⟨r, hx, rfl, rfl, rfl, rfl, rfl, rfl⟩
  | some r0 =>
    cases hen : r0.enabled
    · have : disable s rid = s := by simp [disable, hr, hen]
      rw [this]; exact ⟨r, hx, rfl, rfl, rfl, rfl, rfl, rfl⟩
    · obtain ⟨e, _, heq⟩ := disable_eq h hr hen
      rw [heq, lookupResp_disabledState s rid r0 e hr]
      by_cases he : x = rid
      · subst he
        rw [hr] at hx; cases hx
        exact ⟨{ r with enabled := false }, by simp, rfl, rfl, rfl, rfl, rfl, rfl⟩
      · exact ⟨r, by simp [he, hx], rfl, rfl, rfl, rfl, rfl, rfl⟩

theorem view_disable {s : St} (h : Inv s) (rid : Nat) {p : Nat × Entry} (hv : EntryView s p) :
    EntryView (disable s rid) p := by
  obtain ⟨r, mid, h1, h2⟩ := hv
  obtain ⟨r', h1', e1, e2, e3, e4, _, _⟩ := lookup_disable h rid h1
  exact ⟨r', mid, h1', by rw [e1, e2, e3, e4]; exact h2⟩

theorem view_callFn (env : Env) : ∀ (f : Fn) (s : St) (rid : Nat), Inv s → FnOwned rid f →
    ∀ p, EntryView s p → EntryView (callFn s f).1 p
  | .user _, _, _, _, _, _, hv => hv
  | .oneShot _ r inner, s, rid, h, hown, p, hv => by
    obtain ⟨rfl, hown'⟩ := hown
    simp only [callFn]
    exact view_callFn env inner (free s r) r (disable_refines h r).1 hown' p (view_disable h r hv)

/-- the accepted entries of a snapshot, what they call and which of them free their responder -/
def hitsOf (env : Env) (d : Delivery) (L : List (Nat × Entry)) : List (Nat × Entry) :=
  L.filter fun p => p.2.accepts env d

def fidsOf (env : Env) (d : Delivery) (L : List (Nat × Entry)) : List Nat :=
  (hitsOf env d L).map fun p => (absFn p.2.fn).fid

def onceRids (env : Env) (d : Delivery) (L : List (Nat × Entry)) : List Nat :=
  ((hitsOf env d L).filter fun p => (absFn p.2.fn).isOnce).map (·.1)

theorem adisableAll_append (a : ASt) : ∀ (l1 l2 : List Nat),
    adisableAll a (l1 ++ l2) = adisableAll (adisableAll a l1) l2
  | [], _ => rfl
  | x :: l1, l2 => by simp only [List.cons_append, adisableAll]; exact adisableAll_append _ l1 l2

theorem runEntries_refines (env : Env) (d : Delivery) : ∀ (L : List (Nat × Entry)) (s : St), Inv s →
    (∀ p ∈ L, EntryView s p) →
    Inv (runEntries env s d (L.map (·.2))).1 ∧
    abs (runEntries env s d (L.map (·.2))).1 = adisableAll (abs s) (onceRids env d L) ∧
    (runEntries env s d (L.map (·.2))).2 = fidsOf env d L ∧
    (∀ q, EntryView s q → EntryView (runEntries env s d (L.map (·.2))).1 q)
  | [], s, h, _ => ⟨h, rfl, rfl, fun _ hq => hq⟩
  | p :: L, s, h, hv => by
    have hvp := hv p List.mem_cons_self
    obtain ⟨r, mid, h1, h2⟩ := hvp
    have hfn : p.2.fn = r.func := by rw [h2]; rfl
    have hown : FnOwned p.1 p.2.fn := by rw [hfn]; exact h.own p.1 r h1
    simp only [List.map_cons, runEntries, callEntry]
    by_cases hacc : p.2.accepts env d = true
    · simp only [hacc, if_true]
      have hc := callFn_refines env p.2.fn s p.1 h hown
      have hvw := view_callFn env p.2.fn s p.1 h hown
      have ih := runEntries_refines env d L (callFn s p.2.fn).1 hc.1
        (fun q hq => hvw q (hv q (List.mem_cons_of_mem _ hq)))
      refine ⟨ih.1, ?_, ?_, fun q hq => ih.2.2.2 q (hvw q hq)⟩
      · rw [ih.2.1, hc.2.1]
        simp only [onceRids, hitsOf, List.filter_cons, hacc, if_true]
        by_cases ho : (absFn p.2.fn).isOnce = true
        · simp [ho, adisableAll]
        · simp [ho]
      · rw [ih.2.2.1, hc.2.2]
        simp [fidsOf, hitsOf, List.filter_cons, hacc]
    · simp only [hacc, Bool.false_eq_true, if_false]
      have ih := runEntries_refines env d L s h (fun q hq => hv q (List.mem_cons_of_mem _ hq))
      refine ⟨ih.1, ?_, ?_, ih.2.2.2⟩
      · rw [ih.2.1]; simp [onceRids, hitsOf, List.filter_cons, hacc]
      · rw [ih.2.2.1]; simp [fidsOf, hitsOf, List.filter_cons, hacc]

/-! ### the abstract hits, seen from the concrete state -/

def pairAbs (s : St) (p : Nat × Entry) : Option (Nat × AResp) :=
  (lookupResp s p.1).map fun r => (p.1, absResp r)

theorem aenabled_abs (s : St) (k : DispKind) :
    aenabled (abs s) k = (s.disp k).wrapped.filterMap (pairAbs s) := by
  unfold aenabled
  rw [abs_ord, List.filterMap_map]
  congr 1
  funext p
  simp [Function.comp, pairAbs, alookup_abs, Option.map_map]
  rfl

theorem hits_abs (env : Env) (d : Delivery) (s : St) (key : Str) : ∀ (W : List (Nat × Entry)),
    (∀ p ∈ W, EntryView s p) →
    (((W.filterMap (pairAbs s)).filter (fun q => q.2.path == key && q.2.accepts env d)).map (·.2.func.fid)
        = fidsOf env d (W.filter (fun p => hasPath s p.1 key))) ∧
    ((((W.filterMap (pairAbs s)).filter (fun q => q.2.path == key && q.2.accepts env d)).filter
        (·.2.func.isOnce)).map (·.1) = onceRids env d (W.filter (fun p => hasPath s p.1 key)))
  | [], _ => ⟨rfl, rfl⟩
  | p :: W, hv => by
    obtain ⟨r, mid, h1, h2⟩ := hv p List.mem_cons_self
    have ih := hits_abs env d s key W (fun q hq => hv q (List.mem_cons_of_mem _ hq))
    have hpa : pairAbs s p = some (p.1, absResp r) := by simp [pairAbs, h1]
    have hhp : hasPath s p.1 key = (r.path == key) := by simp [hasPath, h1]
    have hacc : p.2.accepts env d = (absResp r).accepts env d := by
      rw [h2]; rfl
    have hfn : absFn p.2.fn = (absResp r).func := by rw [h2]; rfl
    simp only [List.filterMap_cons, hpa, List.filter_cons, hhp]
    have hpath : (absResp r).path = r.path := rfl
    by_cases hk : (r.path == key) = true
    · simp only [hk, if_true, hpath, Bool.true_and]
      by_cases ha : (absResp r).accepts env d = true
      · simp only [ha, if_true, List.map_cons, fidsOf, onceRids, hitsOf, List.filter_cons, hacc, hfn]
        constructor
        · simp only [List.cons.injEq, true_and]
          exact ih.1
        · by_cases ho : (absResp r).func.isOnce = true
          · simp only [ho, if_true, List.map_cons, List.cons.injEq, true_and]
            exact ih.2
          · simp only [ho, Bool.false_eq_true, if_false]
            exact ih.2
      · simp only [ha, Bool.false_eq_true, if_false, fidsOf, onceRids, hitsOf, List.filter_cons, hacc]
        exact ih
    · simp only [hk, Bool.false_eq_true, if_false, hpath, Bool.false_and]
      exact ih

/-! ### exact dispatch -/

theorem views_of_wrapped {s : St} {k : DispKind} (hd : DInv s k) : ∀ p ∈ (s.disp k).wrapped, EntryView s p := by
  intro p hp
  obtain ⟨r, mid, h1, _, _, h4⟩ := hd.wr p hp
  exact ⟨r, mid, h1, h4⟩

theorem dispatchExact_refines (env : Env) (d : Delivery) {s : St} (h : Inv s) :
    Inv (dispatchExact env s d).1 ∧
    abs (dispatchExact env s d).1 = (adispatch env (abs s) .exact d).1 ∧
    (dispatchExact env s d).2 = (adispatch env (abs s) .exact d).2.called := by
  have hd := h.d .exact
  have hact := hd.act d.addr
  have hv := views_of_wrapped hd
  unfold dispatchExact
  have e : lookupKey d.addr s.exact.active = lookupKey d.addr (s.disp .exact).active := rfl
  rw [e, hact]
  have hr := runEntries_refines env d ((s.disp .exact).wrapped.filter (fun p => hasPath s p.1 d.addr)) s h
    (fun p hp => hv p (List.mem_filter.mp hp).1)
  have hh := hits_abs env d s d.addr (s.disp .exact).wrapped hv
  refine ⟨hr.1, ?_, ?_⟩
  · rw [hr.2.1]
    simp only [adispatch, ahits, aenabled_abs]
    rw [hh.2]
  · rw [hr.2.2.1]
    simp only [adispatch, ahits, aenabled_abs]
    rw [hh.1]

/-! ### matching dispatch -/

theorem hasPath_disable {s : St} (h : Inv s) (rid x : Nat) (key : Str) :
    hasPath (disable s rid) x key = hasPath s x key := by
  cases hr : lookupResp s rid with
  | none => have : disable s rid = s := by simp [disable, hr]
            rw [this]
  | some r =>
    cases hen : r.enabled
    · have : disable s rid = s := by simp [disable, hr, hen]
      rw [this]
    · obtain ⟨e, _, heq⟩ := disable_eq h hr hen
      rw [heq]
      unfold hasPath
      rw [lookupResp_disabledState s rid r e hr]
      by_cases he : x = rid
      · subst he; simp [hr]
      · simp [he]

/-- the entries of dispatcher `k` with path `key`, as (responder, entry) pairs in registration order -/
def keyPairs (s : St) (k : DispKind) (key : Str) : List (Nat × Entry) :=
  (s.disp k).wrapped.filter fun p => hasPath s p.1 key

theorem keyPairs_disable {s : St} (h : Inv s) (k : DispKind) {rid : Nat} {key key' : Str}
    (hp : hasPath s rid key = true) (hne : key' ≠ key) :
    keyPairs (disable s rid) k key' = keyPairs s k key' := by
  unfold keyPairs
  have hhp : (fun (p : Nat × Entry) => hasPath (disable s rid) p.1 key') = fun p => hasPath s p.1 key' := by
    funext p; exact hasPath_disable h rid p.1 key'
  rw [hhp]
  cases hr : lookupResp s rid with
  | none => simp [hasPath, hr] at hp
  | some r =>
    have hpath : r.path = key := by simpa [hasPath, hr] using hp
    cases hen : r.enabled
    · have : disable s rid = s := by simp [disable, hr, hen]
      rw [this]
    · obtain ⟨e, _, heq⟩ := disable_eq h hr hen
      rw [heq, disp_disabledState]
      split
      · rename_i hk; subst hk
        simp only
        rw [List.filter_filter]
        apply List.filter_congr
        intro p _
        by_cases he : p.1 = rid
        · have : hasPath s p.1 key' = false := by
            rw [he]; simp only [hasPath, hr, hpath]
            simpa using fun e => hne e.symm
          simp [this]
        · have : (p.1 != rid) = true := by simpa using he
          simp [this]
      · rfl

theorem keyPairs_callFn (k : DispKind) {key key' : Str} (hne : key' ≠ key) : ∀ (f : Fn) (s : St) (rid : Nat),
    Inv s → FnOwned rid f → hasPath s rid key = true →
    keyPairs (callFn s f).1 k key' = keyPairs s k key' ∧
      (∀ x key0, hasPath (callFn s f).1 x key0 = hasPath s x key0)
  | .user _, _, _, _, _, _ => ⟨rfl, fun _ _ => rfl⟩
  | .oneShot _ r inner, s, rid, h, hown, hp => by
    obtain ⟨rfl, hown'⟩ := hown
    simp only [callFn]
    have hd := disable_refines h r
    have hp' : hasPath (free s r) r key = true := by
      show hasPath (disable s r) r key = true
      rw [hasPath_disable h]; exact hp
    have ih := keyPairs_callFn k hne inner (free s r) r hd.1 hown' hp'
    refine ⟨?_, ?_⟩
    · rw [ih.1]; exact keyPairs_disable h k hp hne
    · intro x key0
      rw [ih.2]; exact hasPath_disable h r x key0

theorem keyPairs_runEntries (env : Env) (d : Delivery) (k : DispKind) {key key' : Str} (hne : key' ≠ key) :
    ∀ (L : List (Nat × Entry)) (s : St), Inv s → (∀ p ∈ L, EntryView s p ∧ hasPath s p.1 key = true) →
    keyPairs (runEntries env s d (L.map (·.2))).1 k key' = keyPairs s k key'
  | [], _, _, _ => rfl
  | p :: L, s, h, hv => by
    obtain ⟨⟨r, mid, h1, h2⟩, hpk⟩ := hv p List.mem_cons_self
    have hfn : p.2.fn = r.func := by rw [h2]; rfl
    have hown : FnOwned p.1 p.2.fn := by rw [hfn]; exact h.own p.1 r h1
    simp only [List.map_cons, runEntries, callEntry]
    by_cases hacc : p.2.accepts env d = true
    · simp only [hacc, if_true]
      have hc := callFn_refines env p.2.fn s p.1 h hown
      have hk := keyPairs_callFn k hne p.2.fn s p.1 h hown hpk
      have hvw := view_callFn env p.2.fn s p.1 h hown
      have ih := keyPairs_runEntries env d k hne L (callFn s p.2.fn).1 hc.1 (fun q hq => by
        obtain ⟨v1, v2⟩ := hv q (List.mem_cons_of_mem _ hq)
        exact ⟨hvw q v1, by rw [hk.2]; exact v2⟩)
      rw [ih, hk.1]
    · simp only [hacc, Bool.false_eq_true, if_false]
      exact keyPairs_runEntries env d k hne L s h (fun q hq => hv q (List.mem_cons_of_mem _ hq))

def matchKey (d : Delivery) (key : Str) : Bool := oscMatch d.addr key == some true

theorem oscMatch_total (p a : Str) : ∃ b, oscMatch p a = some b := by
  have hc : catchesReError = true := rfl
  unfold oscMatch
  cases reParse (rewrite p) with
  | ok r => exact ⟨_, rfl⟩
  | error e => exact ⟨false, by simp [hc]⟩

theorem patternKeys_refines (env : Env) (d : Delivery) : ∀ (ks : List Str) (s : St), Inv s → ks.Nodup →
    ∃ s' fids, dispatchPatternKeys env d s ks = some (s', fids) ∧ Inv s' ∧
      abs s' = adisableAll (abs s)
        ((ks.filter (matchKey d)).flatMap fun key => onceRids env d (keyPairs s .pattern key)) ∧
      fids = (ks.filter (matchKey d)).flatMap fun key => fidsOf env d (keyPairs s .pattern key)
  | [], s, h, _ => ⟨s, [], rfl, h, rfl, rfl⟩
  | key :: ks, s, h, hnd => by
    simp only [List.nodup_cons] at hnd
    obtain ⟨b, hb⟩ := oscMatch_total d.addr key
    unfold dispatchPatternKeys
    rw [hb]
    cases b with
    | false =>
      simp only
      obtain ⟨s', fids, h1, h2, h3, h4⟩ := patternKeys_refines env d ks s h hnd.2
      have hm : matchKey d key = false := by simp [matchKey, hb]
      exact ⟨s', fids, h1, h2, by simp [List.filter_cons, hm, h3], by simp [List.filter_cons, hm, h4]⟩
    | true =>
      simp only
      have hm : matchKey d key = true := by simp [matchKey, hb]
      have hd := h.d .pattern
      have hact : lookupKey key s.pattern.active = (keyPairs s .pattern key).map (·.2) := hd.act key
      rw [hact]
      have hv : ∀ p ∈ keyPairs s .pattern key, EntryView s p ∧ hasPath s p.1 key = true := by
        intro p hp
        have := List.mem_filter.mp hp
        exact ⟨views_of_wrapped hd p this.1, this.2⟩
      have hr := runEntries_refines env d (keyPairs s .pattern key) s h (fun p hp => (hv p hp).1)
      obtain ⟨s', fids, h1, h2, h3, h4⟩ := patternKeys_refines env d ks _ hr.1 hnd.2
      have hsame : ∀ key' ∈ ks, keyPairs (runEntries env s d ((keyPairs s .pattern key).map (·.2))).1 .pattern key'
          = keyPairs s .pattern key' := by
        intro key' hk'
        have hne : key' ≠ key := fun e => hnd.1 (e ▸ hk')
        exact keyPairs_runEntries env d .pattern hne _ s h hv
      have hflat : ∀ (g : List (Nat × Entry) → List Nat),
          ((ks.filter (matchKey d)).flatMap fun key' =>
              g (keyPairs (runEntries env s d ((keyPairs s .pattern key).map (·.2))).1 .pattern key'))
            = (ks.filter (matchKey d)).flatMap fun key' => g (keyPairs s .pattern key') := by
        intro g
        have : ∀ (l : List Str), (∀ x ∈ l, x ∈ ks) →
            (l.flatMap fun key' =>
              g (keyPairs (runEntries env s d ((keyPairs s .pattern key).map (·.2))).1 .pattern key'))
            = l.flatMap fun key' => g (keyPairs s .pattern key') := by
          intro l
          induction l with
          | nil => intro _; rfl
          | cons x xs ihx =>
            intro hx
            simp only [List.flatMap_cons]
            rw [hsame x (hx x List.mem_cons_self), ihx (fun y hy => hx y (List.mem_cons_of_mem _ hy))]
        exact this _ (fun x hx => (List.mem_filter.mp hx).1)
      refine ⟨s', (runEntries env s d ((keyPairs s .pattern key).map (·.2))).2 ++ fids, ?_, h2, ?_, ?_⟩
      · rw [h1]
      · rw [h3, hr.2.1, hflat]
        simp only [List.filter_cons, hm, if_true, List.flatMap_cons]
        rw [adisableAll_append]
      · rw [h4, hr.2.2.1, hflat]
        simp only [List.filter_cons, hm, if_true, List.flatMap_cons]

theorem dispatchPattern_refines (env : Env) (d : Delivery) {s : St} (h : Inv s) :
    Inv (dispatchPattern env s d).1 ∧
    abs (dispatchPattern env s d).1 = (adispatch env (abs s) .pattern d).1 ∧
    (dispatchPattern env s d).2 = (adispatch env (abs s) .pattern d).2 := by
  have hd := h.d .pattern
  have hv := views_of_wrapped hd
  have hks : (s.pattern.active.map (fun (x : Str × List Entry) => x.1)).Nodup := hd.keys
  obtain ⟨s', fids, h1, h2, h3, h4⟩ := patternKeys_refines env d _ s h hks
  have hk : (abs s).keysP = s.pattern.active.map (·.1) := rfl
  -- the abstract hits, key by key
  have hfid : (ahits env (abs s) .pattern d).map (·.2.func.fid)
      = ((s.pattern.active.map (·.1)).filter (matchKey d)).flatMap fun key => fidsOf env d (keyPairs s .pattern key) := by
    simp only [ahits, hk, List.map_flatMap, aenabled_abs]
    have : ∀ (l : List Str), (l.flatMap fun key =>
        ((((s.disp .pattern).wrapped.filterMap (pairAbs s)).filter
          (fun p => p.2.path == key && p.2.accepts env d)).map (·.2.func.fid)))
        = l.flatMap fun key => fidsOf env d (keyPairs s .pattern key) := by
      intro l
      induction l with
      | nil => rfl
      | cons x xs ih => simp only [List.flatMap_cons, ih, (hits_abs env d s x _ hv).1, keyPairs]
    exact this _
  have honce : ((ahits env (abs s) .pattern d).filter (·.2.func.isOnce)).map (·.1)
      = ((s.pattern.active.map (·.1)).filter (matchKey d)).flatMap fun key => onceRids env d (keyPairs s .pattern key) := by
    simp only [ahits, hk, List.filter_flatMap, List.map_flatMap, aenabled_abs]
    have : ∀ (l : List Str), (l.flatMap fun key =>
        (((((s.disp .pattern).wrapped.filterMap (pairAbs s)).filter
          (fun p => p.2.path == key && p.2.accepts env d)).filter (·.2.func.isOnce)).map (·.1)))
        = l.flatMap fun key => onceRids env d (keyPairs s .pattern key) := by
      intro l
      induction l with
      | nil => rfl
      | cons x xs ih => simp only [List.flatMap_cons, ih, (hits_abs env d s x _ hv).2, keyPairs]
    exact this _
  unfold dispatchPattern
  rw [h1]
  simp only [adispatch]
  refine ⟨h2, ?_, ?_⟩
  · rw [h3, honce]
  · rw [h4, hfid]

theorem registered_abs {s : St} (h : Inv s) (k : DispKind) : (s.disp k).registered = aregistered (abs s) k := by
  rw [(h.d k).reg]
  unfold aregistered
  rw [abs_keys]
  cases (s.disp k).active <;> simp [akeys]

theorem dispatchMsg_refines (env : Env) (patFirst : Bool) (d : Delivery) {s : St} (h : Inv s) :
    Inv (dispatchMsg env patFirst s d).1 ∧
    abs (dispatchMsg env patFirst s d).1 = (adispatchMsg env patFirst (abs s) d).1 ∧
    (dispatchMsg env patFirst s d).2 = (adispatchMsg env patFirst (abs s) d).2 := by
  have hE : s.exact.registered = aregistered (abs s) .exact := registered_abs h .exact
  have hP : s.pattern.registered = aregistered (abs s) .pattern := registered_abs h .pattern
  unfold dispatchMsg adispatchMsg
  simp only [hE, hP]
  cases patFirst
  · -- exact first
    simp only [Bool.false_eq_true, if_false, List.filter_cons, List.filter_nil]
    cases hre : aregistered (abs s) .exact <;> cases hrp : aregistered (abs s) .pattern
    · simp only [Bool.false_eq_true, if_false, adispatchList]; exact ⟨h, trivial, trivial⟩
    · simp only [Bool.false_eq_true, if_false, if_true, adispatchList]
      have p := dispatchPattern_refines env d h
      refine ⟨p.1, ?_, ?_⟩
      · simpa using p.2.1
      · simp [p.2.2]
    · simp only [if_true, Bool.false_eq_true, if_false, adispatchList]
      have e := dispatchExact_refines env d h
      refine ⟨e.1, ?_, ?_⟩
      · simpa using e.2.1
      · simp [e.2.2, adispatch]
    · simp only [if_true, adispatchList]
      have e := dispatchExact_refines env d h
      have p := dispatchPattern_refines env d e.1
      rw [e.2.1] at p
      refine ⟨p.1, ?_, ?_⟩
      · simpa using p.2.1
      · simp [e.2.2, p.2.2, adispatch]
  · -- matching dispatcher first
    simp only [if_true, List.filter_cons, List.filter_nil]
    cases hre : aregistered (abs s) .exact <;> cases hrp : aregistered (abs s) .pattern
    · simp only [Bool.false_eq_true, if_false, adispatchList]; exact ⟨h, trivial, trivial⟩
    · simp only [if_true, Bool.false_eq_true, if_false, adispatchList]
      have p := dispatchPattern_refines env d h
      have hr : (dispatchPattern env s d).2.raised = false := by rw [p.2.2]; rfl
      simp only [hr, Bool.false_eq_true, if_false]
      refine ⟨p.1, ?_, ?_⟩
      · simpa using p.2.1
      · simp [p.2.2]
    · simp only [Bool.false_eq_true, if_false, if_true, adispatchList]
      have e := dispatchExact_refines env d h
      refine ⟨e.1, ?_, ?_⟩
      · simpa using e.2.1
      · simp [e.2.2, adispatch]
    · simp only [if_true, adispatchList]
      have p := dispatchPattern_refines env d h
      have hr : (dispatchPattern env s d).2.raised = false := by rw [p.2.2]; rfl
      simp only [hr, Bool.false_eq_true, if_false]
      have e := dispatchExact_refines env d p.1
      rw [p.2.1] at e
      refine ⟨e.1, ?_, ?_⟩
      · simpa using e.2.1
      · simp [p.2.2, e.2.2, adispatch]

/-! ### whole histories -/

open Sc3Verif.C06 (DMsg decodePacket)

theorem dispatchAll_refines (env : Env) (cfg : RecvCfg) (sender : Sender) :
    ∀ (msgs : List (Option Nat × DMsg)) (s : St), Inv s →
    Inv (dispatchAll env cfg sender s msgs).1 ∧
    abs (dispatchAll env cfg sender s msgs).1 = (adispatchAll env cfg sender (abs s) msgs).1 ∧
    (dispatchAll env cfg sender s msgs).2 = (adispatchAll env cfg sender (abs s) msgs).2
  | [], s, h => ⟨h, rfl, rfl⟩
  | tm :: rest, s, h => by
    have hm := dispatchMsg_refines env cfg.patFirst (mkDelivery cfg sender tm) h
    have ih := dispatchAll_refines env cfg sender rest _ hm.1
    simp only [dispatchAll, adispatchAll]
    rw [hm.2.1] at ih
    exact ⟨ih.1, ih.2.1, by rw [ih.2.2, hm.2.2]⟩

theorem step_refines (env : Env) {s : St} (h : Inv s) (op : Op) :
    Inv (step env s op).1 ∧ abs (step env s op).1 = (astep env (abs s) op).1 ∧
      (step env s op).2 = (astep env (abs s) op).2 := by
  cases op with
  | new rid kind path src port tmpl fid =>
    have := new_refines h rid kind path src port tmpl fid
    exact ⟨this.1, this.2, rfl⟩
  | enable rid => have := enable_refines h rid; exact ⟨this.1, this.2, rfl⟩
  | disable rid => have := disable_refines h rid; exact ⟨this.1, this.2, rfl⟩
  | free rid => have := disable_refines h rid; exact ⟨this.1, this.2, rfl⟩
  | oneShot rid => have := oneShot_refines h rid; exact ⟨this.1, this.2, rfl⟩
  | setFunc rid fid => have := setFuncUser_refines h rid fid; exact ⟨this.1, this.2, rfl⟩
  | permanent rid v => have := permanent_refines h rid v; exact ⟨this.1, this.2, rfl⟩
  | cmdPeriod =>
    have := cmdPeriod_refines h
    simp only [step, astep]
    exact ⟨this.1, this.2.1, by rw [this.2.2]⟩
  | cmdAdd aid => have := withCmd_refines h (cmdAdd (.user aid) s.cmdPeriod); exact ⟨this.1, this.2, rfl⟩
  | cmdRemove aid => have := withCmd_refines h (cmdRemove (.user aid) s.cmdPeriod); exact ⟨this.1, this.2, rfl⟩
  | recv cfg data sender =>
    simp only [step, astep, handleRequest]
    cases decodePacket data with
    | error e => exact ⟨h, rfl, rfl⟩
    | ok msgs =>
      have := dispatchAll_refines env cfg sender msgs s h
      exact ⟨this.1, this.2.1, by simp only; rw [this.2.2]⟩

theorem run_refines (env : Env) : ∀ (ops : List Op) (s : St), Inv s →
    Inv (run env s ops).1 ∧ abs (run env s ops).1 = (arun env (abs s) ops).1 ∧
      (run env s ops).2 = (arun env (abs s) ops).2
  | [], s, h => ⟨h, rfl, rfl⟩
  | op :: ops, s, h => by
    have hs := step_refines env h op
    have ih := run_refines env ops _ hs.1
    simp only [run, arun]
    rw [hs.2.1] at ih
    exact ⟨ih.1, ih.2.1, by rw [ih.2.2, hs.2.2]⟩

/-- states the real responders / dispatchers can be in -/
def Reachable (env : Env) (s : St) : Prop := ∃ ops : List Op, s = (run env St.init ops).1

theorem reachable_inv {env : Env} {s : St} (h : Reachable env s) : Inv s := by
  obtain ⟨ops, rfl⟩ := h
  exact (run_refines env ops St.init inv_init).1

theorem mem_filterMap_pairAbs {s : St} {k : DispKind} (hd : DInv s k) (q : Nat × AResp) :
    q ∈ (s.disp k).wrapped.filterMap (pairAbs s) ↔
      ∃ r, lookupResp s q.1 = some r ∧ r.enabled = true ∧ r.disp = k ∧ q.2 = absResp r := by
  rw [List.mem_filterMap]
  constructor
  · rintro ⟨p, hp, hq⟩
    obtain ⟨r, mid, h1, h2, h3, _⟩ := hd.wr p hp
    simp only [pairAbs, h1, Option.map_some, Option.some.injEq] at hq
    subst hq
    exact ⟨r, h1, h2, h3, rfl⟩
  · rintro ⟨r, h1, h2, h3, h4⟩
    obtain ⟨p, hp, hpe⟩ := List.mem_map.mp (hd.en q.1 r h1 h2 h3)
    refine ⟨p, hp, ?_⟩
    simp only [pairAbs, hpe, h1, Option.map_some, Option.some.injEq]
    rw [← h4]

theorem nodup_filterMap_pairAbs {s : St} {k : DispKind} (hd : DInv s k) :
    (((s.disp k).wrapped.filterMap (pairAbs s)).map (·.1)).Nodup := by
  have : ∀ (W : List (Nat × Entry)), (W.map (·.1)).Nodup → ((W.filterMap (pairAbs s)).map (·.1)).Nodup := by
    intro W
    induction W with
    | nil => intro _; simp
    | cons p W ih =>
      intro hn
      simp only [List.map_cons, List.nodup_cons] at hn
      simp only [List.filterMap_cons]
      cases hp : pairAbs s p with
      | none => exact ih hn.2
      | some q =>
        simp only [List.map_cons, List.nodup_cons]
        refine ⟨?_, ih hn.2⟩
        intro hm
        obtain ⟨q', hq', he⟩ := List.mem_map.mp hm
        obtain ⟨p', hp', hpq⟩ := List.mem_filterMap.mp hq'
        have e1 : q.1 = p.1 := by
          simp only [pairAbs] at hp
          cases hl : lookupResp s p.1 with
          | none => simp [hl] at hp
          | some r => simp [hl] at hp; rw [← hp]
        have e2 : q'.1 = p'.1 := by
          simp only [pairAbs] at hpq
          cases hl : lookupResp s p'.1 with
          | none => simp [hl] at hpq
          | some r => simp [hl] at hpq; rw [← hpq]
        exact hn.1 (by rw [← e1, ← he, e2]; exact List.mem_map_of_mem hp')
  exact this _ hd.wrRids

theorem alookup_adisable (a : ASt) (rid x : Nat) :
    alookup (adisable a rid) x =
      if x = rid then (alookup a x).map (fun r => { r with enabled := false }) else alookup a x := by
  cases hl : alookup a rid with
  | none =>
    have : adisable a rid = a := by simp [adisable, hl]
    rw [this]
    by_cases hx : x = rid
    · subst hx; simp [hl]
    · simp [hx]
  | some r =>
    cases hen : r.enabled
    · have : adisable a rid = a := by simp [adisable, hl, hen]
      rw [this]
      by_cases hx : x = rid
      · subst hx
        simp only [hl, if_true, Option.map_some]
        congr 1
        cases r; simp_all
      · simp [hx]
    · unfold adisable
      simp only [hl, hen, Bool.not_true, Bool.false_eq_true, if_false]
      have : ∀ (y : ASt) (c : List ActKey), alookup ({ y with cmd := c } : ASt) x = alookup y x := fun _ _ => rfl
      rw [this, alookup_withDisp, alookup_aset]
      by_cases hx : x = rid
      · subst hx; simp [hl]
      · simp [hx]

theorem adisableAll_disables (a : ASt) : ∀ (rids : List Nat) (rid : Nat), rid ∈ rids →
    (∃ r, alookup a rid = some r) →
    (alookup (adisableAll a rids) rid).map (·.enabled) = some false ∧
      ∀ x, (alookup a x).map (·.enabled) = some false →
        (alookup (adisableAll a rids) x).map (·.enabled) = some false := by
  intro rids
  induction rids generalizing a with
  | nil => intro rid h; cases h
  | cons y ys ih =>
    intro rid hmem hex
    have keep : ∀ (b : ASt) (l : List Nat) x, (alookup b x).map (·.enabled) = some false →
        (alookup (adisableAll b l) x).map (·.enabled) = some false := by
      intro b l
      induction l generalizing b with
      | nil => intro x hx; exact hx
      | cons z zs ihz =>
        intro x hx
        simp only [adisableAll]
        apply ihz
        rw [alookup_adisable]
        split
        · cases hb : alookup b x with
          | none => simp [hb] at hx
          | some r => simp
        · exact hx
    refine ⟨?_, fun x hx => keep a (y :: ys) x hx⟩
    simp only [adisableAll]
    by_cases hy : rid = y
    · subst hy
      apply keep
      rw [alookup_adisable]
      obtain ⟨r, hr⟩ := hex
      simp [hr]
    · have hin : rid ∈ ys := by
        rcases List.mem_cons.mp hmem with h | h
        · exact absurd h hy
        · exact h
      have hex' : ∃ r, alookup (adisable a y) rid = some r := by
        rw [alookup_adisable]; simpa [hy] using hex
      exact (ih (adisable a y) rid hin hex').1

theorem firstKey_qmark (cs : Str) : firstKey rewriteTable (63 :: cs) = some ([46], 1) := by
  simp [rewriteTable, firstKey, stripPrefix]

theorem firstKey_star (cs : Str) : firstKey rewriteTable (42 :: cs) = some ([46, 42], 1) := by
  simp [rewriteTable, firstKey, stripPrefix]

theorem rewrite_sprint : ∀ (p : List STok), (∀ t ∈ p, t.ok = true) →
    rewriteGo rewriteTable 0 (sprint p) = p.flatMap STok.text
  | [], _ => rfl
  | t :: p, h => by
    have ih := rewrite_sprint p fun x hx => h x (List.mem_cons_of_mem _ hx)
    cases t with
    | lit c =>
      have hc : plainChar c = true := h (.lit c) List.mem_cons_self
      have h1 : rewriteTable.all (fun p => p.1.head? != some c) = true := by
        simp only [plainChar, Bool.and_eq_true] at hc; exact hc.1
      simp only [sprint, List.flatMap_cons, STok.print, STok.text, List.cons_append, List.nil_append, rewriteGo,
        firstKey_none rewriteTable c _ h1]
      exact congrArg _ ih
    | any1 =>
      simp only [sprint, List.flatMap_cons, STok.print, STok.text, List.cons_append, List.nil_append, rewriteGo,
        firstKey_qmark]
      exact congrArg _ ih
    | star =>
      simp only [sprint, List.flatMap_cons, STok.print, STok.text, List.cons_append, List.nil_append, rewriteGo,
        firstKey_star]
      have : rewriteGo rewriteTable (1 - 1) (List.flatMap STok.print p) = List.flatMap STok.text p := ih
      rw [this]

theorem prun_tokens : ∀ (p : List STok) (f : Frame) (fs : List Frame), (∀ t ∈ p, t.ok = true) →
    prun ⟨f :: fs, .top⟩ (p.flatMap STok.text) =
      .ok ⟨{ f with cur := f.cur ++ p.map STok.regex } :: fs, .top⟩
  | [], f, fs, _ => by simp [prun]
  | t :: p, f, fs, h => by
    have hrest := fun (f' : Frame) => prun_tokens p f' fs fun x hx => h x (List.mem_cons_of_mem _ hx)
    cases t with
    | lit c =>
      have hc : plainChar c = true := h (.lit c) List.mem_cons_self
      have h2 : parserSpecial c = false := by
        simp only [plainChar, Bool.and_eq_true] at hc; simpa using hc.2
      simp only [List.flatMap_cons, STok.text, List.cons_append, List.nil_append, prun,
        pstep_plain _ c h2, pushItem, ok_bind]
      rw [hrest]
      simp [STok.regex, List.append_assoc]
    | any1 =>
      simp only [List.flatMap_cons, STok.text, List.cons_append, List.nil_append, prun]
      have : pstep ⟨f :: fs, .top⟩ 46 = .ok ⟨{ f with cur := f.cur ++ [R.any] } :: fs, .top⟩ := by
        simp [pstep, pushItem]
      rw [this]
      simp only [ok_bind]
      rw [hrest]
      simp [STok.regex, List.append_assoc]
    | star =>
      simp only [List.flatMap_cons, STok.text, List.cons_append, List.nil_append, prun]
      have h1 : pstep ⟨f :: fs, .top⟩ 46 = .ok ⟨{ f with cur := f.cur ++ [R.any] } :: fs, .top⟩ := by
        simp [pstep, pushItem]
      have h2 : pstep ⟨{ f with cur := f.cur ++ [R.any] } :: fs, .top⟩ 42
          = .ok ⟨{ f with cur := f.cur ++ [R.star R.any] } :: fs, .top⟩ := by
        simp [pstep, repeatLast]
        rfl
      rw [h1]
      simp only [ok_bind]
      rw [h2]
      simp only [ok_bind]
      rw [hrest]
      simp [STok.regex, List.append_assoc]

theorem matches_seqOf_cons (r : R) (rs : List R) (s : Str) :
    Matches (seqOf (r :: rs)) s ↔ ∃ s1 s2, s = s1 ++ s2 ∧ Matches r s1 ∧ Matches (seqOf rs) s2 := by
  cases rs with
  | nil =>
    simp only [seqOf]
    constructor
    · intro h; exact ⟨s, [], by simp, h, .eps⟩
    · rintro ⟨s1, s2, rfl, h1, h2⟩; cases h2; simpa using h1
  | cons x xs => simp only [seqOf]; exact matches_cat

theorem matches_star_any (s : Str) : Matches (.star .any) s ↔ ∀ c ∈ s, c ≠ 10 := by
  constructor
  · intro h
    generalize hr : R.star R.any = r at h
    induction h with
    | starNil => intro c hc; cases hc
    | @starCons a s1 s2 h1 _ _ ih2 =>
      cases hr
      intro c hc
      rcases List.mem_append.mp hc with hc | hc
      · cases h1 with | any x hx => simp at hc; subst hc; exact hx
      · exact ih2 rfl c hc
    | _ => cases hr
  · intro h
    induction s with
    | nil => exact .starNil
    | cons c cs ih =>
      have : c :: cs = [c] ++ cs := rfl
      rw [this]
      exact .starCons (.any c (h c List.mem_cons_self)) (ih fun x hx => h x (List.mem_cons_of_mem _ hx))

theorem matches_tokens : ∀ (p : List STok) (s : Str), Matches (seqOf (p.map STok.regex)) s ↔ SMatches p s
  | [], s => by
    simp only [List.map_nil, seqOf, matches_eps]
    constructor
    · rintro rfl; exact .nil
    · intro h; cases h; rfl
  | t :: p, s => by
    simp only [List.map_cons]
    rw [matches_seqOf_cons]
    have ih := matches_tokens p
    cases t with
    | lit c =>
      simp only [STok.regex]
      constructor
      · rintro ⟨s1, s2, rfl, h1, h2⟩
        cases h1
        exact .lit ((ih s2).mp h2)
      · intro h
        cases h with
        | lit h' => exact ⟨[c], _, rfl, .chr c, (ih _).mpr h'⟩
    | any1 =>
      simp only [STok.regex]
      constructor
      · rintro ⟨s1, s2, rfl, h1, h2⟩
        cases h1 with
        | any c hc => exact .any1 hc ((ih s2).mp h2)
      · intro h
        cases h with
        | any1 hc h' => exact ⟨[_], _, rfl, .any _ hc, (ih _).mpr h'⟩
    | star =>
      simp only [STok.regex]
      constructor
      · rintro ⟨s1, s2, rfl, h1, h2⟩
        exact .star ((matches_star_any s1).mp h1) ((ih s2).mp h2)
      · intro h
        cases h with
        | star hs h' => exact ⟨_, _, rfl, (matches_star_any _).mpr hs, (ih _).mpr h'⟩

/-! ### NotificationCenter keyed on (object, message) -/

theorem find_msgsSet (msg : Nat) (r : NotReg) (m' : Nat) : ∀ (ms : List (Nat × NotReg)),
    ((msgsSet msg r ms).find? (·.1 == m')).map (·.2) =
      if m' = msg then some r else (ms.find? (·.1 == m')).map (·.2)
  | [] => by
    by_cases h : m' = msg
    · subst h; simp [msgsSet]
    · have : (msg == m') = false := by simpa using fun e => h e.symm
      simp [msgsSet, h, this]
  | (m, x) :: rest => by
    unfold msgsSet
    by_cases hm : m = msg
    · subst hm
      by_cases h : m' = m
      · subst h; simp
      · have : (m == m') = false := by simpa using fun e => h e.symm
        simp [h, this]
    · simp only [hm, if_false, List.find?_cons]
      by_cases h : (m == m') = true
      · have e : m = m' := by simpa using h
        have : ¬ m' = msg := fun e' => hm (e.trans e')
        simp [h, this]
      · simp only [h, Bool.false_eq_true, if_false]
        exact find_msgsSet msg r m' rest

theorem ncMsgs_setMsgs (obj : Nat) (ms : List (Nat × NotReg)) (o' : Nat) : ∀ (c : NotCenter),
    ncMsgs (ncSetMsgs obj ms c) o' = if o' = obj then some ms else ncMsgs c o'
  | [] => by
    by_cases h : o' = obj
    · subst h; simp [ncSetMsgs, ncMsgs]
    · have : (obj == o') = false := by simpa using fun e => h e.symm
      simp [ncSetMsgs, ncMsgs, h, this]
  | (o, x) :: rest => by
    unfold ncSetMsgs
    by_cases ho : o = obj
    · subst ho
      by_cases h : o' = o
      · subst h; simp [ncMsgs]
      · have : (o == o') = false := by simpa using fun e => h e.symm
        simp [ncMsgs, h, this]
    · simp only [ho, if_false]
      have ih := ncMsgs_setMsgs obj ms o' rest
      unfold ncMsgs at ih ⊢
      simp only [List.find?_cons]
      by_cases h : (o == o') = true
      · have e : o = o' := by simpa using h
        have : ¬ o' = obj := fun e' => ho (e.trans e')
        simp [h, this]
      · simp only [h, Bool.false_eq_true, if_false]
        exact ih

/-- writing the registry of one (object, message) pair leaves every other pair alone -/
theorem ncLookup_ncSet (c : NotCenter) (obj msg : Nat) (r : NotReg) (o' m' : Nat) :
    ncLookup (ncSet c obj msg r) o' m' = if o' = obj ∧ m' = msg then some r else ncLookup c o' m' := by
  unfold ncLookup ncSet
  rw [ncMsgs_setMsgs]
  by_cases ho : o' = obj
  · subst ho
    simp only [if_true, Option.bind_some, true_and]
    rw [find_msgsSet]
    by_cases hm : m' = msg
    · simp [hm]
    · simp only [hm, if_false]
      cases ncMsgs c o' <;> simp
  · simp [ho]

end Sc3Verif.C18
