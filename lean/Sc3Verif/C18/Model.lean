/-
C18 — executable model of OSC message reception.

(i)  OSC address pattern matching (`sc3/base/_oscmatch.py: osc_rematch_pattern`): the pattern text is
     rewritten with the table `_rewrite_symbols` (regenerated into `GenRewrite.lean`) exactly as
     `re.sub` does (left to right, first alternative in table order), the result is parsed as a
     Python regular expression — the model implements the fragment of CPython's `re` parser that
     rewritten texts can reach (literals, `\x` escapes, `.`, `*` repeat, `(?:…|…)` groups, `[...]`
     sets with negation, ranges, the "first `]` is literal" and "`-` before `]`" rules, and every
     `re.error` condition of that fragment) — and matched over the WHOLE address (`re.fullmatch`,
     repair D2) by Brzozowski derivatives.
(ii) Responders and dispatchers (`sc3/base/responders.py`), (iii) reception of a datagram
     (`_oscinterface._handle_request/_msg_dispatch` on top of C06's total decoder) and (iv) the
     callback registries (`systemactions.py`, `model.py`) follow below.

Strings are lists of Unicode code points (`Nat`).  Core Lean only.
-/
import Sc3Verif.C06.Model
import Sc3Verif.C18.GenRewrite
namespace Sc3Verif.C18

abbrev Str := List Nat

/-! ## (i) pattern matching -/

/-- `key` is a prefix of `s`: the rest -/
def stripPrefix : Str → Str → Option Str
  | [], s => some s
  | _ :: _, [] => none
  | k :: ks, c :: cs => if k = c then stripPrefix ks cs else none

/-- first table entry (in table order) whose key is a prefix of `s` -/
def firstKey : List (Str × Str) → Str → Option (Str × Nat)
  | [], _ => none
  | (k, rep) :: tbl, s =>
    match k, stripPrefix k s with
    | _ :: _, some _ => some (rep, k.length)
    | _, _ => firstKey tbl s

/-- `re.sub(_rewrite_pattern, _rewrite_func, pattern)`; `skip` = characters of an already replaced
    key still to be dropped -/
def rewriteGo (tbl : List (Str × Str)) : Nat → Str → Str
  | _, [] => []
  | skip + 1, _ :: cs => rewriteGo tbl skip cs
  | 0, c :: cs =>
    match firstKey tbl (c :: cs) with
    | some (rep, klen) => rep ++ rewriteGo tbl (klen - 1) cs
    | none => c :: rewriteGo tbl 0 cs

def rewrite (s : Str) : Str := rewriteGo rewriteTable 0 s

/-- items of a character set -/
inductive CItem where
  | ch (c : Nat)
  | range (lo hi : Nat)
deriving Repr, DecidableEq

/-- regular expressions of the reachable fragment -/
inductive R where
  | empty                      -- matches nothing
  | eps
  | chr (c : Nat)
  | any                        -- `.` : any character except newline
  | cls (neg : Bool) (items : List CItem)
  | cat (a b : R)
  | alt (a b : R)
  | star (a : R)
deriving Repr, DecidableEq

def CItem.has (c : Nat) : CItem → Bool
  | .ch x => x == c
  | .range lo hi => decide (lo ≤ c) && decide (c ≤ hi)

def clsHas (neg : Bool) (items : List CItem) (c : Nat) : Bool :=
  (items.any (CItem.has c)) != neg

def R.nullable : R → Bool
  | .empty => false
  | .eps => true
  | .chr _ => false
  | .any => false
  | .cls .. => false
  | .cat a b => a.nullable && b.nullable
  | .alt a b => a.nullable || b.nullable
  | .star _ => true

/-- Brzozowski derivative -/
def R.deriv (c : Nat) : R → R
  | .empty => .empty
  | .eps => .empty
  | .chr x => if x = c then .eps else .empty
  | .any => if c = 10 then .empty else .eps
  | .cls neg items => if clsHas neg items c then .eps else .empty
  | .cat a b => if a.nullable then .alt (.cat (a.deriv c) b) (b.deriv c) else .cat (a.deriv c) b
  | .alt a b => .alt (a.deriv c) (b.deriv c)
  | .star a => .cat (a.deriv c) (.star a)

def mkCat (a b : R) : R :=
  match a, b with
  | .empty, _ => .empty
  | _, .empty => .empty
  | .eps, b => b
  | a, .eps => a
  | a, b => .cat a b

def mkAlt (a b : R) : R :=
  match a, b with
  | .empty, b => b
  | a, .empty => a
  | a, b => if a = b then a else .alt a b

/-- cheap simplification (keeps derivatives small; language preserving) -/
def R.simp : R → R
  | .cat a b => mkCat a.simp b.simp
  | .alt a b => mkAlt a.simp b.simp
  | r => r

/-- whole-string match (`re.fullmatch`) -/
def R.fullmatch (r : R) : Str → Bool
  | [] => r.nullable
  | c :: cs => ((r.deriv c).simp).fullmatch cs

/-- prefix match (`re.match`): some prefix of the string is in the language -/
def R.prefixmatch (r : R) : Str → Bool
  | [] => r.nullable
  | c :: cs => r.nullable || ((r.deriv c).simp).prefixmatch cs

/-! ### the reachable fragment of CPython's `re` parser (`re/_parser.py`) -/

inductive ReErr where
  | unterminatedSet | badRange | missingParen | unbalancedParen | nothingToRepeat | multipleRepeat
  | badEscape | unsupported
deriving Repr, DecidableEq

def seqOf : List R → R
  | [] => .eps
  | [r] => r
  | r :: rs => .cat r (seqOf rs)

def altOf : List R → R
  | [] => .empty
  | [r] => r
  | r :: rs => .alt r (altOf rs)

/-- one open group / the top level: finished alternatives and the items of the current branch
    (both in source order) -/
structure Frame where
  alts : List R
  cur : List R
deriving Repr

def Frame.close (f : Frame) : R := altOf (f.alts ++ [seqOf f.cur])

/-- position inside the loop of the set parser (`while True:` after `[`) -/
inductive SetSt where
  | top                       -- at the top of the loop
  | have1 (c : Nat)           -- `code1` read, not yet stored: a `-` may follow
  | dash (c : Nat)            -- `code1` and `-` read, `that` comes next
deriving Repr

inductive Mode where
  | top                                          -- outside sets
  | esc                                          -- after `\` outside a set
  | gp1                                          -- after `(`
  | gp2                                          -- after `(?`
  | setOpen                                      -- just after `[`: a `^` negates
  | set (neg : Bool) (items : List CItem) (st : SetSt)
  | setEsc (neg : Bool) (items : List CItem) (dashOf : Option Nat)   -- after `\` inside a set
deriving Repr

structure PState where
  stack : List Frame          -- innermost group first; the last frame is the top level
  mode : Mode
deriving Repr

def PState.init : PState := ⟨[⟨[], []⟩], .top⟩

/-- append an item to the current branch -/
def pushItem (r : R) : List Frame → List Frame
  | [] => []
  | f :: fs => { f with cur := f.cur ++ [r] } :: fs

/-- `*` : repeat the last item of the current branch -/
def repeatLast : List Frame → Except ReErr (List Frame)
  | [] => .error .nothingToRepeat
  | f :: fs =>
    match f.cur.reverse with
    | [] => .error .nothingToRepeat
    | .star _ :: _ => .error .multipleRepeat
    | r :: rest => .ok ({ f with cur := rest.reverse ++ [.star r] } :: fs)

def isAlnum (c : Nat) : Bool :=
  (48 ≤ c && c ≤ 57) || (65 ≤ c && c ≤ 90) || (97 ≤ c && c ≤ 122)

/-- one character inside a set -/
def setStep (neg : Bool) (items : List CItem) : SetSt → Nat → Except ReErr (Mode ⊕ (Bool × List CItem))
  | .top, x =>
    if x = 93 ∧ !items.isEmpty then .ok (.inr (neg, items))          -- `]` closes a non-empty set
    else if x = 92 then .ok (.inl (.setEsc neg items none))
    else .ok (.inl (.set neg items (.have1 x)))
  | .have1 p, x =>
    if x = 45 then .ok (.inl (.set neg items (.dash p)))              -- `-`
    else
      let items' := items ++ [.ch p]
      if x = 93 then .ok (.inr (neg, items'))
      else if x = 92 then .ok (.inl (.setEsc neg items' none))
      else .ok (.inl (.set neg items' (.have1 x)))
  | .dash p, x =>
    if x = 93 then .ok (.inr (neg, items ++ [.ch p, .ch 45]))          -- `a-]`
    else if x = 92 then .ok (.inl (.setEsc neg items (some p)))
    else if x < p then .error .badRange
    else .ok (.inl (.set neg (items ++ [.range p x]) .top))

/-- one character of the regular expression text -/
def pstep (st : PState) (x : Nat) : Except ReErr PState :=
  match st.mode with
  | .top =>
    if x = 92 then .ok { st with mode := .esc }
    else if x = 46 then .ok { st with stack := pushItem .any st.stack }
    else if x = 42 then do
      let s' ← repeatLast st.stack
      pure { st with stack := s' }
    else if x = 40 then .ok { st with mode := .gp1 }
    else if x = 124 then
      match st.stack with
      | [] => .error .unsupported
      | f :: fs => .ok { st with stack := { alts := f.alts ++ [seqOf f.cur], cur := [] } :: fs }
    else if x = 41 then
      match st.stack with
      | f :: g :: fs => .ok { st with stack := pushItem f.close (g :: fs) }
      | _ => .error .unbalancedParen
    else if x = 91 then .ok { st with mode := .setOpen }
    else if x = 63 ∨ x = 43 ∨ x = 123 ∨ x = 125 ∨ x = 94 ∨ x = 36 then .error .unsupported
    else .ok { st with stack := pushItem (.chr x) st.stack }
  | .esc =>
    if isAlnum x then .error .unsupported
    else .ok { stack := pushItem (.chr x) st.stack, mode := .top }
  | .gp1 => if x = 63 then .ok { st with mode := .gp2 } else .error .unsupported
  | .gp2 => if x = 58 then .ok { stack := ⟨[], []⟩ :: st.stack, mode := .top } else .error .unsupported
  | .setOpen =>
    if x = 94 then .ok { st with mode := .set true [] .top }
    else
      match setStep false [] .top x with
      | .error e => .error e
      | .ok (.inl m) => .ok { st with mode := m }
      | .ok (.inr (neg, items)) => .ok { stack := pushItem (.cls neg items) st.stack, mode := .top }
  | .set neg items ss =>
    match setStep neg items ss x with
    | .error e => .error e
    | .ok (.inl m) => .ok { st with mode := m }
    | .ok (.inr (neg', items')) => .ok { stack := pushItem (.cls neg' items') st.stack, mode := .top }
  | .setEsc neg items dashOf =>
    if isAlnum x then .error .unsupported
    else
      match dashOf with
      | none => .ok { st with mode := .set neg items (.have1 x) }
      | some p =>
        if x < p then .error .badRange
        else .ok { st with mode := .set neg (items ++ [.range p x]) .top }

def prun : PState → Str → Except ReErr PState
  | st, [] => .ok st
  | st, x :: xs => do
    let st' ← pstep st x
    prun st' xs

/-- end of the text -/
def pfinish (st : PState) : Except ReErr R :=
  match st.mode with
  | .top =>
    match st.stack with
    | [f] => .ok f.close
    | _ => .error .missingParen
  | .esc => .error .badEscape
  | .gp1 => .error .missingParen
  | .gp2 => .error .unsupported
  | _ => .error .unterminatedSet

/-- `re.compile(text)` on the reachable fragment -/
def reParse (text : Str) : Except ReErr R := do
  let st ← prun PState.init text
  pfinish st

/-- `osc_rematch_pattern(pattern, address)`; `none` = `re.error` raised (a malformed pattern matches
    nothing once the error is caught: repair D-C18-2) -/
def oscMatch (pattern address : Str) : Option Bool :=
  match reParse (rewrite pattern) with
  | .ok r => some (if useFullmatch then r.fullmatch address else r.prefixmatch address)
  | .error _ => if catchesReError then some false else none

/-! ## (ii) responders and dispatchers (`responders.py`) -/

open Sc3Verif.C06 (Bytes DVal DMsg DErr decodePacket)

/-- strict UTF-8 decoding to code points (used on validated text only) -/
def decodeUtf8 : Bytes → Str
  | [] => []
  | b0 :: rest =>
    let v := b0.toNat
    if v < 0x80 then v :: decodeUtf8 rest
    else if v < 0xE0 then
      match rest with
      | b1 :: r => ((v % 32) * 64 + b1.toNat % 64) :: decodeUtf8 r
      | _ => []
    else if v < 0xF0 then
      match rest with
      | b1 :: b2 :: r => ((v % 16) * 4096 + (b1.toNat % 64) * 64 + b2.toNat % 64) :: decodeUtf8 r
      | _ => []
    else
      match rest with
      | b1 :: b2 :: b3 :: r =>
        ((v % 8) * 262144 + (b1.toNat % 64) * 4096 + (b2.toNat % 64) * 64 + b3.toNat % 64) :: decodeUtf8 r
      | _ => []

def pow2 : Nat → Rat
  | 0 => 1
  | n + 1 => 2 * pow2 n

/-- value of an IEEE-754 binary32 pattern (`none` for inf / nan) -/
def f32ToRat (bits : Nat) : Option Rat :=
  let sign : Rat := if bits / 2147483648 % 2 = 1 then -1 else 1
  let e := bits / 8388608 % 256
  let m := bits % 8388608
  if e = 255 then none
  else if e = 0 then some (sign * (m : Rat) / pow2 149)
  else if e ≥ 150 then some (sign * ((8388608 + m : Nat) : Rat) * pow2 (e - 150))
  else some (sign * ((8388608 + m : Nat) : Rat) / pow2 (150 - e))

def f64ToRat (bits : Nat) : Option Rat :=
  let sign : Rat := if bits / 9223372036854775808 % 2 = 1 then -1 else 1
  let e := bits / 4503599627370496 % 2048
  let m := bits % 4503599627370496
  if e = 2047 then none
  else if e = 0 then some (sign * (m : Rat) / pow2 1074)
  else if e ≥ 1075 then some (sign * ((4503599627370496 + m : Nat) : Rat) * pow2 (e - 1075))
  else some (sign * ((4503599627370496 + m : Nat) : Rat) / pow2 (1075 - e))

/-- values an argument template can hold (besides `None` and predicates) -/
inductive TVal where
  | num (q : Rat)            -- int / float / bool: Python compares them numerically
  | str (s : Bytes)          -- as UTF-8
deriving Repr

/-- `template_item == arg` in Python for a decoded argument -/
def tvalEq (t : TVal) (a : DVal) : Bool :=
  match t, a with
  | .num q, .int i => q == (i : Rat)
  | .num q, .float b => match f32ToRat b with | some v => q == v | none => false
  | .num q, .double b => match f64ToRat b with | some v => q == v | none => false
  | .num q, .bool b => q == (if b then 1 else 0)
  | .num q, .rgba n => q == (n : Rat)
  | .num q, .timetag n => q == (n : Rat)
  | .str s, .str s' => s == s'
  | _, _ => false

inductive TItem where
  | any                      -- `None`
  | eq (v : TVal)
  | pred (pid : Nat)         -- a callable; its truth value on an argument is given by `Env.pred`
deriving Repr

/-- sender: (IPv4 address as int, port) -/
abbrev Sender := Nat × Nat

/-- a callable object -/
inductive Fn where
  | user (fid : Nat)
  | oneShot (oid : Nat) (rid : Nat) (inner : Fn)    -- closure made by `one_shot()`; `oid` = its identity
deriving Repr

/-- an element of `active[key]` -/
inductive Entry where
  | plain (f : Fn)
  | matcher (mid : Nat) (owner : Nat) (src : Option (Nat × Option Nat)) (port : Option Nat)
      (tmpl : Option (List TItem)) (f : Fn)          -- `mid` = identity of the (outermost) matcher object;
                                                     -- `owner` = the responder it was made for (ghost: no
                                                     -- operation of the model reads it)
deriving Repr

/-- Python object identity, on which `list.index` / `list.remove` compare these callables -/
inductive Ident where
  | user (fid : Nat) | closure (oid : Nat) | matcher (mid : Nat)
deriving Repr, DecidableEq

def Fn.ident : Fn → Ident
  | .user fid => .user fid
  | .oneShot oid _ _ => .closure oid

def Entry.ident : Entry → Ident
  | .plain f => f.ident
  | .matcher mid .. => .matcher mid

inductive DispKind where
  | exact | pattern
deriving Repr, DecidableEq

structure Resp where
  path : Str
  src : Option (Nat × Option Nat)
  port : Option Nat
  tmpl : Option (List TItem)
  func : Fn
  enabled : Bool
  permanent : Bool
  disp : DispKind
deriving Repr

structure Disp where
  active : List (Str × List Entry)      -- ordered dict: key ↦ ordered entries
  wrapped : List (Nat × Entry)          -- `wrapped_funcs`: rid ↦ entry
  registered : Bool
deriving Repr

/-- keys of `CmdPeriod._actions` -/
inductive ActKey where
  | resp (rid : Nat)         -- bound method `responder.__on_cmd_period`
  | user (aid : Nat)
deriving Repr, DecidableEq

structure St where
  resps : List (Nat × Resp)             -- all responders ever created, by id
  exact : Disp
  pattern : Disp
  cmdPeriod : List ActKey               -- ordered dict keys of `CmdPeriod._actions`
  nextId : Nat                          -- fresh identities for matcher objects / closures
deriving Repr

def Disp.init : Disp := ⟨[], [], false⟩
def St.init : St := ⟨[], Disp.init, Disp.init, [], 0⟩

def St.disp (s : St) : DispKind → Disp
  | .exact => s.exact
  | .pattern => s.pattern

def St.setDisp (s : St) (k : DispKind) (d : Disp) : St :=
  match k with
  | .exact => { s with exact := d }
  | .pattern => { s with pattern := d }

def lookupResp (s : St) (rid : Nat) : Option Resp := (s.resps.find? (·.1 == rid)).map (·.2)

def setResp (s : St) (rid : Nat) (r : Resp) : St :=
  { s with resps := s.resps.map fun p => if p.1 == rid then (rid, r) else p }

/-- `wrap_func`: always a distinct object per responder (repair D-C18-4: without filters it is
    `functools.partial(fn.value, func)`, a matcher that accepts everything) -/
def wrapFunc (rid : Nat) (r : Resp) (fresh : Nat) : Entry := .matcher fresh rid r.src r.port r.tmpl r.func

/-- `self.active[key].append(func)` / `self.active[key] = [func]` -/
def activeAppend (key : Str) (e : Entry) : List (Str × List Entry) → List (Str × List Entry)
  | [] => [(key, [e])]
  | (k, es) :: rest => if k = key then (k, es ++ [e]) :: rest else (k, es) :: activeAppend key e rest

/-- `list.remove(x)`: the first element with that identity -/
def removeFirst (i : Ident) : List Entry → List Entry
  | [] => []
  | e :: es => if e.ident = i then es else e :: removeFirst i es

/-- `active[key].remove(func)` and `del active[key]` when empty -/
def activeRemove (key : Str) (i : Ident) : List (Str × List Entry) → List (Str × List Entry)
  | [] => []
  | (k, es) :: rest =>
    if k = key then
      let es' := removeFirst i es
      if es'.isEmpty then rest else (k, es') :: rest
    else (k, es) :: activeRemove key i rest

/-- `i = active[key].index(old); active[key][i] = new` -/
def replaceFirst (i : Ident) (new : Entry) : List Entry → List Entry
  | [] => []
  | e :: es => if e.ident = i then new :: es else e :: replaceFirst i new es

def activeReplace (key : Str) (i : Ident) (new : Entry) :
    List (Str × List Entry) → List (Str × List Entry)
  | [] => []
  | (k, es) :: rest =>
    if k = key then (k, replaceFirst i new es) :: rest else (k, es) :: activeReplace key i new rest

def cmdAdd (k : ActKey) (l : List ActKey) : List ActKey := if l.contains k then l else l ++ [k]
def cmdRemove (k : ActKey) (l : List ActKey) : List ActKey := l.filter (· != k)

/-- `dispatcher.add(func_proxy)` -/
def dispAdd (s : St) (rid : Nat) (r : Resp) : St :=
  let d := s.disp r.disp
  let e := wrapFunc rid r s.nextId
  let d' : Disp := { active := activeAppend r.path e d.active
                     wrapped := (d.wrapped.filter (·.1 != rid)) ++ [(rid, e)]
                     registered := true }
  { (s.setDisp r.disp d') with nextId := s.nextId + 1 }

/-- `dispatcher.remove(func_proxy)` -/
def dispRemove (s : St) (rid : Nat) (r : Resp) : St :=
  let d := s.disp r.disp
  match d.wrapped.find? (·.1 == rid) with
  | none => s
  | some (_, e) =>
    let act := activeRemove r.path e.ident d.active
    let d' : Disp := { active := act, wrapped := d.wrapped.filter (·.1 != rid),
                       registered := !act.isEmpty }
    s.setDisp r.disp d'

/-- `update_func_for_func_proxy` (reached through `NotificationCenter.notify(self, 'function')`,
    registered only while the responder is in the dispatcher) -/
def dispUpdate (s : St) (rid : Nat) (r : Resp) : St :=
  let d := s.disp r.disp
  match d.wrapped.find? (·.1 == rid) with
  | none => s
  | some (_, old) =>
    let e := wrapFunc rid r s.nextId
    let d' : Disp := { d with active := activeReplace r.path old.ident e d.active
                              wrapped := d.wrapped.map fun p => if p.1 == rid then (rid, e) else p }
    { (s.setDisp r.disp d') with nextId := s.nextId + 1 }

def enable (s : St) (rid : Nat) : St :=
  match lookupResp s rid with
  | none => s
  | some r =>
    if r.enabled then s
    else
      let s1 := if r.permanent then s else { s with cmdPeriod := cmdAdd (.resp rid) s.cmdPeriod }
      let s2 := dispAdd s1 rid r
      setResp s2 rid { r with enabled := true }

def disable (s : St) (rid : Nat) : St :=
  match lookupResp s rid with
  | none => s
  | some r =>
    if !r.enabled then s
    else
      let s1 := if r.permanent then s else { s with cmdPeriod := cmdRemove (.resp rid) s.cmdPeriod }
      let s2 := dispRemove s1 rid r
      setResp s2 rid { r with enabled := false }

/-- `free()` (the `_all_func_proxies` set is not observable through dispatch) -/
def free (s : St) (rid : Nat) : St := disable s rid

/-- the `func` setter -/
def setFunc (s : St) (rid : Nat) (f : Fn) : St :=
  match lookupResp s rid with
  | none => s
  | some r =>
    let r' := { r with func := f }
    dispUpdate (setResp s rid r') rid r'

def oneShot (s : St) (rid : Nat) : St :=
  match lookupResp s rid with
  | none => s
  | some r => setFunc { s with nextId := s.nextId + 1 } rid (.oneShot s.nextId rid r.func)

/-- the `permanent` setter -/
def setPermanent (s : St) (rid : Nat) (v : Bool) : St :=
  match lookupResp s rid with
  | none => s
  | some r =>
    let s1 := setResp s rid { r with permanent := v }
    if v && r.enabled then { s1 with cmdPeriod := cmdRemove (.resp rid) s1.cmdPeriod }
    else { s1 with cmdPeriod := cmdAdd (.resp rid) s1.cmdPeriod }

/-- `if path[0] != '/': path = '/' + path` -/
def normPath (path : Str) : Str :=
  match path with
  | 47 :: _ => path
  | _ => 47 :: path

/-- `OscFunc(func, path, src_id, recv_port, arg_template=…)` / `OscFunc.matching(…)` -/
def newResp (s : St) (rid : Nat) (kind : DispKind) (path : Str) (src : Option (Nat × Option Nat))
    (port : Option Nat) (tmpl : Option (List TItem)) (fid : Nat) : St :=
  let r : Resp := ⟨normPath path, src, port, tmpl, .user fid, false, false, kind⟩
  if (lookupResp s rid).isSome then s          -- identities are fresh: a known id is not created again
  else enable { s with resps := s.resps ++ [(rid, r)] } rid

/-- `CmdPeriod.run()` restricted to the registered actions: responders' `__on_cmd_period` frees them;
    user actions are logged -/
def cmdPeriodRun (s : St) : St × List Nat :=
  go s s.cmdPeriod
where
  go (s : St) : List ActKey → St × List Nat
    | [] => (s, [])
    | k :: ks =>
      if s.cmdPeriod.contains k then
        match k with
        | .resp rid => go (free s rid) ks
        | .user aid => let (s', l) := go s ks; (s', aid :: l)
      else go s ks

/-! ### dispatch of one message -/

/-- what reaches a callback -/
structure Delivery where
  addr : Str                  -- msg[0]
  params : List DVal          -- msg[1:]
  time : Rat
  sender : Sender
  port : Nat                  -- receiving port
deriving Repr

/-- environment: truth value of template predicates -/
structure Env where
  pred : Nat → DVal → Bool

inductive Outcome where
  | called (fid : Nat)        -- a user callback invoked with the delivery
  | raised (exc : String)     -- the dispatcher raised (dispatch of this message by it stops)
deriving Repr

/-- `OscArgsMatcher.__call__`.  `args[i]` is only evaluated for callables and non-`None` items; a
    message shorter than the template does not match (repair D-C18-1: it used to raise IndexError
    out of the dispatcher). -/
def tmplOk (env : Env) : List TItem → List DVal → Bool
  | [], _ => true
  | .any :: ts, as => tmplOk env ts (as.drop 1)
  | .eq v :: ts, a :: as => tvalEq v a && tmplOk env ts as
  | .pred p :: ts, a :: as => env.pred p a && tmplOk env ts as
  | .eq _ :: _, [] => false
  | .pred _ :: _, [] => false

/-- `self.addr.addr == addr.addr and (self.addr.port is None or self.addr.port == addr.port)` -/
def srcOk : Option (Nat × Option Nat) → Sender → Bool
  | none, _ => true
  | some (a, none), snd => a == snd.1
  | some (a, some p), snd => a == snd.1 && p == snd.2

def portOk : Option Nat → Nat → Bool
  | none, _ => true
  | some p, q => p == q

/-- does this entry let the delivery through to its function? -/
def Entry.accepts (env : Env) (e : Entry) (d : Delivery) : Bool :=
  match e with
  | .plain _ => true
  | .matcher _ _ src port tmpl _ =>
    srcOk src d.sender && portOk port d.port &&
      (match tmpl with | none => true | some t => tmplOk env t d.params)

def Entry.fn : Entry → Fn
  | .plain f => f
  | .matcher _ _ _ _ _ f => f

/-- calling a callable: a one-shot closure frees its responder, then calls what it wraps.  A user
    function that raises is an invocation like any other: the dispatchers call every responder
    function in its own try/except (repair D-C18-5), and the one-shot closure frees BEFORE calling. -/
def callFn (s : St) : Fn → St × List Nat
  | .user fid => (s, [fid])
  | .oneShot _ rid inner => callFn (free s rid) inner

def callEntry (env : Env) (s : St) (e : Entry) (d : Delivery) : St × List Nat :=
  if e.accepts env d then callFn s e.fn else (s, [])

/-- `for func in active[key][:]: fn.value(func, …)` over the snapshot `es` (repair D3) -/
def runEntries (env : Env) (s : St) (d : Delivery) : List Entry → St × List Nat
  | [] => (s, [])
  | e :: es =>
    let (s1, o1) := callEntry env s e d
    let (s2, o2) := runEntries env s1 d es
    (s2, o1 ++ o2)

def lookupKey (key : Str) : List (Str × List Entry) → List Entry
  | [] => []
  | (k, es) :: rest => if k = key then es else lookupKey key rest

/-- `OscMessageDispatcher.__call__` -/
def dispatchExact (env : Env) (s : St) (d : Delivery) : St × List Nat :=
  runEntries env s d (lookupKey d.addr s.exact.active)

/-- `OscMessagePatternDispatcher.__call__`: keys of the dict copy in insertion order; the entry list
    of a key is read when the key is reached.  `none` = `re.error` escaped. -/
def dispatchPatternKeys (env : Env) (d : Delivery) : St → List Str → Option (St × List Nat)
  | s, [] => some (s, [])
  | s, key :: keys =>
    match oscMatch d.addr key with
    | none => none
    | some false => dispatchPatternKeys env d s keys
    | some true =>
      let (s1, o1) := runEntries env s d (lookupKey key s.pattern.active)
      match dispatchPatternKeys env d s1 keys with
      | none => none
      | some (s2, o2) => some (s2, o1 ++ o2)

/-- result of one dispatcher on one message: callbacks invoked in order; `raised` = it raised
    `re.error` (after possibly invoking some) -/
structure DispOut where
  kind : DispKind
  called : List Nat
  raised : Bool
deriving Repr

def dispatchPattern (env : Env) (s : St) (d : Delivery) : St × DispOut :=
  match dispatchPatternKeys env d s (s.pattern.active.map (·.1)) with
  | some (s', o) => (s', ⟨.pattern, o, false⟩)
  | none => (s, ⟨.pattern, [], true⟩)

/-- `sched_func` of `_msg_dispatch`: every registered dispatcher (snapshot of `_recv_functions`, in the
    set's iteration order — `patFirst` is that order, an oracle argument), stopping at a raise -/
def dispatchMsg (env : Env) (patFirst : Bool) (s : St) (d : Delivery) : St × List DispOut :=
  let runE (s : St) : St × List DispOut :=
    if s.exact.registered then let (s', o) := dispatchExact env s d; (s', [⟨.exact, o, false⟩]) else (s, [])
  let regP := s.pattern.registered
  let regE := s.exact.registered
  if patFirst then
    if regP then
      let (s1, o1) := dispatchPattern env s d
      if o1.raised then (s1, [o1])
      else if regE then let (s2, o2) := dispatchExact env s1 d; (s2, [o1, ⟨.exact, o2, false⟩])
      else (s1, [o1])
    else runE s
  else
    let (s1, o1) := runE s
    if regP then let (s2, o2) := dispatchPattern env s1 d; (s2, o1 ++ [o2]) else (s1, o1)

/-! ## (iii) reception of a datagram (`_handle_request`, `_msg_dispatch`) -/

structure RecvCfg where
  now : Rat                  -- `main.elapsed_time()` at reception
  oscOffset : Int            -- `SystemClock._elapsed_osc_offset`
  port : Nat                 -- port of the receiving interface
  patFirst : Bool
deriving Repr

/-- number of binary digits of `n` (`int.bit_length`) -/
def bitLength : Nat → Nat
  | 0 => 0
  | n + 1 => Nat.log2 (n + 1) + 1

/-- `float(n)` for a Python int: the nearest binary64, ties to even (exact below 2^53) -/
def intToDouble (n : Int) : Int :=
  let m := n.natAbs
  let bl := bitLength m
  if bl ≤ 53 then n
  else
    let e := bl - 53
    let q := m / 2 ^ e
    let r := m % 2 ^ e
    let half := 2 ^ (e - 1)
    let q' := if r > half ∨ (r = half ∧ q % 2 = 1) then q + 1 else q
    let v : Int := (q' * 2 ^ e : Nat)
    if n < 0 then -v else v

/-- `time` handed to the responders: `float(osctime - offset) * 2**-32` -/
def deliveryTime (cfg : RecvCfg) : Option Nat → Rat
  | none => cfg.now
  | some tt => if tt = 1 then cfg.now else ((intToDouble ((tt : Int) - cfg.oscOffset) : Int) : Rat) / 4294967296

def mkDelivery (cfg : RecvCfg) (sender : Sender) (tm : Option Nat × DMsg) : Delivery :=
  ⟨decodeUtf8 tm.2.addr, tm.2.params, deliveryTime cfg tm.1, sender, cfg.port⟩

def dispatchAll (env : Env) (cfg : RecvCfg) (sender : Sender) :
    St → List (Option Nat × DMsg) → St × List (Delivery × List DispOut)
  | s, [] => (s, [])
  | s, tm :: rest =>
    let d := mkDelivery cfg sender tm
    let (s1, o) := dispatchMsg env cfg.patFirst s d
    let (s2, os) := dispatchAll env cfg sender s1 rest
    (s2, (d, o) :: os)

/-- `OscInterface._handle_request(data, address)` followed by the scheduled dispatch functions:
    a datagram the decoder rejects dispatches nothing and leaves the state unchanged -/
def handleRequest (env : Env) (cfg : RecvCfg) (s : St) (data : Bytes) (sender : Sender) :
    St × List (Delivery × List DispOut) :=
  match decodePacket data with
  | .error _ => (s, [])
  | .ok msgs => dispatchAll env cfg sender s msgs

/-! ## history of responder operations and datagrams -/

inductive Op where
  | new (rid : Nat) (kind : DispKind) (path : Str) (src : Option (Nat × Option Nat)) (port : Option Nat)
      (tmpl : Option (List TItem)) (fid : Nat)
  | enable (rid : Nat)
  | disable (rid : Nat)
  | free (rid : Nat)
  | oneShot (rid : Nat)
  | setFunc (rid : Nat) (fid : Nat)
  | permanent (rid : Nat) (v : Bool)
  | cmdPeriod
  | cmdAdd (aid : Nat)
  | cmdRemove (aid : Nat)
  | recv (cfg : RecvCfg) (data : Bytes) (sender : Sender)

inductive Out where
  | unit
  | actions (l : List Nat)                               -- user CmdPeriod actions run
  | recv (l : List (Delivery × List DispOut))

def step (env : Env) (s : St) : Op → St × Out
  | .new rid kind path src port tmpl fid => (newResp s rid kind path src port tmpl fid, .unit)
  | .enable rid => (enable s rid, .unit)
  | .disable rid => (disable s rid, .unit)
  | .free rid => (free s rid, .unit)
  | .oneShot rid => (oneShot s rid, .unit)
  | .setFunc rid fid => (setFunc s rid (.user fid), .unit)
  | .permanent rid v => (setPermanent s rid v, .unit)
  | .cmdPeriod => let (s', l) := cmdPeriodRun s; (s', .actions l)
  | .cmdAdd aid => ({ s with cmdPeriod := cmdAdd (.user aid) s.cmdPeriod }, .unit)
  | .cmdRemove aid => ({ s with cmdPeriod := cmdRemove (.user aid) s.cmdPeriod }, .unit)
  | .recv cfg data sender => let (s', l) := handleRequest env cfg s data sender; (s', .recv l)

def run (env : Env) (s : St) : List Op → St × List Out
  | [] => (s, [])
  | op :: ops =>
    let (s1, o) := step env s op
    let (s2, os) := run env s1 ops
    (s2, o :: os)

/-! ## (iv) callback registries (`systemactions.py`, `model.py`) -/

/-- `SystemAction._actions`: ordered dict action ↦ args (args abstracted to a number) -/
abbrev SysReg := List (Nat × Nat)

inductive SysOp where
  | add (a : Nat) (args : Nat)
  | remove (a : Nat)
  | removeAll
deriving Repr

/-- `cls._actions[action] = (args, kwargs)`: an existing key keeps its position -/
def sysAdd (a args : Nat) : SysReg → SysReg
  | [] => [(a, args)]
  | (b, x) :: rest => if b = a then (a, args) :: rest else (b, x) :: sysAdd a args rest

def sysApply (r : SysReg) : SysOp → SysReg
  | .add a args => sysAdd a args r
  | .remove a => r.filter (·.1 != a)
  | .removeAll => []

def sysApplyAll (r : SysReg) : List SysOp → SysReg
  | [] => r
  | op :: ops => sysApplyAll (sysApply r op) ops

/-- `SystemAction.run()`: iterate a copy of the keys; `_do_action` runs an action only if it is still
    registered, with its CURRENT args; `beh a` = what action `a` itself does to the registry when run -/
def sysRunKeys (beh : Nat → List SysOp) : SysReg → List Nat → SysReg × List (Nat × Nat)
  | r, [] => (r, [])
  | r, a :: ks =>
    match r.find? (·.1 == a) with
    | some (_, args) =>
      let (r', l) := sysRunKeys beh (sysApplyAll r (beh a)) ks
      (r', (a, args) :: l)
    | none => sysRunKeys beh r ks

def sysRun (beh : Nat → List SysOp) (r : SysReg) : SysReg × List (Nat × Nat) :=
  sysRunKeys beh r (r.map (·.1))

/-- `CmdPeriod.do_once(action, *args)`: every call registers a NEW wrapper (key `k`) that removes itself
    and then calls the action — as behaviours: keys in `once` remove themselves, the others leave the
    registry alone -/
def onceBeh (once : Nat → Bool) (a : Nat) : List SysOp := if once a then [.remove a] else []

/-- `ServerAction._servers`: ordered dict server ↦ ordered dict action ↦ args.
    Server keys: 0 = `'default'`, 1 = `'all'`, n + 2 = server object n -/
abbrev SrvReg := List (Nat × SysReg)

def srvAdd (srv a args : Nat) : SrvReg → SrvReg
  | [] => [(srv, [(a, args)])]
  | (k, d) :: rest => if k = srv then (k, sysAdd a args d) :: rest else (k, d) :: srvAdd srv a args rest

/-- `remove(server, action)` (repair D4: `pop`) -/
def srvRemove (srv a : Nat) (r : SrvReg) : SrvReg :=
  r.map fun p => if p.1 = srv then (p.1, p.2.filter (·.1 != a)) else p

def srvRemoveServer (srv : Nat) (r : SrvReg) : SrvReg := r.filter (·.1 != srv)

def srvLookup (srv : Nat) (r : SrvReg) : SysReg :=
  match r.find? (·.1 == srv) with
  | some (_, d) => d
  | none => []

/-- `run(server)`: the server's actions, then `'default'` ones if it is the default server, then
    `'all'`; each over a snapshot, in registration order -/
def srvRun (r : SrvReg) (srv : Nat) (isDefault : Bool) : List (Nat × Nat) :=
  srvLookup srv r ++ (if isDefault then srvLookup 0 r else []) ++ srvLookup 1 r

/-- `NotificationCenter._registrations[obj][msg]`: ordered dict listener ↦ action for ONE (obj, msg);
    an action is (id, one-shot?) -/
abbrev NotReg := List (Nat × Nat × Bool)

def notRegister (lst a : Nat) (once : Bool) : NotReg → NotReg
  | [] => [(lst, a, once)]
  | (l, x) :: rest => if l = lst then (lst, a, once) :: rest else (l, x) :: notRegister lst a once rest

/-- `notify`: every listener of the snapshot, in registration order; one-shot registrations
    unregister themselves after their action ran -/
def notNotify (r : NotReg) : NotReg × List (Nat × Nat) :=
  (r.filter fun p => !p.2.2, r.map fun p => (p.2.1, p.1))

/-- `NotificationCenter._registrations`: object ↦ message ↦ ordered dict listener ↦ action.  Entries
    that became empty stay (the code never deletes them by itself). -/
abbrev NotCenter := List (Nat × List (Nat × NotReg))

def ncMsgs (c : NotCenter) (obj : Nat) : Option (List (Nat × NotReg)) := (c.find? (·.1 == obj)).map (·.2)

def ncLookup (c : NotCenter) (obj msg : Nat) : Option NotReg :=
  (ncMsgs c obj).bind fun ms => (ms.find? (·.1 == msg)).map (·.2)

def msgsSet (msg : Nat) (r : NotReg) : List (Nat × NotReg) → List (Nat × NotReg)
  | [] => [(msg, r)]
  | (m, x) :: rest => if m = msg then (m, r) :: rest else (m, x) :: msgsSet msg r rest

def ncSetMsgs (obj : Nat) (ms : List (Nat × NotReg)) : NotCenter → NotCenter
  | [] => [(obj, ms)]
  | (o, x) :: rest => if o = obj then (o, ms) :: rest else (o, x) :: ncSetMsgs obj ms rest

/-- `_registrations[obj][msg] = r`, creating the levels that do not exist -/
def ncSet (c : NotCenter) (obj msg : Nat) (r : NotReg) : NotCenter :=
  ncSetMsgs obj (msgsSet msg r ((ncMsgs c obj).getD [])) c

/-- `register` / `register_one_shot` -/
def ncRegister (c : NotCenter) (obj msg lst a : Nat) (once : Bool) : NotCenter :=
  ncSet c obj msg (notRegister lst a once ((ncLookup c obj msg).getD []))

/-- `unregister(obj, msg, listener)`; `none` = KeyError -/
def ncUnregister (c : NotCenter) (obj : Nat) (msg lst : Option Nat) : Option NotCenter :=
  match ncMsgs c obj with
  | none => none
  | some ms =>
    match msg with
    | none => some (c.filter (·.1 != obj))                                -- `del _registrations[obj]`
    | some m =>
      match ms.find? (·.1 == m) with
      | none => none
      | some (_, r) =>
        match lst with
        | none => some (ncSetMsgs obj (ms.filter (·.1 != m)) c)           -- `del _registrations[obj][msg]`
        | some l =>
          if r.any (·.1 == l) then some (ncSet c obj m (r.filter (·.1 != l)))   -- only that listener
          else none

/-- `notify(obj, msg)` -/
def ncNotify (c : NotCenter) (obj msg : Nat) : NotCenter × List (Nat × Nat) :=
  match ncLookup c obj msg with
  | none => (c, [])
  | some r => let (r', l) := notNotify r; (ncSet c obj msg r', l)

def ncExists (c : NotCenter) (obj msg lst : Nat) : Bool :=
  match ncLookup c obj msg with
  | some r => r.any (·.1 == lst)
  | none => false

end Sc3Verif.C18
